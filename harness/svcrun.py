"""Shared driver of the service-level checks (C01 C02 C06 C07 C10-e2e C11-e2e)."""
import shutil
import tempfile

from harness import common as C


def run_service_check(pid, tier, seed, *, rule, trusted_extra=(), extra=None, pre=None, **kw):
  rep = C.Report(pid, tier, seed)
  rep.rule = rule
  rep.trusted = SVC_TRUSTED + list(trusted_extra)
  pre_broke = pre() if pre else None      # translators that regenerate coq/Gen files this property's theorems depend on
  C.standard_proof_step(rep, pid)
  if pre_broke:
    rep.proof_broken = ((rep.proof_broken or '') + ' ' + pre_broke).strip()
  known = {f['id']: f for f in C.load_known() if f['property'] == pid}
  r = C.rng(seed, pid.lower())
  broke, concrete = service_part(rep, pid, r, tier, known, **kw)
  broke = ((rep.proof_broken or '') + ' ' + (broke or '')).strip() or None
  if extra:
    b2, c2 = extra(rep, tier, seed, known, r)
    broke = ((broke or '') + ' ' + (b2 or '')).strip() or None
    concrete = concrete or c2
  C.settle_broken(rep, broke, concrete)
  return rep.finish()


def regenerate_handler_sources():
  """coq/Gen/Handlers.v, SuggestSrc.v, EarlyStopSrc.v, OptimalSrc.v from vizier_service.py (all 17 RPC handlers); the proofs under
  coq/Proofs/*IRP.v show that the regenerated programs are the model's.  Returns a message if a translator refused the source."""
  msgs = []
  from harness.translate import svchandlers, svcsuggest, svcearlystop, svcoptimal
  for rel, mod in (('Gen/Handlers.v', svchandlers), ('Gen/SuggestSrc.v', svcsuggest), ('Gen/EarlyStopSrc.v', svcearlystop), ('Gen/OptimalSrc.v', svcoptimal)):
    try:
      C.write_gen(rel, mod.translate(C.REPO))
    except Exception as e:  # pylint: disable=broad-except
      msgs.append('translator harness/translate/%s.py refused vizier_service.py: %r' % (mod.__name__.split('.')[-1], e))
  return ' '.join(msgs) or None


SVC_TRUSTED = ['Coq 8.16.1 kernel + vm_compute', 'coq/Model/Service.v is a hand transcription of vizier_service.py and the '
                 'two datastores, tied by trace-level correspondence (responses, datastore-call trace, final stored state)',
                 'scripted Pythia policy (public PolicyFactory extension point)', 'proto shim / equinox stand-in',
                 'sqlite and SQLAlchemy']


def service_part(rep, pid, r, tier, known, *, monitors, backends=('ram', 'sqlmem'), nseq_quick=60, nseq_thorough=700,
                 length=(6, 22), compare_backends=False, known_matcher=None, profile=None, tag='seq', seqgen=None):
  from harness import svc, svcmon
  broke = None
  concrete = False
  nseq = nseq_quick if tier == 'quick' else nseq_thorough
  runs = []
  tmp = tempfile.mkdtemp(prefix='vz_', dir=C.VERIF + '/.scratch') if 'sqlfile' in backends else None
  try:
    for i in range(nseq):
      recycle = r.random() < 0.5
      if seqgen is not None:
        seq = seqgen(r)
      else:
        seq = svc.Gen(r, profile=profile).seq(r.randrange(*length), recycle=recycle)
      seq = svc.fix_recycle(seq, recycle)
      per_backend = {}
      for be in backends:
        td = None
        if be == 'sqlfile':
          td = tempfile.mkdtemp(dir=tmp)
        steps, snap, serv = svc.run_sequence(be, seq, recycle=recycle, tmpdir=td, per_step=True)
        if steps and steps[-1][1][:2] == ('Failed', 'ETimeout'):
          concrete = True
          rep.violation('%s did not return (deadlock, or a lock that is never released) [%s]' % (steps[-1][0][0], be),
                        {'backend': be, 'sequence': [s[0] for s in steps], 'failing_step': steps[-1][0],
                         'outcome': steps[-1][1]})
          steps = steps[:-1]
          per_backend[be] = (steps, snap)
        else:
          per_backend[be] = (steps, snap)
          runs.append(('%s#%d' % (be, i), steps, snap))
        if td:
          try:
            serv.datastore._inner._connection.close()
          except Exception:  # pylint: disable=broad-except
            pass
          shutil.rmtree(td, ignore_errors=True)
        # monitors
        before = svcmon.EMPTY
        for (rpc, out, trace, after, calls) in steps:
          rep.count(rpc[0])
          rep.count('outcome_' + (out[1] if out[0] == 'Failed' else 'ok'))
          for mon in monitors:
            for what in mon(before, rpc, out, after, calls):
              fid = known_matcher(what, before, rpc, out, after) if known_matcher else None
              if fid and fid in known:
                rep.known(fid, known[fid]['what'])
              else:
                concrete = True
                rep.violation('%s [%s]' % (what, be), {'backend': be, 'sequence': [s[0] for s in steps], 'failing_step': rpc,
                                                      'outcome': out})
          before = after
        nontriv = sum(1 for s in steps if s[1][0] == 'Done') >= 3
        rep.case({'backend': be, 'sequence': [s[0] for s in steps][:8], 'outcomes': [s[1][:2] for s in steps][:8]}, nontriv)
      if len(svc.HUNG) >= 4:
        break   # calls keep hanging; each costs the full timeout, and the violation is already reported
      if compare_backends:
        ref = per_backend[backends[0]]
        for be in backends[1:]:
          got = per_backend[be]
          for j, (a, b) in enumerate(zip(ref[0], got[0])):
            if (a[1][:2], a[1][2] if a[1][0] == 'Done' else None, a[3]) != (b[1][:2], b[1][2] if b[1][0] == 'Done' else None, b[3]):
              concrete = True
              rep.violation('backends %s and %s diverge (response or stored data)' % (backends[0], be),
                            {'sequence': [s[0] for s in a and ref[0]][:j + 1], 'step': j, backends[0]: (a[1], a[3]), be: (b[1], b[3])})
              break
    msg, bad = svc.correspond(rep, pid, tag, runs)
    if msg:
      broke = msg
      concrete = concrete or getattr(rep, 'corr_concrete', False)
  finally:
    if tmp:
      shutil.rmtree(tmp, ignore_errors=True)
  return broke, concrete


def wrap(mon3):
  """Adapts monitors taking (before, rpc, out, after)."""
  return lambda b, r, o, a, c: mon3(b, r, o, a)
