"""Entry point: python -m harness.run Cxx quick|thorough|--replay <file>."""
import importlib
import os
import sys
import traceback


def main():
  pid = sys.argv[1]
  tier = sys.argv[2] if len(sys.argv) > 2 else 'quick'
  seed = int(os.environ.get('VERIF_SEED', '0') or 0)
  mod = importlib.import_module('harness.props.' + pid.lower())
  if tier == '--replay':
    sys.exit(mod.replay(sys.argv[3]))
  if tier not in ('quick', 'thorough'):
    print('usage: check Cxx quick|thorough|--replay file'); sys.exit(2)
  try:
    rc = mod.run(tier, seed)
  except Exception:
    # fail closed: the correspondence could not be run against this tree
    tb = traceback.format_exc()
    print(tb)
    import json
    from harness import common
    os.makedirs(common.REPLAY, exist_ok=True)
    path = os.path.join(common.REPLAY, '%s-harness-crash.json' % pid)
    with open(path, 'w') as f:
      json.dump({'property': pid, 'what': 'correspondence could not be executed against this tree', 'traceback': tb}, f, indent=1)
    print('VIOLATION property=%s replay=%s no-failing-input-found' % (pid, path))
    sys.exit(1)
  sys.exit(rc)


if __name__ == '__main__':
  main()
