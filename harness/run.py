"""Entry point: python -m harness.run Cxx quick|thorough|--replay <file>."""
import importlib
import os
import sys
import traceback


def main():
  pid = sys.argv[1]
  tier = sys.argv[2] if len(sys.argv) > 2 else 'quick'
  seed = int(os.environ.get('VERIF_SEED', '0') or 0)
  mod = importlib.import_module('harness.props.' + pid.lower())
  if tier == '--replay':
    sys.exit(mod.replay(sys.argv[3]))
  if tier not in ('quick', 'thorough'):
    print('usage: check Cxx quick|thorough|--replay file'); sys.exit(2)
  limit = float(os.environ.get('VERIF_CHECK_TIMEOUT', '') or (2400 if tier == 'quick' else 6 * 3600))
  import threading
  wd = threading.Timer(limit, _watchdog, args=(pid, limit))
  wd.daemon = True
  wd.start()
  try:
    rc = mod.run(tier, seed)
  except Exception:
    # fail closed: the correspondence could not be run against this tree
    tb = traceback.format_exc()
    print(tb)
    import json
    from harness import common
    os.makedirs(common.REPLAY, exist_ok=True)
    path = os.path.join(common.REPLAY, '%s-harness-crash.json' % pid)
    with open(path, 'w') as f:
      json.dump({'property': pid, 'what': 'correspondence could not be executed against this tree', 'traceback': tb}, f, indent=1)
    print('VIOLATION property=%s replay=%s no-failing-input-found' % (pid, path))
    _leave(1)
  _leave(rc)


def _leave(rc):
  """Exit without waiting for abandoned (hung) service threads."""
  sys.stdout.flush()
  sys.stderr.flush()
  os._exit(rc or 0)


def _watchdog(pid, limit):
  """The check did not finish: a call into the code under test hangs. Fail closed with the stacks of all threads."""
  import json
  from harness import common
  stacks = {}
  for tid, fr in sys._current_frames().items():
    stacks[str(tid)] = ''.join(traceback.format_stack(fr)[-8:])
  os.makedirs(common.REPLAY, exist_ok=True)
  path = os.path.join(common.REPLAY, '%s-did-not-finish.json' % pid)
  with open(path, 'w') as f:
    json.dump({'property': pid, 'what': 'the check did not finish within %g s: a call into the code under test does '
               'not return (deadlock?)' % limit, 'thread_stacks': stacks}, f, indent=1)
  print('VIOLATION property=%s replay=%s no-failing-input-found' % (pid, path))
  _leave(1)


if __name__ == '__main__':
  main()
