"""Regenerates every coq/Gen/*.v file from /repo's working tree (run by setup.sh before the build and after a seeded change
has been undone).  A translator that refuses the source leaves the existing file in place; the property's check reports it."""
import sys

from harness import common as C


def main():
  from harness.translate import scalers, sqlshape, statusmap, enummaps, serial, rngsites, warpers, optloop, exptrs, svclocks, suggdefault, svchandlers, trialcache, ramshape, nsparse, dominance, extbfs, svcsuggest, svcearlystop, svcoptimal, pcfactory, policysteps, scaledispatch, membership, autocast, gridstate, besttrials
  jobs = [('Gen/Scalers.v', scalers), ('Gen/SqlShapes.v', sqlshape), ('Gen/StatusMap.v', statusmap), ('Gen/EnumMaps.v', enummaps),
          ('Gen/Serial.v', serial), ('Gen/RngSites.v', rngsites), ('Gen/Warpers.v', warpers), ('Gen/OptLoop.v', optloop),
          ('Gen/Exptrs.v', exptrs), ('Gen/ServiceLocks.v', svclocks), ('Gen/SuggestDefault.v', suggdefault),
          ('Gen/Handlers.v', svchandlers), ('Gen/TrialCacheSrc.v', trialcache), ('Gen/RamShapes.v', ramshape), ('Gen/NamespaceSrc.v', nsparse), ('Gen/Dominance.v', dominance), ('Gen/ExternalSrc.v', extbfs), ('Gen/SuggestSrc.v', svcsuggest),
          ('Gen/EarlyStopSrc.v', svcearlystop), ('Gen/OptimalSrc.v', svcoptimal), ('Gen/FactorySrc.v', pcfactory), ('Gen/PolicySrc.v', policysteps), ('Gen/ScaleDispatchSrc.v', scaledispatch),
          ('Gen/MembershipSrc.v', membership), ('Gen/AutoCastSrc.v', autocast), ('Gen/GridSrc.v', gridstate), ('Gen/BestTrialsSrc.v', besttrials)]
  rc = 0
  for rel, mod in jobs:
    try:
      text = mod.translate(C.REPO)
      if isinstance(text, tuple):
        text = text[0]
      changed = C.write_gen(rel, text)
      print('%s %s' % (rel, 'rewritten' if changed else 'up to date'))
    except Exception as e:  # pylint: disable=broad-except
      print('%s NOT regenerated: %r' % (rel, e))
      rc = 1
  return rc


if __name__ == '__main__':
  sys.exit(main())
