"""Child process of the C13 cross-process stage: a shuffled grid designer restored from (current_index, shuffle_seed) in THIS process
(its own PYTHONHASHSEED) makes `count` suggestions; prints them as JSON.  argv: seed index count"""
import json
import sys


def main():
  from harness import boot
  boot.boot()
  from vizier import pyvizier as vz
  from vizier._src.algorithms.designers import grid
  seed, index, count = int(sys.argv[1]), int(sys.argv[2]), int(sys.argv[3])
  space = vz.SearchSpace()
  space.root.add_categorical_param('c', ['a', 'b', 'c'])
  space.root.add_int_param('i', 1, 4)
  space.root.add_discrete_param('d', [0.5, 1.5])
  d = grid.GridSearchDesigner(space, shuffle_seed=None)      # what a host builds before loading the state
  md = vz.Metadata()
  md.ns('grid')['current_index'] = str(index)
  md.ns('grid')['shuffle_seed'] = str(seed)
  d.load(md)
  out = [{k: v.value for k, v in s.parameters.items()} for s in d.suggest(count)]
  print('GRIDCHILD ' + json.dumps(out))


if __name__ == '__main__':
  main()
