"""Monitors written from the property texts (not from the Coq model) over observations of the real service."""

COMPLETED = ('SUCCEEDED', 'INFEASIBLE')
RANK = {'REQUESTED': 0, 'ACTIVE': 1, 'STOPPING': 2, 'SUCCEEDED': 3, 'INFEASIBLE': 3}
MUTATING = ('CreateTrial', 'SuggestTrials', 'AddTrialMeasurement', 'CompleteTrial', 'StopTrial', 'DeleteTrial',
            'CheckEarlyStop', 'UpdateMetadata')
EMPTY = [None, None]


def nodes_of(snap):
  out = {}
  for ov in snap:
    for k, n in (ov or []):
      out[tuple(k)] = n
  return out


def legal(a, b):
  if a == b:
    return True
  if a in COMPLETED:
    return False
  return RANK[b] > RANK[a]


def strip_ops(snap):
  return [None if ov is None else [(k, {'study': n['study'], 'trials': n['trials']}) for k, n in ov] for ov in snap]


def key_of(rpc):
  k = rpc[0]
  if k == 'CreateStudy':
    return (rpc[1], rpc[2])
  if k == 'ListStudies':
    return None
  if k == 'CheckEarlyStop':
    return (rpc[2], rpc[3])
  return (rpc[1], rpc[2])


def trial_of(rpc):
  k = rpc[0]
  if k in ('GetTrial', 'AddTrialMeasurement', 'CompleteTrial', 'StopTrial', 'DeleteTrial'):
    return rpc[3]
  if k == 'CheckEarlyStop':
    return rpc[4]
  return None


def illegal_class(before, rpc):
  """Documented error class (a set of allowed outcomes) if the call is illegal in `before`, else None.

  Documents: VizierServicer docstrings (ImmutableStudyError / ImmutableTrialError), datastore.py (NotFoundError),
  client_abc.py (stop on STOPPING/COMPLETED is a no-op).  'OkUnchanged' = success response, nothing stored changes.
  """
  k = rpc[0]
  nodes = nodes_of(before)
  if k == 'ListStudies':
    return {'ENotFound'} if before[rpc[1] - 1] is None else None
  if k == 'CreateStudy':
    return None
  key = key_of(rpc)
  if key not in nodes:
    return {'ENotFound'}
  node = nodes[key]
  if k in MUTATING and node['study']['state'] not in ('SS_ACTIVE', 'SS_UNSPEC'):
    return {'EImmutableStudy'}
  tid = trial_of(rpc)
  if tid is not None:
    ts = {t['id']: t for t in node['trials']}
    if tid not in ts:
      return {'ENotFound'}
    st = ts[tid]['state']
    if k in ('CompleteTrial', 'CheckEarlyStop') and st not in ('ACTIVE', 'STOPPING'):
      return {'EImmutableTrial'}
    if k == 'AddTrialMeasurement' and st not in ('ACTIVE', 'STOPPING'):
      return {'EImmutableTrial', 'OkUnchanged'} if st == 'INFEASIBLE' else {'EImmutableTrial'}
    if k == 'StopTrial' and st not in ('ACTIVE',):
      if st in ('STOPPING', 'SUCCEEDED', 'INFEASIBLE'):
        return {'EImmutableTrial', 'OkUnchanged'}
      return {'EImmutableTrial'}
  if k == 'GetOperation':
    if not any(o['client'] == rpc[3] and o['num'] == rpc[4] for o in node['ops']):
      return {'ENotFound'}
  return None


def c01_step(before, rpc, out, after):
  """Returns a list of violation strings for one step."""
  v = []
  nb, na = nodes_of(before), nodes_of(after)
  for key, n in nb.items():
    if key not in na:
      continue
    tb = {t['id']: t for t in n['trials']}
    ta = {t['id']: t for t in na[key]['trials']}
    for tid, t in tb.items():
      if tid not in ta:
        if rpc[0] not in ('DeleteTrial',):
          v.append('trial %s/%d disappeared under %s' % (key, tid, rpc[0]))
        continue
      t2 = ta[tid]
      if not legal(t['state'], t2['state']):
        v.append('illegal transition %s -> %s of trial %s/%d under %s' % (t['state'], t2['state'], key, tid, rpc[0]))
      if t['params'] != t2['params']:
        v.append('parameters of trial %s/%d changed under %s' % (key, tid, rpc[0]))
      if t['state'] in COMPLETED and (t['state'], t['meas'], t['final']) != (t2['state'], t2['meas'], t2['final']):
        v.append('completed trial %s/%d changed state/measurements under %s' % (key, tid, rpc[0]))
      if t['md'] != t2['md'] and rpc[0] not in ('UpdateMetadata', 'SuggestTrials', 'CheckEarlyStop'):
        v.append('metadata of trial %s/%d changed under %s' % (key, tid, rpc[0]))
  for key in nb:
    if key not in na and rpc[0] != 'DeleteStudy':
      v.append('study %s disappeared under %s' % (key, rpc[0]))
  ill = illegal_class(before, rpc)
  if ill is not None:
    if out[0] == 'Failed':
      if out[1] not in ill:
        v.append('illegal %s failed with %s, documented: %s' % (rpc[0], out[1], sorted(ill)))
    elif 'OkUnchanged' not in ill:
      v.append('illegal %s succeeded, documented: %s' % (rpc[0], sorted(ill)))
    if before != after:
      v.append('illegal %s changed stored data' % rpc[0])
  elif out[0] == 'Failed' and rpc[0] not in ('CheckEarlyStop', 'SuggestTrials', 'CreateStudy', 'CompleteTrial'):
    v.append('legal %s failed with %s' % (rpc[0], out[1]))
  return v


def c02_step(before, rpc, out, after):
  """SuggestTrials shape rules from the C02 text."""
  v = []
  if rpc[0] != 'SuggestTrials':
    return v
  if out[0] != 'Done':
    # the only documented refusals are a missing study and a study that is not active
    node = nodes_of(before).get((rpc[1], rpc[2]))
    if node is not None and node['study']['state'] in ('SS_ACTIVE', 'SS_UNSPEC'):
      v.append('SuggestTrials on an existing active study failed with %s instead of handing out trials' % (out[1],))
    return v
  _, o, sid, c, count, oracle = rpc
  op = out[2]
  key = (o, sid)
  nb, na = nodes_of(before), nodes_of(after)
  if key not in nb:
    return v
  had_unfinished = any(x['client'] == c and not x['done'] for x in nb[key]['ops'])
  if had_unfinished:
    return v  # answered from the earlier operation: C06's business
  if not op['done']:
    v.append('suggest returned an unfinished operation')
    return v
  if op['err']:
    return v
  tb = nb[key]['trials']
  own = [t for t in tb if t['state'] == 'ACTIVE' and t['client'] == c]
  pool = [t for t in tb if t['state'] == 'REQUESTED']
  delivered = len(oracle[1]) if oracle[0] == 'deliver' else 0
  got = op['trials']
  maxb = max([t['id'] for t in tb] + [0])
  if any(t['state'] != 'ACTIVE' or t['client'] != c for t in got):
    v.append('suggest returned a trial that is not ACTIVE or not assigned to the worker')
  if len(own) >= count:
    if [t['id'] for t in got] != [t['id'] for t in own[:count]]:
      v.append('repeat suggest did not return the worker\'s own active trials first')
    if strip_ops(before) != strip_ops(after):
      v.append('suggest with enough own active trials changed stored trials')
    return v
  want_n = min(count, len(own) + len(pool) + delivered) if len(own) + len(pool) < count else count
  if len(got) != want_n:
    v.append('suggest returned %d trials, expected %d (own %d, pool %d, delivered %d, asked %d)' % (
        len(got), want_n, len(own), len(pool), delivered, count))
  ids = [t['id'] for t in got]
  if ids[:len(own)] != [t['id'] for t in own]:
    v.append('own active trials are not first in the response')
  from_pool = ids[len(own):len(own) + min(len(pool), count - len(own))]
  if any(i not in [t['id'] for t in pool] for i in from_pool):
    v.append('queued REQUESTED trials were not used before new ones')
  new_ids = [t['id'] for t in na[key]['trials'] if t['id'] not in [x['id'] for x in tb]]
  if any(i <= maxb for i in new_ids) or new_ids != sorted(new_ids) or len(set(new_ids)) != len(new_ids):
    v.append('new trial ids %s are not fresh/increasing (max before %d)' % (new_ids, maxb))
  if len(own) + len(pool) < count:
    needed = count - len(own) - len(pool)
    surplus = max(0, delivered - needed)
    queued = [t for t in na[key]['trials'] if t['id'] in new_ids and t['state'] == 'REQUESTED']
    if len(queued) != surplus:
      v.append('surplus suggestions queued as REQUESTED: %d, expected %d' % (len(queued), surplus))
    if len(new_ids) != delivered:
      v.append('%d new trials stored but the algorithm delivered %d' % (len(new_ids), delivered))
  # read-back: what was handed out is stored ACTIVE and owned by this worker
  stored = {t['id']: t for t in na[key]['trials']}
  for t in got:
    st = stored.get(t['id'])
    if st is None or st['state'] != 'ACTIVE' or st['client'] != c:
      v.append('trial %d was handed to the worker but is not stored as ACTIVE and assigned to it' % t['id'])
  # nobody else's active trial was handed out
  for t in got:
    old = [x for x in tb if x['id'] == t['id']]
    if old and old[0]['state'] == 'ACTIVE' and old[0]['client'] != c:
      v.append('trial %d active for another worker was handed out' % t['id'])
  return v


def owner_step(before, rpc, out, after):
  """No trial is ever assigned to two workers: across ANY call a stored trial that is not REQUESTED keeps its owner and never
  becomes REQUESTED again (ownership is given once, when a queued trial is handed out or a trial is created)."""
  v = []
  nb, na = nodes_of(before), nodes_of(after)
  if rpc[0] in ('DeleteStudy', 'CreateStudy'):
    return v          # another study under the same name is a different study
  for key, n in nb.items():
    if key not in na:
      continue
    after_t = {t['id']: t for t in na[key]['trials']}
    for t in n['trials']:
      a = after_t.get(t['id'])
      if a is None or t['state'] == 'REQUESTED':
        continue
      if a['client'] != t['client']:
        v.append('trial %s/%d (%s, owner %r) changed owner to %r during %s' % (key, t['id'], t['state'], t['client'], a['client'], rpc[0]))
      if a['state'] == 'REQUESTED':
        v.append('trial %s/%d (%s) went back to REQUESTED during %s' % (key, t['id'], t['state'], rpc[0]))
  return v


def c06_step(before, rpc, out, after, calls):
  """A failing / misdelivering algorithm is reported and never wedges the study."""
  v = []
  na = nodes_of(after)
  for key, n in na.items():
    for x in n['ops']:
      if not x['done']:
        v.append('suggestion operation %s/%d/%d left unfinished after %s' % (key, x['client'], x['num'], rpc[0]))
    for e in n['es']:
      if e['active']:
        v.append('early-stopping operation for trial %s/%d left ACTIVE after %s' % (key, e['trial'], rpc[0]))
  if rpc[0] == 'SuggestTrials':
    oracle = rpc[5]
    nb = nodes_of(before)
    key = (rpc[1], rpc[2])
    if out[0] == 'Failed' and out[1] not in ('ENotFound', 'EImmutableStudy'):
      v.append('SuggestTrials raised %s instead of reporting through the operation' % out[1])
    if out[0] == 'Done' and key in nb:
      tb = nb[key]['trials']
      own = [t for t in tb if t['state'] == 'ACTIVE' and t['client'] == rpc[3]]
      pool = [t for t in tb if t['state'] == 'REQUESTED']
      need_algo = len(own) + len(pool) < rpc[4]
      if need_algo and calls < 1:
        v.append('suggest needing new trials did not reach the algorithm (answered from an abandoned operation?)')
      if need_algo and oracle[0] == 'fail' and not (out[2]['done'] and out[2]['err']):
        v.append('algorithm failure not reported as a finished operation with an error')
  return v


def _merge(old, new):
  d = {}
  for kv in old + new:
    d[(kv[0], kv[1])] = kv
  return sorted(d.values(), key=lambda kv: (kv[0], kv[1]))


def c10_step(before, rpc, out, after):
  """Metadata read-back is exact last-writer-wins; a failed update changes nothing."""
  v = []
  if rpc[0] != 'UpdateMetadata':
    return v
  _, o, sid, smd, tmd = rpc[:5]
  nb, na = nodes_of(before), nodes_of(after)
  key = (o, sid)
  if key not in nb or nb[key]['study']['state'] not in ('SS_ACTIVE', 'SS_UNSPEC'):
    return v
  ids = {t['id'] for t in nb[key]['trials']}
  missing = [tid for tid, _ in tmd if tid not in ids]
  if missing:
    if out[:2] != ('Done', 'RpMdError') and out[0] != 'Failed':
      v.append('metadata update naming missing trial %s did not report an error' % missing)
    if before != after:
      v.append('failed metadata update changed stored data')
    return v
  if out[:2] != ('Done', 'RpEmpty'):
    v.append('legal metadata update failed: %r' % (out[:2],))
    return v
  want_study = _merge(nb[key]['study']['md'], smd)
  if na[key]['study']['md'] != want_study:
    v.append('study metadata after update is not last-writer-wins')
  for t in nb[key]['trials']:
    t2 = [x for x in na[key]['trials'] if x['id'] == t['id']][0]
    want = _merge(t['md'], [kv for tid, kv in tmd if tid == t['id']])
    if t2['md'] != want:
      v.append('trial %d metadata after update is not last-writer-wins' % t['id'])
    if {k: x for k, x in t.items() if k != 'md'} != {k: x for k, x in t2.items() if k != 'md'}:
      v.append('metadata update changed non-metadata fields of trial %d' % t['id'])
  for k2 in nb:
    if k2 != key and nb[k2] != na.get(k2):
      v.append('metadata update touched another study')
  return v


def _dominates(q, p):
  return all(a >= b for a, b in zip(q, p)) and any(a > b for a, b in zip(q, p))


def _val(c):
  import math
  return {'nan': math.nan, 'inf': math.inf, '-inf': -math.inf}.get(c, c) if isinstance(c, str) else float(c)


def c11_step(before, rpc, out, after):
  """ListOptimalTrials = SUCCEEDED trials with all metrics (numbers) not dominated by another such trial."""
  import math
  v = []
  if rpc[0] != 'ListOptimalTrials' or out[0] != 'Done':
    return v
  nb = nodes_of(before)
  key = (rpc[1], rpc[2])
  if key not in nb:
    return v
  metrics = nb[key]['study']['metrics']
  cands = []
  nan_listed = False
  for t in nb[key]['trials']:
    if t['state'] != 'SUCCEEDED':
      continue
    d = dict(t['final'])
    if not all(m in d for m, _ in metrics):
      continue
    vec = [(_val(d[m]) if mx else -_val(d[m])) for m, mx in metrics]
    cands.append((t['id'], vec))
  good = [(i, vec) for i, vec in cands if not any(math.isnan(x) for x in vec)]
  want = sorted(i for i, vec in good if not any(_dominates(w, vec) for _, w in good))
  got = sorted(t['id'] for t in out[2])
  nan_ids = {i for i, vec in cands if any(math.isnan(x) for x in vec)}
  if got != want:
    if nan_ids:
      v.append('NAN: optimal trials %s differ from the definition %s in a study with a NaN objective' % (got, want))
    else:
      v.append('optimal trials %s differ from the non-dominated completed trials %s' % (got, want))
  return v
