"""Shared by the C14 harness and its child processes: build a designer / policy / benchmark by name and run it.

Everything is derived from the arguments, so the same call in another process must give the same result.
"""
import copy
import json
import random as pyrandom
import sys
import time


def objective(params):
  s = 0.0
  for _, v in sorted(params.items()):
    v = getattr(v, 'value', v)
    s += (sum(map(ord, v)) % 7) if isinstance(v, str) else float(v)
  return s


def factory(name):
  """A designer factory with the signature the policies expect: (problem, seed=None)."""
  from vizier._src.algorithms.designers import grid, quasi_random, cmaes, random as random_designer
  from vizier._src.algorithms.designers.eagle_strategy import eagle_strategy
  from vizier._src.algorithms.evolution import nsga2
  return {
      'random': lambda p, seed=None: random_designer.RandomDesigner(p.search_space, seed=seed),
      'quasi_random': lambda p, seed=None: quasi_random.QuasiRandomDesigner(p.search_space, seed=seed),
      'grid': lambda p, seed=None: grid.GridSearchDesigner(p.search_space, shuffle_seed=seed),
      'eagle': lambda p, seed=None: eagle_strategy.EagleStrategyDesigner(p, seed=seed),
      'nsga2': lambda p, seed=None: nsga2.NSGA2Designer(p, population_size=4, first_survival_after=5, seed=seed),
      'cmaes': lambda p, seed=None: cmaes.CMAESDesigner(p, pop_size=4, seed=seed),
  }[name]


def problem(space_seed, name):
  from vizier import pyvizier as vz
  from harness import spaces
  r = pyrandom.Random('space/%s' % space_seed)
  while True:
    prob, meta = spaces.gen_space(r, vz, float_only=(name == 'cmaes'), allow_log=(name != 'cmaes'))
    # enough entropy for two seeds to differ: at least one non-degenerate continuous or a large discrete product
    size = 1
    for kind, dom in meta.values():
      if kind in 'fi':
        size *= 1000 if (kind == 'f' and dom[0] < dom[1]) else (dom[1] - dom[0] + 1)
      else:
        size *= len(dom)
    if size >= 200:
      return prob, meta


def construct_gp_designers():
  """Another study that uses a GP designer ran first: the designers cannot suggest in this sandbox, but constructing them runs
  their setup code, which must leave process-wide configuration (e.g. the jax precision flags) alone."""
  from vizier import pyvizier as vz
  p = vz.ProblemStatement()
  p.search_space.root.add_float_param('x', 0.0, 1.0)
  p.metric_information.append(vz.MetricInformation(name='m', goal=vz.ObjectiveMetricGoal.MAXIMIZE))
  made = []
  for mod, cls in (('gp_bandit', 'VizierGPBandit'), ('gp_ucb_pe', 'VizierGPUCBPEBandit')):
    try:
      m = __import__('vizier._src.algorithms.designers.' + mod, fromlist=[cls])
      getattr(m, cls)(p)
      made.append(cls)
    except Exception:  # pylint: disable=broad-except
      pass
  return made


def perturb(k):
  """Change everything a run is not allowed to depend on."""
  import numpy as np
  np.random.seed(k % (2 ** 31))
  pyrandom.seed(k)
  real = perturb.real_time
  time.time = lambda k=k: real() + 7919.0 * k
  perturb.current = k


perturb.real_time = time.time


def unperturb():
  time.time = perturb.real_time
  perturb.current = 1


def run_mode(mode, name, seed, space_seed, steps):
  """mode: designer | inram | restore | benchmark.  Returns the list of batches of parameter dicts."""
  import numpy as np
  from vizier import pyvizier as vz
  from vizier import algorithms as vza
  from vizier._src.algorithms.policies import designer_policy as dp
  from vizier._src.pythia import local_policy_supporters
  prob, _ = problem(space_seed, name)
  f = factory(name)
  out = []

  def noise():
    np.random.random()
    pyrandom.random()

  if mode == 'designer':
    d = f(prob, seed=seed)
    tid = 0
    for c in steps:
      sg = list(d.suggest(c))
      out.append([{k: v.value for k, v in s.parameters.items()} for s in sg])
      ts = []
      for s in sg:
        tid += 1
        t = s.to_trial(tid)
        t.complete(vz.Measurement({'m': objective(s.parameters)}))
        ts.append(t)
      d.update(vza.CompletedTrials(ts), vza.ActiveTrials())
      noise()
  elif mode in ('inram', 'restore'):
    prob = copy.deepcopy(prob)
    sup = local_policy_supporters.InRamPolicySupporter(prob)
    cls = dp.InRamDesignerPolicy if mode == 'inram' else dp.PartiallySerializableDesignerPolicy
    pol = cls(prob, sup, f, seed=seed)
    for c in steps:
      if mode == 'restore':
        pol = cls(sup.GetStudyConfig(), sup, f, seed=seed)    # a new policy per request, as the Pythia service does
      ts = sup.SuggestTrials(pol, c)
      out.append([{k: v.value for k, v in t.parameters.items()} for t in ts])
      for t in ts:
        t.complete(vz.Measurement({'m': objective(t.parameters)}))
      noise()
  elif mode == 'benchmark':
    from vizier.benchmarks import experimenters
    from vizier._src.benchmarks.experimenters.synthetic import bbob
    from vizier._src.benchmarks.runners import benchmark_runner, benchmark_state
    # a ROTATED function with a non-zero rotation seed that follows the run's seed (the experimenter half of a seeded benchmark):
    # runs with other rotation seeds earlier in the same process must not matter
    import functools
    rot_fn = [bbob.Rastrigin, bbob.Ellipsoidal, bbob.Discus, bbob.Sphere][(space_seed // 27) % 4]
    exp = experimenters.NumpyExperimenter(functools.partial(rot_fn, seed=1 + seed % 4), bbob.DefaultBBOBProblemStatement(2 + space_seed % 3))
    # seeded wrappers that carry their own randomness
    from vizier._src.benchmarks.experimenters import infeasible_experimenter, noisy_experimenter
    wrap = (space_seed // 3) % 3
    if wrap == 1:
      exp = infeasible_experimenter.HashingInfeasibleExperimenter(exp, infeasible_prob=0.3, seed=seed % 7)
    elif wrap == 2:
      exp = noisy_experimenter.NoisyExperimenter.from_type(exp, 'MODERATE_GAUSSIAN', seed=seed % 11 + 1)
    fac = benchmark_state.DesignerBenchmarkStateFactory(experimenter=exp, designer_factory=f)
    st = fac(seed=seed)
    for c in steps:
      benchmark_runner.BenchmarkRunner(
          benchmark_subroutines=[benchmark_runner.GenerateSuggestions(c), benchmark_runner.EvaluateActiveTrials()], num_repeats=1).run(st)
      noise()
    out = [[{'id': t.id, 'params': {k: v.value for k, v in t.parameters.items()},
             'infeasible': bool(t.infeasible),
             'value': None if t.final_measurement is None else [repr(m.value) for m in t.final_measurement.metrics.values()]}
            for t in st.algorithm.supporter.GetTrials()]]
  elif mode == 'benchmark_restore':
    # studies run one after the other from ONE experimenter object with a state-persisting policy (the designer's state is
    # kept in the study's problem metadata): a study must not inherit anything from the study that ran before it
    from vizier.benchmarks import experimenters
    from vizier._src.benchmarks.experimenters.synthetic import bbob
    from vizier._src.benchmarks.runners import benchmark_runner, benchmark_state
    exp = experimenters.NumpyExperimenter(bbob.Sphere, bbob.DefaultBBOBProblemStatement(2 + space_seed % 3))

    def study(seed_, steps_):
      problem_ = exp.problem_statement()
      sup_ = local_policy_supporters.InRamPolicySupporter(problem_)
      pol_ = dp.PartiallySerializableDesignerPolicy(problem_, sup_, f, seed=seed_)
      st_ = benchmark_state.BenchmarkState(experimenter=exp, algorithm=benchmark_state.PolicySuggester(policy=pol_, local_supporter=sup_))
      for c in steps_:
        benchmark_runner.BenchmarkRunner(
            benchmark_subroutines=[benchmark_runner.GenerateSuggestions(c), benchmark_runner.EvaluateActiveTrials()], num_repeats=1).run(st_)
        noise()
      return [{'id': t.id, 'params': {k: v.value for k, v in t.parameters.items()}} for t in sup_.GetTrials()]
    if getattr(perturb, 'current', 1) >= 2:
      study(seed + 17, [2, 3])          # another study from the same experimenter first
    out = [study(seed, steps)]
  else:
    raise ValueError(mode)
  return out


def main():
  sys.path.insert(0, '.')
  from harness import boot
  boot.boot()
  spec = json.loads(sys.argv[1])
  perturb(spec['perturb'])
  if spec.get('before') == 'gp_construct':
    construct_gp_designers()
  elif spec.get('before'):
    # another study first, in the same process
    run_mode('designer', spec['before'], 1, 99, [2, 2])
    if spec['mode'] == 'benchmark':
      # another seeded benchmark (another rotation seed, same dimension) ran before in this process
      run_mode('benchmark', spec['before'], spec['seed'] + 1, spec['space_seed'], [2])
  res = run_mode(spec['mode'], spec['name'], spec['seed'], spec['space_seed'], spec['steps'])
  print('C14RESULT ' + json.dumps(res, sort_keys=True))


if __name__ == '__main__':
  main()
