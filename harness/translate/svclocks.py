"""Translator: vizier/_src/service/vizier_service.py -> coq/Gen/ServiceLocks.v

For every RPC method of VizierServicer, every call site `self.datastore.<method>(...)` in source order together with the
servicer locks that lexically enclose it (`with self._owner_name_to_lock[...]`, `with self._study_name_to_lock[...]`,
`with self._operation_lock[...]`), and the order in which the locks of one method are nested.  The Coq side re-checks on
this table, at every run, that every writing datastore call is made under its lock and that the operation lock is never
taken inside a study lock (the facts `covered` / `wf` are proved about the hand-written handler programs; this table is
what the source says).  Fail-closed: a datastore call outside an RPC method or reached through an alias, a lock taken
other than by `with self.<lock>[...]`, or an unknown datastore method raises Fail.
"""
import ast
import os


class Fail(Exception):
  pass


LOCKS = {'_owner_name_to_lock': 'KOwner', '_study_name_to_lock': 'KStudy', '_operation_lock': 'KOp'}
RPCS = ['CreateStudy', 'GetStudy', 'ListStudies', 'DeleteStudy', 'SetStudyState', 'SuggestTrials', 'GetOperation', 'CreateTrial',
        'GetTrial', 'ListTrials', 'AddTrialMeasurement', 'CompleteTrial', 'DeleteTrial', 'CheckTrialEarlyStoppingState', 'StopTrial',
        'ListOptimalTrials', 'UpdateMetadata']
HELPERS = ['_study_is_immutable']          # called before any lock is taken (known finding C04-guard-outside-lock)
DS = {'load_study': 'DLoadStudy', 'create_study': 'DCreateStudy', 'update_study': 'DUpdateStudy', 'delete_study': 'DDeleteStudy',
      'list_studies': 'DListStudies', 'create_trial': 'DCreateTrial', 'get_trial': 'DGetTrial', 'update_trial': 'DUpdateTrial',
      'list_trials': 'DListTrials', 'delete_trial': 'DDeleteTrial', 'max_trial_id': 'DMaxTrialId',
      'create_suggestion_operation': 'DCreateSop', 'get_suggestion_operation': 'DGetSop', 'update_suggestion_operation': 'DUpdateSop',
      'list_suggestion_operations': 'DListSops', 'max_suggestion_operation_number': 'DMaxSopNum',
      'create_early_stopping_operation': 'DCreateEs', 'get_early_stopping_operation': 'DGetEs',
      'update_early_stopping_operation': 'DUpdateEs', 'update_metadata': 'DUpdateMd'}


KEYS = []      # (lock kind, source text of the key expression) of the with-statements of the method being walked


def lock_of(expr):
  """KOwner / KStudy / KOp for `self.<lock attr>[...]`, None for anything that is not a servicer lock."""
  if isinstance(expr, ast.Subscript) and isinstance(expr.value, ast.Attribute) and isinstance(expr.value.value, ast.Name) \
      and expr.value.value.id == 'self' and expr.value.attr in LOCKS:
    return LOCKS[expr.value.attr]
  src = ast.dump(expr)
  if any(l in src for l in LOCKS):
    raise Fail('a servicer lock is used in an unexpected form: %s' % src[:120])
  return None


def ds_call(node):
  if isinstance(node, ast.Call) and isinstance(node.func, ast.Attribute) and isinstance(node.func.value, ast.Attribute) \
      and isinstance(node.func.value.value, ast.Name) and node.func.value.value.id == 'self' and node.func.value.attr == 'datastore':
    if node.func.attr not in DS:
      raise Fail('unknown datastore method %s' % node.func.attr)
    return DS[node.func.attr]
  return None


def walk(node, held, sites, nests):
  """Source-order walk that keeps the lexical stack of servicer locks."""
  if isinstance(node, (ast.FunctionDef, ast.AsyncFunctionDef, ast.Lambda, ast.ClassDef)):
    for sub in ast.walk(node):
      if ds_call(sub) or (isinstance(sub, ast.Attribute) and (sub.attr in LOCKS or sub.attr == 'datastore')):
        raise Fail('nested function / class that touches the datastore or a servicer lock')
    return
  if isinstance(node, ast.With):
    new = list(held)
    for item in node.items:
      for sub in ast.walk(item.context_expr):
        if ds_call(sub):
          raise Fail('datastore call inside a with header')
      k = lock_of(item.context_expr)
      if k is None:
        raise Fail('a with-statement on something that is not `self.<servicer lock>[...]` (a lock may hide behind it)')
      KEYS.append((k, ast.unparse(item.context_expr.slice)))
      nests.append((tuple(new), k))
      new.append(k)
    for st in node.body:
      walk(st, new, sites, nests)
    return
  d = ds_call(node)
  if d is not None:
    for a in list(node.args) + [kw.value for kw in node.keywords]:
      walk(a, held, sites, nests)
    sites.append((d, tuple(held)))
    return
  if isinstance(node, ast.Attribute) and isinstance(node.value, ast.Name) and node.value.id == 'self' and node.attr == 'datastore':
    raise Fail('self.datastore used other than as self.datastore.<method>(...)')
  for child in ast.iter_child_nodes(node):
    walk(child, held, sites, nests)


# what names the study (resp. owner) a request addresses, per method (vizier_service.proto); a per-study lock protects a study only
# if every handler indexes the lock table with the STUDY's name
STUDY_KEY = {'SetStudyState': 'request.parent', 'SuggestTrials': 'request.parent', 'CreateTrial': 'request.parent', 'UpdateMetadata': 'request.name'}
TRIAL_FIELD = {'AddTrialMeasurement': 'trial_name', 'CompleteTrial': 'name', 'DeleteTrial': 'name', 'StopTrial': 'name',
               'CheckTrialEarlyStoppingState': 'trial_name'}


def check_lock_keys(name, fn):
  """Every study / operation lock is indexed by the name of the study the request addresses, the owner lock by the owner's."""
  assigned = {}
  for sub in ast.walk(fn):
    if isinstance(sub, ast.Assign) and len(sub.targets) == 1 and isinstance(sub.targets[0], ast.Name):
      assigned.setdefault(sub.targets[0].id, []).append(ast.unparse(sub.value))
  ok_keys = set()
  if name in STUDY_KEY:
    ok_keys.add(STUDY_KEY[name])
    if assigned.get('study_name') == [STUDY_KEY[name]]:
      ok_keys.add('study_name')
  if name in TRIAL_FIELD:
    f = TRIAL_FIELD[name]
    if assigned.get('study_name') == ['TrialResource.from_name(request.%s).study_resource.name' % f]:
      ok_keys.add('study_name')
    if assigned.get('trial_resource') == ['TrialResource.from_name(request.%s)' % f] and assigned.get('study_name') == ['trial_resource.study_resource.name']:
      ok_keys.add('study_name')
  for kind, key in KEYS:
    if kind == 'KOwner':
      if not (name == 'CreateStudy' and key == 'request.parent'):
        raise Fail('%s: the owner lock is indexed by %s, not by the owner the request addresses' % (name, key))
    elif key not in ok_keys:
      raise Fail('%s: a per-study lock is indexed by %s, which is not (provably) the name of the study the request addresses' % (name, key))


def translate(repo):
  path = os.path.join(repo, 'vizier/_src/service/vizier_service.py')
  tree = ast.parse(open(path).read())
  cls = [n for n in tree.body if isinstance(n, ast.ClassDef) and n.name == 'VizierServicer']
  if len(cls) != 1:
    raise Fail('class VizierServicer not found')
  methods = {n.name: n for n in cls[0].body if isinstance(n, ast.FunctionDef)}
  for r in RPCS + HELPERS:
    if r not in methods:
      raise Fail('method %s not found' % r)
  # no datastore access and no servicer lock anywhere else
  for name, fn in methods.items():
    if name in RPCS or name in HELPERS or name == '__init__':
      continue
    for sub in ast.walk(fn):
      if ds_call(sub) or (isinstance(sub, ast.Attribute) and sub.attr in LOCKS):
        raise Fail('method %s touches the datastore or a servicer lock' % name)
  rows = []
  nest_rows = []
  for name in RPCS + HELPERS:
    sites, nests = [], []
    del KEYS[:]
    for st in methods[name].body:
      walk(st, [], sites, nests)
    check_lock_keys(name, methods[name])
    # helper calls made by the method (the immutability guard) are listed as their own call sites, outside every lock
    uses_guard = any(isinstance(sub, ast.Call) and isinstance(sub.func, ast.Attribute) and sub.func.attr == '_study_is_immutable'
                     for sub in ast.walk(methods[name]))
    n_attr = sum(1 for sub in ast.walk(methods[name]) if isinstance(sub, ast.Attribute) and sub.attr in LOCKS)
    if n_attr != len(nests):
      raise Fail('%s mentions a servicer lock outside a with header (%d mentions, %d with-items)' % (name, n_attr, len(nests)))
    rows.append((name, sites, uses_guard))
    nest_rows.append((name, nests))
  out = ['(* GENERATED by harness/translate/svclocks.py from vizier/_src/service/vizier_service.py -- do not edit *)',
         'From Coq Require Import List String.', 'Import ListNotations.', 'Open Scope string_scope.',
         'Inductive lkind := KOwner | KStudy | KOp.',
         'Inductive dsm := ' + ' | '.join(sorted(set(DS.values()))) + '.',
         '(* method, datastore call sites in source order with the servicer locks lexically held, calls the immutability guard *)',
         'Definition call_sites : list (string * list (dsm * list lkind) * bool) :=']
  items = []
  for name, sites, g in rows:
    items.append('  ("%s", [%s], %s)' % (name, '; '.join('(%s, [%s])' % (d, '; '.join(h)) for d, h in sites), 'true' if g else 'false'))
  out.append('  [' + ';\n  '.join(i.strip() for i in items) + '].')
  out.append('(* method, (locks already held, lock taken) for every with-statement on a servicer lock *)')
  out.append('Definition lock_nests : list (string * list (list lkind * lkind)) :=')
  items = []
  for name, nests in nest_rows:
    items.append('("%s", [%s])' % (name, '; '.join('([%s], %s)' % ('; '.join(h), k) for h, k in nests)))
  out.append('  [' + ';\n   '.join(items) + '].')
  return '\n'.join(out) + '\n'
