"""Translator: vizier/_src/pyvizier/shared/common.py -> coq/Gen/NamespaceSrc.v

Namespace.encode and _parse (Namespace.decode) as data of coq/Model/NamespaceIR.v:
  * the escape table `_ns_repr_table = str.maketrans({...})` and the shape of encode (`''.join([<sep> + c.translate(table) ...])`);
  * the prologue of _parse (empty string -> empty tuple; ONE leading separator removed; split on the separator);
  * the four branches of its loop: the test (join flag and / or "fragment ends with the escape character"), whether the
    fragment is appended or joined to the last output with the separator, whether its last character is dropped, and the next
    value of the join flag.
coq/Proofs/NamespaceSrcP.v proves that the meaning of this data is the model's encode / parse, which the C10 theorems are about.
Fail-closed: any other statement or expression shape raises Fail.
"""
import ast
import os


class Fail(Exception):
  pass


def src(n):
  return ast.unparse(n)


def char_code(lit):
  if isinstance(lit, ast.Constant) and isinstance(lit.value, str) and len(lit.value) == 1:
    return ord(lit.value)
  raise Fail('not a one-character literal: %s' % src(lit))


def translate(repo):
  path = os.path.join(repo, 'vizier/_src/pyvizier/shared/common.py')
  tree = ast.parse(open(path).read())
  fns = {n.name: n for n in tree.body if isinstance(n, ast.FunctionDef)}
  cls = [n for n in tree.body if isinstance(n, ast.ClassDef) and n.name == 'Namespace']
  if '_parse' not in fns or len(cls) != 1:
    raise Fail('_parse / class Namespace not found')
  # ---- escape table and encode
  tab = [n for n in cls[0].body if isinstance(n, ast.Assign) and src(n.targets[0]) == '_ns_repr_table']
  if len(tab) != 1 or not (isinstance(tab[0].value, ast.Call) and src(tab[0].value.func) == 'str.maketrans' and len(tab[0].value.args) == 1
                           and isinstance(tab[0].value.args[0], ast.Dict)):
    raise Fail('_ns_repr_table is not str.maketrans({...})')
  d = tab[0].value.args[0]
  pairs = []
  for k, v in zip(d.keys, d.values):
    if not (isinstance(v, ast.Constant) and isinstance(v.value, str)):
      raise Fail('escape table value %s' % src(v))
    pairs.append((char_code(k), [ord(c) for c in v.value]))
  m = {n.name: n for n in cls[0].body if isinstance(n, ast.FunctionDef)}
  enc = [s for s in m['encode'].body if not (isinstance(s, ast.Expr) and isinstance(s.value, ast.Constant))]
  want = "return ''.join([%s + c.translate(self._ns_repr_table) for c in self._as_tuple])"
  sep = None
  if len(enc) == 1 and isinstance(enc[0], ast.Return):
    for cand in (':',):
      if src(enc[0]) == want % repr(cand):
        sep = ord(cand)
  if sep is None:
    raise Fail('encode() changed: %s' % src(enc[0])[:160] if enc else 'empty')
  dec = [s for s in m['decode'].body if not (isinstance(s, ast.Expr) and isinstance(s.value, ast.Constant))]
  if len(dec) != 1 or src(dec[0]) != 'return Namespace(_parse(s))':
    raise Fail('decode() is no longer Namespace(_parse(s))')
  # ---- _parse
  body = [s for s in fns['_parse'].body if not (isinstance(s, ast.Expr) and isinstance(s.value, ast.Constant))]
  texts = [src(s) for s in body]
  if len(body) != 7:
    raise Fail('_parse has %d statements, expected 7: %r' % (len(body), [t[:40] for t in texts]))
  if texts[0] != 'if not arg:\n    return ()':
    raise Fail('_parse: the empty-string case changed: %s' % texts[0])
  if texts[1] != "if arg.startswith(%r):\n    arg = arg[1:]" % chr(sep):
    raise Fail('_parse: removal of the leading separator changed: %s' % texts[1])
  if texts[2] != 'fragments = arg.split(%r)' % chr(sep):
    raise Fail('_parse: the split changed: %s' % texts[2])
  if texts[3] != 'output = []' or texts[4] != 'join = False' or texts[6] != 'return tuple(output)':
    raise Fail('_parse: initialisation / result changed')
  loop = body[5]
  if not (isinstance(loop, ast.For) and src(loop.target) == 'frag' and src(loop.iter) == 'fragments' and not loop.orelse and len(loop.body) == 1
          and isinstance(loop.body[0], ast.If)):
    raise Fail('_parse: loop shape changed')
  # flatten the if / elif chain
  branches = []
  node = loop.body[0]
  while True:
    branches.append((node.test, node.body))
    if len(node.orelse) == 1 and isinstance(node.orelse[0], ast.If):
      node = node.orelse[0]
    else:
      branches.append((None, node.orelse))
      break
  esc = None

  def test_of(t):
    nonlocal esc
    if t is None:
      return 'TAlways'
    s = src(t)
    if s == 'join':
      return 'TJoin'
    if isinstance(t, ast.BoolOp) and isinstance(t.op, ast.And):
      vals = [src(v) for v in t.values]
      last = t.values[-1]
      if vals[:-1] in (['join', 'frag'], ['frag']) and isinstance(last, ast.Compare) and src(last.left) == 'frag[-1]' and \
          len(last.ops) == 1 and isinstance(last.ops[0], ast.Eq):
        c = char_code(last.comparators[0])
        if esc is not None and esc != c:
          raise Fail('two different escape characters')
        esc = c
        return 'TJoinAndEsc' if len(vals) == 3 else 'TEsc'
    raise Fail('_parse: branch test not understood: %s' % s)

  def action_of(stmts):
    if len(stmts) != 2:
      raise Fail('_parse: a branch with %d statements' % len(stmts))
    a, j = src(stmts[0]), src(stmts[1])
    if j not in ('join = True', 'join = False'):
      raise Fail('_parse: branch does not end with the join flag: %s' % j)
    nj = 'true' if j.endswith('True') else 'false'
    table = {"output[-1] += %r + frag[:-1]" % chr(sep): ('AJoin', 'true'), "output[-1] += %r + frag" % chr(sep): ('AJoin', 'false'),
             'output.append(frag[:-1])': ('AAppend', 'true'), 'output.append(frag)': ('AAppend', 'false')}
    if a not in table:
      raise Fail('_parse: branch action not understood: %s' % a)
    return '(%s %s %s)' % (table[a][0], table[a][1], nj)
  rows = ['(%s, %s)' % (test_of(t), action_of(b)) for t, b in branches]
  if esc is None:
    raise Fail('_parse: no escape character found')
  gl = lambda l: '[' + '; '.join(l) + ']'
  out = ['(* GENERATED by harness/translate/nsparse.py from vizier/_src/pyvizier/shared/common.py -- do not edit *)',
         'From VZ Require Import Base.Prelude Model.Namespace Model.NamespaceIR.', 'Import ListNotations.',
         'Definition src_sep : N := %d%%N.' % sep,
         'Definition src_esc : N := %d%%N.' % esc,
         'Definition src_escape_table : list (N * str) := %s.' % gl(['(%d%%N, %s)' % (k, gl(['%d%%N' % c for c in v])) for k, v in pairs]),
         '(* empty string -> (), one leading separator removed, split on the separator *)',
         'Definition src_prologue : prologue := mkPro true true.',
         'Definition src_branches : list (ptest * paction) := %s.' % gl(rows)]
  return '\n'.join(out) + '\n'


if __name__ == '__main__':
  import sys
  print(translate(sys.argv[1] if len(sys.argv) > 1 else '/repo'))
