"""Translator: vizier/_src/service/vizier_service.py -> coq/Gen/Handlers.v

The straight-line RPC handlers of VizierServicer, statement by statement, as terms of the small statement language of
coq/Model/HandlerIR.v (`stmt`, `cond`).  coq/Proofs/HandlerIRP.v proves that the meaning of these terms (`HandlerIR.interp`)
is, node for node, the hand-written handler program of coq/Model/Service.v that all service theorems are about - so for
these handlers the model is regenerated from the source at every run and the theorems are re-checked against what the code
says now.

Handlers translated: CreateStudy, GetStudy, ListStudies, DeleteStudy, SetStudyState, GetOperation, CreateTrial, GetTrial, ListTrials,
AddTrialMeasurement, CompleteTrial, DeleteTrial, StopTrial, UpdateMetadata, and the guard _study_is_immutable together with
the class constant _TRIAL_MUTABLE_STATES.  (SuggestTrials, CheckTrialEarlyStoppingState and ListOptimalTrials contain loops and proto plumbing; they stay hand-written and
tied by the trace-level correspondence.)

Fail-closed: every statement and every expression must have one of the shapes listed in `stmt_of` / `cond_of`; anything
else raises Fail, which the checks report as a broken tie.

Assumed by hand (trusted):
  * what the name fields of the request messages denote (vizier_service.proto): TRIAL_FIELD / STUDY_FIELD / OWNER_FIELD /
    OP_FIELD below, and that TrialResource.from_name(<trial name>).study_resource.name is the name of the trial's study;
  * grpc_util.handle_exception(e, context) raises (checked dynamically by the C01 / C08 correspondence; fix 3b740c5);
  * an exception raised by a datastore method propagates out of the handler unless an enclosing `except` names it, and
    custom_errors.NotFoundError is a KeyError (custom_errors.py);
  * CreateStudy: the display name is the study id (`study_id = study.display_name; study.name = StudyResource(owner_id, study_id).name`
    is checked textually), and an owner never has constants.MAX_STUDY_ID (checked to be >= 2**31 - 1) studies;
  * statements that only touch fields the model does not have (names, timestamps, infeasibility text, logging) are no-ops of
    the model: `trial.name = ...`, `study_resource = ...`, `trial.start_time.CopyFrom(_get_current_time())`, `logging.*(...)`.
"""
import ast
import os


class Fail(Exception):
  pass


TRIAL_FIELD = {'GetTrial': 'name', 'AddTrialMeasurement': 'trial_name', 'CompleteTrial': 'name', 'DeleteTrial': 'name', 'StopTrial': 'name'}
STUDY_FIELD = {'GetStudy': 'name', 'DeleteStudy': 'name', 'SetStudyState': 'parent', 'CreateTrial': 'parent', 'ListTrials': 'parent',
               'UpdateMetadata': 'name'}
OWNER_FIELD = {'ListStudies': 'parent'}
OP_FIELD = {'GetOperation': 'name'}
HANDLERS = ['CreateStudy', 'GetStudy', 'ListStudies', 'DeleteStudy', 'SetStudyState', 'GetOperation', 'CreateTrial', 'GetTrial', 'ListTrials',
            'AddTrialMeasurement', 'CompleteTrial', 'DeleteTrial', 'StopTrial', 'UpdateMetadata']
TSTATES = {'REQUESTED', 'ACTIVE', 'STOPPING', 'SUCCEEDED', 'INFEASIBLE'}
SSTATES = {'ACTIVE': 'SS_ACTIVE', 'STATE_UNSPECIFIED': 'SS_UNSPEC', 'INACTIVE': 'SS_INACTIVE', 'COMPLETED': 'SS_COMPLETED'}
ERRORS = {'ImmutableStudyError': 'EImmutableStudy', 'ImmutableTrialError': 'EImmutableTrial', 'ValueError': 'EValue'}


def src(n):
  return ast.unparse(n)


def is_req_field(n, field):
  return isinstance(n, ast.Attribute) and isinstance(n.value, ast.Name) and n.value.id == 'request' and n.attr == field


def tstate_of(n):
  """study_pb2.Trial.State.X or study_pb2.Trial.X"""
  s = src(n)
  for pre in ('study_pb2.Trial.State.', 'study_pb2.Trial.'):
    if s.startswith(pre) and s[len(pre):] in TSTATES:
      return s[len(pre):]
  raise Fail('not a trial state: %s' % s)


def sstate_of(n):
  s = src(n)
  pre = 'study_pb2.Study.State.'
  if s.startswith(pre) and s[len(pre):] in SSTATES:
    return SSTATES[s[len(pre):]]
  raise Fail('not a study state: %s' % s)


class Ctx:

  def __init__(self, name, mutable_states):
    self.name = name
    self.mutable = mutable_states
    self.study_var = None      # local variable holding the study name (trial-level handlers)

  def is_study(self, n):
    if self.name in STUDY_FIELD:
      return is_req_field(n, STUDY_FIELD[self.name])
    return self.study_var is not None and isinstance(n, ast.Name) and n.id == self.study_var

  def is_trial(self, n):
    return self.name in TRIAL_FIELD and is_req_field(n, TRIAL_FIELD[self.name])

  def need_study(self, n, what):
    if not self.is_study(n):
      raise Fail('%s: %s is applied to %s, which is not the study the request addresses' % (self.name, what, src(n)))

  def need_trial(self, n, what):
    if not self.is_trial(n):
      raise Fail('%s: %s is applied to %s, which is not the trial the request addresses' % (self.name, what, src(n)))


def ds_call(n):
  """(method, args) for self.datastore.<method>(args)"""
  if isinstance(n, ast.Call) and isinstance(n.func, ast.Attribute) and src(n.func.value) == 'self.datastore' and not n.keywords:
    return n.func.attr, n.args
  return None


def state_list(ctx, n):
  if src(n) == 'self._TRIAL_MUTABLE_STATES':
    return ctx.mutable
  if isinstance(n, ast.Tuple):
    return [tstate_of(e) for e in n.elts]
  raise Fail('%s: not a tuple of trial states: %s' % (ctx.name, src(n)))


def glist(l):
  return '[' + '; '.join(l) + ']'


def cond_of(ctx, n):
  s = src(n)
  if isinstance(n, ast.UnaryOp) and isinstance(n.op, ast.Not):
    return '(CNot %s)' % cond_of(ctx, n.operand)
  if isinstance(n, ast.Call) and src(n.func) == 'self._study_is_immutable' and len(n.args) == 1 and not n.keywords:
    ctx.need_study(n.args[0], '_study_is_immutable')
    return 'CStudyImmutable'
  if isinstance(n, ast.Compare) and len(n.ops) == 1 and src(n.left) == 'trial.state':
    op, rhs = n.ops[0], n.comparators[0]
    if isinstance(op, ast.Eq):
      return '(CTrialStateEq %s)' % tstate_of(rhs)
    if isinstance(op, ast.NotEq):
      return '(CTrialStateNe %s)' % tstate_of(rhs)
    if isinstance(op, ast.In):
      return '(CTrialStateIn %s)' % glist(state_list(ctx, rhs))
    if isinstance(op, ast.NotIn):
      return '(CTrialStateNotIn %s)' % glist(state_list(ctx, rhs))
  if s == 'request.final_measurement.metrics' and ctx.name == 'CompleteTrial':
    return 'CReqFinalHasMetrics'
  if s == 'request.trial_infeasible' and ctx.name == 'CompleteTrial':
    return 'CReqInfeasible'
  if s == 'trial.measurements':
    return 'CTrialHasMeasurements'
  if ctx.name == 'CreateStudy':
    if s == 'request.study.name':
      return 'CReqStudyNamed'
    if s == 'request.study.display_name':
      return 'CReqDisplayName'
    if s == 'len(possible_candidate_studies) >= constants.MAX_STUDY_ID':
      return 'CTooManyStudies'
  raise Fail('%s: condition not understood: %s' % (ctx.name, s))


def seq(stmts):
  stmts = [s for s in stmts if s != 'SSkip']
  if not stmts:
    return 'SSkip'
  out = stmts[-1]
  for s in reversed(stmts[:-1]):
    out = '(SSeq %s %s)' % (s, out)
  return out


def error_class(n):
  """EClass for <module.>ErrorClass(...)"""
  if isinstance(n, ast.Call):
    f = src(n.func).split('.')[-1]
    if f in ERRORS and src(n.func) in (f, 'custom_errors.' + f):
      return ERRORS[f]
  raise Fail('not a known error constructor: %s' % src(n))


def block(ctx, body):
  """Translates a statement list; `e = Error(..)` must be directly followed by `grpc_util.handle_exception(e, context)`."""
  out = []
  i = 0
  while i < len(body):
    st = body[i]
    # e = SomeError(...); grpc_util.handle_exception(e, context)
    if isinstance(st, ast.Assign) and len(st.targets) == 1 and src(st.targets[0]) == 'e':
      cls = error_class(st.value)
      if i + 1 >= len(body) or src(body[i + 1]) != 'grpc_util.handle_exception(e, context)':
        raise Fail('%s: an error object is built but not handed to grpc_util.handle_exception(e, context) at once' % ctx.name)
      out.append('(SRaise %s)' % cls)
      i += 2
      continue
    out.append(stmt_of(ctx, st, body[i + 1:] ))
    if getattr(ctx, 'consumed', 0):
      i += ctx.consumed
      ctx.consumed = 0
    i += 1
  return seq(out)


def stmt_of(ctx, st, rest):
  s = src(st)
  name = ctx.name
  if isinstance(st, ast.Expr) and isinstance(st.value, ast.Constant) and isinstance(st.value.value, str):
    return 'SSkip'                                              # docstring
  if isinstance(st, ast.Expr) and isinstance(st.value, ast.Call) and src(st.value.func).startswith('logging.'):
    for sub in ast.walk(st.value):
      if ds_call(sub) or (isinstance(sub, ast.Attribute) and sub.attr.startswith('_') and sub.attr != '_TRIAL_MUTABLE_STATES'):
        raise Fail('%s: a logging call that does more than log: %s' % (name, s))
    return 'SSkip'
  if isinstance(st, ast.Expr) and isinstance(st.value, ast.Call) and src(st.value.func) == 'grpc_util.handle_exception':
    a = st.value.args
    if len(a) == 2 and src(a[1]) == 'context':
      return '(SRaise %s)' % error_class(a[0])
  if isinstance(st, ast.If):
    return '(SIf %s %s %s)' % (cond_of(ctx, st.test), block(ctx, st.body), block(ctx, st.orelse))
  if isinstance(st, ast.With):
    if len(st.items) != 1 or st.items[0].optional_vars is not None:
      raise Fail('%s: with-statement not understood: %s' % (name, s[:80]))
    ce = st.items[0].context_expr
    if isinstance(ce, ast.Subscript) and src(ce.value) == 'self._study_name_to_lock':
      ctx.need_study(ce.slice, 'the study lock')
      return '(SWithStudyLock %s)' % block(ctx, st.body)
    if isinstance(ce, ast.Subscript) and src(ce.value) == 'self._owner_name_to_lock' and name == 'CreateStudy' and src(ce.slice) == 'request.parent':
      return '(SWithOwnerLock %s)' % block(ctx, st.body)
    raise Fail('%s: with-statement on %s' % (name, src(ce)))
  if isinstance(st, ast.Try) and name == 'UpdateMetadata':
    # try: with self._study_name_to_lock[request.name]: self.datastore.update_metadata(request.name, <study part>, <trial part>)
    # except KeyError as e: return vizier_service_pb2.UpdateMetadataResponse(error_details=';'.join(e.args))
    ok = (len(st.body) == 1 and isinstance(st.body[0], ast.With) and len(st.handlers) == 1 and not st.orelse and not st.finalbody
          and src(st.handlers[0].type) == 'KeyError' and len(st.handlers[0].body) == 1
          and isinstance(st.handlers[0].body[0], ast.Return)
          and src(st.handlers[0].body[0].value).startswith('vizier_service_pb2.UpdateMetadataResponse(error_details='))
    if ok:
      w = st.body[0]
      ce = w.items[0].context_expr
      ok = (len(w.items) == 1 and isinstance(ce, ast.Subscript) and src(ce.value) == 'self._study_name_to_lock'
            and ctx.is_study(ce.slice) and len(w.body) == 1 and isinstance(w.body[0], ast.Expr))
      if ok:
        d = ds_call(w.body[0].value)
        ok = (d is not None and d[0] == 'update_metadata' and len(d[1]) == 3 and ctx.is_study(d[1][0])
              and src(d[1][1]) == "[x.metadatum for x in request.delta if not x.HasField('trial_id')]"
              and src(d[1][2]) == "[x for x in request.delta if x.HasField('trial_id')]")
    if not ok:
      raise Fail('UpdateMetadata: the try / with / update_metadata / except KeyError shape changed: %s' % s[:200])
    return 'SUpdateMetadataTry'
  if isinstance(st, ast.Try) and name == 'CreateStudy':
    ok = (len(st.body) == 1 and src(st.body[0]) == 'possible_candidate_studies = self.datastore.list_studies(request.parent)'
          and len(st.handlers) == 1 and src(st.handlers[0].type) == 'custom_errors.NotFoundError' and st.handlers[0].name is None
          and len(st.handlers[0].body) == 1 and src(st.handlers[0].body[0]) == 'possible_candidate_studies = []'
          and not st.orelse and not st.finalbody)
    if not ok:
      raise Fail('CreateStudy: the try / list_studies / except NotFoundError shape changed: %s' % s[:200])
    return 'SListStudiesOrEmpty'
  if isinstance(st, ast.For) and name == 'CreateStudy':
    body = [x for x in st.body]
    ok = (src(st.target) == 'candidate_study' and src(st.iter) == 'possible_candidate_studies' and not st.orelse and len(body) == 1
          and isinstance(body[0], ast.If) and src(body[0].test) == 'candidate_study.display_name == request.study.display_name'
          and not body[0].orelse)
    if ok:
      inner = [x for x in body[0].body if not (isinstance(x, ast.Expr) and isinstance(x.value, ast.Call) and src(x.value.func).startswith('logging.'))]
      ok = len(inner) == 1 and src(inner[0]) == 'return candidate_study'
    if not ok:
      raise Fail('CreateStudy: the loop over the candidate studies changed: %s' % s[:200])
    return 'SReturnCandidateByDisplayName'
  if isinstance(st, ast.Return):
    v = st.value
    if v is None:
      raise Fail('%s: bare return' % name)
    sv = src(v)
    if sv == 'trial':
      return 'SReturnTrial'
    if sv == 'study':
      return 'SReturnStudy'
    if sv == 'empty_pb2.Empty()':
      return 'SReturnEmpty'
    if sv == 'vizier_service_pb2.UpdateMetadataResponse()' and name == 'UpdateMetadata':
      return 'SReturnMdOk'
    d = ds_call(v)
    if d is not None and len(d[1]) == 1:
      if d[0] == 'load_study':
        ctx.need_study(d[1][0], 'load_study')
        return 'SReturnLoadStudy'
      if d[0] == 'get_trial':
        ctx.need_trial(d[1][0], 'get_trial')
        return 'SReturnGetTrial'
      if d[0] == 'get_suggestion_operation' and name in OP_FIELD and is_req_field(d[1][0], OP_FIELD[name]):
        return 'SReturnGetOperation'
    raise Fail('%s: return value not understood: %s' % (name, sv))
  if isinstance(st, ast.Assign) and len(st.targets) == 1:
    t, v = src(st.targets[0]), st.value
    sv = src(v)
    d = ds_call(v)
    # study_name = TrialResource.from_name(request.<trial field>).study_resource.name
    if name in TRIAL_FIELD and isinstance(st.targets[0], ast.Name) and \
        sv == 'TrialResource.from_name(request.%s).study_resource.name' % TRIAL_FIELD[name]:
      if ctx.study_var is not None:
        raise Fail('%s: the study name is assigned twice' % name)
      ctx.study_var = t
      return 'SSkip'
    if name == 'CreateStudy':
      if t == 'study' and sv == 'request.study':
        return 'SStudyFromRequest'
      if t == 'owner_id' and sv == 'resources.OwnerResource.from_name(request.parent).owner_id':
        return 'SSkip'
      if t == 'study_id' and sv == 'study.display_name':
        return 'SSkip'
      if t == 'study.name' and sv == 'StudyResource(owner_id, study_id).name':
        return 'SSkip'
    if t == 'trial' and d is not None and d[0] == 'get_trial' and len(d[1]) == 1:
      ctx.need_trial(d[1][0], 'get_trial')
      return 'SGetTrial'
    if t == 'study' and d is not None and d[0] == 'load_study' and len(d[1]) == 1:
      ctx.need_study(d[1][0], 'load_study')
      return 'SLoadStudy'
    if t == 'trial.state':
      return '(SSetTrialState %s)' % tstate_of(v)
    if t == 'study.state' and sv == 'request.state' and name == 'SetStudyState':
      return 'SSetStudyState'
    if t == 'trial.infeasible_reason' and sv == 'request.infeasible_reason':
      return 'SSetInfeasibleReason'
    if t == 'trial' and sv == 'request.trial' and name == 'CreateTrial':
      return 'STrialFromRequest'
    if t == 'trial.id' and name == 'CreateTrial' and isinstance(v, ast.Call) and src(v.func) == 'str' and len(v.args) == 1 and \
        isinstance(v.args[0], ast.BinOp) and isinstance(v.args[0].op, ast.Add) and src(v.args[0].right) == '1':
      d2 = ds_call(v.args[0].left)
      if d2 is not None and d2[0] == 'max_trial_id' and len(d2[1]) == 1:
        ctx.need_study(d2[1][0], 'max_trial_id')
        return 'SAssignNextId'
    if name == 'CreateTrial' and t == 'study_resource' and sv == 'StudyResource.from_name(request.parent)':
      return 'SSkip'
    if name == 'CreateTrial' and t == 'trial.name' and sv == 'study_resource.trial_resource(trial.id).name':
      return 'SSkip'
    # <var> = self.datastore.list_xxx(<name>) directly followed by `return <Response>(<field>=<var>)`
    if d is not None and isinstance(st.targets[0], ast.Name) and len(d[1]) == 1 and rest and isinstance(rest[0], ast.Return):
      rv = src(rest[0].value)
      if d[0] == 'list_studies' and name in OWNER_FIELD and is_req_field(d[1][0], OWNER_FIELD[name]) and \
          rv == 'vizier_service_pb2.ListStudiesResponse(studies=%s)' % t:
        ctx.consumed = 1
        return 'SReturnListStudies'
      if d[0] == 'list_trials' and ctx.is_study(d[1][0]) and rv == 'vizier_service_pb2.ListTrialsResponse(trials=%s)' % t:
        ctx.consumed = 1
        return 'SReturnListTrials'
    raise Fail('%s: assignment not understood: %s' % (name, s[:160]))
  if isinstance(st, ast.Expr) and isinstance(st.value, ast.Call):
    d = ds_call(st.value)
    if d is not None:
      m, a = d
      if m == 'update_trial' and len(a) == 1 and src(a[0]) == 'trial':
        return 'SUpdateTrial'
      if m == 'create_trial' and len(a) == 1 and src(a[0]) == 'trial':
        return 'SCreateTrial'
      if m == 'update_study' and len(a) == 1 and src(a[0]) == 'study':
        return 'SUpdateStudy'
      if m == 'create_study' and len(a) == 1 and src(a[0]) == 'study' and name == 'CreateStudy':
        return 'SCreateStudy'
      if m == 'delete_trial' and len(a) == 1:
        ctx.need_trial(a[0], 'delete_trial')
        return 'SDeleteTrial'
      if m == 'delete_study' and len(a) == 1:
        ctx.need_study(a[0], 'delete_study')
        return 'SDeleteStudy'
      raise Fail('%s: datastore call not understood: %s' % (name, s))
    if s == 'trial.measurements.extend([request.measurement])' and name == 'AddTrialMeasurement':
      return 'SAppendMeasurement'
    if s == 'trial.final_measurement.CopyFrom(request.final_measurement)' and name == 'CompleteTrial':
      return 'SFinalFromRequest'
    if s == 'trial.final_measurement.CopyFrom(trial.measurements[-1])':
      return 'SFinalFromLast'
    if s == "trial.ClearField('client_id')":
      return 'SClearClient'
    if s == 'trial.start_time.CopyFrom(_get_current_time())':
      return 'SSkip'
  raise Fail('%s: statement not understood: %s' % (name, s[:160]))


def translate(repo):
  path = os.path.join(repo, 'vizier/_src/service/vizier_service.py')
  tree = ast.parse(open(path).read())
  cls = [n for n in tree.body if isinstance(n, ast.ClassDef) and n.name == 'VizierServicer']
  if len(cls) != 1:
    raise Fail('class VizierServicer not found')
  methods = {n.name: n for n in cls[0].body if isinstance(n, ast.FunctionDef)}
  # class constant
  consts = [n for n in cls[0].body if isinstance(n, ast.Assign) and src(n.targets[0]) == '_TRIAL_MUTABLE_STATES']
  if len(consts) != 1 or not isinstance(consts[0].value, ast.Tuple):
    raise Fail('_TRIAL_MUTABLE_STATES is not a class-level tuple')
  mutable = [tstate_of(e) for e in consts[0].value.elts]
  for fn in methods.values():
    for sub in ast.walk(fn):
      if isinstance(sub, (ast.Assign, ast.AugAssign, ast.Delete)) and '_TRIAL_MUTABLE_STATES' in src(sub).split('=')[0]:
        raise Fail('_TRIAL_MUTABLE_STATES is reassigned')
  # the guard: study = self.datastore.load_study(study_name); return study.state not in (A, B)
  g = methods.get('_study_is_immutable')
  if g is None or [a.arg for a in g.args.args] != ['self', 'study_name']:
    raise Fail('_study_is_immutable(self, study_name) not found')
  gb = [st for st in g.body if not (isinstance(st, ast.Expr) and isinstance(st.value, ast.Constant))]
  if len(gb) != 2 or src(gb[0]) != 'study = self.datastore.load_study(study_name)' or not isinstance(gb[1], ast.Return) \
      or not isinstance(gb[1].value, ast.Compare) or src(gb[1].value.left) != 'study.state' \
      or not isinstance(gb[1].value.ops[0], ast.NotIn) or not isinstance(gb[1].value.comparators[0], ast.Tuple):
    raise Fail('_study_is_immutable no longer has the shape `load_study; return study.state not in (..)`')
  study_mutable = [sstate_of(e) for e in gb[1].value.comparators[0].elts]
  ctree = ast.parse(open(os.path.join(repo, 'vizier/_src/service/constants.py')).read())
  mx = [n for n in ctree.body if isinstance(n, ast.Assign) and src(n.targets[0]) == 'MAX_STUDY_ID']
  if len(mx) != 1 or not isinstance(mx[0].value, ast.Constant) or not isinstance(mx[0].value.value, int) or mx[0].value.value < 2 ** 31 - 1:
    raise Fail('constants.MAX_STUDY_ID is no longer a literal >= 2**31 - 1 (the model never reaches that many studies)')
  out = ['(* GENERATED by harness/translate/svchandlers.py from vizier/_src/service/vizier_service.py -- do not edit *)',
         'From VZ Require Import Base.Prelude Model.Service Model.HandlerIR.', 'Import ListNotations.',
         '(* _TRIAL_MUTABLE_STATES *)',
         'Definition trial_mutable_states : list tstate := %s.' % glist(mutable),
         '(* _study_is_immutable: the study states that are NOT immutable *)',
         'Definition study_mutable_states : list sstate := %s.' % glist(study_mutable)]
  for name in HANDLERS:
    fn = methods.get(name)
    if fn is None:
      raise Fail('handler %s not found' % name)
    if [a.arg for a in fn.args.args] != ['self', 'request', 'context'] or fn.decorator_list:
      raise Fail('%s: unexpected signature / decorator' % name)
    ctx = Ctx(name, mutable)
    body = block(ctx, fn.body)
    out.append('Definition src_%s : stmt :=\n  %s.' % (name, body))
  return '\n'.join(out) + '\n'


if __name__ == '__main__':
  import sys
  print(translate(sys.argv[1] if len(sys.argv) > 1 else '/repo'))
