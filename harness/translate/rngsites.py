"""Translator: where every randomised designer gets its random streams from -> coq/Gen/RngSites.v

For each designer class the constructor path (__init__ / __attrs_post_init__ / from_problem / attrs field factories), the
load() path and all other methods are scanned for
  * constructions of a random stream: np.random.RandomState(x), np.random.default_rng(x), qmc.Halton(seed=x),
    random.Random(x), jax.random.PRNGKey(x), cma_jax.CMA_ES_JAX(**kwargs), and constructions of seeded children
    (UniformRandomSampler, LinfMutation, QuasiRandomDesigner, an initial_designer_factory);
  * reads of ambient state: time.time(), module-level numpy / python random functions.
The argument x of every construction is classified by a small data-flow over the enclosing function:
  SSeed            the seed / rng argument of the designer
  SSeedElseClock   the seed argument, wall clock when it is None
  SSeedElseGlobal  the seed argument, python's global random state when it is None
  SDerived         drawn from a stream of the same designer
  SDump            read from the metadata being loaded
  SKwargs          forwarded keyword arguments (CMA-ES: contains the seed)
  SEntropy         None / no argument: operating-system entropy
  SClock, SGlobal, SFixed, SStale (an attribute read in load() before load() assigns it)
Fail-closed: an argument shape that is not understood raises Fail.
"""
import ast
import os

from harness import common as C


class Fail(Exception):
  pass


D = 'vizier/_src/algorithms/designers/'
CLASSES = [
    ('random', D + 'random.py', 'RandomDesigner'),
    ('quasi_random', D + 'quasi_random.py', 'QuasiRandomDesigner'),
    ('grid', D + 'grid.py', 'GridSearchDesigner'),
    ('eagle', D + 'eagle_strategy/eagle_strategy.py', 'EagleStrategyDesigner'),
    ('nsga2', 'vizier/_src/algorithms/evolution/nsga2.py', 'NSGA2Designer'),
    ('nsga2_sampler', 'vizier/_src/algorithms/evolution/numpy_populations.py', 'UniformRandomSampler'),
    ('nsga2_mutation', 'vizier/_src/algorithms/evolution/numpy_populations.py', 'LinfMutation'),
    ('cmaes', D + 'cmaes.py', 'CMAESDesigner'),
    ('gp_bandit', D + 'gp_bandit.py', 'VizierGPBandit'),
    ('gp_ucb_pe', D + 'gp_ucb_pe.py', 'VizierGPUCBPEBandit'),
]
STREAMS = {'RandomState', 'default_rng', 'Halton', 'Random', 'PRNGKey', 'CMA_ES_JAX', 'restore_rng'}
CHILDREN = {'UniformRandomSampler', 'LinfMutation', 'QuasiRandomDesigner', 'initial_designer_factory'}
SEED_PARAMS = {'seed', 'shuffle_seed', 'rng'}
CTOR = {'__init__', '__attrs_post_init__', 'from_problem'}
GLOBAL_NP = {'rand', 'randn', 'random', 'randint', 'uniform', 'normal', 'choice', 'shuffle', 'permutation', 'seed', 'random_sample'}
GLOBAL_PY = {'random', 'randint', 'uniform', 'choice', 'shuffle', 'sample', 'gauss', 'getrandbits', 'randrange', 'seed'}


def dotted(e):
  if isinstance(e, ast.Name):
    return e.id
  if isinstance(e, ast.Attribute):
    return dotted(e.value) + '.' + e.attr
  return '?'


def contains(e, pred):
  return any(pred(n) for n in ast.walk(e))


def is_time(n):
  return isinstance(n, ast.Call) and dotted(n.func) in ('time.time', 'time.time_ns', 'datetime.datetime.now')


def is_global_py(n):
  return isinstance(n, ast.Call) and dotted(n.func).startswith('random.') and dotted(n.func).split('.')[1] in GLOBAL_PY


def is_global_np(n):
  d = dotted(n.func) if isinstance(n, ast.Call) else ''
  return d.startswith('np.random.') and d.split('.')[2] in GLOBAL_NP


def timing_only(fn, call):
  """True when the clock value can only reach a duration / timestamp string: it is stored in a local named *time*, or
  used inside an f-string, or stored under a metadata key."""
  parent = {}
  for n in ast.walk(fn):
    for ch in ast.iter_child_nodes(n):
      parent[ch] = n
  n = call
  while n in parent:
    n = parent[n]
    if isinstance(n, (ast.JoinedStr, ast.FormattedValue)):
      return True
    if isinstance(n, ast.Assign):
      t = ast.unparse(n.targets[0])
      return ('time' in t and isinstance(n.targets[0], ast.Name)) or 'metadata' in t
    if isinstance(n, ast.stmt):
      return False
  return False


class Ctx:
  """One function body: parameters and straight-line assignment history."""

  def __init__(self, fn, where, cls_methods, init_attrs):
    self.fn, self.where, self.methods, self.init_attrs = fn, where, cls_methods, init_attrs
    self.params = {a.arg for a in fn.args.args + fn.args.kwonlyargs} | ({fn.args.kwarg.arg} if fn.args.kwarg else set())
    self.assigns = []   # (lineno, target string, value expr)
    for n in ast.walk(fn):
      if isinstance(n, ast.Assign) and len(n.targets) == 1:
        tgts = n.targets[0].elts if isinstance(n.targets[0], ast.Tuple) else [n.targets[0]]
        for t in tgts:
          self.assigns.append((n.lineno, ast.unparse(t), n.value, n))

  def none_fallback(self, name, line):
    """`if name is None: name = <expr>` before `line` -> the fallback expr."""
    for n in ast.walk(self.fn):
      if isinstance(n, ast.If) and n.lineno < line and isinstance(n.test, ast.Compare) and ast.unparse(n.test) == '%s is None' % name:
        for st in n.body:
          if isinstance(st, ast.Assign) and ast.unparse(st.targets[0]) == name:
            return st.value
    return None

  def last_assign(self, target, line, skip_in_if_none=None):
    best = None
    for ln, tg, val, node in self.assigns:
      if tg == target and ln < line and (best is None or ln > best[0]):
        best = (ln, val)
    return best

  def classify(self, e, line):
    if e is None or (isinstance(e, ast.Constant) and e.value is None):
      return 'SEntropy'
    if isinstance(e, ast.Constant):
      return 'SFixed'
    if isinstance(e, ast.Call) and dotted(e.func) in ('int', 'np.int32', 'np.int64') and len(e.args) == 1:
      return self.classify(e.args[0], line)
    if contains(e, lambda n: isinstance(n, ast.Name) and n.id in ('metadata', 'md', 'obj', 'designer_metadata')):
      return 'SDump'
    if isinstance(e, ast.IfExp):
      t = ast.unparse(e.test)
      a, b = self.classify(e.body, line), self.classify(e.orelse, line)
      if t.endswith('is not None'):
        pass
      elif t.endswith('is None'):
        a, b = b, a
      else:
        if {a, b} <= {'SDump', 'SEntropy'} and 'SDump' in (a, b):
          return 'SDump'     # "None or int" read back from a dump
        raise Fail('conditional seed %s' % t)
      if a == 'SSeed' and b in ('SClock', 'SGlobal'):
        return 'SSeedElseClock' if b == 'SClock' else 'SSeedElseGlobal'
      raise Fail('conditional seed %s: %s / %s' % (t, a, b))
    if is_time(e) or (isinstance(e, ast.Call) and contains(e, is_time) and not contains(e, lambda n: isinstance(n, ast.Name) and n.id in SEED_PARAMS)):
      return 'SClock'
    if isinstance(e, ast.Call) and contains(e, is_global_py):
      return 'SGlobal'
    if isinstance(e, ast.Call) and dotted(e.func).startswith('jax.random.'):
      # drawn from another key
      inner = [self.classify(a, line) for a in e.args[:1]]
      return 'SDerived' if inner and inner[0] in ('SSeed', 'SSeedElseClock', 'SSeedElseGlobal', 'SDerived', 'SDump') else (inner[0] if inner else 'SEntropy')
    if isinstance(e, ast.Name):
      prev = self.last_assign(e.id, line)
      fb = self.none_fallback(e.id, line)
      if e.id in self.params and e.id in SEED_PARAMS:
        if fb is not None:
          k = self.classify(fb, fb.lineno)
          if k == 'SClock':
            return 'SSeedElseClock'
          if k == 'SGlobal':
            return 'SSeedElseGlobal'
          raise Fail('fallback of %s is %s' % (e.id, k))
        return 'SSeed'
      if prev is not None:
        return self.classify(prev[1], prev[0])
      raise Fail('%s: unknown name %s' % (self.fn.name, e.id))
    if isinstance(e, ast.Attribute) and isinstance(e.value, ast.Name) and e.value.id == 'self':
      prev = self.last_assign('self.' + e.attr, line)
      if prev is not None:
        return self.classify(prev[1], prev[0])
      if self.where == 'load':
        return 'SStale'
      if e.attr in self.init_attrs:
        return self.init_attrs[e.attr]
      raise Fail('%s: attribute %s has no known origin' % (self.fn.name, e.attr))
    raise Fail('%s: seed expression %s' % (self.fn.name, ast.unparse(e)[:60]))


def seed_arg(call):
  name = dotted(call.func).split('.')[-1]
  if name == 'CMA_ES_JAX':
    return 'KW'
  for kw in call.keywords:
    if kw.arg in ('seed', 'rng'):
      return kw.value
    if kw.arg is None:
      return 'KW'
  if name in ('RandomState', 'default_rng', 'Random', 'PRNGKey', 'restore_rng'):
    return call.args[0] if call.args else None
  return None    # Halton / children without a seed keyword: entropy


def scan_class(repo, tag, path, cname):
  tree = ast.parse(open(os.path.join(repo, path)).read())
  cls = [n for n in tree.body if isinstance(n, ast.ClassDef) and n.name == cname]
  if not cls:
    raise Fail('class %s not found in %s' % (cname, path))
  cls = cls[0]
  methods = {n.name: n for n in cls.body if isinstance(n, ast.FunctionDef)}
  sites, ambient = [], []
  init_attrs = {}
  # attrs field factories:  _rng = attr.field(factory=lambda: jax.random.PRNGKey(random.getrandbits(32)))
  for n in cls.body:
    if isinstance(n, (ast.AnnAssign, ast.Assign)) and n.value is not None and isinstance(n.value, ast.Call):
      for kw in n.value.keywords:
        if kw.arg == 'factory' and isinstance(kw.value, ast.Lambda):
          for c in ast.walk(kw.value.body):
            if isinstance(c, ast.Call) and dotted(c.func).split('.')[-1] in STREAMS:
              tgt = ast.unparse(n.target if isinstance(n, ast.AnnAssign) else n.targets[0])
              k = 'SGlobal' if contains(c, is_global_py) else ('SClock' if contains(c, is_time) else None)
              if k is None:
                raise Fail('%s: default factory of %s' % (cname, tgt))
              # the default applies only when the argument is not given
              src = {'SGlobal': 'SSeedElseGlobal', 'SClock': 'SSeedElseClock'}[k]
              sites.append((tgt + '(field)', 'init', src))
              init_attrs[tgt] = src
  order = [m for m in ('from_problem', '__init__', '__attrs_post_init__') if m in methods] + \
      [m for m in methods if m not in CTOR]
  for mname in order:
    fn = methods[mname]
    where = 'init' if mname in CTOR else ('load' if mname == 'load' else 'other')
    ctx = Ctx(fn, where, methods, init_attrs)
    helper_param_sites = []
    for c in ast.walk(fn):
      if not isinstance(c, ast.Call):
        continue
      name = dotted(c.func).split('.')[-1]
      if name in STREAMS or name in CHILDREN:
        if name == 'Random' and dotted(c.func) != 'random.Random':
          continue
        if name == 'Halton' and 'qmc' not in dotted(c.func):
          continue
        arg = seed_arg(c)
        label = '%s.%s:%s' % (cname, mname, name)
        if arg == 'KW':
          sites.append((label, where, 'SKwargs'))
        elif isinstance(arg, ast.Name) and arg.id in ctx.params and arg.id not in SEED_PARAMS | {'self'} or \
            (where == 'other' and isinstance(arg, ast.Name) and arg.id in ctx.params):
          helper_param_sites.append((label, arg.id))
        else:
          k = ctx.classify(arg, c.lineno)
          if where == 'load' and name in CHILDREN:
            # construct-then-load: the fresh child's own stream is replaced by the dumped one
            tg = [t for ln, t, val, node in ctx.assigns if val is c]
            if tg and any(isinstance(x, ast.Call) and dotted(x.func) == tg[0] + '.load' and x.lineno > c.lineno for x in ast.walk(fn)):
              k = 'SDump'
          sites.append((label, where, k))
          # remember attribute = stream for later resolution
        if where == 'init':
          for ln, tg, val, node in ctx.assigns:
            if val is c and tg.startswith('self.'):
              init_attrs[tg[5:]] = sites[-1][2] if sites and sites[-1][0] == label else 'SSeed'
      elif where != 'init' or mname != 'from_problem':
        if is_time(c) and where == 'other' and not timing_only(fn, c):
          ambient.append('%s.%s:time' % (cname, mname))
        if (is_global_py(c) or is_global_np(c)) and where == 'other':
          ambient.append('%s.%s:%s' % (cname, mname, dotted(c.func)))
    # a stream built inside a helper from one of its parameters: classify the argument at every call site
    for label, pname in helper_param_sites:
      pos = [a.arg for a in fn.args.args].index(pname) - 1
      found = False
      for caller_name, caller in methods.items():
        cwhere = 'init' if caller_name in CTOR else ('load' if caller_name == 'load' else 'other')
        cctx = Ctx(caller, cwhere, methods, init_attrs)
        for c in ast.walk(caller):
          if isinstance(c, ast.Call) and dotted(c.func) == 'self.' + mname:
            arg = c.args[pos] if pos < len(c.args) else None
            sites.append((label + '<-' + caller_name, cwhere, cctx.classify(arg, c.lineno)))
            found = True
      if not found:
        raise Fail('%s: helper %s is never called' % (cname, mname))
    # record seed attributes assigned in the constructor (self._seed = seed if ... else clock)
    if where == 'init':
      for ln, tg, val, node in ctx.assigns:
        if tg.startswith('self.') and tg[5:] not in init_attrs and ('seed' in tg or 'rng' in tg):
          try:
            init_attrs[tg[5:]] = ctx.classify(val, ln)
          except Fail:
            pass
  merged = []
  for lab, wh, k in sites:
    twin = [m for m in merged if m[0] == lab and m[1] == wh and {m[2], k} == {'SGlobal', 'SSeed'}]
    if twin and ':PRNGKey' in lab and 'from_problem' in lab:
      merged[merged.index(twin[0])] = (lab, wh, 'SSeedElseGlobal')
    else:
      merged.append((lab, wh, k))
  return merged, ambient


# CMAESDesigner.load calls CMA_ES_JAX.load_state(state); evojax keeps its PRNG key inside that state (checked by the harness:
# a restored CMA-ES designer continues the live one's stream)
LOAD_STATE_INCLUDES_STREAM = {'cmaes'}


def has_method(repo, path, cname, m):
  tree = ast.parse(open(os.path.join(repo, path)).read())
  cls = [n for n in tree.body if isinstance(n, ast.ClassDef) and n.name == cname][0]
  if any(isinstance(n, ast.FunctionDef) and n.name == m for n in cls.body):
    return True
  # NSGA2Designer inherits load/dump from CanonicalEvolutionDesigner
  return any('CanonicalEvolutionDesigner' in ast.unparse(b) for b in cls.bases)


def restore_passes_seed(repo):
  """PartiallySerializableDesignerPolicy._restore_designer: is the policy's seed given to the factory?"""
  tree = ast.parse(open(os.path.join(repo, 'vizier/_src/algorithms/policies/designer_policy.py')).read())
  cls = [n for n in tree.body if isinstance(n, ast.ClassDef) and n.name == 'PartiallySerializableDesignerPolicy'][0]
  fn = [n for n in cls.body if isinstance(n, ast.FunctionDef) and n.name == '_restore_designer'][0]
  calls = [c for c in ast.walk(fn) if isinstance(c, ast.Call) and dotted(c.func) == 'self._designer_factory']
  if len(calls) != 1:
    raise Fail('_restore_designer: expected one factory call')
  first = any(kw.arg == 'seed' for kw in calls[0].keywords)
  base = [n for n in tree.body if isinstance(n, ast.ClassDef) and n.name == '_SerializableDesignerPolicyBase'][0]
  fn = [n for n in base.body if isinstance(n, ast.FunctionDef) and n.name == '_initialize_designer'][0]
  calls = [c for c in ast.walk(fn) if isinstance(c, ast.Call) and dotted(c.func) == 'self._designer_factory']
  fresh = any(kw.arg == 'seed' and ast.unparse(kw.value) == 'self._seed' for c in calls for kw in c.keywords)
  return first, fresh


def translate(repo):
  out = ['(* GENERATED by harness/translate/rngsites.py from the designers - do not edit *)',
         'From VZ Require Import Base.Prelude Model.Seeded.', '']
  names = []
  for tag, path, cname in CLASSES:
    sites, ambient = scan_class(repo, tag, path, cname)
    out.append('Definition rng_%s : rng_class := {| rc_name := %s;' % (tag, C.gstr(tag)))
    out.append('  rc_sites := %s;' % C.glist(sites, lambda s: '(%s, %s, %s)' % (C.gstr(s[0]), {'init': 'WInit', 'load': 'WLoad', 'other': 'WOther'}[s[1]], s[2])))
    out.append('  rc_ambient_reads := %s;' % C.glist(sorted(set(ambient)), C.gstr))
    # does load() rebuild every stream the constructor builds?  (wrappers that only forward the seed do not count)
    n_init = len([x for x in sites if x[1] == 'init' and 'from_problem' not in x[0] and '(field)' not in x[0]])
    n_load = len([x for x in sites if x[1] == 'load'])
    has_load = has_method(repo, path, cname, 'load')
    restores = has_load and (n_load >= n_init or tag in LOAD_STATE_INCLUDES_STREAM)
    out.append('  rc_has_load := %s; rc_load_restores_streams := %s |}.' % (C.gbool(has_load), C.gbool(restores)))
    names.append('rng_' + tag)
  out.append('Definition rng_classes : list rng_class := [%s].' % '; '.join(names))
  r, f = restore_passes_seed(repo)
  out.append('Definition policy_restore_passes_seed : bool := %s.' % C.gbool(r))
  out.append('Definition policy_first_designer_gets_seed : bool := %s.' % C.gbool(f))
  return '\n'.join(out) + '\n'


if __name__ == '__main__':
  import sys
  print(translate(sys.argv[1] if len(sys.argv) > 1 else '/repo'))
