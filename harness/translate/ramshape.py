"""Translator: vizier/_src/service/ram_datastore.py -> coq/Gen/RamShapes.v

For each of the 20 DataStore methods of NestedDictRAMDataStore a row of facts read off the source:
  locked        every access to self._owners (and every local derived from it) is lexically inside `with self._lock:`
  notfound      every such access is inside `try: ... except KeyError as err: raise custom_errors.NotFoundError(...) from err`
                (a missing owner / study / trial / client / operation is then NotFoundError; without it the KeyError escapes)
  exists_check  `if <key> in <stored dict>: raise custom_errors.AlreadyExistsError(...)` (or the else-branch form) guards the insertion
  missing_check `if <key> not in <stored dict>: raise custom_errors.NotFoundError(...)` precedes the store
  reads_copied  whatever is returned is a copy.deepcopy of the stored objects, a number, or the parsed resource name
  writes_copied whatever is stored was deep-copied from the argument (or freshly built)
  writes        the method stores / deletes something
  checks_first  (update_metadata) every existence check precedes every write
coq/Model/RamShape.v compares these rows with the error classes of the model's datastore primitives (`exec`) evaluated on a
state where the addressed container is missing / the addressed object exists, and requires copying in and out everywhere.
Fail-closed: statement shapes outside the ones handled below raise Fail.

Assumed by hand: custom_errors.NotFoundError / AlreadyExistsError are what the servicer maps to NOT_FOUND / ALREADY_EXISTS; a
KeyError raised by a dict lookup is the only KeyError inside the try blocks; copy.deepcopy copies.
"""
import ast
import os


class Fail(Exception):
  pass


METHODS = ['create_study', 'load_study', 'update_study', 'delete_study', 'list_studies', 'create_trial', 'get_trial', 'update_trial',
           'list_trials', 'delete_trial', 'max_trial_id', 'create_suggestion_operation', 'get_suggestion_operation',
           'update_suggestion_operation', 'list_suggestion_operations', 'max_suggestion_operation_number',
           'create_early_stopping_operation', 'get_early_stopping_operation', 'update_early_stopping_operation', 'update_metadata']
CTOR = {m: 'M' + ''.join(w.capitalize() for w in m.split('_')) for m in METHODS}


def src(n):
  return ast.unparse(n)


def mentions_store(n, tainted):
  for sub in ast.walk(n):
    if isinstance(sub, ast.Attribute) and src(sub) == 'self._owners':
      return True
    if isinstance(sub, ast.Name) and sub.id in tainted:
      return True
  return False


def strip_deepcopy(n):
  """The AST with every copy.deepcopy(...) call replaced by a constant (what remains is not copied)."""
  class T(ast.NodeTransformer):
    def visit_Call(self, node):
      if src(node.func) == 'copy.deepcopy':
        return ast.Constant(value=0)
      return self.generic_visit(node)
  import copy as _c
  return T().visit(_c.deepcopy(n))


def is_keyerror_wrapper(t):
  return (isinstance(t, ast.Try) and len(t.handlers) == 1 and src(t.handlers[0].type) == 'KeyError' and not t.orelse and not t.finalbody
          and len(t.handlers[0].body) == 1 and isinstance(t.handlers[0].body[0], ast.Raise)
          and src(t.handlers[0].body[0].exc).startswith('custom_errors.NotFoundError('))


def analyse(fn):
  params = [a.arg for a in fn.args.args if a.arg != 'self']
  tainted = set()       # locals that alias stored objects
  clean_locals = {}     # locals whose value is freshly built / deep-copied
  facts = dict(locked=True, notfound=None, exists_check=False, missing_check=False, reads_copied=True, writes_copied=True,
               writes=False, checks_first=True)
  accesses = []         # (in_lock, in_try) per statement that touches the store
  order = []            # 'check' / 'write' events in source order

  def value_clean(v):
    """v contains no parameter object and no stored object outside a deepcopy, after resolving clean locals."""
    bare = strip_deepcopy(v)
    for sub in ast.walk(bare):
      if isinstance(sub, ast.Name):
        if sub.id in clean_locals or sub.id in ('resource', 's_resource', 't_resource', 'ClientNode', 'OwnerNode', 'StudyNode', 'copy'):
          continue
        if sub.id in params or sub.id in tainted:
          # scalar keys (client_id, names) are immutable strings; only proto-valued parameters alias
          if sub.id in ('client_id', 'study_name', 'trial_name', 'operation_name', 'owner_name'):
            continue
          return False
    return True

  def visit(stmts, in_lock, in_try):
    for st in stmts:
      if isinstance(st, ast.Expr) and isinstance(st.value, ast.Constant):
        continue
      if isinstance(st, ast.Expr) and isinstance(st.value, ast.Call) and src(st.value.func).startswith('logging.'):
        continue
      if isinstance(st, ast.With):
        if len(st.items) == 1 and src(st.items[0].context_expr) == 'self._lock':
          visit(st.body, True, in_try)
          continue
        raise Fail('%s: with-statement on %s' % (fn.name, src(st.items[0].context_expr)))
      if isinstance(st, ast.Try):
        if not is_keyerror_wrapper(st):
          raise Fail('%s: try-statement that is not `except KeyError: raise NotFoundError`' % fn.name)
        visit(st.body, in_lock, True)
        continue
      if isinstance(st, ast.If):
        t = st.test
        touches = mentions_store(t, tainted)
        if touches:
          accesses.append((in_lock, in_try))
        # if <key> in <dict>: raise AlreadyExistsError   /  if <key> not in <dict>: raise NotFoundError / membership-guarded insertion
        if isinstance(t, ast.Compare) and len(t.ops) == 1 and isinstance(t.ops[0], (ast.In, ast.NotIn)):
          raises = [s for s in st.body + st.orelse if isinstance(s, ast.Raise)]
          for rz in raises:
            e = src(rz.exc)
            branch_is_body = rz in st.body
            positive = isinstance(t.ops[0], ast.In) == branch_is_body      # the raise happens when the key IS present
            if e.startswith('custom_errors.AlreadyExistsError(') and positive:
              facts['exists_check'] = True
              order.append('check')
            elif e.startswith('custom_errors.NotFoundError(') and not positive:
              facts['missing_check'] = True
              order.append('check')
            else:
              raise Fail('%s: raise %s under `%s`' % (fn.name, e[:60], src(t)))
          visit([s for s in st.body if not isinstance(s, ast.Raise)], in_lock, in_try)
          visit([s for s in st.orelse if not isinstance(s, ast.Raise)], in_lock, in_try)
          continue
        if src(t) == 'filter_fn is not None':
          visit(st.body, in_lock, in_try)
          visit(st.orelse, in_lock, in_try)
          continue
        raise Fail('%s: if-statement not understood: %s' % (fn.name, src(t)))
      if isinstance(st, ast.For):
        if mentions_store(st.iter, tainted):
          accesses.append((in_lock, in_try))
        it = strip_deepcopy(st.iter)
        if any(isinstance(sub, ast.Name) and sub.id in params for sub in ast.walk(it)):
          # iterating over a parameter without copying it: its elements alias the caller's objects
          for tg in ast.walk(st.target):
            if isinstance(tg, ast.Name):
              tainted.discard(tg.id)
        else:
          for tg in ast.walk(st.target):
            if isinstance(tg, ast.Name):
              clean_locals[tg.id] = True
        visit(st.body, in_lock, in_try)
        continue
      if isinstance(st, ast.Return):
        if st.value is None:
          continue
        if mentions_store(st.value, tainted):
          accesses.append((in_lock, in_try))
          bare = strip_deepcopy(st.value)
          if mentions_store(bare, tainted) and not (isinstance(st.value, ast.Call) and src(st.value.func) == 'len'):
            facts['reads_copied'] = False
        continue
      if isinstance(st, ast.Delete):
        for tg in st.targets:
          if not mentions_store(tg, tainted):
            raise Fail('%s: del of something that is not stored: %s' % (fn.name, src(tg)))
        accesses.append((in_lock, in_try))
        facts['writes'] = True
        order.append('write')
        continue
      if isinstance(st, (ast.Assign, ast.AnnAssign)):
        tgs = st.targets if isinstance(st, ast.Assign) else [st.target]
        v = st.value
        if len(tgs) != 1:
          raise Fail('%s: multiple assignment' % fn.name)
        tg = tgs[0]
        if isinstance(tg, ast.Name):
          if mentions_store(v, tainted):
            accesses.append((in_lock, in_try))
            if mentions_store(strip_deepcopy(v), tainted):
              tainted.add(tg.id)
            else:
              clean_locals[tg.id] = True
          elif value_clean(v):
            clean_locals[tg.id] = True
          continue
        # store into the nested dicts
        if mentions_store(tg, tainted):
          accesses.append((in_lock, in_try))
          facts['writes'] = True
          order.append('write')
          if not value_clean(v):
            facts['writes_copied'] = False
          continue
        raise Fail('%s: assignment target not understood: %s' % (fn.name, src(tg)))
      if isinstance(st, ast.Expr) and isinstance(st.value, ast.Call):
        c = st.value
        f = src(c.func)
        if f.endswith('.CopyFrom') or f.endswith('.update') or f.endswith('.append'):
          base = c.func.value
          if mentions_store(base, tainted):
            accesses.append((in_lock, in_try))
            facts['writes'] = True
            order.append('write')
            # protobuf CopyFrom copies by value; update / append store the argument itself
            if not f.endswith('.CopyFrom') and not all(value_clean(a) for a in c.args):
              facts['writes_copied'] = False
            continue
          if isinstance(base, ast.Subscript) and isinstance(base.value, ast.Name) and base.value.id in clean_locals:
            continue     # building a local collection
        if f in ('vz.metadata_util.merge_study_metadata', 'vz.metadata_util.merge_trial_metadata') and fn.name == 'update_metadata':
          if not mentions_store(c.args[0], tainted):
            raise Fail('update_metadata merges into something that is not stored')
          accesses.append((in_lock, in_try))
          facts['writes'] = True
          order.append('write')
          if not all(value_clean(a) for a in c.args[1:]):
            facts['writes_copied'] = False
          continue
      if isinstance(st, ast.Raise):
        raise Fail('%s: unconditional raise' % fn.name)
      raise Fail('%s: statement not understood: %s' % (fn.name, src(st)[:120]))

  visit(fn.body, False, False)
  if not accesses:
    raise Fail('%s never touches the store' % fn.name)
  facts['locked'] = all(a[0] for a in accesses)
  tries = {a[1] for a in accesses}
  if tries == {True}:
    facts['notfound'] = 'NfAll'
  elif tries == {False}:
    facts['notfound'] = 'NfNone'
  else:
    facts['notfound'] = 'NfPartial'
  if 'check' in order and 'write' in order:
    facts['checks_first'] = max(i for i, x in enumerate(order) if x == 'check') < min(i for i, x in enumerate(order) if x == 'write')
  return facts


def translate(repo):
  path = os.path.join(repo, 'vizier/_src/service/ram_datastore.py')
  tree = ast.parse(open(path).read())
  cls = [n for n in tree.body if isinstance(n, ast.ClassDef) and n.name == 'NestedDictRAMDataStore']
  if len(cls) != 1:
    raise Fail('class NestedDictRAMDataStore not found')
  fns = {n.name: n for n in cls[0].body if isinstance(n, ast.FunctionDef)}
  extra = sorted(set(fns) - set(METHODS) - {'__init__'})
  for name in extra:
    if any(isinstance(sub, ast.Attribute) and sub.attr == '_owners' for sub in ast.walk(fns[name])):
      raise Fail('method %s touches the store and is not a DataStore method' % name)
  # __init__ may only create the empty store and the lock
  init = [src(s) for s in fns['__init__'].body if not (isinstance(s, ast.Expr) and isinstance(s.value, ast.Constant))]
  if not all(s.startswith('self._owners: ') and s.endswith('= {}') or s == 'self._lock = threading.Lock()' for s in init):
    raise Fail('__init__ keeps more state than the nested dict and the lock: %r' % init)
  rows = []
  b = lambda x: 'true' if x else 'false'
  for m in METHODS:
    if m not in fns:
      raise Fail('method %s not found' % m)
    f = analyse(fns[m])
    rows.append('  (%s, mkRS %s %s %s %s %s %s %s %s)' % (CTOR[m], b(f['locked']), f['notfound'], b(f['exists_check']), b(f['missing_check']),
                                                        b(f['reads_copied']), b(f['writes_copied']), b(f['writes']), b(f['checks_first'])))
  out = ['(* GENERATED by harness/translate/ramshape.py from vizier/_src/service/ram_datastore.py -- do not edit *)',
         'From VZ Require Import Base.Prelude Model.RamShape.', 'Import ListNotations.',
         '(* method, mkRS locked notfound exists_check missing_check reads_copied writes_copied writes checks_first *)',
         'Definition ram_shapes : list (rmeth * rshape) := [', ';\n'.join(rows), '].']
  return '\n'.join(out) + '\n'


if __name__ == '__main__':
  import sys
  print(translate(sys.argv[1] if len(sys.argv) > 1 else '/repo'))
