"""Translator: vizier/_src/pythia/suggest_default.py -> coq/Gen/SuggestDefault.v

get_default_parameters: the branch structure (declared default first; then the indexed types; then DOUBLE with its
`num_feasible_values == 1` split) and the three value formulas - the index into feasible_values, the single-value
choice and the midpoint - as Gallina functions over nat / Q.  seed_with_default: the guard that seeds only an empty
study (`request.max_trial_id > 0` -> pass through) and the count handed to the wrapped policy.  Fail-closed: any other
statement shape, operator or name raises Fail.
"""
import ast
import os


class Fail(Exception):
  pass


TYPES = {'CATEGORICAL': 'PCategorical', 'INTEGER': 'PInteger', 'DISCRETE': 'PDiscrete', 'DOUBLE': 'PDouble'}


def is_pc_attr(e, attr):
  return isinstance(e, ast.Attribute) and isinstance(e.value, ast.Name) and e.value.id == 'pc' and e.attr == attr


def qexpr(e, env):
  """Expression over the bounds of `pc` -> Gallina term over Q (lo, hi)."""
  if isinstance(e, ast.Name):
    if e.id in env:
      return env[e.id]
    raise Fail('unknown name %s' % e.id)
  if isinstance(e, ast.Subscript) and is_pc_attr(e.value, 'bounds') and isinstance(e.slice, ast.Constant) and e.slice.value in (0, 1):
    return 'lo' if e.slice.value == 0 else 'hi'
  if isinstance(e, ast.BinOp):
    op = {ast.Add: '+', ast.Sub: '-', ast.Mult: '*', ast.Div: '/'}.get(type(e.op))
    if op is None:
      raise Fail('operator %s' % type(e.op).__name__)
    return '(%s %s %s)' % (qexpr(e.left, env), op, qexpr(e.right, env))
  if isinstance(e, ast.Constant) and isinstance(e.value, (int, float)) and not isinstance(e.value, bool) and float(e.value) == int(e.value) \
      and int(e.value) >= 0:
    return '(%d # 1)' % int(e.value)
  raise Fail('value expression %s' % ast.dump(e)[:100])


def nexpr(e):
  """Index expression over len(pc.feasible_values) -> Gallina term over nat (n)."""
  if isinstance(e, ast.Call) and isinstance(e.func, ast.Name) and e.func.id == 'len' and len(e.args) == 1 and is_pc_attr(e.args[0], 'feasible_values'):
    return 'n'
  if isinstance(e, ast.BinOp):
    op = {ast.Add: '+', ast.Sub: '-', ast.Mult: '*', ast.FloorDiv: '/'}.get(type(e.op))
    if op is None:
      raise Fail('index operator %s' % type(e.op).__name__)
    return '(%s %s %s)' % (nexpr(e.left), op, nexpr(e.right))
  if isinstance(e, ast.Constant) and isinstance(e.value, int) and not isinstance(e.value, bool) and 0 <= e.value < 1000:
    return '%d' % e.value
  raise Fail('index expression %s' % ast.dump(e)[:100])


def choose_arg(st):
  """`builder.choose_value(<expr>)` -> expr"""
  if isinstance(st, ast.Expr) and isinstance(st.value, ast.Call) and isinstance(st.value.func, ast.Attribute) \
      and st.value.func.attr == 'choose_value' and getattr(st.value.func.value, 'id', '') == 'builder' and len(st.value.args) == 1 \
      and not st.value.keywords:
    return st.value.args[0]
  raise Fail('expected builder.choose_value(...), found %s' % ast.dump(st)[:100])


def body_value(stmts, kind):
  """A branch body: optional local assignments then exactly one choose_value -> Gallina term."""
  env = {}
  for st in stmts[:-1]:
    if isinstance(st, ast.Assign) and len(st.targets) == 1 and isinstance(st.targets[0], ast.Name):
      env[st.targets[0].id] = qexpr(st.value, env)
    else:
      raise Fail('statement %s in a value branch' % type(st).__name__)
  arg = choose_arg(stmts[-1])
  if kind == 'q':
    return qexpr(arg, env)
  if isinstance(arg, ast.Subscript) and is_pc_attr(arg.value, 'feasible_values'):
    return nexpr(arg.slice)
  raise Fail('indexed branch does not index pc.feasible_values')


def type_names(e):
  """`pc.type in (vz.ParameterType.A, ...)` or `pc.type == vz.ParameterType.A` -> [A, ...]"""
  def one(x):
    if isinstance(x, ast.Attribute) and isinstance(x.value, ast.Attribute) and x.value.attr == 'ParameterType' and x.attr in TYPES:
      return TYPES[x.attr]
    raise Fail('parameter type %s' % ast.dump(x)[:80])
  if isinstance(e, ast.Compare) and len(e.ops) == 1 and is_pc_attr(e.left, 'type'):
    if isinstance(e.ops[0], ast.In) and isinstance(e.comparators[0], (ast.Tuple, ast.List)):
      return [one(x) for x in e.comparators[0].elts]
    if isinstance(e.ops[0], ast.Eq):
      return [one(e.comparators[0])]
  raise Fail('type test %s' % ast.dump(e)[:100])


def translate(repo):
  path = os.path.join(repo, 'vizier/_src/pythia/suggest_default.py')
  tree = ast.parse(open(path).read())
  fns = {n.name: n for n in tree.body if isinstance(n, ast.FunctionDef)}
  if 'get_default_parameters' not in fns or 'seed_with_default' not in fns:
    raise Fail('get_default_parameters / seed_with_default not found')
  g = fns['get_default_parameters']
  body = [st for st in g.body if not (isinstance(st, ast.Expr) and isinstance(st.value, ast.Constant))]
  if len(body) != 3 or not isinstance(body[0], ast.Assign) or not isinstance(body[1], ast.For) or not isinstance(body[2], ast.Return):
    raise Fail('get_default_parameters is not `builder = ...; for pc in builder: ...; return builder.parameters`')
  mk = body[0].value
  if not (isinstance(mk, ast.Call) and isinstance(mk.func, ast.Attribute) and mk.func.attr == 'SequentialParameterBuilder' and len(mk.args) == 1
          and not mk.keywords):
    raise Fail('builder construction changed')
  if not (isinstance(body[2].value, ast.Attribute) and body[2].value.attr == 'parameters' and getattr(body[2].value.value, 'id', '') == 'builder'):
    raise Fail('return value changed')
  loop = body[1]
  if not (isinstance(loop.target, ast.Name) and loop.target.id == 'pc' and getattr(loop.iter, 'id', '') == 'builder' and len(loop.body) == 1
          and isinstance(loop.body[0], ast.If) and not loop.orelse):
    raise Fail('loop shape changed')
  i1 = loop.body[0]
  # branch 1: declared default
  t = i1.test
  if not (isinstance(t, ast.Compare) and is_pc_attr(t.left, 'default_value') and isinstance(t.ops[0], ast.IsNot)
          and isinstance(t.comparators[0], ast.Constant) and t.comparators[0].value is None):
    raise Fail('first branch is not `pc.default_value is not None`')
  if len(i1.body) != 1 or not is_pc_attr(choose_arg(i1.body[0]), 'default_value'):
    raise Fail('declared default is not chosen as it is')
  if len(i1.orelse) != 1 or not isinstance(i1.orelse[0], ast.If):
    raise Fail('branch 2 missing')
  i2 = i1.orelse[0]
  indexed = type_names(i2.test)
  index_term = body_value(i2.body, 'n')
  if len(i2.orelse) != 1 or not isinstance(i2.orelse[0], ast.If):
    raise Fail('branch 3 missing')
  i3 = i2.orelse[0]
  if type_names(i3.test) != ['PDouble'] or i3.orelse:
    raise Fail('branch 3 is not the DOUBLE branch, or a further branch exists')
  if len(i3.body) != 1 or not isinstance(i3.body[0], ast.If):
    raise Fail('DOUBLE branch shape changed')
  i4 = i3.body[0]
  t = i4.test
  if not (isinstance(t, ast.Compare) and is_pc_attr(t.left, 'num_feasible_values') and isinstance(t.ops[0], ast.Eq)
          and isinstance(t.comparators[0], ast.Constant) and t.comparators[0].value == 1):
    raise Fail('DOUBLE split is not `pc.num_feasible_values == 1`')
  single = body_value(i4.body, 'q')
  mid = body_value(i4.orelse, 'q')
  # seed_with_default.wrapper_fn
  w = [n for n in ast.walk(fns['seed_with_default']) if isinstance(n, ast.FunctionDef) and n.name == 'wrapper_fn']
  if len(w) != 1:
    raise Fail('wrapper_fn not found')
  wb = [st for st in w[0].body if not (isinstance(st, ast.Expr) and isinstance(st.value, ast.Constant))]
  g0 = wb[0]
  if not (isinstance(g0, ast.If) and isinstance(g0.test, ast.Compare) and isinstance(g0.test.ops[0], ast.Gt)
          and isinstance(g0.test.left, ast.Attribute) and g0.test.left.attr == 'max_trial_id'
          and isinstance(g0.test.comparators[0], ast.Constant) and g0.test.comparators[0].value == 0
          and len(g0.body) == 1 and isinstance(g0.body[0], ast.Return)):
    raise Fail('the pass-through guard is not `if request.max_trial_id > 0: return suggest_fn(self, request)`')
  src = ast.unparse(w[0])
  if 'get_default_parameters(request.study_config.search_space)' not in ''.join(src.split()):
    raise Fail('the default is not computed from request.study_config.search_space')
  if 'SuggestDecision([vz.TrialSuggestion(default_parameters)])' not in ''.join(src.split()):
    raise Fail('the decision does not start with the default suggestion')
  more = [n for n in ast.walk(w[0]) if isinstance(n, ast.If) and isinstance(n.test, ast.Compare) and isinstance(n.test.left, ast.Attribute)
          and n.test.left.attr == 'count']
  if len(more) != 1 or not isinstance(more[0].test.ops[0], ast.Gt) or more[0].test.comparators[0].value != 1:
    raise Fail('the `request.count > 1` branch changed')
  ev = [n for n in ast.walk(more[0]) if isinstance(n, ast.keyword) and n.arg == 'count']
  if len(ev) != 1 or ast.unparse(ev[0].value) != 'request.count - 1':
    raise Fail('the wrapped policy is not asked for count - 1 further suggestions')
  out = ['(* GENERATED by harness/translate/suggdefault.py from vizier/_src/pythia/suggest_default.py -- do not edit *)',
         'From Coq Require Import QArith List Arith.', 'Import ListNotations.',
         'Inductive dptype := PDouble | PInteger | PCategorical | PDiscrete.',
         '(* get_default_parameters: 1. a declared default value is chosen as it is; 2. these types choose feasible_values[default_index (len)] *)',
         'Definition declared_default_first : bool := true.',
         'Definition indexed_types : list dptype := [%s].' % '; '.join(indexed),
         'Definition default_index (n : nat) : nat := %s%%nat.' % index_term,
         '(* 3. DOUBLE: `pc.num_feasible_values == 1` chooses double_single, otherwise double_mid *)',
         'Definition double_single (lo hi : Q) : Q := (%s)%%Q.' % single,
         'Definition double_mid (lo hi : Q) : Q := (%s)%%Q.' % mid,
         '(* seed_with_default: a study with max_trial_id > 0 is passed through; an empty one gets the default first and the wrapped',
         '   policy is asked for count - 1 more when count > 1 *)',
         'Definition seeds_only_empty_study : bool := true.',
         'Definition rest_count (count : nat) : nat := (count - 1)%nat.']
  return '\n'.join(out) + '\n'
