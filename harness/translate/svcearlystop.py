"""Translator: vizier/_src/service/vizier_service.py (VizierServicer.CheckTrialEarlyStoppingState) -> coq/Gen/EarlyStopSrc.v

Block by block, like svcsuggest.py: the body of the method must consist, in this order, of exactly the statements listed below
(compared as parsed code); each group of statements is one block of coq/Model/EarlyStopIR.v.  coq/Proofs/EarlyStopIRP.v proves
that the program the sequence of blocks denotes is the model's h_check_early_stop, node for node.

Assumed by hand: the meaning given to each block in Model/EarlyStopIR.v; that `utcnow() - completion_time < recycle period` is the
negation of the model's `recycle` flag (time is not modelled; the harness runs with period 0 or 10 hours); that the study
specs of the harness never carry an automated_stopping_spec other than the default (the `raise ValueError` of a misconfigured
one is pinned in the text but has no counterpart in the model).
"""
import ast
import os

from harness.translate.svcsuggest import Fail, src


def seq(tokens, ctor):
  tokens = [t for t in tokens if t]
  out = tokens[-1]
  for t in reversed(tokens[:-1]):
    out = '(%s %s %s)' % (ctor, t, out)
  return out


LOCKS = {'WITH_STUDY': ('self._study_name_to_lock[study_name]', 'VWithStudyLock'), 'WITH_OP': ('self._operation_lock[study_name]', 'VWithOpLock')}
DONE = ['output_operation.status = vizier_oss_pb2.EarlyStoppingOperation.Status.DONE',
        'output_operation.completion_time.CopyFrom(_get_current_time())',
        'self.datastore.update_early_stopping_operation(output_operation)']
IND = '\n    '
SPEC = [
    (['trial_resource = TrialResource.from_name(request.trial_name)', 'study_name = trial_resource.study_resource.name'], None),
    (["if self._study_is_immutable(study_name):\n    e = custom_errors.ImmutableStudyError('Study {} is immutable. Cannot early stop trial.'.format(study_name))\n    grpc_util.handle_exception(e, context)"], 'VGuardStudy'),
    ('WITH_STUDY', [
        (['trial = self.datastore.get_trial(request.trial_name)'], 'VGetTrial'),
        (["if trial.state not in self._TRIAL_MUTABLE_STATES:\n    e = custom_errors.ImmutableTrialError('Trial {} has state {}. Only trials in state ACTIVE or STOPPING can be completed.'.format(request.trial_name, study_pb2.Trial.State.Name(trial.state)))\n    grpc_util.handle_exception(e, context)"], 'VRequireMutable')]),
    (['outer_op_name = trial_resource.early_stopping_operation_resource.name'], None),
    ('WITH_OP', [
        (['try:\n    output_operation = self.datastore.get_early_stopping_operation(outer_op_name)\nexcept KeyError:\n    output_operation = None'], 'VFindOperation'),
        (['if output_operation is None:\n'
          '    output_operation = vizier_oss_pb2.EarlyStoppingOperation(name=outer_op_name, status=vizier_oss_pb2.EarlyStoppingOperation.Status.ACTIVE, should_stop=False)\n'
          '    output_operation.creation_time.CopyFrom(_get_current_time())\n'
          '    self.datastore.create_early_stopping_operation(output_operation)\n'
          'else:\n'
          '    if output_operation.status == vizier_oss_pb2.EarlyStoppingOperation.Status.ACTIVE or datetime.datetime.utcnow() - output_operation.completion_time.ToDatetime() < self._early_stop_recycle_period:\n'
          '        return vizier_service_pb2.CheckTrialEarlyStoppingStateResponse(should_stop=output_operation.should_stop)\n'
          '    output_operation.status = vizier_oss_pb2.EarlyStoppingOperation.Status.ACTIVE\n'
          '    output_operation.should_stop = False\n'
          '    self.datastore.update_early_stopping_operation(output_operation)'], 'VCreateOrAnswerOrRecycle'),
        (['study = self.datastore.load_study(study_name)'], 'VLoadStudy'),
        (['study_config = svz.StudyConfig.from_proto(study.study_spec)'], None),
        (['study_descriptor = vz.StudyDescriptor(config=study_config, guid=study_name, max_trial_id=self.datastore.max_trial_id(study_name))'], 'VMaxTrialIdForRequest'),
        (['early_stop_request = pythia.EarlyStopRequest(study_descriptor=study_descriptor, trial_ids=[trial_resource.trial_id])',
          'early_stop_request_proto = svz.EarlyStopConverter.to_request_proto(early_stop_request)',
          "spec_name = study.study_spec.WhichOneof('automated_stopping_spec') or 'default_stopping_spec'",
          "if spec_name == 'default_stopping_spec':\n    early_stop_request_proto.algorithm = 'RANDOM_SEARCH'\nelse:\n    raise ValueError(f'Misconfigured automated_stopping_spec: {study.study_spec}')",
          'try:\n    temp_pythia_service = self._select_pythia_service(study_config.pythia_endpoint)\n    early_stopping_decisions_proto = temp_pythia_service.EarlyStop(early_stop_request_proto)\nexcept Exception as e:' + IND + IND.join(DONE) + IND + 'grpc_util.handle_exception(e, context)'],
         'VCallPythiaOrFinishAndRaise'),
        (['early_stopping_decisions = svz.EarlyStopConverter.from_decisions_proto(early_stopping_decisions_proto)'], None),
        (['try:\n    with self._study_name_to_lock[study_name]:\n        self.datastore.update_metadata(study_name, svz.metadata_util.make_key_value_list(early_stopping_decisions.metadata.on_study), svz.metadata_util.trial_metadata_to_update_list(early_stopping_decisions.metadata.on_trials))\nexcept (KeyError, ValueError) as e:'
          + IND + IND.join(DONE) + IND + 'grpc_util.handle_exception(e, context)'], 'VUpdateMdOrFinishAndRaise'),
        (['for early_stopping_decision in early_stopping_decisions.decisions:\n'
          '    inner_op_name = resources.EarlyStoppingOperationResource(trial_resource.owner_id, trial_resource.study_id, early_stopping_decision.id).name\n'
          '    try:\n'
          '        inner_operation = self.datastore.get_early_stopping_operation(inner_op_name)\n'
          '    except KeyError:\n'
          '        inner_operation = vizier_oss_pb2.EarlyStoppingOperation(name=inner_op_name, status=vizier_oss_pb2.EarlyStoppingOperation.Status.ACTIVE, should_stop=False)\n'
          '        inner_operation.creation_time.CopyFrom(_get_current_time())\n'
          '        self.datastore.create_early_stopping_operation(inner_operation)\n'
          '    inner_operation.should_stop = early_stopping_decision.should_stop\n'
          '    inner_operation.status = vizier_oss_pb2.EarlyStoppingOperation.Status.DONE\n'
          '    inner_operation.completion_time.CopyFrom(_get_current_time())\n'
          '    self.datastore.update_early_stopping_operation(inner_operation)'], 'VDecisionsLoop'),
        (['output_operation = self.datastore.get_early_stopping_operation(output_operation.name)'], 'VReloadOperation'),
        (['if output_operation.status == vizier_oss_pb2.EarlyStoppingOperation.Status.ACTIVE:' + IND + IND.join(DONE)], 'VFinishIfStillActive'),
        (['return vizier_service_pb2.CheckTrialEarlyStoppingStateResponse(should_stop=output_operation.should_stop)'], 'VReturnShouldStop')]),
]


def match(stmts, spec, where):
  i = 0
  tokens = []
  for item in spec:
    if isinstance(item[0], str) and item[0] in LOCKS:
      expr, ctor = LOCKS[item[0]]
      if i >= len(stmts) or not isinstance(stmts[i], ast.With) or len(stmts[i].items) != 1 or \
          src(stmts[i].items[0].context_expr) != expr or stmts[i].items[0].optional_vars is not None:
        raise Fail('%s: expected `with %s:` as statement %d, found: %s' % (where, expr, i, src(stmts[i])[:100] if i < len(stmts) else 'end of block'))
      tokens.append('(%s %s)' % (ctor, seq(match(stmts[i].body, item[1], where + ' / ' + expr), 'VSeq')))
      i += 1
      continue
    texts, tok = item
    for t in texts:
      if i >= len(stmts):
        raise Fail('%s: statement missing: %s' % (where, t[:100]))
      got = src(stmts[i])
      if got != t:
        raise Fail('%s: statement %d differs from the text the model was written from.\n  expected: %s\n  found:    %s' % (where, i, t[:300], got[:300]))
      i += 1
    tokens.append(tok)
  if i != len(stmts):
    raise Fail('%s: %d unexpected statement(s) at the end: %s' % (where, len(stmts) - i, src(stmts[i])[:120]))
  return tokens


def translate(repo):
  path = os.path.join(repo, 'vizier/_src/service/vizier_service.py')
  tree = ast.parse(open(path).read())
  cls = [n for n in tree.body if isinstance(n, ast.ClassDef) and n.name == 'VizierServicer']
  if len(cls) != 1:
    raise Fail('class VizierServicer not found')
  fn = [n for n in cls[0].body if isinstance(n, ast.FunctionDef) and n.name == 'CheckTrialEarlyStoppingState']
  if len(fn) != 1 or [a.arg for a in fn[0].args.args] != ['self', 'request', 'context'] or fn[0].decorator_list:
    raise Fail('CheckTrialEarlyStoppingState(self, request, context) not found')
  body = [s for s in fn[0].body if not (isinstance(s, ast.Expr) and isinstance(s.value, ast.Constant))]
  term = seq(match(body, SPEC, 'CheckTrialEarlyStoppingState'), 'VSeq')
  out = ['(* GENERATED by harness/translate/svcearlystop.py from vizier/_src/service/vizier_service.py -- do not edit *)',
         'From VZ Require Import Base.Prelude Model.Service Model.EarlyStopIR.',
         'Definition src_CheckTrialEarlyStoppingState : vblock :=\n  %s.' % term]
  return '\n'.join(out) + '\n'


if __name__ == '__main__':
  import sys
  print(translate(sys.argv[1] if len(sys.argv) > 1 else '/repo'))
