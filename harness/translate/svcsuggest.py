"""Translator: vizier/_src/service/vizier_service.py (VizierServicer.SuggestTrials) -> coq/Gen/SuggestSrc.v

SuggestTrials is too entangled with proto plumbing for the statement language of svchandlers.py; it is translated block by
block instead.  The body of the method must consist, in this order, of exactly the statements listed in BLOCKS below (compared
as parsed code: comments, blank lines and line breaks do not matter); each group of statements is one block of
coq/Model/SuggestIR.v.  The translator writes the sequence of blocks it found - with the lock each sits under - and
coq/Proofs/SuggestIRP.v proves that the program this sequence denotes is the model's h_suggest, node for node.  Any edit inside a
block is refused (Fail); a block that is moved, dropped, duplicated or put under another lock changes the denoted program and
breaks the proof.

Assumed by hand: the meaning given to each block in Model/SuggestIR.v (e.g. that `requested_trials.pop()` takes the LAST queued
trial, that an exception of the Pythia call is caught by `except Exception`, that the conversions between protos and pyvizier
objects lose nothing the model keeps) - tied dynamically by the trace-level correspondence of C01 / C02 / C06.
"""
import ast
import os


class Fail(Exception):
  pass


def src(n):
  return ast.unparse(n)


TOP = [
    (['study_name = request.parent'], None),
    (["if self._study_is_immutable(study_name):\n    e = custom_errors.ImmutableStudyError('Study {} is immutable. Cannot suggest trial.'.format(study_name))\n    grpc_util.handle_exception(e, context)"], 'UGuardStudy'),
    (['study_resource = StudyResource.from_name(study_name)', 'study_id = study_resource.study_id', 'owner_id = study_resource.owner_id'], None),
]
FINISH = ['output_op.done = True', 'self.datastore.update_suggestion_operation(output_op)', 'return output_op']
ERR = ['output_op.error.CopyFrom(status_pb2.Status(code=code_pb2.Code.INTERNAL, message=_error_text(e)))']
BODY = [
    (['study = self.datastore.load_study(request.parent)'], 'ULoadStudy'),
    (['active_op_filter_fn = lambda op: not op.done',
      'try:\n    active_op_list = self.datastore.list_suggestion_operations(study_name, request.client_id, active_op_filter_fn)\nexcept custom_errors.NotFoundError:\n    active_op_list = []'],
     'UFindActiveOps'),
    (['if active_op_list:\n    return active_op_list[0]'], 'UReturnFirstActiveOpIfAny'),
    (['start_time = _get_current_time()'], None),
    (['try:\n    old_op_number = self.datastore.max_suggestion_operation_number(study_name, request.client_id)\nexcept custom_errors.NotFoundError:\n    old_op_number = 0',
      'new_op_number = old_op_number + 1'], 'UNextOpNumber'),
    (['new_op_name = resources.SuggestionOperationResource(owner_id, study_id, request.client_id, new_op_number).name',
      'output_op = operations_pb2.Operation(name=new_op_name, done=False)',
      'self.datastore.create_suggestion_operation(output_op)'], 'UCreateOp'),
    (['all_trials = self.datastore.list_trials(study_name)',
      'active_trials = [t for t in all_trials if t.state == study_pb2.Trial.State.ACTIVE and t.client_id == request.client_id]'], 'UListOwnActive'),
    (['if len(active_trials) >= request.suggestion_count:\n'
      '    output_op.response.value = vizier_service_pb2.SuggestTrialsResponse(trials=active_trials[:request.suggestion_count], start_time=start_time).SerializeToString()\n'
      '    ' + '\n    '.join(FINISH)], 'UIfEnoughOwnFinish'),
    (['output_trials = active_trials'], 'UOutputFromOwn'),
    ('WITH_STUDY', [
        (['requested_trials = [t for t in self.datastore.list_trials(study_name) if t.state == study_pb2.Trial.State.REQUESTED]'], 'UListRequested'),
        (['while requested_trials and request.suggestion_count > len(output_trials):\n'
          '    assigned_trial = requested_trials.pop()\n'
          '    assigned_trial.state = study_pb2.Trial.State.ACTIVE\n'
          '    assigned_trial.client_id = request.client_id\n'
          '    assigned_trial.start_time.CopyFrom(start_time)\n'
          '    self.datastore.update_trial(assigned_trial)\n'
          '    output_trials.append(assigned_trial)'], 'UAssignLoop')]),
    (['if len(output_trials) == request.suggestion_count:\n'
      '    output_op.response.value = vizier_service_pb2.SuggestTrialsResponse(trials=output_trials, start_time=start_time).SerializeToString()\n'
      '    ' + '\n    '.join(FINISH)], 'UIfEnoughOutputFinish'),
    (['study_config = svz.StudyConfig.from_proto(study.study_spec)'], None),
    (['study_descriptor = vz.StudyDescriptor(config=study_config, guid=study_name, max_trial_id=self.datastore.max_trial_id(study_name))'], 'UMaxTrialIdForRequest'),
    (['suggest_request = pythia.SuggestRequest(study_descriptor=study_descriptor, count=request.suggestion_count - len(output_trials))',
      'suggest_request_proto = svz.SuggestConverter.to_request_proto(suggest_request)',
      'suggest_request_proto.algorithm = study.study_spec.algorithm',
      'try:\n'
      '    temp_pythia_service = self._select_pythia_service(study_config.pythia_endpoint)\n'
      '    suggest_decision_proto = temp_pythia_service.Suggest(suggest_request_proto)\n'
      'except Exception as e:\n'
      '    ' + ERR[0] + '\n'
      "    logging.exception('Failed to request trials from Pythia for request: %s', request)\n"
      '    ' + '\n    '.join(FINISH)], 'UCallPythiaOrFinishWithError'),
    (["if len(suggest_decision_proto.suggestions) < request.suggestion_count - len(output_trials):\n"
      "    logging.warning('Requested at least %d suggestions but Pythia only produced %d.', request.suggestion_count - len(output_trials), len(suggest_decision_proto.suggestions))",
      'suggest_decision = svz.SuggestConverter.from_decision_proto(suggest_decision_proto)'], None),
    (['try:\n'
      '    with self._study_name_to_lock[study_name]:\n'
      '        self.datastore.update_metadata(study_name, svz.metadata_util.make_key_value_list(suggest_decision.metadata.on_study), svz.metadata_util.trial_metadata_to_update_list(suggest_decision.metadata.on_trials))\n'
      'except (KeyError, ValueError) as e:\n'
      '    ' + ERR[0] + '\n'
      "    logging.exception('Failed to write metadata update to datastore: %s', suggest_decision.metadata)\n"
      '    ' + '\n    '.join(FINISH)], 'UUpdateMdOrFinishWithError'),
    (['new_py_trials = [decision.to_trial() for decision in suggest_decision.suggestions]',
      'new_trials = svz.TrialConverter.to_protos(new_py_trials)'], None),
    ('WITH_STUDY', [
        (['while new_trials and request.suggestion_count > len(output_trials):\n'
          '    new_trial = new_trials.pop()\n'
          '    trial_id = self.datastore.max_trial_id(request.parent) + 1\n'
          '    new_trial.id = str(trial_id)\n'
          '    new_trial.name = TrialResource(owner_id, study_id, trial_id).name\n'
          '    new_trial.state = study_pb2.Trial.State.ACTIVE\n'
          '    new_trial.start_time.CopyFrom(start_time)\n'
          '    new_trial.client_id = request.client_id\n'
          '    self.datastore.create_trial(new_trial)\n'
          '    output_trials.append(new_trial)'], 'UCreateLoop'),
        (['output_op.response.value = vizier_service_pb2.SuggestTrialsResponse(trials=output_trials, start_time=start_time).SerializeToString()'], None),
        (['for remain_trial in new_trials:\n'
          '    trial_id = self.datastore.max_trial_id(request.parent) + 1\n'
          '    remain_trial.id = str(trial_id)\n'
          '    remain_trial.name = TrialResource(owner_id, study_id, trial_id).name\n'
          '    remain_trial.state = study_pb2.Trial.State.REQUESTED\n'
          '    self.datastore.create_trial(remain_trial)'], 'URemainLoop')]),
    (FINISH, 'UFinish'),
]


def seq(tokens):
  tokens = [t for t in tokens if t]
  out = tokens[-1]
  for t in reversed(tokens[:-1]):
    out = '(USeq %s %s)' % (t, out)
  return out


def match(stmts, spec, where):
  """stmts: list of ast statements; spec: list of (texts, token) / ('WITH_STUDY', spec).  Returns the list of tokens."""
  i = 0
  tokens = []
  for item in spec:
    if item[0] == 'WITH_STUDY':
      if i >= len(stmts) or not isinstance(stmts[i], ast.With) or len(stmts[i].items) != 1 or \
          src(stmts[i].items[0].context_expr) != 'self._study_name_to_lock[study_name]' or stmts[i].items[0].optional_vars is not None:
        raise Fail('%s: expected `with self._study_name_to_lock[study_name]:` as statement %d, found: %s' % (
            where, i, src(stmts[i])[:100] if i < len(stmts) else 'end of block'))
      tokens.append('(UWithStudyLock %s)' % seq(match(stmts[i].body, item[1], where + ' / study lock')))
      i += 1
      continue
    texts, tok = item
    for t in texts:
      if i >= len(stmts):
        raise Fail('%s: statement missing: %s' % (where, t[:100]))
      got = src(stmts[i])
      if got != t:
        raise Fail('%s: statement %d differs from the text the model was written from.\n  expected: %s\n  found:    %s' % (where, i, t[:300], got[:300]))
      i += 1
    tokens.append(tok)
  if i != len(stmts):
    raise Fail('%s: %d unexpected statement(s) at the end: %s' % (where, len(stmts) - i, src(stmts[i])[:120]))
  return tokens


def translate(repo):
  path = os.path.join(repo, 'vizier/_src/service/vizier_service.py')
  tree = ast.parse(open(path).read())
  cls = [n for n in tree.body if isinstance(n, ast.ClassDef) and n.name == 'VizierServicer']
  if len(cls) != 1:
    raise Fail('class VizierServicer not found')
  fn = [n for n in cls[0].body if isinstance(n, ast.FunctionDef) and n.name == 'SuggestTrials']
  if len(fn) != 1 or [a.arg for a in fn[0].args.args] != ['self', 'request', 'context'] or fn[0].decorator_list:
    raise Fail('SuggestTrials(self, request, context) not found')
  body = [s for s in fn[0].body if not (isinstance(s, ast.Expr) and isinstance(s.value, ast.Constant))]
  if not body or not isinstance(body[-1], ast.With) or len(body[-1].items) != 1 or \
      src(body[-1].items[0].context_expr) != 'self._operation_lock[request.parent]' or body[-1].items[0].optional_vars is not None:
    raise Fail('SuggestTrials does not end with `with self._operation_lock[request.parent]:`')
  top = match(body[:-1], TOP, 'SuggestTrials')
  inner = match(body[-1].body, BODY, 'SuggestTrials / operation lock')
  term = seq(top + ['(UWithOpLock %s)' % seq(inner)])
  out = ['(* GENERATED by harness/translate/svcsuggest.py from vizier/_src/service/vizier_service.py -- do not edit *)',
         'From VZ Require Import Base.Prelude Model.Service Model.SuggestIR.',
         'Definition src_SuggestTrials : ublock :=\n  %s.' % term]
  return '\n'.join(out) + '\n'


if __name__ == '__main__':
  import sys
  print(translate(sys.argv[1] if len(sys.argv) > 1 else '/repo'))
