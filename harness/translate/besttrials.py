"""Translator: InRamPolicySupporter.GetBestTrials (vizier/_src/pythia/local_policy_supporters.py) -> coq/Gen/BestTrialsSrc.v

The tests of the local is_candidate (which trials can be optimal at all), and every attribute of the supporter the query
reads or writes.  The result is a term of coq/Model/BestTrials.v; coq/Proofs/BestTrialsP.v proves that the candidate tests
mean "successfully completed and reports every objective as a number", that the query is a function of the current trials
and the study configuration (it reads nothing else and writes nothing - no memo), and that the non-dominated candidates are
exactly the trials the property describes.  Fail-closed.

Assumed by hand: Trial.is_completed / infeasible / final_measurement; np.isnan; the selection among the candidates is done by
the single-objective maximum or FastParetoOptimalAlgorithm (their own theorems and the C11 correspondence stages).
"""
import ast
import os


class Fail(Exception):
  pass


def src(n):
  return ast.unparse(n)


OR_TESTS = {'not t.is_completed': 'CNotCompleted', 't.infeasible': 'CInfeasible', 't.final_measurement is None': 'CNoFinal'}
READS = {'study_config': 'AStudyConfig', 'trials': 'ATrials', '_trials': 'ATrials', '_study_config': 'AStudyConfig'}


def translate(repo):
  tree = ast.parse(open(os.path.join(repo, 'vizier/_src/pythia/local_policy_supporters.py')).read())
  cls = [n for n in tree.body if isinstance(n, ast.ClassDef) and n.name == 'InRamPolicySupporter']
  if len(cls) != 1:
    raise Fail('InRamPolicySupporter not found')
  fn = [n for n in cls[0].body if isinstance(n, ast.FunctionDef) and n.name == 'GetBestTrials']
  if len(fn) != 1:
    raise Fail('GetBestTrials not found')
  fn = fn[0]
  inner = [n for n in fn.body if isinstance(n, ast.FunctionDef) and n.name == 'is_candidate']
  if len(inner) != 1:
    raise Fail('is_candidate not found in GetBestTrials')
  ib = [s for s in inner[0].body if not (isinstance(s, ast.Expr) and isinstance(s.value, ast.Constant))]
  tests = []
  if len(ib) != 3:
    raise Fail('is_candidate: shape changed: %r' % [src(s)[:60] for s in ib])
  first = ib[0]
  if not (isinstance(first, ast.If) and not first.orelse and [src(s) for s in first.body] == ['return False']):
    raise Fail('is_candidate: first test does not return False')
  parts = first.test.values if isinstance(first.test, ast.BoolOp) and isinstance(first.test.op, ast.Or) else [first.test]
  for p in parts:
    if src(p) not in OR_TESTS:
      raise Fail('is_candidate: test not understood: %s' % src(p))
    tests.append(OR_TESTS[src(p)])
  if src(ib[1]) != 'metrics = t.final_measurement.metrics':
    raise Fail('is_candidate: %s' % src(ib[1])[:80])
  ret = ib[2]
  if not (isinstance(ret, ast.Return) and isinstance(ret.value, ast.Call) and src(ret.value.func) == 'all' and len(ret.value.args) == 1
          and isinstance(ret.value.args[0], (ast.GeneratorExp, ast.ListComp))):
    raise Fail('is_candidate: does not end with all(... for name in objective_names)')
  comp = ret.value.args[0]
  if len(comp.generators) != 1 or comp.generators[0].ifs or src(comp.generators[0].iter) != 'objective_names' or src(comp.generators[0].target) != 'name':
    raise Fail('is_candidate: ranges over %s' % src(comp.generators[0].iter))
  elt = comp.elt
  conj = elt.values if isinstance(elt, ast.BoolOp) and isinstance(elt.op, ast.And) else [elt]
  for c in conj:
    t = src(c)
    if t == 'name in metrics':
      tests.append('CObjectiveMissing')
    elif t in ('not np.isnan(metrics[name].value)', 'not math.isnan(metrics[name].value)'):
      tests.append('CObjectiveNaN')
    else:
      raise Fail('is_candidate: per-objective test not understood: %s' % t)
  # objective_names and the candidate list
  texts = {src(s) for s in fn.body}
  if 'objective_names = [m.name for m in self.study_config.metric_information.of_type(vz.MetricType.OBJECTIVE)]' not in texts:
    raise Fail('objective_names is not the list of OBJECTIVE metric names')
  if 'candidates = [t for t in self.trials if is_candidate(t)]' not in texts:
    raise Fail('candidates are not [t for t in self.trials if is_candidate(t)]')
  # attributes of self: reads and writes (the whole function, helper included)
  reads, writes = [], []
  stores = set()
  for n in ast.walk(fn):
    targets = []
    if isinstance(n, ast.Assign):
      targets = n.targets
    elif isinstance(n, (ast.AugAssign, ast.AnnAssign)):
      targets = [n.target]
    elif isinstance(n, ast.Delete):
      targets = n.targets
    for t in targets:
      for m in ast.walk(t):
        if isinstance(m, ast.Attribute) and isinstance(m.value, ast.Name) and m.value.id == 'self':
          stores.add(id(m))
          writes.append(READS.get(m.attr, 'AOther'))
  for n in ast.walk(fn):
    if isinstance(n, ast.Attribute) and isinstance(n.value, ast.Name) and n.value.id == 'self' and id(n) not in stores:
      reads.append(READS.get(n.attr, 'AOther'))
    if isinstance(n, ast.Call) and isinstance(n.func, ast.Name) and n.func.id in ('setattr', 'getattr', 'vars') and n.args and src(n.args[0]) == 'self':
      reads.append('AOther')
  # decorators (a memoising decorator is state outside the body)
  if fn.decorator_list:
    raise Fail('GetBestTrials is decorated: %s' % ', '.join(src(d) for d in fn.decorator_list))
  # the result must be computed in this function: it must not delegate to another method of self
  for n in ast.walk(fn):
    if isinstance(n, ast.Call) and isinstance(n.func, ast.Attribute) and isinstance(n.func.value, ast.Name) and n.func.value.id == 'self':
      raise Fail('GetBestTrials delegates to self.%s(...)' % n.func.attr)
  out = ['(* GENERATED by harness/translate/besttrials.py from vizier/_src/pythia/local_policy_supporters.py -- do not edit *)',
         'From VZ Require Import Base.Prelude Base.XFloat Model.Pareto Model.BestTrials.',
         'Definition src_best : best_src :=',
         '  {| bs_tests := [%s];' % '; '.join(tests),
         '     bs_reads := [%s];' % '; '.join(reads),
         '     bs_writes := [%s] |}.' % '; '.join(writes)]
  return '\n'.join(out) + '\n'


if __name__ == '__main__':
  import sys
  sys.stdout.write(translate(sys.argv[1] if len(sys.argv) > 1 else '/repo'))
