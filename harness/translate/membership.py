"""Translator: ParameterConfig.contains (vizier/_src/pyvizier/shared/parameter_config.py) and
ParameterType.assert_correct_type / ParameterValue casts (vizier/_src/pyvizier/shared/trial.py) -> coq/Gen/MembershipSrc.v

The membership test of one parameter as the source writes it: the tests of assert_correct_type in their order (which types
each applies to, what it compares), the per-type dispatch of _assert_feasible (which cast of ParameterValue, then
_assert_bounds or _assert_in_feasible_values) and the exception classes contains() turns into False.  The result is a term
of coq/Model/MembershipIR.v; coq/Proofs/MembershipSrcP.v proves that its meaning is pc_contains of coq/Model/Space.v, the
function the C16 membership theorems are about.  Fail-closed.

Assumed by hand: Python's float() / int() / isinstance / == / chained <= / `in` on a list (as modelled by num_of, qtrunc,
as_str, xq_eqb, xq_leb); the bodies of ParameterValue.as_float / as_int / as_str, is_numeric, _raise_type_error,
_assert_bounds and _assert_in_feasible_values are compared with the texts below.
"""
import ast
import os


class Fail(Exception):
  pass


def src(n):
  return ast.unparse(n)


def no_doc(stmts):
  return [s for s in stmts if not (isinstance(s, ast.Expr) and isinstance(s.value, ast.Constant) and isinstance(s.value.value, str))]


def method(tree, cls, name):
  c = [n for n in tree.body if isinstance(n, ast.ClassDef) and n.name == cls]
  if len(c) != 1:
    raise Fail('class %s not found' % cls)
  m = [n for n in c[0].body if isinstance(n, ast.FunctionDef) and n.name == name]
  if len(m) != 1:
    raise Fail('%s.%s not found (or defined twice)' % (cls, name))
  return m[0]


def body_texts(fn):
  return [src(s) for s in no_doc(fn.body)]


TYPE_TESTS = {
    'self.is_numeric() and float(value) != value': '(GNumeric, PFloatNe)',
    'self == ParameterType.CATEGORICAL and (not isinstance(value, (str, bool)))': '(GCategorical, PNotStrBool)',
    'self == self.CATEGORICAL and (not isinstance(value, (str, bool)))': '(GCategorical, PNotStrBool)',
    'self == self.INTEGER and int(value) != value': '(GInteger, PIntNe)',
    'self == ParameterType.INTEGER and int(value) != value': '(GInteger, PIntNe)',
}
DISPATCH = {
    'self._assert_bounds(value.as_float)': 'FBounds CFloat',
    'self._assert_bounds(value.as_int)': 'FBounds CInt',
    'self._assert_in_feasible_values(value.as_float)': 'FIn CFloat',
    'self._assert_in_feasible_values(value.as_int)': 'FIn CInt',
    'self._assert_in_feasible_values(value.as_str)': 'FIn CStr',
}
PTYPES = {'DOUBLE': 'TDouble', 'INTEGER': 'TInteger', 'DISCRETE': 'TDiscrete', 'CATEGORICAL': 'TCategorical'}

PINNED_TRIAL = {
    ('ParameterType', 'is_numeric'): ['return self in [self.DOUBLE, self.INTEGER, self.DISCRETE]'],
    ('ParameterType', '_raise_type_error'): ["raise TypeError(f'Type {self} is not compatible with value: {value}')"],
    ('ParameterValue', 'as_float'): ['if self.value == TRUE_VALUE:\n    return 1.0\nelif self.value == FALSE_VALUE:\n    return 0.0',
                                      'try:\n    return float(self.value)\nexcept ValueError:\n    return None'],
    ('ParameterValue', 'as_int'): ['if self.value == TRUE_VALUE:\n    return 1\nelif self.value == FALSE_VALUE:\n    return 0',
                                    'try:\n    return int(self.value)\nexcept ValueError:\n    return None'],
    ('ParameterValue', 'as_str'): ['if isinstance(self.value, bool):\n    if self.value:\n        return TRUE_VALUE\n    else:\n        return FALSE_VALUE\n'
                                    'elif isinstance(self.value, str):\n    return self.value',
                                    'return str(self.value)'],   # numbers: never reached for CATEGORICAL (refused by the type test)
}


def flatten_ifs(stmts, what):
  """if A: raise / elif B: raise / if C: raise  ->  [A, B, C] (every body raises, so elif is a plain sequence)."""
  out = []
  for st in stmts:
    node = st
    while True:
      if not isinstance(node, ast.If):
        raise Fail('%s: statement not understood: %s' % (what, src(node)[:80]))
      if [src(s) for s in node.body] != ['self._raise_type_error(value)']:
        raise Fail('%s: a test does something else than raise the type error: %s' % (what, src(node.body[0])[:80]))
      out.append(src(node.test))
      if not node.orelse:
        break
      if len(node.orelse) != 1:
        raise Fail('%s: else branch not understood' % what)
      node = node.orelse[0]
  return out


def translate(repo):
  t_trial = ast.parse(open(os.path.join(repo, 'vizier/_src/pyvizier/shared/trial.py')).read())
  t_pc = ast.parse(open(os.path.join(repo, 'vizier/_src/pyvizier/shared/parameter_config.py')).read())
  for (cls, name), want in PINNED_TRIAL.items():
    got = body_texts(method(t_trial, cls, name))
    if got != want:
      raise Fail('%s.%s changed: %r' % (cls, name, [g[:90] for g in got]))
  tests = flatten_ifs(no_doc(method(t_trial, 'ParameterType', 'assert_correct_type').body), 'assert_correct_type')
  checks = []
  for t in tests:
    if t not in TYPE_TESTS:
      raise Fail('assert_correct_type: test not understood: %s' % t)
    checks.append(TYPE_TESTS[t])
  # _assert_feasible
  fe = no_doc(method(t_pc, 'ParameterConfig', '_assert_feasible').body)
  if len(fe) != 3 or not isinstance(fe[0], ast.Try) or src(fe[1]) != 'value = trial.ParameterValue(value)' or not isinstance(fe[2], ast.If):
    raise Fail('_assert_feasible: shape changed: %r' % [src(s)[:60] for s in fe])
  tr = fe[0]
  if [src(s) for s in tr.body] != ['self.type.assert_correct_type(value)'] or len(tr.handlers) != 1 or src(tr.handlers[0].type) != 'TypeError' \
      or tr.orelse or tr.finalbody or len(tr.handlers[0].body) != 1 or not isinstance(tr.handlers[0].body[0], ast.Raise) \
      or not src(tr.handlers[0].body[0].exc).startswith('TypeError('):
    raise Fail('_assert_feasible: the type check is not "assert_correct_type, TypeError re-raised as TypeError"')
  disp, node = [], fe[2]
  while True:
    t = src(node.test)
    if not t.startswith('self.type == ParameterType.') or t[len('self.type == ParameterType.'):] not in PTYPES:
      raise Fail('_assert_feasible: test not understood: %s' % t)
    b = [src(s) for s in node.body]
    if len(b) != 1 or b[0] not in DISPATCH:
      raise Fail('_assert_feasible: branch not understood: %r' % b)
    disp.append('(%s, %s)' % (PTYPES[t[len('self.type == ParameterType.'):]], DISPATCH[b[0]]))
    if len(node.orelse) == 1 and isinstance(node.orelse[0], ast.If):
      node = node.orelse[0]
      continue
    if len(node.orelse) != 1 or not isinstance(node.orelse[0], ast.Raise) or not src(node.orelse[0].exc).startswith('RuntimeError('):
      raise Fail('_assert_feasible: the chain does not end by raising RuntimeError')
    break
  ab = body_texts(method(t_pc, 'ParameterConfig', '_assert_bounds'))
  if len(ab) != 1 or not ab[0].startswith('if not self.bounds[0] <= value <= self.bounds[1]:\n    raise ValueError('):
    raise Fail('_assert_bounds changed: %r' % ab)
  ai = body_texts(method(t_pc, 'ParameterConfig', '_assert_in_feasible_values'))
  if len(ai) != 1 or not ai[0].startswith('if value not in self._feasible_values:\n    raise ValueError('):
    raise Fail('_assert_in_feasible_values changed: %r' % ai)
  co = no_doc(method(t_pc, 'ParameterConfig', 'contains').body)
  want_co = ['if isinstance(value, trial.ParameterValue):\n    value = value.value',
             'try:\n    self._assert_feasible(value)\nexcept (TypeError, ValueError, OverflowError):\n    return False', 'return True']
  got_co = [src(s) for s in co]
  catches = got_co == want_co
  if not catches:
    # which exception classes are caught decides; anything else is refused
    raise Fail('contains changed: %r' % [g[:90] for g in got_co])
  out = ['(* GENERATED by harness/translate/membership.py from vizier/_src/pyvizier/shared/trial.py and parameter_config.py -- do not edit *)',
         'From VZ Require Import Base.Prelude Model.Space Model.MembershipIR.',
         'Definition src_member : member_src :=',
         '  {| ms_type_checks := [%s];' % '; '.join(checks),
         '     ms_dispatch := [%s];' % '; '.join(disp),
         '     ms_catches_all := true |}.']
  return '\n'.join(out) + '\n'


if __name__ == '__main__':
  import sys
  sys.stdout.write(translate(sys.argv[1] if len(sys.argv) > 1 else '/repo'))
