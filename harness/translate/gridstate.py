"""Translator: GridSearchDesigner.dump / load (vizier/_src/algorithms/designers/grid.py) -> coq/Gen/GridSrc.v

Which metadata key carries which field in which encoding (dump), which keys load() reads with which decoder, which fields it
sets, and whether the grid ordering is re-derived from the RESTORED shuffle seed.  The result is a term of
coq/Model/GridIR.v; coq/Proofs/GridSrcP.v proves that dump followed by load into ANY fresh instance gives back the dumped
instance, ordering included.  Fail-closed: a load() that sets a field or re-derives the ordering only under a condition is
refused.

Assumed by hand: str() / int() of Python on ints and None (py_str_int, py_int, py_optint of coq/Model/Restart.v);
_maybe_shuffled_grid_values(seed) is a function of the seed and the search space (checked by the C13 restart stages).
"""
import ast
import os


class Fail(Exception):
  pass


def src(n):
  return ast.unparse(n)


def no_doc(stmts):
  return [s for s in stmts if not (isinstance(s, ast.Expr) and isinstance(s.value, ast.Constant) and isinstance(s.value.value, str))]


def coq_str(s):
  return '[%s]%%N' % '; '.join(str(ord(c)) for c in s)


FIELDS = {'self._current_index': 'FIndex', 'self._shuffle_seed': 'FSeed'}


def translate(repo):
  tree = ast.parse(open(os.path.join(repo, 'vizier/_src/algorithms/designers/grid.py')).read())
  cls = [n for n in tree.body if isinstance(n, ast.ClassDef) and n.name == 'GridSearchDesigner']
  if len(cls) != 1:
    raise Fail('GridSearchDesigner not found')
  meth = {n.name: n for n in cls[0].body if isinstance(n, ast.FunctionDef)}
  for m in ('dump', 'load'):
    if m not in meth:
      raise Fail('%s not found' % m)
  # ---- dump
  dump = no_doc(meth['dump'].body)
  if src(dump[0]) != 'metadata = pyvizier.Metadata()' or src(dump[-1]) != 'return metadata':
    raise Fail('dump: shape changed')
  dumped = []
  for st in dump[1:-1]:
    if not (isinstance(st, ast.Assign) and isinstance(st.targets[0], ast.Subscript) and src(st.targets[0].value) == 'metadata.ns(self._metadata_ns)'
            and isinstance(st.targets[0].slice, ast.Constant) and isinstance(st.value, ast.Call) and src(st.value.func) == 'str' and len(st.value.args) == 1):
      raise Fail('dump: statement not understood: %s' % src(st)[:80])
    key, field = st.targets[0].slice.value, src(st.value.args[0])
    if field not in FIELDS:
      raise Fail('dump: unknown field %s' % field)
    dumped.append((key, FIELDS[field], 'EStrInt' if FIELDS[field] == 'FIndex' else 'EStrOptInt'))
  # ---- load
  load = no_doc(meth['load'].body)
  if len(load) < 3 or src(load[0]) != 'metadata = metadata.ns(self._metadata_ns)' or not isinstance(load[1], ast.Try):
    raise Fail('load: shape changed')
  tr = load[1]
  if len(tr.handlers) != 1 or src(tr.handlers[0].type) != '(KeyError, ValueError)' or tr.orelse or tr.finalbody \
      or len(tr.handlers[0].body) != 1 or not src(tr.handlers[0].body[0]).startswith('raise serializable.HarmlessDecodeError()'):
    raise Fail('load: decode errors are not turned into HarmlessDecodeError')
  env, reads = {}, []       # local name -> (key, field-to-be, decoder)
  raw = {}                  # local name -> key (undecoded string)
  for st in tr.body:
    if isinstance(st, ast.Expr) and isinstance(st.value, ast.Call) and src(st.value.func).startswith('logging.'):
      continue
    if not (isinstance(st, ast.Assign) and isinstance(st.targets[0], ast.Name)):
      raise Fail('load: statement not understood: %s' % src(st)[:80])
    name, v = st.targets[0].id, st.value
    t = src(v)
    if isinstance(v, ast.Call) and src(v.func) == 'int' and len(v.args) == 1 and isinstance(v.args[0], ast.Subscript) \
        and src(v.args[0].value) == 'metadata' and isinstance(v.args[0].slice, ast.Constant):
      env[name] = (v.args[0].slice.value, 'DInt')
    elif isinstance(v, ast.Subscript) and src(v.value) == 'metadata' and isinstance(v.slice, ast.Constant):
      raw[name] = v.slice.value
    elif isinstance(v, ast.IfExp) and isinstance(v.test, ast.Compare) and src(v.body) == 'None' and len(v.test.ops) == 1 \
        and isinstance(v.test.ops[0], ast.Eq) and src(v.test.left) in raw and src(v.test.comparators[0]) == "'None'" \
        and src(v.orelse) == 'int(%s)' % src(v.test.left):
      env[name] = (raw[src(v.test.left)], 'DNoneOrInt')
    else:
      raise Fail('load: value not understood: %s = %s' % (name, t[:80]))
  sets, order = {}, None
  for st in load[2:]:
    t = src(st)
    if isinstance(st, ast.Assign) and src(st.targets[0]) in FIELDS and isinstance(st.value, ast.Name) and st.value.id in env:
      key, dec = env[st.value.id]
      sets[FIELDS[src(st.targets[0])]] = (key, dec)
    elif t == 'self._grid_values = self._maybe_shuffled_grid_values(self._shuffle_seed)':
      if 'FSeed' not in sets:
        raise Fail('load: the grid is re-derived before the seed is restored')
      order = 'OrderFromRestoredSeed'
    elif isinstance(st, ast.Expr) and isinstance(st.value, ast.Call) and src(st.value.func).startswith('logging.'):
      continue
    else:
      raise Fail('load: statement not understood (fields must be set unconditionally): %s' % t[:100])
  if order is None:
    order = 'OrderKept'
  loads = [(sets[f][0], f, sets[f][1]) for f in ('FIndex', 'FSeed') if f in sets]
  keys = sorted({k for k, _, _ in dumped} | {k for k, _, _ in loads})
  kname = {k: 'k_' + ''.join(c if c.isalnum() else '_' for c in k) for k in keys}
  out = ['(* GENERATED by harness/translate/gridstate.py from vizier/_src/algorithms/designers/grid.py -- do not edit *)',
         'From VZ Require Import Base.Prelude Model.Restart Model.GridIR.']
  for k in keys:
    out.append('Definition %s : str := %s.   (* %r *)' % (kname[k], coq_str(k), k))
  out += ['Definition src_grid : grid_src :=',
          '  {| gs_dump := [%s];' % '; '.join('(%s, %s, %s)' % (kname[k], f, e) for k, f, e in dumped),
          '     gs_load := [%s];' % '; '.join('(%s, %s, %s)' % (kname[k], f, d) for k, f, d in loads),
          '     gs_sets_index := %s; gs_sets_seed := %s; gs_order := %s |}.' % ('true' if 'FIndex' in sets else 'false', 'true' if 'FSeed' in sets else 'false', order)]
  return '\n'.join(out) + '\n'


if __name__ == '__main__':
  import sys
  sys.stdout.write(translate(sys.argv[1] if len(sys.argv) > 1 else '/repo'))
