"""Translator: scaler_from_spec (vizier/pyvizier/converters/core.py) and ParameterConfig.continuify
(vizier/_src/pyvizier/shared/parameter_config.py) -> coq/Gen/ScaleDispatchSrc.v

Which scaling formula is applied to which parameter.  scaler_from_spec is read statement by statement: the tests made before
the scale-type chain (not a continuous feature -> identity; width not finite -> ValueError; zero width -> shift to 0.5), the
chain itself (scale type of each branch, whether the branch refuses non-positive bounds, which formula family its scale_fn
belongs to), the default branch and its unit-range shortcut.  continuify is read as a table scale type -> scale type by
evaluating the test that guards `scale_type = None` for each of the five scale types.  The result is a term of
coq/Model/ScaleDispatch.v; coq/Proofs/ScaleDispatchSrcP.v proves it equal to the documented dispatch.  The formulas
themselves are translated by scalers.py.  Fail-closed: any statement that is not recognised is refused.

Assumed by hand: np.isfinite / np.where / np.log of numpy; NumpyArraySpec.from_parameter_config hands the scale type of the
(continuified) parameter to scaler_from_spec unchanged (tied by the C15 formula stage of the harness).
"""
import ast
import os


class Fail(Exception):
  pass


def src(n):
  return ast.unparse(n)


SCALES = {'LINEAR': 'SLinear', 'LOG': 'SLog', 'REVERSE_LOG': 'SReverseLog', 'UNIFORM_DISCRETE': 'SUniformDiscrete'}


def no_doc(stmts):
  return [s for s in stmts if not (isinstance(s, ast.Expr) and isinstance(s.value, ast.Constant) and isinstance(s.value.value, str))]


def only_logging(st):
  """A statement that only logs (possibly under a test)."""
  if isinstance(st, ast.Expr) and isinstance(st.value, ast.Call) and src(st.value.func).startswith('logging.'):
    return True
  if isinstance(st, ast.If) and not st.orelse and all(only_logging(s) for s in st.body):
    return True
  return False


def raises_value_error(stmts):
  return len(stmts) == 1 and isinstance(stmts[0], ast.Raise) and src(stmts[0].exc).startswith('ValueError(')


def fn_bodies(stmts):
  out = {}
  for st in stmts:
    if isinstance(st, ast.Assign) and isinstance(st.value, ast.Lambda) and isinstance(st.targets[0], ast.Name):
      out[st.targets[0].id] = src(st.value.body)
    elif isinstance(st, ast.FunctionDef) and len(st.body) == 1 and isinstance(st.body[0], ast.Return):
      out[st.name] = src(st.body[0].value)
  return out


def family(scale_fn_text):
  t = scale_fn_text.replace(' ', '')
  if 'np.log(raw_sum-x)' in t:
    return 'FRLog'
  if 'np.log(x)' in t:
    return 'FLog'
  if t in ('(x-low)/(high-low)', '(x-low)/denom'):
    return 'FLin'
  raise Fail('scale_fn not recognised: %s' % scale_fn_text)


def branch(stmts, what):
  """A branch of the scale-type chain -> (refuses non-positive bounds, formula family, unit shortcut)."""
  refuses, shortcut = False, False
  fns = fn_bodies(stmts)
  if set(fns) != {'scale_fn', 'unscale_fn'}:
    raise Fail('%s branch defines %s' % (what, sorted(fns)))
  for st in stmts:
    if isinstance(st, (ast.FunctionDef,)) or (isinstance(st, ast.Assign) and isinstance(st.value, ast.Lambda)):
      continue
    if only_logging(st):
      continue
    if isinstance(st, ast.If) and not st.orelse and raises_value_error(st.body):
      if src(st.test) == 'low <= 0 or high <= 0':
        refuses = True
        continue
      raise Fail('%s branch refuses on %s' % (what, src(st.test)))
    if isinstance(st, ast.If) and not st.orelse and src(st.test) == 'denom == 1.0 and low == 0' \
        and [src(s) for s in st.body] == ['return cls.identity(attr.evolve(spec, scale=None))']:
      shortcut = True
      continue
    if isinstance(st, ast.Assign):
      t = src(st)
      if t in ('raw_sum = low + high', '(low, high) = (np.log(low), np.log(high))', 'low, high = (np.log(low), np.log(high))',
               'denom = high - low or 1.0', 'denom = high - low'):
        continue
    raise Fail('%s branch: statement not understood: %s' % (what, src(st)[:80]))
  return refuses, family(fns['scale_fn']), shortcut


def scale_of_test(test):
  t = src(test)
  for k, v in SCALES.items():
    if t == 'spec.scale == pyvizier.ScaleType.%s' % k:
      return v
  raise Fail('chain test not understood: %s' % t)


def eval_scale_test(test, value):
  """Evaluates a test over the local `scale_type` for value in {None, 'LINEAR', ...}."""
  if isinstance(test, ast.BoolOp):
    vs = [eval_scale_test(v, value) for v in test.values]
    return all(vs) if isinstance(test.op, ast.And) else any(vs)
  if isinstance(test, ast.UnaryOp) and isinstance(test.op, ast.Not):
    return not eval_scale_test(test.operand, value)
  if isinstance(test, ast.Compare) and len(test.ops) == 1 and src(test.left) == 'scale_type':
    def const(n):
      t = src(n)
      if t == 'None':
        return None
      if t.startswith('ScaleType.') and t[len('ScaleType.'):] in SCALES:
        return t[len('ScaleType.'):]
      raise Fail('continuify: operand not understood: %s' % t)
    op, rhs = test.ops[0], test.comparators[0]
    if isinstance(op, (ast.Eq, ast.Is)):
      return value == const(rhs)
    if isinstance(op, (ast.NotEq, ast.IsNot)):
      return value != const(rhs)
    if isinstance(op, (ast.In, ast.NotIn)) and isinstance(rhs, (ast.Tuple, ast.List, ast.Set)):
      inside = value in [const(e) for e in rhs.elts]
      return inside if isinstance(op, ast.In) else not inside
  raise Fail('continuify: test not understood: %s' % src(test))


def translate(repo):
  tree = ast.parse(open(os.path.join(repo, 'vizier/pyvizier/converters/core.py')).read())
  fn = [n for n in ast.walk(tree) if isinstance(n, ast.FunctionDef) and n.name == 'scaler_from_spec']
  if len(fn) != 1:
    raise Fail('scaler_from_spec not found')
  body = no_doc(fn[0].body)
  if not body or src(body[0]) not in ('(low, high) = spec.bounds', 'low, high = spec.bounds'):
    raise Fail('scaler_from_spec does not start by reading the bounds')
  steps, chain, i = [], None, 1
  while i < len(body):
    st = body[i]
    if not isinstance(st, ast.If):
      break
    t = src(st.test)
    if t == 'spec.type != NumpyArraySpecType.CONTINUOUS' and not st.orelse \
        and [src(s) for s in st.body] == ['return cls.identity(attr.evolve(spec, scale=None))']:
      steps.append('(GNotContinuous, LIdentity)')
    elif t == 'not np.isfinite(high - low)' and not st.orelse and raises_value_error(st.body):
      steps.append('(GWidthNotFinite, LRefuse)')
    elif t == 'low == high' and not st.orelse:
      fns = fn_bodies(st.body)
      rest = [s for s in st.body if not isinstance(s, ast.FunctionDef)]
      if fns != {'backward_fn': 'np.where(np.isfinite(y), y + low - 0.5, y)', 'forward_fn': 'np.where(np.isfinite(y), y - low + 0.5, y)'} \
          or [src(s) for s in rest] != ['return cls(forward_fn, backward_fn, attr.evolve(spec, bounds=(0.5, 0.5), scale=None))']:
        raise Fail('zero-width branch changed: %r %r' % (fns, [src(s)[:60] for s in rest]))
      steps.append('(GZeroWidth, LShiftHalf)')
    elif t.startswith('spec.scale == '):
      chain = st
      i += 1
      break
    else:
      raise Fail('scaler_from_spec: test not understood: %s' % t)
    i += 1
  if chain is None:
    raise Fail('scale-type chain not found')
  tail = body[i:]
  if [src(s) for s in tail] != ['return cls(scale_fn, unscale_fn, attr.evolve(spec, bounds=(0.0, 1.0), scale=None))']:
    raise Fail('scaler_from_spec: end changed: %r' % [src(s)[:70] for s in tail])
  cases, node = [], chain
  while True:
    sc = scale_of_test(node.test)
    refuses, fam, shortcut = branch(node.body, sc)
    if shortcut:
      raise Fail('unit shortcut inside the %s branch' % sc)
    cases.append('{| sc_scale := %s; sc_refuses_nonpositive := %s; sc_kind := %s |}' % (sc, 'true' if refuses else 'false', fam))
    if len(node.orelse) == 1 and isinstance(node.orelse[0], ast.If) and src(node.orelse[0].test).startswith('spec.scale == '):
      node = node.orelse[0]
      continue
    default = node.orelse
    break
  if not default:
    raise Fail('chain has no default branch')
  # the default branch may first warn about an unknown scale type
  drefuses, dfam, dshortcut = branch(default, 'default')
  if drefuses:
    raise Fail('default branch refuses bounds')
  # continuify
  t2 = ast.parse(open(os.path.join(repo, 'vizier/_src/pyvizier/shared/parameter_config.py')).read())
  cf = [n for n in ast.walk(t2) if isinstance(n, ast.FunctionDef) and n.name == 'continuify']
  if len(cf) != 1:
    raise Fail('continuify not found')
  cbody = no_doc(cf[0].body)
  texts = [src(s) for s in cbody]
  idx = [k for k, s in enumerate(texts) if s == 'scale_type = self.scale_type']
  if len(idx) != 1:
    raise Fail('continuify: scale_type is not read once from self.scale_type')
  k = idx[0]
  after = cbody[k + 1:]
  table = {}
  if after and isinstance(after[0], ast.If) and any(src(s) == 'scale_type = None' for s in after[0].body):
    g = after[0]
    if g.orelse or not all(only_logging(s) or src(s) == 'scale_type = None' for s in g.body):
      raise Fail('continuify: the block that drops the scale type does more than that')
    for v in [None] + list(SCALES):
      table[v] = None if eval_scale_test(g.test, v) else v
    after = after[1:]
  else:
    for v in [None] + list(SCALES):
      table[v] = v
  want_after = ['default_value = self.default_value', 'if default_value is not None:\n    default_value = float(default_value)',
                'return ParameterConfig.factory(self.name, bounds=(float(self.bounds[0]), float(self.bounds[1])), scale_type=scale_type, default_value=default_value)']
  if [src(s) for s in after] != want_after:
    raise Fail('continuify: construction part changed: %r' % [src(s)[:70] for s in after])
  for s in cbody[:k]:
    for n in ast.walk(s):
      if isinstance(n, ast.Name) and n.id == 'scale_type':
        raise Fail('continuify: scale_type used before it is read')
  name = lambda v: 'SNone' if v is None else SCALES[v]
  out = ['(* GENERATED by harness/translate/scaledispatch.py from vizier/pyvizier/converters/core.py and',
         '   vizier/_src/pyvizier/shared/parameter_config.py -- do not edit *)',
         'From Coq Require Import QArith List Bool.', 'Import ListNotations.', 'From VZ Require Import Model.ScaleDispatch.',
         'Definition src_dispatch : dispatch_src :=',
         '  {| ds_steps := [%s];' % '; '.join(steps),
         '     ds_cases := [ %s ];' % ';\n                   '.join(cases),
         '     ds_default := %s;' % dfam,
         '     ds_unit_shortcut := %s |}.' % ('true' if dshortcut else 'false'),
         'Definition src_continuify_scale (s : scale_ty) : scale_ty :=',
         '  match s with %s end.' % ' | '.join('%s => %s' % (name(v), name(table[v])) for v in [None] + list(SCALES))]
  return '\n'.join(out) + '\n'


if __name__ == '__main__':
  import sys
  sys.stdout.write(translate(sys.argv[1] if len(sys.argv) > 1 else '/repo'))
