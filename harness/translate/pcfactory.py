"""Translator: vizier/_src/pyvizier/shared/parameter_config.py -> coq/Gen/FactorySrc.v

ParameterConfig.factory as a decision tree (coq/Model/FactoryIR.v): the order of its tests (empty name; both feasible_values
and bounds; duplicates; all numeric / all strings; both bounds int / both float), what each outcome is (ValueError, or a type
built through a helper), and what the helpers _validate_bounds, _get_feasible_points_and_bounds and _get_categories check and
compute (finite, ordered, sorted, bounds = first / last).  coq/Proofs/FactorySrcP.v proves that the meaning of the regenerated
tree is the function `factory` of coq/Model/Space.v that the C16 theorems are about.  Fail-closed.

Assumed by hand: bool() of a sequence is "non-empty"; set() / sorted() / math.isfinite / isinstance of Python; default values,
scale type, external type, fidelity and children are outside this tree (children: `_add_children`, tied by the C16 correspondence).
"""
import ast
import os


class Fail(Exception):
  pass


def src(n):
  return ast.unparse(n)


def is_raise_value(stmts):
  return len(stmts) >= 1 and isinstance(stmts[-1], ast.Raise) and src(stmts[-1].exc).startswith('ValueError(')


GUARDS = {
    'not name': 'GNameEmpty',
    'bool(feasible_values) and bool(bounds)': 'GBothGiven',
    'feasible_values': 'GFeasibleGiven',
    'len(set(feasible_values)) != len(feasible_values)': 'GHasDuplicates',
    'all((isinstance(v, (float, int)) for v in feasible_values))': 'GAllNumeric',
    'all((isinstance(v, str) for v in feasible_values))': 'GAllStrings',
    'bounds': 'GBoundsGiven',
    'isinstance(bounds[0], int) and isinstance(bounds[1], int)': 'GBothInt',
    'isinstance(bounds[0], float) and isinstance(bounds[1], float)': 'GBothFloat',
}
LEAVES = {
    ('inferred_type = ParameterType.DISCRETE', '(feasible_values, bounds) = _get_feasible_points_and_bounds(feasible_values)'): 'FDiscrete',
    ('inferred_type = ParameterType.DISCRETE', 'feasible_values, bounds = _get_feasible_points_and_bounds(feasible_values)'): 'FDiscrete',
    ('inferred_type = ParameterType.CATEGORICAL', 'feasible_values = _get_categories(feasible_values)'): 'FCategorical',
    ('inferred_type = ParameterType.INTEGER', '_validate_bounds(bounds)'): '(FBounds TInteger)',
    ('inferred_type = ParameterType.DOUBLE', '_validate_bounds(bounds)'): '(FBounds TDouble)',
    ('inferred_type = ParameterType.CUSTOM',): 'FCustom',
}


def tree(stmts, rest_tree):
  """stmts: statements of one block; rest_tree: what happens when the block falls through (None = end of the decision part)."""
  if not stmts:
    return rest_tree
  st = stmts[0]
  if isinstance(st, ast.If):
    t = src(st.test)
    if t not in GUARDS:
      raise Fail('factory: test not understood: %s' % t)
    after = tree(stmts[1:], rest_tree)
    th = tree(st.body, after)
    el = tree(st.orelse, after) if st.orelse else after
    return '(FIf %s %s %s)' % (GUARDS[t], th, el)
  if isinstance(st, ast.Raise):
    if not src(st.exc).startswith('ValueError('):
      raise Fail('factory: raises %s' % src(st.exc)[:60])
    return 'FRaise'
  # a leaf: the remaining statements of this block decide the type
  texts = tuple(src(s) for s in stmts if not (isinstance(s, ast.Assign) and src(s.targets[0]) in ('counter', 'duplicate_dict')))
  if texts and isinstance(stmts[-1], ast.Raise):
    if src(stmts[-1].exc).startswith('ValueError('):
      return 'FRaise'
  if texts in LEAVES:
    if rest_tree not in (None, 'FEnd'):
      raise Fail('factory: statements after a type was inferred')
    return LEAVES[texts]
  raise Fail('factory: block not understood: %r' % (texts,))


def translate(repo):
  path = os.path.join(repo, 'vizier/_src/pyvizier/shared/parameter_config.py')
  t = ast.parse(open(path).read())
  fns = {n.name: n for n in t.body if isinstance(n, ast.FunctionDef)}
  cls = [n for n in t.body if isinstance(n, ast.ClassDef) and n.name == 'ParameterConfig']
  if len(cls) != 1:
    raise Fail('class ParameterConfig not found')
  fac = [n for n in cls[0].body if isinstance(n, ast.FunctionDef) and n.name == 'factory']
  if len(fac) != 1:
    raise Fail('ParameterConfig.factory not found')
  body = [s for s in fac[0].body if not (isinstance(s, ast.Expr) and isinstance(s.value, ast.Constant))]
  # the decision part ends where the default value is handled
  cut = [i for i, s in enumerate(body) if isinstance(s, ast.If) and src(s.test) == 'default_value is not None']
  if len(cut) != 1:
    raise Fail('factory: the default-value step was not found')
  decision, tail = body[:cut[0]], body[cut[0]:]
  want_tail = ['if default_value is not None:\n    default_value = _get_default_value(inferred_type, default_value)',
               'pc = cls(name=name, type=inferred_type, bounds=bounds, feasible_values=feasible_values, scale_type=scale_type, default_value=default_value, fidelity_config=fidelity_config, external_type=external_type)',
               'if children:\n    pc = pc._add_children(children)', 'return pc']
  if [src(s) for s in tail] != want_tail:
    raise Fail('factory: construction part changed: %r' % [src(s)[:60] for s in tail])
  term = tree(decision, 'FEnd')
  # helpers
  def body_of(name):
    f = fns.get(name)
    if f is None:
      raise Fail('%s not found' % name)
    return [src(s) for s in f.body if not (isinstance(s, ast.Expr) and isinstance(s.value, ast.Constant))]
  vb = body_of('_validate_bounds')
  want_vb = ["if len(bounds) != 2:\n    raise ValueError(f'Bounds must have length 2. Given: {bounds}')", 'lower = bounds[0]', 'upper = bounds[1]',
             "if not all([math.isfinite(v) for v in (lower, upper)]):\n    raise ValueError(f'Both \"lower\" and \"upper\" must be finite. Given: ({lower}, {upper})')",
             "if lower > upper:\n    raise ValueError(f'Lower cannot be greater than upper: given lower={lower} upper={upper}')"]
  if vb != want_vb:
    raise Fail('_validate_bounds changed: %r' % [x[:70] for x in vb])
  fp = body_of('_get_feasible_points_and_bounds')
  want_fp = ["if not all([math.isfinite(p) for p in feasible_values]):\n    raise ValueError(f'Feasible values must all be finite. Given: {feasible_values}')",
             'feasible_points = list(sorted(feasible_values))', 'bounds = (feasible_points[0], feasible_points[-1])', 'return (feasible_points, bounds)']
  if fp != want_fp:
    raise Fail('_get_feasible_points_and_bounds changed: %r' % [x[:70] for x in fp])
  gc = body_of('_get_categories')
  if gc != ['return sorted(list(categories))']:
    raise Fail('_get_categories changed: %r' % gc)
  out = ['(* GENERATED by harness/translate/pcfactory.py from vizier/_src/pyvizier/shared/parameter_config.py -- do not edit *)',
         'From VZ Require Import Base.Prelude Model.Space Model.FactoryIR.',
         'Definition src_factory : ftree :=\n  %s.' % term,
         '(* _validate_bounds: both finite, lower <= upper; _get_feasible_points_and_bounds: all finite, sorted, bounds = (first, last);',
         '   _get_categories: sorted *)',
         'Definition src_helpers : fhelpers := mkFH true true true true true true.']
  return '\n'.join(out) + '\n'


if __name__ == '__main__':
  import sys
  print(translate(sys.argv[1] if len(sys.argv) > 1 else '/repo'))
