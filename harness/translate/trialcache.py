"""Translator: vizier/_src/algorithms/policies/trial_caches.py -> coq/Gen/TrialCacheSrc.v

IdDeduplicatingTrialLoader: the guard, the set expressions and the status filter of get_newly_completed_trials, and what
dump / load / clear do with the incorporated-id set, as terms of coq/Model/TrialCacheIR.v.  Properties/C12.v proves that the
meaning of these terms is the function `newly` of coq/Model/TrialCache.v that the exactly-once theorems are about.
Fail-closed: any other statement, operator, keyword argument or name raises Fail.

Assumed by hand: PolicySupporter.GetTrials(trial_ids=S, status_matches=X) returns the stored trials whose id is in S and whose
status is X, in storage order (checked dynamically by the C12 correspondence on both supporters); json.dumps / json.loads of a
list of ints is the identity; logging has no effect.
"""
import ast
import os


class Fail(Exception):
  pass


INC = 'self._incorporated_completed_trial_ids'


def src(n):
  return ast.unparse(n)


def sexpr(e, env):
  s = src(e)
  if s == INC:
    return 'SInc'
  if isinstance(e, ast.Name):
    if e.id in env:
      return env[e.id]
    raise Fail('unknown name %s' % e.id)
  if isinstance(e, ast.BinOp) and isinstance(e.op, ast.Sub):
    return '(SDiff %s %s)' % (sexpr(e.left, env), sexpr(e.right, env))
  if isinstance(e, ast.BinOp) and isinstance(e.op, ast.BitOr):
    return '(SUnion %s %s)' % (sexpr(e.left, env), sexpr(e.right, env))
  if isinstance(e, ast.Call) and src(e.func) == 'set' and len(e.args) == 1 and not e.keywords:
    a = e.args[0]
    # set(range(<int>, max_trial_id + <int>))
    if isinstance(a, ast.Call) and src(a.func) == 'range' and len(a.args) == 2 and not a.keywords:
      lo, hi = a.args
      if isinstance(lo, ast.Constant) and isinstance(lo.value, int) and not isinstance(lo.value, bool) and 0 <= lo.value < 100:
        if src(hi) == 'max_trial_id':
          return '(SRange %d 0)' % lo.value
        if isinstance(hi, ast.BinOp) and isinstance(hi.op, ast.Add) and src(hi.left) == 'max_trial_id' and \
            isinstance(hi.right, ast.Constant) and isinstance(hi.right.value, int) and 0 <= hi.right.value < 100:
          return '(SRange %d %d)' % (lo.value, hi.right.value)
      raise Fail('range not understood: %s' % s)
    # set(t.id for t in new_trials)
    if isinstance(a, ast.GeneratorExp) and len(a.generators) == 1 and not a.generators[0].ifs and \
        src(a.elt) == '%s.id' % src(a.generators[0].target) and src(a.generators[0].iter) == 'new_trials':
      return 'SNewIds'
  raise Fail('set expression not understood: %s' % s)


def translate(repo):
  path = os.path.join(repo, 'vizier/_src/algorithms/policies/trial_caches.py')
  tree = ast.parse(open(path).read())
  cls = [n for n in tree.body if isinstance(n, ast.ClassDef) and n.name == 'IdDeduplicatingTrialLoader']
  if len(cls) != 1:
    raise Fail('class IdDeduplicatingTrialLoader not found')
  fns = {n.name: n for n in cls[0].body if isinstance(n, ast.FunctionDef)}
  # the only writers of the id set
  for name, fn in fns.items():
    for sub in ast.walk(fn):
      tg = []
      if isinstance(sub, ast.Assign):
        tg = sub.targets
      elif isinstance(sub, (ast.AugAssign, ast.AnnAssign)):
        tg = [sub.target]
      if any(src(t) == INC for t in tg) and name not in ('get_newly_completed_trials', 'clear', 'load'):
        raise Fail('%s writes the incorporated-id set' % name)
      if isinstance(sub, ast.Call) and isinstance(sub.func, ast.Attribute) and src(sub.func.value) == INC:
        raise Fail('%s calls a method of the incorporated-id set (%s)' % (name, sub.func.attr))

  def body_of(name, args):
    fn = fns.get(name)
    if fn is None or [a.arg for a in fn.args.args] != args:
      raise Fail('%s%r not found' % (name, args))
    return [st for st in fn.body if not (isinstance(st, ast.Expr) and isinstance(st.value, ast.Constant))
            and not (isinstance(st, ast.Expr) and isinstance(st.value, ast.Call) and src(st.value.func).startswith('logging.'))]

  # ---- get_newly_completed_trials
  b = body_of('get_newly_completed_trials', ['self', 'max_trial_id'])
  guard = 'GNone'
  if b and isinstance(b[0], ast.If):
    g = b[0]
    if src(g.test) == 'len(%s) == max_trial_id' % INC and len(g.body) == 1 and src(g.body[0]) == 'return []' and not g.orelse:
      guard = 'GLenIncEqMax'
      b = b[1:]
    else:
      raise Fail('guard of get_newly_completed_trials not understood: %s' % src(g.test))
  env = {}
  ids = status = inc = None
  returned = False
  for st in b:
    if returned:
      raise Fail('statement after return')
    if isinstance(st, ast.Assign) and len(st.targets) == 1 and isinstance(st.targets[0], ast.Name):
      name = st.targets[0].id
      v = st.value
      if name == 'new_trials':
        if ids is not None:
          raise Fail('new_trials assigned twice')
        if not (isinstance(v, ast.Call) and src(v.func) == 'self._supporter.GetTrials' and not v.args):
          raise Fail('new_trials is not self._supporter.GetTrials(...)')
        kw = {k.arg: k.value for k in v.keywords}
        if set(kw) != {'trial_ids', 'status_matches', 'include_intermediate_measurements'}:
          raise Fail('GetTrials keyword arguments changed: %s' % sorted(kw))
        ids = sexpr(kw['trial_ids'], env)
        st_ = src(kw['status_matches'])
        if st_ not in ('vz.TrialStatus.COMPLETED', 'vz.TrialStatus.ACTIVE'):
          raise Fail('status filter %s' % st_)
        status = 'StCompleted' if st_.endswith('COMPLETED') else 'StActive'
        if src(kw['include_intermediate_measurements']) != 'self._include_intermediate_measurements':
          raise Fail('include_intermediate_measurements changed')
      else:
        if ids is not None:
          raise Fail('assignment to %s after the trials were loaded' % name)
        env[name] = sexpr(v, env)
    elif isinstance(st, ast.AugAssign) and src(st.target) == INC and isinstance(st.op, ast.BitOr) and ids is not None and inc is None:
      inc = '(SUnion SInc %s)' % sexpr(st.value, env)
    elif isinstance(st, ast.Assign) and len(st.targets) == 1 and src(st.targets[0]) == INC and ids is not None and inc is None:
      inc = sexpr(st.value, env)
    elif isinstance(st, ast.Return) and src(st.value) == 'new_trials' and ids is not None:
      returned = True
    else:
      raise Fail('statement of get_newly_completed_trials not understood: %s' % src(st)[:120])
  if not returned or ids is None:
    raise Fail('get_newly_completed_trials does not load and return new_trials')
  if inc is None:
    inc = 'SInc'
  # ---- clear
  b = body_of('clear', ['self'])
  if len(b) != 1 or src(b[0]) != '%s = set()' % INC:
    raise Fail('clear() no longer resets the id set to set()')
  # ---- dump
  b = body_of('dump', ['self'])
  want = ['md = vz.Metadata()', 'md[_INCOPORATED_COMPLETED_TRIALS_IDS] = json.dumps(list(%s))' % INC, 'return md']
  if [src(x) for x in b] != want:
    raise Fail('dump() changed: %r' % [src(x)[:80] for x in b])
  # ---- load
  b = body_of('load', ['self', 'md'])
  ok = len(b) == 1 and isinstance(b[0], ast.If) and src(b[0].test) == '_INCOPORATED_COMPLETED_TRIALS_IDS in md'
  missing = jsonerr = False
  if ok:
    i = b[0]
    ok = len(i.body) == 1 and isinstance(i.body[0], ast.Try) and len(i.body[0].body) == 1 and \
        src(i.body[0].body[0]) == '%s = set(json.loads(md[_INCOPORATED_COMPLETED_TRIALS_IDS]))' % INC
    if ok:
      h = i.body[0].handlers
      jsonerr = len(h) == 1 and src(h[0].type) == 'json.JSONDecodeError' and len(h[0].body) == 1 and \
          src(h[0].body[0]) == 'raise serializable.HarmlessDecodeError from e'
      ok = not i.body[0].orelse and not i.body[0].finalbody and (jsonerr or not h)
      missing = len(i.orelse) == 1 and isinstance(i.orelse[0], ast.Raise) and src(i.orelse[0].exc).startswith('serializable.HarmlessDecodeError(')
      ok = ok and (missing or not i.orelse)
  if not ok:
    raise Fail('load() changed')
  b2 = lambda x: 'true' if x else 'false'
  out = ['(* GENERATED by harness/translate/trialcache.py from vizier/_src/algorithms/policies/trial_caches.py -- do not edit *)',
         'From VZ Require Import Base.Prelude Model.TrialCache Model.TrialCacheIR.',
         'Definition src_newly : newly_desc := mkND %s %s %s %s.' % (guard, ids, status, inc),
         'Definition src_dump : dump_desc := DumpListOfInc.',
         'Definition src_load : load_desc := LoadSetOfList %s %s.' % (b2(missing), b2(jsonerr)),
         'Definition src_clear : clear_desc := ClearToEmptySet.']
  return '\n'.join(out) + '\n'


if __name__ == '__main__':
  import sys
  print(translate(sys.argv[1] if len(sys.argv) > 1 else '/repo'))
