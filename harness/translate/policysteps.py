"""Translator: vizier/_src/algorithms/policies/designer_policy.py -> coq/Gen/PolicySrc.v

What the designer policies hand to Designer.update, step by step (coq/Model/PolicyIR.v):
  DesignerPolicy.suggest                    fresh designer; ALL completed; ALL active; update(completed, active)
  _SerializableDesignerPolicyBase.suggest   initialise / restore; NEWLY completed up to request.max_trial_id from the id cache; ALL
                                            active; update(completed=new, all_active=active); suggest; dump attached under the policy's namespace
  _initialize_designer                      a live designer is kept; otherwise load from the study metadata; a DecodeError starts over
                                            with a fresh designer AND a cleared id cache
coq/Proofs/PolicySrcP.v proves that the meaning of these steps is the model's `serve` / `serve_fresh` (Model/TrialCache.v).
Fail-closed: the statements are compared with the shapes below (logging ignored).
"""
import ast
import os


class Fail(Exception):
  pass


def src(n):
  return ast.unparse(n)


def stmts_of(fn):
  out = []
  for s in fn.body:
    if isinstance(s, ast.Expr) and isinstance(s.value, ast.Constant):
      continue
    if isinstance(s, ast.Expr) and isinstance(s.value, ast.Call) and src(s.value.func).startswith('logging.'):
      continue
    out.append(s)
  return out


def translate(repo):
  path = os.path.join(repo, 'vizier/_src/algorithms/policies/designer_policy.py')
  tree = ast.parse(open(path).read())
  classes = {n.name: n for n in tree.body if isinstance(n, ast.ClassDef)}
  for c in ('DesignerPolicy', '_SerializableDesignerPolicyBase'):
    if c not in classes:
      raise Fail('class %s not found' % c)
  meth = lambda c, m: [n for n in classes[c].body if isinstance(n, ast.FunctionDef) and n.name == m][0]
  # ---- DesignerPolicy.suggest
  table_fresh = {
      'designer = self._designer_factory(request.study_config)': 'PFreshDesigner',
      'completed = self._supporter.GetTrials(status_matches=vz.TrialStatus.COMPLETED)': 'PAllCompleted',
      'active = self._supporter.GetTrials(status_matches=vz.TrialStatus.ACTIVE)': 'PAllActive',
      'designer.update(vza.CompletedTrials(completed), vza.ActiveTrials(active))': 'PUpdate',
      'self._designer = designer': None,
      'return pythia.SuggestDecision(designer.suggest(request.count), metadata=vz.MetadataDelta())': 'PSuggestNoState',
  }
  fresh = []
  for s in stmts_of(meth('DesignerPolicy', 'suggest')):
    t = src(s)
    if t not in table_fresh:
      raise Fail('DesignerPolicy.suggest: statement not understood: %s' % t[:160])
    if table_fresh[t]:
      fresh.append(table_fresh[t])
  # ---- _SerializableDesignerPolicyBase.suggest
  table_st = {
      'self._initialize_designer(request.study_config)': 'PInitialise',
      'new_completed_trials = self._cache.get_newly_completed_trials(request.max_trial_id)': 'PNewlyCompleted',
      'active_trials = self._cache.get_active_trials()': 'PAllActive',
      'self.designer.update(completed=vza.CompletedTrials(new_completed_trials), all_active=vza.ActiveTrials(active_trials))': 'PUpdate',
      'metadata_delta = vz.MetadataDelta()': None,
      'suggestions = pythia.SuggestDecision(self.designer.suggest(request.count), metadata=metadata_delta)': 'PSuggest',
      'metadata_delta.on_study.ns(self._ns_root).attach(self.dump())': 'PDumpState',
      'return suggestions': None,
  }
  stateful = []
  for s in stmts_of(meth('_SerializableDesignerPolicyBase', 'suggest')):
    t = src(s)
    if t not in table_st:
      raise Fail('_SerializableDesignerPolicyBase.suggest: statement not understood: %s' % t[:160])
    if table_st[t]:
      stateful.append(table_st[t])
  # ---- _initialize_designer
  b = stmts_of(meth('_SerializableDesignerPolicyBase', '_initialize_designer'))
  ok = len(b) == 3 and isinstance(b[0], ast.If) and src(b[0].test) == 'self._designer is not None' and \
      [src(x) for x in b[0].body if not (isinstance(x, ast.Expr) and isinstance(x.value, ast.Call) and src(x.value.func).startswith('logging.'))] == ['return'] and \
      len(b[0].orelse) == 1 and isinstance(b[0].orelse[0], ast.If) and src(b[0].orelse[0].test) == 'self._problem_statement != problem_statement' and \
      isinstance(b[0].orelse[0].body[0], ast.Raise) and not b[0].orelse[0].orelse and \
      src(b[1]) == 'metadata = problem_statement.metadata.ns(self._ns_root)' and isinstance(b[2], ast.Try)
  if ok:
    t = b[2]
    body = [src(x) for x in t.body if not (isinstance(x, ast.Expr) and isinstance(x.value, ast.Call) and src(x.value.func).startswith('logging.'))]
    h = t.handlers
    hb = [src(x) for x in h[0].body if not (isinstance(x, ast.Expr) and isinstance(x.value, ast.Call) and src(x.value.func).startswith('logging.'))] if len(h) == 1 else None
    ok = body == ['self.load(metadata)'] and len(h) == 1 and src(h[0].type) == 'serializable.DecodeError' and not t.orelse and not t.finalbody and \
        hb == ['self._designer = self._designer_factory(problem_statement, seed=self._seed)', 'self._cache.clear()']
  if not ok:
    raise Fail('_initialize_designer changed')
  # ---- the cache the policy uses is the id-deduplicating loader over its supporter
  init = [src(s) for s in ast.walk(meth('_SerializableDesignerPolicyBase', '__init__')) if isinstance(s, (ast.Assign, ast.AnnAssign)) and src(s.targets[0] if isinstance(s, ast.Assign) else s.target) == 'self._cache']
  if init != ['self._cache: trial_caches.IdDeduplicatingTrialLoader = trial_caches.IdDeduplicatingTrialLoader(supporter, include_intermediate_measurements=False)']:
    raise Fail('the policy no longer builds IdDeduplicatingTrialLoader(supporter, ...): %r' % init)
  gl = lambda l: '[' + '; '.join(l) + ']'
  out = ['(* GENERATED by harness/translate/policysteps.py from vizier/_src/algorithms/policies/designer_policy.py -- do not edit *)',
         'From VZ Require Import Base.Prelude Model.TrialCache Model.PolicyIR.', 'Import ListNotations.',
         'Definition src_fresh_policy : list pstep := %s.' % gl(fresh),
         'Definition src_stateful_policy : list pstep := %s.' % gl(stateful),
         '(* _initialize_designer: live designer kept; else load; DecodeError -> fresh designer and cleared id cache *)',
         'Definition src_initialise : init_desc := mkInit true true true.']
  return '\n'.join(out) + '\n'


if __name__ == '__main__':
  import sys
  print(translate(sys.argv[1] if len(sys.argv) > 1 else '/repo'))
