"""Driver for the real VizierServicer: universe of names, scripted Pythia, datastore proxy, canonical
observations, Gallina printers for the service model (coq/Model/Service.v)."""
import math
import os
import time
import tempfile

from harness import boot
from harness.common import gN, gZ, gbool, glist, gpair, gstr, gnat

boot.boot()

import grpc  # noqa: E402
from vizier import pythia  # noqa: E402
from vizier import pyvizier as vz  # noqa: E402
from vizier.service import pyvizier as svz  # noqa: E402
from vizier._src.service import custom_errors, grpc_util  # noqa: E402
from vizier._src.service import key_value_pb2, study_pb2, vizier_oss_pb2  # noqa: E402
from vizier._src.service import pythia_service, vizier_service  # noqa: E402
from vizier._src.service import vizier_service_pb2 as vs  # noqa: E402
from google.longrunning import operations_pb2  # noqa: E402
import datetime  # noqa: E402

OWNERS = {1: 'o1', 2: 'o2'}
STUDIES = {0: '', 1: 'a_b', 2: 'a_b2', 3: 'axb'}   # 'a_b' is a prefix of 'a_b2'; as an SQL LIKE pattern it also matches 'axb'
RPC_TIMEOUT = float(os.environ.get('VERIF_RPC_TIMEOUT', '') or 45)
HUNG = []
CLIENTS = {1: 'w1', 2: 'w2', 3: 'w3'}
METRICS = {1: 'm1', 2: 'm2'}
TSTATE = {1: 'REQUESTED', 2: 'ACTIVE', 3: 'STOPPING', 4: 'SUCCEEDED', 5: 'INFEASIBLE'}
TSTATE_INV = {v: k for k, v in TSTATE.items()}
SSTATE = {0: 'SS_UNSPEC', 1: 'SS_ACTIVE', 2: 'SS_INACTIVE', 3: 'SS_COMPLETED'}
INV_CLIENT = {v: k for k, v in CLIENTS.items()}
INV_METRIC = {v: k for k, v in METRICS.items()}
INV_STUDY = {v: k for k, v in STUDIES.items()}
INV_OWNER = {v: k for k, v in OWNERS.items()}


def study_name(o, sid):
  return 'owners/%s/studies/%s' % (OWNERS[o], STUDIES[sid])


def trial_name(o, sid, tid, variant=''):
  """variant: another spelling of the same trial id that the resource-name parser accepts ('z' 01, 'p' +1, 's' trailing space)."""
  sp = {'': '%d', 'z': '0%d', 'p': '+%d', 's': '%d '}[variant] % tid
  return study_name(o, sid) + '/trials/' + sp


def _variant(rpc):
  """GetTrial / StopTrial / DeleteTrial tuples may carry a spelling variant as a fifth element (the model ignores it)."""
  return rpc[4] if len(rpc) > 4 else ''


# ------------------------------------------------------------------ scripted algorithm


class Holder:
  """The outcome the scripted policy produces on its next call, and a call counter."""

  def __init__(self):
    self._default = ('deliver', [], [], [])
    self._by_thread = {}
    self.calls = 0
    self.in_pythia = False

  @property
  def outcome(self):
    import threading
    return self._by_thread.get(threading.get_ident(), self._default)

  @outcome.setter
  def outcome(self, v):
    import threading
    self._by_thread[threading.get_ident()] = v


def kv_to_md(delta_study, delta_trials):
  d = vz.MetadataDelta()
  for (ns, k, tag, payload) in delta_study:
    d.on_study.abs_ns(vz.Namespace.decode(ns))[k] = payload
  for tid, (ns, k, tag, payload) in delta_trials:
    d.on_trials[tid].abs_ns(vz.Namespace.decode(ns))[k] = payload
  return d


# what a failing algorithm's exception may carry: a message, nothing, a number, (errno, text), a message and a tuple
FAIL_ARGS = [('scripted failure',), (7,), (), (2, 'No such file'), ('bad shape', (3, 4)), ('text that is not valid unicode: \ud800',)]


class Scripted(pythia.Policy):

  def __init__(self, holder):
    self.h = holder

  def suggest(self, request):
    self.h.calls += 1
    out = self.h.outcome
    if out[0] == 'fail':
      raise out[1](*FAIL_ARGS[self.h.calls % len(FAIL_ARGS)])
    _, params, smd, tmd = out
    return pythia.SuggestDecision([vz.TrialSuggestion({'x': p / 100.0}) for p in params], kv_to_md(smd, tmd))

  def early_stop(self, request):
    self.h.calls += 1
    out = self.h.outcome
    if out[0] == 'fail':
      raise out[1](*FAIL_ARGS[self.h.calls % len(FAIL_ARGS)])
    _, decisions, smd, tmd = out
    ds = pythia.EarlyStopDecisions([pythia.EarlyStopDecision(id=i, reason='r', should_stop=b) for i, b in decisions],
                                   kv_to_md(smd, tmd))
    return ds

  @property
  def should_be_cached(self):
    return False


class Factory(pythia.PolicyFactory):

  def __init__(self, holder):
    self.h = holder

  def __call__(self, problem, algorithm, supporter, study_name):
    out = self.h.outcome
    if out[0] == 'fail' and self.h.calls % 3 == 2:
      # the algorithm fails while it is being set up (policy factory / designer constructor), not inside suggest()
      self.h.calls += 1
      raise out[1](*FAIL_ARGS[self.h.calls % len(FAIL_ARGS)])
    return Scripted(self.h)


# ------------------------------------------------------------------ datastore proxy (trace of primitive calls)

_TAGS = {'load_study': 1, 'create_study': 2, 'update_study': 3, 'delete_study': 4, 'list_studies': 5,
         'create_trial': 6, 'get_trial': 7, 'update_trial': 8, 'list_trials': 9, 'delete_trial': 10, 'max_trial_id': 11,
         'create_suggestion_operation': 12, 'get_suggestion_operation': 13, 'update_suggestion_operation': 14,
         'list_suggestion_operations': 15, 'max_suggestion_operation_number': 16,
         'create_early_stopping_operation': 17, 'get_early_stopping_operation': 18,
         'update_early_stopping_operation': 19, 'update_metadata': 20}


def _parse_study(name):
  p = name.split('/')
  return [INV_OWNER.get(p[1], 99), INV_STUDY.get(p[3], 99)]


def _key_args(method, args):
  from vizier._src.service import resources
  a = args[0]
  if method in ('load_study', 'delete_study', 'list_trials', 'max_trial_id', 'update_metadata'):
    return _parse_study(a)
  if method in ('create_study', 'update_study'):
    return _parse_study(a.name)
  if method == 'list_studies':
    return [INV_OWNER.get(a.split('/')[1], 99)]
  if method in ('create_trial', 'update_trial'):
    return _parse_study(a.name) + [int(a.name.split('/')[-1])]
  if method in ('get_trial', 'delete_trial'):
    return _parse_study(a) + [int(a.split('/')[-1])]
  if method in ('create_suggestion_operation', 'update_suggestion_operation', 'get_suggestion_operation'):
    nm = a if isinstance(a, str) else a.name
    r = resources.SuggestionOperationResource.from_name(nm)
    return [INV_OWNER.get(r.owner_id, 99), INV_STUDY.get(r.study_id, 99), INV_CLIENT.get(r.client_id, 99), r.operation_number]
  if method in ('list_suggestion_operations', 'max_suggestion_operation_number'):
    return _parse_study(a) + [INV_CLIENT.get(args[1], 99)]
  if method in ('create_early_stopping_operation', 'update_early_stopping_operation', 'get_early_stopping_operation'):
    nm = a if isinstance(a, str) else a.name
    r = resources.EarlyStoppingOperationResource.from_name(nm)
    return [INV_OWNER.get(r.owner_id, 99), INV_STUDY.get(r.study_id, 99), r.trial_id]
  raise KeyError(method)


class DSProxy:
  """Wraps the live datastore object; records (tag, key args, raised?) per primitive call."""

  def __init__(self, inner, holder):
    self._inner = inner
    self._h = holder
    self.trace = []
    self.recording = True
    self.hook = None  # optional callable(method, phase) for schedulers / crash injection

  def __getattr__(self, name):
    attr = getattr(self._inner, name)
    if name not in _TAGS:
      return attr

    def wrapped(*args, **kw):
      if self.hook is not None:
        self.hook(name, 'before')
      try:
        res = attr(*args, **kw)
      except Exception:
        if self.recording:
          self.trace.append((_TAGS[name], _key_args(name, args), True))
        raise
      if self.recording:
        self.trace.append((_TAGS[name], _key_args(name, args), False))
      return res
    return wrapped


# ------------------------------------------------------------------ servicer construction


def make_servicer(backend, recycle=True, tmpdir=None):
  """backend in {'ram','sqlmem','sqlfile'}. Returns (servicer, holder, proxy)."""
  if backend == 'ram':
    url = None
  elif backend == 'sqlmem':
    url = 'sqlite:///:memory:'
  else:
    assert tmpdir
    url = 'sqlite:///' + os.path.join(tmpdir, 'vizier.db')
  period = datetime.timedelta(seconds=0) if recycle else datetime.timedelta(hours=10)
  serv = vizier_service.VizierServicer(database_url=url, early_stop_recycle_period=period)
  holder = Holder()
  serv.default_pythia_service = pythia_service.PythiaServicer(serv, Factory(holder))
  proxy = DSProxy(serv.datastore, holder)
  serv.datastore = proxy
  return serv, holder, proxy


def study_config(metrics):
  sc = svz.StudyConfig()
  sc.search_space.root.add_float_param('x', 0.0, 100.0)
  for mid, maximize in metrics:
    sc.metric_information.append(vz.MetricInformation(
        name=METRICS[mid], goal=vz.ObjectiveMetricGoal.MAXIMIZE if maximize else vz.ObjectiveMetricGoal.MINIMIZE))
  sc.algorithm = 'RANDOM_SEARCH'
  return sc


# ------------------------------------------------------------------ canonical forms of protos


def fl(v):
  """proto double -> canonical value: int, or 'inf'/'-inf'/'nan'."""
  if isinstance(v, float) and math.isnan(v):
    return 'nan'
  if v == math.inf:
    return 'inf'
  if v == -math.inf:
    return '-inf'
  assert float(v) == int(v), v
  return int(v)


def unfl(c):
  return {'nan': math.nan, 'inf': math.inf, '-inf': -math.inf}.get(c, float(c) if not isinstance(c, str) else None)


def c_meas(m):
  return [(INV_METRIC.get(x.metric_id, 99), fl(x.value)) for x in m.metrics]


def c_kv(p):
  if p.HasField('proto'):
    return (p.ns, p.key, 1, p.proto.type_url + '|' + p.proto.value.decode('latin1'))
  return (p.ns, p.key, 0, p.value)


def c_trial(t):
  x = [p.value.number_value for p in t.parameters if p.parameter_id == 'x']
  params = int(round(x[0] * 100)) if x else 0
  return {'id': int(t.id) if t.id else 0, 'state': study_pb2.Trial.State.Name(t.state),
          'client': INV_CLIENT.get(t.client_id, 0 if not t.client_id else 99), 'params': params,
          'meas': [c_meas(m) for m in t.measurements], 'final': c_meas(t.final_measurement),
          'md': [c_kv(k) for k in t.metadata]}


def c_study(s):
  spec = s.study_spec
  return {'state': {0: 'SS_UNSPEC', 1: 'SS_ACTIVE', 2: 'SS_INACTIVE', 3: 'SS_COMPLETED'}[int(s.state)],
          'metrics': [(INV_METRIC.get(m.metric_id, 99), m.goal == study_pb2.StudySpec.MetricSpec.GoalType.MAXIMIZE)
                      for m in spec.metrics],
          'md': [c_kv(k) for k in spec.metadata]}


def c_key(name):
  o, s = _parse_study(name)
  return (o, s)


def c_op(op):
  from vizier._src.service import resources
  r = resources.SuggestionOperationResource.from_name(op.name)
  trials = []
  if op.HasField('response'):
    resp = vs.SuggestTrialsResponse.FromString(op.response.value)
    trials = [c_trial(t) for t in resp.trials]
  return {'client': INV_CLIENT.get(r.client_id, 99), 'num': r.operation_number, 'done': bool(op.done),
          'err': op.HasField('error'), 'trials': trials}


def c_es(e):
  from vizier._src.service import resources
  r = resources.EarlyStoppingOperationResource.from_name(e.name)
  return {'trial': r.trial_id, 'active': e.status == vizier_oss_pb2.EarlyStoppingOperation.Status.ACTIVE,
          'stop': bool(e.should_stop)}


def classify(exc):
  if isinstance(exc, grpc_util.LocalRpcError):
    inner = exc.args[0] if exc.args else None
    if isinstance(inner, custom_errors.ImmutableStudyError):
      return 'EImmutableStudy'
    if isinstance(inner, custom_errors.ImmutableTrialError):
      return 'EImmutableTrial'
    if isinstance(inner, Exception):
      return classify(inner)
    return 'EOther'
  if isinstance(exc, custom_errors.NotFoundError):
    return 'ENotFound'
  if isinstance(exc, custom_errors.AlreadyExistsError):
    return 'EAlreadyExists'
  if isinstance(exc, custom_errors.ImmutableStudyError):
    return 'EImmutableStudy'
  if isinstance(exc, custom_errors.ImmutableTrialError):
    return 'EImmutableTrial'
  for cls, name in ((KeyError, 'EKey'), (IndexError, 'EIndex'), (TypeError, 'EType'), (NotImplementedError, 'ENotImplemented'),
                    (RuntimeError, 'ERuntime'), (ValueError, 'EValue')):
    if isinstance(exc, cls):
      return name
  return 'EOther'


# ------------------------------------------------------------------ executing one RPC on the real servicer


def mk_measurement(m):
  pm = study_pb2.Measurement()
  for mid, v in m:
    pm.metrics.add(metric_id=METRICS[mid], value=unfl(v))
  return pm


def mk_kv(kv):
  ns, k, tag, payload = kv
  p = key_value_pb2.KeyValue(ns=ns, key=k)
  if tag == 1:
    url, val = payload.split('|', 1)
    p.proto.type_url = url
    p.proto.value = val.encode('latin1')
  else:
    p.value = payload
  return p


def apply_rpc(serv, holder, rpc):
  """Runs one RPC (python tuple) on the real servicer. Returns ('Done', kind, payload) or ('Failed', errclass)."""
  kind = rpc[0]
  try:
    if kind == 'CreateStudy':
      _, o, sid, named, state, metrics = rpc
      st = study_pb2.Study(display_name=STUDIES[sid], study_spec=study_config(metrics).to_proto())
      st.state = {'SS_UNSPEC': 0, 'SS_ACTIVE': 1, 'SS_INACTIVE': 2, 'SS_COMPLETED': 3}[state]
      if named:
        st.name = 'owners/x/studies/y'
      r = serv.CreateStudy(vs.CreateStudyRequest(parent='owners/' + OWNERS[o], study=st))
      return ('Done', 'RpStudy', (c_key(r.name), c_study(r)))
    if kind == 'GetStudy':
      r = serv.GetStudy(vs.GetStudyRequest(name=study_name(rpc[1], rpc[2])))
      return ('Done', 'RpStudy', (c_key(r.name), c_study(r)))
    if kind == 'ListStudies':
      r = serv.ListStudies(vs.ListStudiesRequest(parent='owners/' + OWNERS[rpc[1]]))
      return ('Done', 'RpStudies', [(c_key(s.name), c_study(s)) for s in r.studies])
    if kind == 'DeleteStudy':
      serv.DeleteStudy(vs.DeleteStudyRequest(name=study_name(rpc[1], rpc[2])))
      return ('Done', 'RpEmpty', None)
    if kind == 'SetStudyState':
      r = serv.SetStudyState(vs.SetStudyStateRequest(
          parent=study_name(rpc[1], rpc[2]), state={'SS_UNSPEC': 0, 'SS_ACTIVE': 1, 'SS_INACTIVE': 2, 'SS_COMPLETED': 3}[rpc[3]]))
      return ('Done', 'RpStudy', ((rpc[1], rpc[2]), c_study(r)))
    if kind == 'CreateTrial':
      _, o, sid, params, state, meas, final = rpc
      t = study_pb2.Trial(state=study_pb2.Trial.State.Value(state))
      t.parameters.add(parameter_id='x').value.number_value = params / 100.0
      t.client_id = 'someone'
      for m in meas:
        t.measurements.append(mk_measurement(m))
      if final:
        t.final_measurement.CopyFrom(mk_measurement(final))
      r = serv.CreateTrial(vs.CreateTrialRequest(parent=study_name(o, sid), trial=t))
      return ('Done', 'RpTrial', c_trial(r))
    if kind == 'SuggestTrials':
      _, o, sid, c, count, oracle = rpc
      holder.outcome = oracle
      r = serv.SuggestTrials(vs.SuggestTrialsRequest(parent=study_name(o, sid), suggestion_count=count, client_id=CLIENTS[c]))
      return ('Done', 'RpOp', c_op(r))
    if kind == 'GetTrial':
      r = serv.GetTrial(vs.GetTrialRequest(name=trial_name(rpc[1], rpc[2], rpc[3], _variant(rpc))))
      return ('Done', 'RpTrial', c_trial(r))
    if kind == 'ListTrials':
      r = serv.ListTrials(vs.ListTrialsRequest(parent=study_name(rpc[1], rpc[2])))
      return ('Done', 'RpTrials', [c_trial(t) for t in r.trials])
    if kind == 'AddTrialMeasurement':
      r = serv.AddTrialMeasurement(vs.AddTrialMeasurementRequest(
          trial_name=trial_name(rpc[1], rpc[2], rpc[3]), measurement=mk_measurement(rpc[4])))
      return ('Done', 'RpTrial', c_trial(r))
    if kind == 'CompleteTrial':
      _, o, sid, tid, final, infeasible = rpc
      req = vs.CompleteTrialRequest(name=trial_name(o, sid, tid), trial_infeasible=infeasible,
                                    infeasible_reason='why' if infeasible and tid % 2 else '')   # a reason is optional
      if final:
        req.final_measurement.CopyFrom(mk_measurement(final))
      elif tid % 3 == 0:
        req.final_measurement.step_count = 7     # a final measurement that is present but carries no metric is no measurement
      r = serv.CompleteTrial(req)
      return ('Done', 'RpTrial', c_trial(r))
    if kind == 'StopTrial':
      r = serv.StopTrial(vs.StopTrialRequest(name=trial_name(rpc[1], rpc[2], rpc[3], _variant(rpc))))
      return ('Done', 'RpTrial', c_trial(r))
    if kind == 'DeleteTrial':
      serv.DeleteTrial(vs.DeleteTrialRequest(name=trial_name(rpc[1], rpc[2], rpc[3], _variant(rpc))))
      return ('Done', 'RpEmpty', None)
    if kind == 'CheckEarlyStop':
      _, recycle, o, sid, tid, oracle = rpc
      holder.outcome = oracle
      r = serv.CheckTrialEarlyStoppingState(vs.CheckTrialEarlyStoppingStateRequest(trial_name=trial_name(o, sid, tid)))
      return ('Done', 'RpStop', bool(r.should_stop))
    if kind == 'UpdateMetadata':
      o, sid, smd, tmd = rpc[1:5]
      req = vs.UpdateMetadataRequest(name=study_name(o, sid))
      for kv in smd:
        req.delta.add().metadatum.CopyFrom(mk_kv(kv))
      var_ = rpc[5] if len(rpc) > 5 else ''
      spell = {'': '%d', 'z': '0%d', 'p': '+%d', 's': '%d ', 'm': None}[var_]     # another accepted spelling of the trial ids
      for i_, (tid, kv) in enumerate(tmd):
        # 'm': the spellings alternate inside one request (the same trial is named in several ways)
        u = req.delta.add(trial_id=(spell if spell is not None else ['%d', '0%d', '%d', '+%d'][i_ % 4]) % tid)
        u.metadatum.CopyFrom(mk_kv(kv))
      r = serv.UpdateMetadata(req)
      return ('Done', 'RpMdError' if r.error_details else 'RpEmpty', None)
    if kind == 'ListOptimalTrials':
      r = serv.ListOptimalTrials(vs.ListOptimalTrialsRequest(parent=study_name(rpc[1], rpc[2])))
      return ('Done', 'RpTrials', [c_trial(t) for t in r.optimal_trials])
    if kind == 'GetOperation':
      _, o, sid, c, n = rpc
      name = 'owners/%s/operations/suggestion/%s/%s/%d' % (OWNERS[o], STUDIES[sid], CLIENTS[c], n)
      r = serv.GetOperation(operations_pb2.GetOperationRequest(name=name))
      return ('Done', 'RpOp', c_op(r))
    raise AssertionError(kind)
  except Exception as e:  # pylint: disable=broad-except
    return ('Failed', classify(e), repr(e)[:200])


def snapshot(serv):
  """Canonical observable state through the datastore interface (proxy recording switched off)."""
  ds = serv.datastore
  rec = getattr(ds, 'recording', None)
  if rec is not None:
    ds.recording = False
  hook = getattr(ds, 'hook', None)
  if hook is not None:
    ds.hook = None
  try:
    out = []
    for o in sorted(OWNERS):
      try:
        studies = ds.list_studies('owners/' + OWNERS[o])
      except custom_errors.NotFoundError:
        out.append(None)
        continue
      nodes = []
      for s in studies:
        trials = ds.list_trials(s.name)
        ops = []
        for c in sorted(CLIENTS):
          try:
            ops += [c_op(x) for x in ds.list_suggestion_operations(s.name, CLIENTS[c])]
          except custom_errors.NotFoundError:
            pass
        es = []
        mx = max(max([int(t.id) for t in trials] + [0]) + 3, 12)    # early-stopping records may exist for ids that are not trials
        for tid in range(1, mx + 1):
          try:
            es.append(c_es(ds.get_early_stopping_operation(
                'owners/%s/operations/earlystopping/%s/%d' % (OWNERS[o], s.display_name, tid))))
          except (custom_errors.NotFoundError, KeyError):
            pass
        nodes.append((c_key(s.name), {'study': c_study(s), 'trials': [c_trial(t) for t in trials], 'ops': ops, 'es': es}))
      out.append(nodes)
    return out
  finally:
    if rec is not None:
      ds.recording = rec
    if hook is not None:
      ds.hook = hook


# ------------------------------------------------------------------ Gallina printers


def g_x(c):
  return {'nan': 'NaN', 'inf': 'PInf', '-inf': 'NInf'}.get(c) or '(Fin %s)' % gZ(c)


def g_meas(m):
  return glist(m, lambda p: gpair(gN(p[0]), g_x(p[1])))


def g_kv(kv):
  ns, k, tag, payload = kv
  return gpair(gpair(gstr(ns), gstr(k)), gpair(gN(tag), gstr(payload)))


def g_kvs(l):
  return glist(l, g_kv)


def g_trial(t):
  return '(mkT %s %s %s %s %s %s %s)' % (gN(t['id']), t['state'], gN(t['client']), gN(t['params']),
                                         glist(t['meas'], g_meas), g_meas(t['final']), g_kvs(t['md']))


def g_study(s):
  return '(mkS %s %s %s)' % (s['state'], glist(s['metrics'], lambda p: gpair(gN(p[0]), gbool(p[1]))), g_kvs(s['md']))


def g_key(k):
  return gpair(gN(k[0]), gN(k[1]))


def g_op(o):
  return '(mkOp %s %s %s %s %s)' % (gN(o['client']), gN(o['num']), gbool(o['done']), gbool(o['err']), glist(o['trials'], g_trial))


def g_es(e):
  return '(mkEs %s %s %s)' % (gN(e['trial']), gbool(e['active']), gbool(e['stop']))


def g_node(n):
  return '(mkN %s %s %s %s)' % (g_study(n['study']), glist(n['trials'], g_trial), glist(n['ops'], g_op), glist(n['es'], g_es))


def g_snapshot(snap):
  return glist(snap, lambda ov: 'None' if ov is None else '(Some %s)' % glist(ov, lambda kn: gpair(g_key(kn[0]), g_node(kn[1]))))


def g_tmd(tmd):
  return glist(tmd, lambda u: gpair(gN(u[0]), g_kv(u[1])))


def g_oracle(o):
  if o is None:
    return '(PFail EOther)'
  if o[0] == 'fail':
    return '(PFail %s)' % classify(o[1]('x'))
  if o[0] == 'deliver':
    return '(PDeliver %s %s %s)' % (glist(o[1], gN), g_kvs(o[2]), g_tmd(o[3]))
  if o[0] == 'decide':
    return '(PDecide %s %s %s)' % (glist(o[1], lambda d: gpair(gN(d[0]), gbool(d[1]))), g_kvs(o[2]), g_tmd(o[3]))
  raise AssertionError(o)


def g_rpc(rpc):
  k = rpc[0]
  if k == 'CreateStudy':
    _, o, sid, named, state, metrics = rpc
    st = {'state': state, 'metrics': metrics, 'md': []}
    return '(CreateStudy %s %s %s %s)' % (gN(o), gN(sid), gbool(named), g_study(st))
  if k in ('GetStudy', 'DeleteStudy', 'ListTrials', 'ListOptimalTrials'):
    return '(%s %s)' % (k, g_key((rpc[1], rpc[2])))
  if k == 'ListStudies':
    return '(ListStudies %s)' % gN(rpc[1])
  if k == 'SetStudyState':
    return '(SetStudyState %s %s)' % (g_key((rpc[1], rpc[2])), rpc[3])
  if k == 'CreateTrial':
    _, o, sid, params, state, meas, final = rpc
    t = {'id': 0, 'state': state, 'client': 0, 'params': params, 'meas': meas, 'final': final, 'md': []}
    return '(CreateTrial %s %s)' % (g_key((o, sid)), g_trial(t))
  if k == 'SuggestTrials':
    return '(SuggestTrials %s %s %s)' % (g_key((rpc[1], rpc[2])), gN(rpc[3]), gnat(rpc[4]))
  if k in ('GetTrial', 'StopTrial', 'DeleteTrial'):
    return '(%s %s %s)' % (k, g_key((rpc[1], rpc[2])), gN(rpc[3]))
  if k == 'AddTrialMeasurement':
    return '(AddTrialMeasurement %s %s %s)' % (g_key((rpc[1], rpc[2])), gN(rpc[3]), g_meas(rpc[4]))
  if k == 'CompleteTrial':
    return '(CompleteTrial %s %s %s %s)' % (g_key((rpc[1], rpc[2])), gN(rpc[3]), g_meas(rpc[4]), gbool(rpc[5]))
  if k == 'CheckEarlyStop':
    return '(CheckEarlyStop %s %s %s)' % (gbool(rpc[1]), g_key((rpc[2], rpc[3])), gN(rpc[4]))
  if k == 'UpdateMetadata':
    return '(UpdateMetadata %s %s %s)' % (g_key((rpc[1], rpc[2])), g_kvs(rpc[3]), g_tmd(rpc[4]))
  if k == 'GetOperation':
    return '(GetOperation %s %s %s)' % (g_key((rpc[1], rpc[2])), gN(rpc[3]), gN(rpc[4]))
  raise AssertionError(k)


def rpc_oracle(rpc):
  if rpc[0] in ('SuggestTrials', 'CheckEarlyStop'):
    return rpc[-1]
  return None


def g_outcome(out):
  if out[0] == 'Failed':
    return '(Failed %s)' % out[1]
  _, kind, p = out
  if kind == 'RpStudy':
    return '(Done (RpStudy %s %s))' % (g_key(p[0]), g_study(p[1]))
  if kind == 'RpStudies':
    return '(Done (RpStudies %s))' % glist(p, lambda ks: gpair(g_key(ks[0]), g_study(ks[1])))
  if kind == 'RpTrial':
    return '(Done (RpTrial %s))' % g_trial(p)
  if kind == 'RpTrials':
    return '(Done (RpTrials %s))' % glist(p, g_trial)
  if kind == 'RpOp':
    return '(Done (RpOp %s))' % g_op(p)
  if kind == 'RpEmpty':
    return '(Done RpEmpty)'
  if kind == 'RpMdError':
    return '(Done RpMdError)'
  if kind == 'RpStop':
    return '(Done (RpStop %s))' % gbool(p)
  raise AssertionError(kind)


def g_trace(tr):
  return glist(tr, lambda c: '(%s, %s, %s)' % (gN(c[0]), glist(c[1], gN), gbool(c[2])))


def g_case(steps, snap):
  """steps: list of (rpc, outcome, trace)."""
  body = glist(steps, lambda s: '(%s, %s, %s, %s)' % (g_rpc(s[0]), g_oracle(rpc_oracle(s[0])) if rpc_oracle(s[0]) is not None or s[0][0] in ('SuggestTrials', 'CheckEarlyStop') else '(PFail EOther)', g_outcome(s[1]), g_trace(s[2])))
  return '(%s, %s)' % (body, g_snapshot(snap))


HDR = 'From VZ Require Import Base.Prelude Base.XFloat Model.Metadata Model.Service Model.ServiceEq.\n'


# ------------------------------------------------------------------ sequence generator


def gen_md(r, n=2):
  out = []
  for _ in range(r.randrange(0, n + 1)):
    ns = r.choice(['', ':a', ':a:b', ':designer_policy_v0'])
    k = r.choice(['k', 'k2', '', 'k', 'b:k'])      # 'b:k' under ':a' spells the same path as 'k' under ':a:b'
    out.append((ns, k, 0, r.choice(['v', 'w', ''])))
  return out


def gen_meas(r, allow_special=True):
  m = []
  for mid in (1, 2):
    if r.random() < 0.75:
      u = r.random()
      v = r.randrange(0, 4)
      if allow_special and u < 0.05:
        v = r.choice(['inf', '-inf'])
      elif allow_special and u < 0.08:
        v = 'nan'
      m.append((mid, v))
  return m


def key_of_rpc(rpc):
  if rpc[0] == 'CheckEarlyStop':
    return (rpc[2], rpc[3])
  return (rpc[1], rpc[2])


# what a failing algorithm may raise: plain Python errors and Pythia's own error types (some of which invite retries)
FAIL_CLASSES = [ValueError, RuntimeError, KeyError, AssertionError, pythia.TemporaryPythiaError, pythia.PythiaFallbackError,
                pythia.LoadTooLargeError, pythia.InactivateStudyError, pythia.VizierDatabaseError, pythia.CancelComputeError]


class Gen:
  """Generates mostly-legal RPC sequences while tracking a rough picture of what exists."""

  def __init__(self, r, nan=True, profile=None):
    self.r = r
    self.nan = nan
    self.live = {}
    self.p = {'suggest': 0.18, 'fail': 0.1, 'delete_study': 0.02, 'owner2': 0.33, 'md': 0.0, 'optimal': 0.0}
    self.p.update(profile or {})

  def spelling(self):
    """Now and then the trial is named by another spelling of its id (leading zero, plus sign, trailing space)."""
    return (self.r.choice('zps'),) if self.r.random() < 0.15 else ()

  def seq(self, n, recycle=True):
    """Generates adaptively against a live RAM servicer so that most calls are legal."""
    r = self.r
    studies = []   # (o, sid)
    next_tid = {}
    out = []
    serv, holder, proxy = make_servicer('ram', recycle=recycle)
    warm = []
    if self.p.get('warmup') and r.random() < self.p['warmup']:
      for sid in r.sample([1, 2, 3], r.choice([2, 3])):
        warm.append(('CreateStudy', 1, sid, False, 'SS_ACTIVE', [(1, True)]))
        warm.append(('SuggestTrials', 1, sid, r.choice([1, 2]), r.choice([1, 2]), ('deliver', [r.randrange(100), r.randrange(100)], [], [])))
    for _ in range(n + len(warm)):
      if out:
        last = out[-1]
        if last[0] == 'CheckEarlyStop':
          last = (last[0], recycle) + tuple(last[2:])
        if not _guarded(lambda: apply_rpc(serv, holder, last)):
          return out   # the call hangs; the run of this sequence reports it
        for (o_, sid_) in list(studies):
          try:
            ids = [int(t.id) for t in proxy._inner.list_trials(study_name(o_, sid_))]
            self.live[(o_, sid_)] = ids
            next_tid[(o_, sid_)] = max(ids + [0]) + 1
          except Exception:  # pylint: disable=broad-except
            self.live[(o_, sid_)] = []
      if warm:
        w = warm.pop(0)
        out.append(w)
        if w[0] == 'CreateStudy':
          studies.append((w[1], w[2]))
          next_tid.setdefault((w[1], w[2]), 1)
        continue
      u = r.random()
      if not studies or u < 0.05:
        o, sid = (2 if r.random() < self.p['owner2'] else 1), r.choice([1, 1, 1, 2, 2, 2, 3, 3, 0])
        out.append(('CreateStudy', o, sid, r.random() < 0.04, r.choice(['SS_ACTIVE'] * 10 + ['SS_UNSPEC', 'SS_INACTIVE']),
                    r.choice([[(1, True)], [(1, True), (2, False)], [(1, False)]])))
        if sid and (o, sid) not in studies:
          studies.append((o, sid))
          next_tid.setdefault((o, sid), 1)
        continue
      if r.random() < 0.96:
        o, sid = r.choice(studies)
      else:
        o, sid = r.choice([1, 2]), r.choice([1, 2, 3])
      mx = next_tid.get((o, sid), 1)
      ids = self.live.get((o, sid)) or [1]
      tid = r.choice(ids) if r.random() < 0.93 else mx + r.choice([0, 1, 2])
      # a write that fails inside the datastore right after a state change (a metadata update naming a missing trial):
      # whatever the previous call stored and acknowledged must survive it (SQL: a rollback must not take it along)
      if out and out[-1][0] in ('CheckEarlyStop', 'SuggestTrials', 'CompleteTrial', 'StopTrial', 'SetStudyState', 'AddTrialMeasurement') \
          and out[-1][0] != 'UpdateMetadata' and r.random() < self.p.get('fail_after', 0.12):
        lastk = key_of_rpc(out[-1])
        if lastk in studies:
          out.append(('UpdateMetadata', lastk[0], lastk[1], gen_md(r, 1), [(next_tid.get(lastk, 1) + 7, kv) for kv in gen_md(r, 1)] or
                      [(next_tid.get(lastk, 1) + 7, ('', 'k', 0, 'v'))]))
          continue
      # keep poking the trial the previous call touched (completed / stopped / infeasible trials get follow-up calls)
      if out and out[-1][0] in ('CompleteTrial', 'StopTrial', 'AddTrialMeasurement', 'CheckEarlyStop') and r.random() < 0.45:
        lastk = key_of_rpc(out[-1])
        if lastk in studies:
          o, sid = lastk
          tid = out[-1][4] if out[-1][0] == 'CheckEarlyStop' else out[-1][3]
          u0 = r.random()
          forced = ('AddTrialMeasurement', o, sid, tid, gen_meas(r, False)) if u0 < 0.4 else (
              ('CompleteTrial', o, sid, tid, gen_meas(r, self.nan), r.random() < 0.3) if u0 < 0.65 else (
                  ('StopTrial', o, sid, tid) if u0 < 0.85 else ('GetTrial', o, sid, tid)))
          out.append(forced)
          continue
      u = r.random()
      if not self.live.get((o, sid)) and u > 0.26 and r.random() < 0.8:
        u = r.random() * 0.26
      if r.random() < self.p['delete_study']:
        out.append(('DeleteStudy', o, sid))
        if (o, sid) in studies:
          studies.remove((o, sid))
          next_tid.pop((o, sid), None)
          self.live.pop((o, sid), None)
        continue
      if u >= 0.18 and r.random() < (self.p['suggest'] - 0.18):
        u = 0.0
      if r.random() < self.p['md']:
        u = 0.70
      if r.random() < self.p['optimal']:
        u = r.choice([0.80, 0.30, 0.30])
      if u < 0.18:
        c = r.choice([1, 1, 2, 3])
        count = r.choice([1, 1, 2, 3])
        v = r.random()
        if v < self.p['fail']:
          oracle = ('fail', r.choice(FAIL_CLASSES))
        else:
          k = max(0, count + r.choice([0, 0, 0, 1, 2, -1, -2]))
          tmd = [(r.randrange(1, mx + 2), kv) for kv in gen_md(r, 1)] if r.random() < 0.25 else []
          oracle = ('deliver', [r.randrange(0, 100) for _ in range(k)], gen_md(r, 1), tmd)
        out.append(('SuggestTrials', o, sid, c, count, oracle))
      elif u < 0.26:
        st = r.choice(['REQUESTED', 'REQUESTED', 'ACTIVE', 'SUCCEEDED', 'INFEASIBLE'])
        fin = gen_meas(r, self.nan) if st == 'SUCCEEDED' else []
        out.append(('CreateTrial', o, sid, r.randrange(0, 100), st, [gen_meas(r, False)] if r.random() < 0.2 else [], fin))
      elif u < 0.42:
        out.append(('CompleteTrial', o, sid, tid, gen_meas(r, self.nan) if r.random() < 0.7 else [], r.random() < 0.3))
      elif u < 0.50:
        out.append(('AddTrialMeasurement', o, sid, tid, gen_meas(r, False)))
      elif u < 0.56:
        out.append(('StopTrial', o, sid, tid) + self.spelling())
      elif u < 0.60:
        out.append(('DeleteTrial', o, sid, tid) + self.spelling())
      elif u < 0.66:
        v = r.random()
        if v < self.p['fail'] * 1.5:
          oracle = ('fail', r.choice(FAIL_CLASSES))
        else:
          ds = [(tid, r.random() < 0.5)] if r.random() < 0.8 else []
          if r.random() < 0.3:
            ds.append((r.randrange(1, mx + 1), r.random() < 0.5))
          # metadata for trials, sometimes for a trial that does not exist (cannot be stored)
          tmd = [(r.randrange(1, mx + 2), kv) for kv in gen_md(r, 1)] if r.random() < 0.3 else []
          oracle = ('decide', ds, gen_md(r, 1), tmd)
        out.append(('CheckEarlyStop', r.random() < 0.6, o, sid, tid, oracle))
      elif u < 0.72:
        tmd = [(r.randrange(1, mx + 1) if r.random() < 0.85 else mx + 3, kv) for kv in gen_md(r, 2)]
        sp_ = self.spelling()
        if r.random() < 0.12:
          # several writes of one (namespace, key) of one trial in one request, the trial named in alternating spellings: the
          # last one wins
          t_ = r.randrange(1, mx + 1)
          base_ = (gen_md(r, 1) or [('', 'k', 0, 'v')])[0]
          tmd = [(t_, tuple(base_[:3]) + (v_,)) for v_ in ('v1', 'v2', 'v3')][:r.choice([2, 3])]
          sp_ = ('m',)
        out.append(('UpdateMetadata', o, sid, gen_md(r, 2), tmd) + sp_)
      elif u < 0.745:
        out.append(('SetStudyState', o, sid, r.choice(['SS_ACTIVE', 'SS_INACTIVE', 'SS_COMPLETED', 'SS_ACTIVE', 'SS_ACTIVE'])))
      elif u < 0.765:
        out.append(('GetStudy', o, sid))
      elif u < 0.85:
        out.append(('ListOptimalTrials', o, sid))
      elif u < 0.89:
        out.append(('ListTrials', o, sid))
      elif u < 0.92:
        out.append(('GetTrial', o, sid, tid) + self.spelling())
      elif u < 0.94:
        out.append(('GetStudy', o, sid))
      elif u < 0.96:
        out.append(('ListStudies', r.choice([1, 2])))
      else:
        out.append(('GetOperation', o, sid, r.choice([1, 2, 3]), r.choice([1, 1, 2, 3])))
    return out


def fix_recycle(seq, recycle):
  """CheckEarlyStop carries the recycle flag of the servicer it runs on."""
  return [(s[0], recycle) + tuple(s[2:]) if s[0] == 'CheckEarlyStop' else s for s in seq]


def _guarded(fn, timeout=None):
  """Runs fn() on a worker thread; False when it does not return within the RPC timeout."""
  import threading
  box = []

  def body():
    try:
      fn()
    finally:
      box.append(1)
  th = threading.Thread(target=body, daemon=True)
  th.start()
  th.join(RPC_TIMEOUT if timeout is None else timeout)
  if not box:
    HUNG.append(th)
    return False
  return True


def run_sequence(backend, seq, recycle=True, tmpdir=None, per_step=False, timeout=None):
  """Runs seq on a fresh real servicer.

  Returns (steps, final snapshot, servicer); a step is (rpc, outcome, trace, snapshot-after or None, pythia calls made).

  The sequence runs on one worker thread (servicer construction included: an in-memory SQLite database belongs to
  the thread that opened it). A call that does not return within RPC_TIMEOUT seconds ends the sequence with the
  outcome ('Failed', 'ETimeout', ...): the servicer is abandoned (servicer None in the result) and the caller reports it.
  """
  import threading
  timeout = RPC_TIMEOUT if timeout is None else timeout
  st = {'steps': [], 'beat': time.time(), 'current': None, 'done': False, 'snap': None, 'serv': None, 'exc': None,
        'trace': None}

  def body():
    try:
      serv, holder, proxy = make_servicer(backend, recycle=recycle, tmpdir=tmpdir)
      st['serv'] = serv
      for rpc in seq:
        proxy.trace = []
        st['trace'] = proxy
        c0 = holder.calls
        st['current'] = rpc
        st['beat'] = time.time()
        out = apply_rpc(serv, holder, rpc)
        st['beat'] = time.time()
        st['steps'].append((rpc, out, list(proxy.trace), snapshot(serv) if per_step else None, holder.calls - c0))
      st['current'] = None
      st['beat'] = time.time()
      st['snap'] = snapshot(serv)
    except BaseException as e:  # pylint: disable=broad-except
      st['exc'] = e
    finally:
      st['done'] = True

  th = threading.Thread(target=body, daemon=True)
  th.start()
  while True:
    th.join(1.0 if timeout > 1 else timeout)
    if st['done'] or not th.is_alive():
      break
    if time.time() - st['beat'] > timeout:
      break
  if st['exc'] is not None:
    raise st['exc']
  if st['done']:
    return st['steps'], st['snap'], st['serv']
  # the call in st['current'] hangs
  import faulthandler, io, sys, traceback
  frames = sys._current_frames().get(th.ident)
  where = ''.join(traceback.format_stack(frames)[-6:]) if frames is not None else ''
  HUNG.append(th)
  steps = list(st['steps'])
  rpc = st['current'] if st['current'] is not None else ('Snapshot',)
  tr = list(st['trace'].trace) if st['trace'] is not None else []
  steps.append((rpc, ('Failed', 'ETimeout', 'the call did not return within %g s; it waits at:\n%s' % (timeout, where)),
                tr, None, 0))
  last = None
  for s_ in reversed(st['steps']):
    if s_[3] is not None:
      last = s_[3]
      break
  return steps, last, None


def correspond(rep, pid, tag, runs, shard=60):
  """runs: list of (label, steps, snap). Evaluates the model on each; returns (broke_msg or None, bad indices)."""
  from harness import common as C
  cases = [g_case(steps, snap) for (_, steps, snap) in runs]
  bad = C.run_cases(pid, tag, HDR, cases, 'svc_case_ok', shard=shard)
  rep.disagreements += len(bad)
  msg = None
  if bad:
    i = bad[0]
    label, steps, snap = runs[i]
    # locate the first disagreeing step for the replay
    k = C.run_cases(pid, tag + 'loc', HDR + 'Definition loc (c : svc_case) := Nat.eqb (first_bad (fst c) init_state 0) 9999.\n', [cases[i]], 'loc')
    msg = 'correspondence service model vs code (%s): %d of %d sequences disagree; first: %r' % (
        tag, len(bad), len(runs), {'label': label, 'steps': [(s[0], s[1]) for s in steps]})
    if pid == 'C01':
      # C01's last clause IS the comparison with the sequential reference model: a sequence on which a RESPONSE or the final
      # STORED STATE differs from the model (the datastore-call trace ignored - a rewrite may change it harmlessly) is a failing
      # input of the property, and is reported as one.
      obs_hdr = HDR + ('Fixpoint seq_obs (steps : list svc_step) (s : state) : bool * state :=\n'
                       '  match steps with [] => (true, s) | (r, po, want, wtr) :: rest =>\n'
                       '    let \'(s\', o, tr) := run (handler r) s po [] in\n'
                       '    if outcome_eqb o want then seq_obs rest s\' else (false, s\') end.\n'
                       'Definition obs_ok (c : svc_case) := let \'(ok, s) := seq_obs (fst c) init_state in\n'
                       '  ok && snapshot_eqb (snapshot CLIENTS OWNERS s) (snd c).\n')
      sub = [cases[i] for i in bad[:20]]
      obs_bad = C.run_cases(pid, tag + 'obs', obs_hdr, sub, 'obs_ok')
      for j in obs_bad[:3]:
        label, steps, snap = runs[bad[j]]
        rep.violation('a response or the final stored data differ from the sequential reference model of the documented API '
                      '(coq/Model/Service.v) on this call sequence [%s]' % label.split('#')[0],
                      {'backend': label.split('#')[0], 'sequence': [s[0] for s in steps], 'outcomes': [s[1] for s in steps]})
        rep.corr_concrete = True
    KINDS_ = {'C02': ('SuggestTrials _ _ _ | GetOperation _ _ _', 'a SuggestTrials / GetOperation response differs from the functional specification of '
                      'suggestions (coq/Model/Service.v, the function theorem C02_suggest_functional is about)'),
              'C06': ('SuggestTrials _ _ _ | GetOperation _ _ _ | CheckEarlyStop _ _ _', 'the answer to a suggestion / early-stopping call differs from the '
                      'reference model of failure handling (coq/Model/Service.v: short deliveries handed out as they are, failures reported, operations finished)'),
              'C07': (None, 'a response or the final stored data on this backend differ from the one model both backends are compared with')}
    if pid in KINDS_:
      # the first response that differs from the model is at a call this property is about: the sequence is a failing input
      pat, text = KINDS_[pid]
      pred = 'fun r : rpc => true' if pat is None else 'fun r : rpc => match r with %s => true | _ => false end' % pat
      obs_hdr = HDR + ('Fixpoint seq_first (pred : rpc -> bool) (steps : list svc_step) (s : state) : bool * state :=\n'
                       '  match steps with [] => (true, s) | (r, po, want, wtr) :: rest =>\n'
                       '    let \'(s\', o, tr) := run (handler r) s po [] in\n'
                       '    if outcome_eqb o want then seq_first pred rest s\' else (negb (pred r), s\') end.\n'
                       'Definition obs_ok (c : svc_case) := let \'(ok, s) := seq_first (%s) (fst c) init_state in\n'
                       '  ok%s.\n' % (pred, ' && snapshot_eqb (snapshot CLIENTS OWNERS s) (snd c)' if pat is None else ''))
      sub = [cases[i] for i in bad[:20]]
      obs_bad = C.run_cases(pid, tag + 'obs', obs_hdr, sub, 'obs_ok')
      for j in obs_bad[:3]:
        label, steps, snap = runs[bad[j]]
        rep.violation('%s on this call sequence [%s]' % (text, label.split('#')[0]),
                      {'backend': label.split('#')[0], 'sequence': [s[0] for s in steps], 'outcomes': [s[1] for s in steps]})
        rep.corr_concrete = True
  return msg, bad


def c10_e2e(rep, tier, seed, known):
  from harness import svcrun, svcmon, common as C
  r = C.rng(seed, 'c10e2e')
  return svcrun.service_part(rep, 'C10', r, tier, known, monitors=[svcrun.wrap(svcmon.c10_step)],
                             profile={'md': 0.4}, nseq_quick=30, nseq_thorough=400, tag='e2e')


def pareto_sequence(r):
  """One study with 1 or 2 objectives; trials completed with small-integer vectors (many ties), some infeasible WITH a full final
  measurement, some without all metrics, some NaN; ListOptimalTrials after most completions."""
  nm = r.choice([1, 2, 2])
  metrics = [(1, r.random() < 0.5)] + ([(2, r.random() < 0.5)] if nm == 2 else [])
  seq = [('CreateStudy', 1, 1, False, 'SS_ACTIVE', metrics)]
  n = r.randrange(3, 9)
  seq.append(('SuggestTrials', 1, 1, 1, n, ('deliver', [r.randrange(100) for _ in range(n)], [], [])))
  order = list(range(1, n + 1))
  r.shuffle(order)
  # now and then the values are neighbouring integers above 2^24: distinct doubles that single precision cannot tell apart
  base_ = 16777216 if r.random() < 0.3 else 0
  for tid in order:
    u = r.random()
    meas = [(m, base_ + r.randrange(0, 3)) for m, _ in metrics]
    if u < 0.12:
      meas = meas[:-1]                       # a metric is missing
    elif u < 0.18:
      meas[0] = (meas[0][0], 'nan')
    elif u < 0.24:
      meas[-1] = (meas[-1][0], r.choice(['inf', '-inf']))
    infeasible = r.random() < 0.3
    if infeasible and r.random() < 0.5:
      meas = [(m, r.choice([5, 6])) if mx else (m, -1) for m, mx in metrics]      # would dominate everything if it counted
    if len(meas) > 1 and r.random() < 0.4:
      meas = list(reversed(meas))            # the worker lists the metrics in another order than the study does
    seq.append(('CompleteTrial', 1, 1, tid, meas, infeasible))
    if r.random() < 0.7:
      seq.append(('ListOptimalTrials', 1, 1))
  seq.append(('ListOptimalTrials', 1, 1))
  return seq


def c11_e2e(rep, tier, seed, known):
  from harness import svcrun, svcmon, common as C
  r = C.rng(seed, 'c11e2e')

  def matcher(what, before, rpc, out, after):
    return 'C11-nan-objective-listed' if what.startswith('NAN:') else None
  b1, c1 = svcrun.service_part(rep, 'C11', r, tier, known, monitors=[svcrun.wrap(svcmon.c11_step)], known_matcher=matcher,
                               profile={'optimal': 0.25}, nseq_quick=30, nseq_thorough=400, tag='e2e')
  b2, c2 = svcrun.service_part(rep, 'C11', r, tier, known, monitors=[svcrun.wrap(svcmon.c11_step)], known_matcher=matcher,
                               nseq_quick=25, nseq_thorough=300, tag='pareto', seqgen=pareto_sequence)
  return (b1 or b2), (c1 or c2)
