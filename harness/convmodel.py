"""Correspondence of the converter model (coq/Model/Conv.v) with vizier/pyvizier/converters/core.py."""
import math
from fractions import Fraction

from harness import common as C
from harness.common import gN, gZ, gbool, glist, gopt, gpair, gstr, gnat

HDR = 'From VZ Require Import Base.Prelude Model.Space Model.Conv.\n'


def gQf(x):
  fr = Fraction(float(x))
  return '(%d # %d)%%Q' % (fr.numerator, fr.denominator)


def g_xq(x):
  x = float(x)
  if math.isnan(x):
    return 'XNaN'
  if x == math.inf:
    return 'XPInf'
  if x == -math.inf:
    return 'XNInf'
  return '(XF %s)' % gQf(x)


def g_rv(v):
  if isinstance(v, bool):
    return '(RBool %s)' % gbool(v)
  if isinstance(v, int):
    return '(RInt %s)' % gZ(v)
  if isinstance(v, float):
    return '(RFloat %s)' % g_xq(v)
  return '(RStr %s)' % gstr(v)


TY = {'DOUBLE': 'TDouble', 'INTEGER': 'TInteger', 'DISCRETE': 'TDiscrete', 'CATEGORICAL': 'TCategorical'}


def g_pcfg(pc):
  ty = pc.type.name
  lo = hi = 0
  nums, cats = [], []
  if ty in ('DOUBLE', 'INTEGER'):
    lo, hi = pc.bounds
  elif ty == 'DISCRETE':
    nums = list(pc.feasible_values)
    lo, hi = nums[0], nums[-1]
  else:
    cats = list(pc.feasible_values)
  return '(mkPC %s %s %s %s %s %s)' % (gstr(pc.name), TY[ty], gQf(lo), gQf(hi), glist(nums, gQf), glist(cats, gstr))


def gen_pc(r, vz):
  k = r.choice(['f', 'i', 'i', 'd', 'd', 'c'])
  F = vz.ParameterConfig.factory
  if k == 'f':
    lo = r.choice([0.0, -1.5, 0.25, 2.5])
    return F('p', bounds=(lo, lo + r.choice([0.0, 1.0, 0.5, 100.0])))
  if k == 'i':
    lo = r.choice([-3, 0, 1])
    return F('p', bounds=(lo, lo + r.choice([0, 1, 4, 15])))
  if k == 'd':
    return F('p', feasible_values=sorted(r.sample([-2.0, 0.0, 0.5, 1.0, 1.5, 4.0, 7.0, 8.0, 9.0, 10.0, 11.0, 12.5, 13.0], r.choice([1, 2, 3, 5, 12]))))
  return F('p', feasible_values=r.sample(['a', 'b', 'c', 'dd', 'é'], r.choice([1, 2, 3, 5])))


def decode_cases(rep, tier, r, pid):
  """DefaultModelInputConverter.to_parameter_values (no scaling, no one-hot) vs to_pvalue."""
  import numpy as np
  from vizier import pyvizier as vz
  from vizier.pyvizier.converters import core
  n = 150 if tier == 'quick' else 2500
  cases, objs = [], []
  for _ in range(n):
    pc = gen_pc(r, vz)
    mdi = r.choice([0, 3, 10, 10, 10**6])
    clip = r.random() < 0.85
    conv_to = r.random() < 0.95
    conv = core.DefaultModelInputConverter(pc, max_discrete_indices=mdi, float_dtype=np.float64, should_clip=clip, converts_to_parameter=conv_to)
    is_double = pc.type.name == 'DOUBLE'
    continuified = (not is_double) and pc.type.name != 'CATEGORICAL' and pc.num_feasible_values > mdi
    index_type = not is_double and not continuified
    nfeas = 0 if is_double else int(pc.num_feasible_values)
    for _ in range(4):
      if index_type:
        x = r.choice([0, 1, 2, nfeas - 1, nfeas, nfeas + 3, -1, -nfeas, -nfeas - 1, 10**6])
        arr = np.array([[x]], dtype=np.int32)
      else:
        x = r.choice([0.0, 0.5, 1.0, -0.3, 1.7, 2.5, 9.75, 1e9, -1e9, math.inf, -math.inf, math.nan, 0.999999, 7.5, 12.75])
        arr = np.array([[x]], dtype=np.float64)
      try:
        out = conv.to_parameter_values(arr)[0]
        res = 'DNone' if out is None else '(DSome %s)' % g_rv(out.value)
        obs = None if out is None else out.value
      except (IndexError, TypeError) as e:
        res = 'DIndexError'
        obs = type(e).__name__
      cases.append('(%s, %s, %s, %s, %s, %s)' % (g_pcfg(pc), gbool(continuified), gbool(clip), gbool(conv_to), g_xq(x), res))
      objs.append((repr(pc)[:200], mdi, clip, conv_to, x, obs))
      rep.case({'decode': repr(pc)[:100], 'options': {'max_discrete_indices': mdi, 'should_clip': clip}, 'value': repr(x), 'result': repr(obs)},
               not (isinstance(x, float) and 0.0 <= x <= 1.0))
      rep.count('decode_' + ('double' if is_double else 'continuified' if continuified else 'index'))
  ck = ('Definition rv_same2 (a b : rv) := match a, b with RInt x, RInt y => Z.eqb x y | RFloat x, RFloat y => xq_eqb x y | RStr x, RStr y => str_eqb x y | RBool x, RBool y => Bool.eqb x y | _, _ => false end.\n'
        'Definition dres_eqb (a b : dres) := match a, b with DNone, DNone | DIndexError, DIndexError => true | DSome x, DSome y => rv_same2 x y | _, _ => false end.\n'
        'Definition ck (c : pcfg * bool * bool * bool * xq * dres) := let \'(p, cont, clip, cv, x, r) := c in dres_eqb (to_pvalue (mkCv p cont clip cv) x) r.\n')
  bad = C.run_cases(pid, 'dec', HDR + ck, cases, 'ck', shard=300)
  rep.disagreements += len(bad)
  msg = None
  for i in bad[:3]:
    msg = (msg or '') + ' correspondence DefaultModelInputConverter.to_parameter_values vs model on %r;' % (objs[i],)
  return msg, False


def c03_cases(rep, tier, r):
  return decode_cases(rep, tier, r, 'C03')


def default_cases(rep, tier, r):
  """suggest_default.get_default_parameters on one parameter vs Model/Default.v default_checked (formulas from Gen/SuggestDefault.v)."""
  from vizier import pyvizier as vz
  from vizier._src.pythia import suggest_default
  n = 120 if tier == 'quick' else 2000
  cases, objs = [], []
  for i in range(n):
    pc0 = gen_pc(r, vz)
    ty = pc0.type.name
    mode = ['none', 'inside', 'outside', 'none'][i % 4]
    d = None
    if mode == 'inside':
      d = {'DOUBLE': lambda: r.choice([pc0.bounds[0], pc0.bounds[1], (pc0.bounds[0] + pc0.bounds[1]) / 2]),
           'INTEGER': lambda: r.randrange(pc0.bounds[0], pc0.bounds[1] + 1),
           'DISCRETE': lambda: r.choice(list(pc0.feasible_values)), 'CATEGORICAL': lambda: r.choice(list(pc0.feasible_values))}[ty]()
    elif mode == 'outside':
      d = {'DOUBLE': lambda: r.choice([pc0.bounds[1] + 0.5, pc0.bounds[0] - 2.0, pc0.bounds[1] + 1024.0]),
           'INTEGER': lambda: r.choice([pc0.bounds[1] + 1, pc0.bounds[0] - 1, pc0.bounds[1] + 40]),
           'DISCRETE': lambda: r.choice([0.75, -3.0, 100.0]), 'CATEGORICAL': lambda: r.choice(['zz', '', 'A'])}[ty]()
    kw = dict(bounds=pc0.bounds) if ty in ('DOUBLE', 'INTEGER') else dict(feasible_values=list(pc0.feasible_values))
    try:
      pc = vz.ParameterConfig.factory('p', default_value=d, **kw)
      space = vz.SearchSpace()
      space.add(pc)
      out = suggest_default.get_default_parameters(space)
      if 'p' not in out:
        rep.violation('the default / centre seed does not assign the parameter of a one-parameter space',
                      {'parameter': repr(pc0)[:300], 'declared_default': repr(d), 'seed_parameters': sorted(out)})
        rep.default_seed_concrete = True
        continue
      val = out['p'].value
      res = '(Some %s)' % g_rv(val)
      obs = val
    except (ValueError, TypeError) as e:
      res, obs = 'None', type(e).__name__
    cases.append('(%s, %s, %s)' % (g_pcfg(pc0), 'None' if d is None else '(Some %s)' % g_rv(d), res))
    objs.append((repr(pc0)[:200], d, obs))
    rep.case({'default_seed': repr(pc0)[:100], 'declared_default': repr(d), 'result': repr(obs)}, mode != 'none')
    rep.count('default_' + mode + '_' + ('refused' if res == 'None' else 'given'))
  ck = ('Definition rv_num_same (a b : rv) := match num_of a, num_of b with Some x, Some y => xq_eqb x y | None, None => '
        'match a, b with RStr s, RStr t => str_eqb s t | _, _ => false end | _, _ => false end.\n'
        'Definition ck (c : pcfg * option rv * option rv) := let \'(p, d, r) := c in match default_checked p d, r with '
        '| Ok v, Some w => rv_num_same v w | Err _, None => true | _, _ => false end.\n')
  bad = C.run_cases('C03', 'dflt', 'From VZ Require Import Base.Prelude Model.Space Model.Conv Model.Default.\n' + ck, cases, 'ck', shard=300)
  rep.disagreements += len(bad)
  msg = None
  for i in bad[:3]:
    msg = (msg or '') + ' correspondence get_default_parameters vs default_checked on %r;' % (objs[i],)
  return msg, False
