"""Import bootstrap: puts the repo and shims on sys.path and installs the proto shim."""
import os
import sys

REPO = os.environ.get('VERIF_REPO', '/repo')
VERIF = os.path.dirname(os.path.dirname(os.path.abspath(__file__)))
SHIM = os.path.join(VERIF, 'harness', 'shim')

os.environ.setdefault('JAX_PLATFORMS', 'cpu')
os.environ.setdefault('TF_CPP_MIN_LOG_LEVEL', '3')
os.environ.setdefault('CUDA_VISIBLE_DEVICES', '')
os.environ['GOOGLE_VIZIER_VERIF'] = '1'


def boot():
  for p in (REPO, SHIM):
    if p in sys.path:
      sys.path.remove(p)
  sys.path.insert(0, REPO)
  sys.path.insert(0, SHIM)
  import logging
  logging.disable(logging.CRITICAL)
  try:
    from absl import logging as al
    al.set_verbosity(al.FATAL)
  except Exception:
    pass
  import protoshim
  protoshim.install()
