"""Shared machinery: Gallina printers, coq runner, evidence, verdict logic."""
import fcntl
import hashlib
import json
import os
import random
import re
import shutil
import subprocess
import sys
import time

VERIF = os.path.dirname(os.path.dirname(os.path.abspath(__file__)))
REPO = os.environ.get('VERIF_REPO', '/repo')
COQ = os.path.join(VERIF, 'coq')
CASES = os.path.join(COQ, 'cases')
# evidence/ is committed and must describe runs on the unchanged tree: the seed tools (tools/allseeds.sh, oneseed.sh, ...) send the
# evidence of their runs on a deliberately broken tree elsewhere
EVID = os.environ.get('VERIF_EVIDENCE_DIR') or os.path.join(VERIF, 'evidence')
REPLAY = os.path.join(VERIF, 'replay')
os.makedirs(os.path.join(VERIF, '.scratch'), exist_ok=True)     # git does not keep the empty directory in a fresh checkout
COQ_ENV = {'PATH': '/usr/local/bin:/usr/bin:/bin', 'HOME': '/root', 'LANG': 'C.UTF-8'}
COQ_FLAGS = ['-Q', COQ, 'VZ']

# ---------------------------------------------------------------- Gallina text


def gZ(i):
  i = int(i)
  return '(%d)%%Z' % i


def gN(i):
  return '%d%%N' % int(i)


def gnat(i):
  i = int(i)
  assert 0 <= i < 5000, i
  return '%d%%nat' % i


def gbool(b):
  return 'true' if b else 'false'


def glist(xs, f=lambda x: x):
  return '[' + '; '.join(f(x) for x in xs) + ']'


def gopt(x, f=lambda x: x):
  return 'None' if x is None else '(Some %s)' % f(x)


def gpair(a, b):
  return '(%s, %s)' % (a, b)


def gstr(s):
  """A python str as list N of code points."""
  return glist([gN(ord(c)) for c in s])


def gQ(fr):
  """fractions.Fraction -> Q literal."""
  return '(%d # %d)%%Q' % (fr.numerator, fr.denominator)


# ---------------------------------------------------------------- coq running


class CoqError(Exception):
  pass


def _run(cmd, timeout, cwd=COQ):
  p = subprocess.run(cmd, cwd=cwd, env=COQ_ENV, stdout=subprocess.PIPE, stderr=subprocess.STDOUT,
                     timeout=timeout, text=True)
  return p.returncode, p.stdout


def coq_lock():
  f = open(os.path.join(COQ, '.lock'), 'w')
  fcntl.flock(f, fcntl.LOCK_EX)
  return f


def coq_make(targets=(), timeout=1500):
  """make (full .vo) under a lock. Returns (ok, log)."""
  lk = coq_lock()
  try:
    if not os.path.exists(os.path.join(COQ, 'Makefile')):
      rc, out = _run(['coq_makefile', '-f', '_CoqProject', '-o', 'Makefile'], 120)
      if rc != 0:
        return False, out
    rc, out = _run(['timeout', str(timeout), 'make', '-j16'] + list(targets), timeout + 30)
    return rc == 0, out
  finally:
    lk.close()


def write_gen(relpath, text):
  """Write a translator output under coq/Gen only when the text changed. Returns True if changed."""
  path = os.path.join(COQ, relpath)
  lk = coq_lock()
  try:
    old = open(path).read() if os.path.exists(path) else None
    if old == text:
      return False
    with open(path, 'w') as f:
      f.write(text)
    return True
  finally:
    lk.close()


def check_property_file(pid, timeout=600):
  """Re-compile Properties/<pid>.v (dependencies are built by coq_make) and parse Print Assumptions.

  Returns dict(obligations, discharged, axioms, ok, log).
  """
  src = os.path.join(COQ, 'Properties', pid + '.v')
  text = open(src).read()
  theorems = re.findall(r'^\s*Theorem\s+(\w+)', text, re.M)
  coq_make(['-k'], timeout)   # everything that still builds (other properties' proofs may be broken)
  ok, log = coq_make(['Properties/%s.vo' % pid], timeout)
  res = {'obligations': len(theorems), 'theorems': theorems, 'discharged': 0, 'axioms': [], 'ok': ok,
         'log': log[-4000:]}
  if not ok:
    return res
  # Print Assumptions output: re-run coqc on the property file alone into a scratch .vo
  scratch = os.path.join(CASES, 'PA_%s_%d' % (pid, os.getpid()))
  os.makedirs(scratch, exist_ok=True)
  try:
    dst = os.path.join(scratch, 'PA_%s.v' % pid)
    shutil.copy(src, dst)
    rc, out = _run(['timeout', str(timeout), 'coqc'] + COQ_FLAGS + ['-Q', scratch, 'PA', dst], timeout + 30)
    res['log'] = out[-4000:]
    if rc != 0:
      res['ok'] = False
      return res
    closed = len(re.findall(r'Closed under the global context', out))
    axioms = set()
    in_ax = False
    for line in out.splitlines():
      if line.strip() == 'Axioms:':
        in_ax = True
      elif in_ax and line and not line[0].isspace():
        # "name : type" on one line, or the name alone when the type is printed on the following indented lines
        m = re.match(r"([A-Za-z_][\w.']*)\s*(:|$)", line)
        if m:
          axioms.add(m.group(1))
        else:
          in_ax = False
    axioms = sorted(axioms)
    res['axioms'] = axioms
    res['pa_closed'] = closed
    res['discharged'] = len(theorems)
    return res
  finally:
    shutil.rmtree(scratch, ignore_errors=True)


ALLOWED_AXIOMS = {
    'ClassicalDedekindReals.sig_forall_dec', 'ClassicalDedekindReals.sig_not_dec',
    'FunctionalExtensionality.functional_extensionality_dep', 'functional_extensionality_dep',
    'Classical_Prop.classic', 'classic', 'sig_forall_dec', 'sig_not_dec',
}


def run_cases(pid, tag, header, cases, checker, shard=400, timeout=900):
  """Evaluate `checker : case -> bool` of the model on `cases` (Gallina terms) inside coqc.

  header: Coq text (Require Imports, local definitions). Returns the list of indices whose checker is false.
  Raises CoqError if a cases file does not compile (tie broken for another reason).
  """
  os.makedirs(CASES, exist_ok=True)
  d = os.path.join(CASES, '%s_%s_%d' % (pid, tag, os.getpid()))
  shutil.rmtree(d, ignore_errors=True)
  os.makedirs(d)
  files = []
  try:
    for k in range(0, len(cases), shard):
      chunk = cases[k:k + shard]
      name = 'K%s_%s_%d' % (pid, tag, k // shard)
      path = os.path.join(d, name + '.v')
      with open(path, 'w') as f:
        f.write(header + '\n')
        f.write('Definition cases := [\n' + ';\n'.join(chunk) + '\n].\n')
        f.write('Definition failing := map fst (filter (fun p => negb (%s (snd p))) '
                '(combine (seq 0 (length cases)) cases)).\n' % checker)
        f.write('Eval vm_compute in (length cases, failing).\n')
      files.append((k, path, len(chunk)))
    procs = []
    failing = []

    def launch(item):
      k, path, n = item
      return (item, subprocess.Popen(['timeout', str(timeout), 'coqc'] + COQ_FLAGS + ['-Q', d, 'KS', path],
                                     cwd=COQ, env=COQ_ENV, stdout=subprocess.PIPE, stderr=subprocess.STDOUT,
                                     text=True))
    pending = list(files)
    running = []
    while pending or running:
      while pending and len(running) < 14:
        running.append(launch(pending.pop(0)))
      (k, path, n), p = running.pop(0)
      out, _ = p.communicate()
      if p.returncode != 0:
        keep = os.path.join(REPLAY, os.path.basename(path))
        os.makedirs(REPLAY, exist_ok=True)
        shutil.copy(path, keep)
        raise CoqError('cases file %s failed (copy at %s):\n%s' % (path, keep, out[-3000:]))
      m = re.search(r'=\s*\(\s*(\d+)(?:%nat)?\s*,\s*(\[.*?\]|nil)(?:%nat)?\s*\)', out, re.S)
      if not m or int(m.group(1)) != n:
        raise CoqError('cannot parse coqc output for %s:\n%s' % (path, out[-2000:]))
      body = m.group(2)
      idx = [int(x) for x in re.findall(r'\d+', body.replace('%nat', ''))]
      failing.extend(k + i for i in idx)
    return sorted(failing)
  finally:
    shutil.rmtree(d, ignore_errors=True)


# ---------------------------------------------------------------- verdicts


def load_known():
  p = os.path.join(VERIF, 'known_findings.json')
  if not os.path.exists(p):
    return []
  return json.load(open(p)).get('findings', [])


class Report:
  """Collects what one check run did; writes evidence; prints verdict lines."""

  def __init__(self, pid, tier, seed):
    self.pid, self.tier, self.seed = pid, tier, seed
    self.t0 = time.time()
    self.evaluations = 0
    self.nontrivial = set()
    self.samples = []
    self.hist = {}
    self.violations = []   # (key, what, replay_obj, nofail)
    self.known_hits = {}   # finding id -> count
    self.disagreements = 0
    self.rule = ''
    self.proof = None
    self.notes = []
    self.trusted = []
    self.assumptions = []
    self.extra = {}

  def count(self, key, n=1):
    self.hist[key] = self.hist.get(key, 0) + n

  def case(self, obj, nontrivial=True):
    self.evaluations += 1
    if nontrivial:
      self.nontrivial.add(hashlib.sha1(repr(obj).encode()).hexdigest())
    if len(self.samples) < 4:
      self.samples.append(obj)

  def violation(self, what, replay_obj, nofail=False):
    self.violations.append((what, replay_obj, nofail))

  def known(self, fid, what):
    if fid not in self.known_hits:
      self.known_hits[fid] = [0, what]
    self.known_hits[fid][0] += 1

  def finish(self, level_text=''):
    os.makedirs(EVID, exist_ok=True)
    os.makedirs(REPLAY, exist_ok=True)
    cov = {
        'evaluations': self.evaluations,
        'distinct_nontrivial': len(self.nontrivial),
        'rule': self.rule,
        'samples': self.samples[:4] or ['(none)'],
        'disagreements_checked': self.disagreements,
        'input_distribution': self.hist,
        'known_findings_hit': {k: v[0] for k, v in self.known_hits.items()},
        'trusted_base': self.trusted,
        'notes': self.notes,
    }
    cov.update(self.extra)
    if self.proof:
      cov['obligations'] = self.proof['obligations']
      cov['discharged'] = self.proof['discharged']
      cov['theorems'] = self.proof['theorems']
      cov['axioms_reported_by_print_assumptions'] = self.proof['axioms']
      cov['checker_cmd'] = 'make -C /verif/coq Properties/%s.vo && coqc -Q /verif/coq VZ Properties/%s.v (Print Assumptions under each theorem)' % (self.pid, self.pid)
    ev = {
        'property_id': self.pid, 'tier': self.tier, 'seed': self.seed, 'level': 'proof',
        'coverage': cov, 'assumptions': self.assumptions, 'wall_s': round(time.time() - self.t0, 2),
        'violations': len(self.violations),
    }
    with open(os.path.join(EVID, self.pid + '.json'), 'w') as f:
      json.dump(ev, f, indent=1, default=str)
    for fid, (n, what) in sorted(self.known_hits.items()):
      print('KNOWN-FINDING: property=%s %s [%s; %d hits this run]' % (self.pid, what, fid, n))
    rc = 0
    seen = set()
    shown = 0
    for what, obj, nofail in self.violations:
      if shown >= 5:
        break
      key = hashlib.sha1((what + json.dumps(obj, sort_keys=True, default=str)).encode()).hexdigest()[:10]
      norm = re.sub(r'[0-9]+', '#', what)[:120]
      if norm in seen:
        continue
      seen.add(norm)
      path = os.path.join(REPLAY, '%s-%s.json' % (self.pid, key))
      with open(path, 'w') as f:
        json.dump({'property': self.pid, 'what': what, 'seed': self.seed, 'tier': self.tier, 'replay': obj}, f,
                  indent=1, default=str)
      print('VIOLATION property=%s replay=%s%s' % (self.pid, path, ' no-failing-input-found' if nofail else ''))
      print('  ' + what[:500])
      shown += 1
      rc = 1
    if len(self.violations) > shown and rc:
      print('  (%d further violation records suppressed)' % (len(self.violations) - shown))
    print('%s %s: %d evaluations, %d distinct non-trivial, %d theorems, %d violations, %.1fs' % (
        self.pid, self.tier, self.evaluations, len(self.nontrivial),
        self.proof['discharged'] if self.proof else 0, len(self.violations), time.time() - self.t0))
    return rc


def standard_proof_step(rep, pid):
  """Build proofs for pid; record; on failure add a (tentative) no-failing-input violation marker."""
  res = check_property_file(pid)
  rep.proof = res
  bad_ax = [a for a in res['axioms'] if a.split('.')[-1] not in {x.split('.')[-1] for x in ALLOWED_AXIOMS}]
  if not res['ok']:
    rep.proof_broken = 'Properties/%s.v (or a file it depends on) no longer compiles:\n%s' % (pid, res['log'][-1500:])
  elif bad_ax:
    rep.proof_broken = 'unexpected axioms under Properties/%s.v: %s' % (pid, bad_ax)
  else:
    rep.proof_broken = None
  return res


def settle_broken(rep, what_broke, had_concrete_violation):
  """If a proof/correspondence broke and the monitor found nothing concrete, report no-failing-input-found."""
  if what_broke and not had_concrete_violation:
    rep.violation('no longer shown to hold: ' + what_broke, {'broken': what_broke}, nofail=True)


def rng(seed, salt):
  return random.Random('%s/%s' % (seed, salt))
