"""Generators of flat search spaces / problems and an independent membership oracle (shared by C03, C13, C14, C15)."""
import math


def gen_space(r, vz, *, nmax=5, allow_log=True, only=None, float_only=False, bool_only=False, extreme=False):
  """Returns (problem, meta) with 1..nmax parameters; meta[name] = (kind, domain-info)."""
  p = vz.ProblemStatement()
  root = p.search_space.root
  meta = {}
  n = r.randrange(1, nmax + 1)
  if float_only:
    n = max(n, 2)
  for i in range(n):
    nm = 'p%d' % i
    kind = only or r.choice(['f', 'f', 'i', 'd', 'c'])
    if float_only:
      kind = 'f'
    if bool_only:
      kind = 'b'
    if kind == 'f':
      sc = r.choice(['LINEAR', 'LINEAR', 'LOG', 'REVERSE_LOG', None]) if allow_log else r.choice(['LINEAR', None])
      shape = r.choice(['unit', 'neg', 'huge', 'tiny', 'single', 'odd', 'narrow', 'narrow2', 'near32', 'near64'])
      if extreme and r.random() < 0.5:
        # ranges whose bounds (or whose width) are not representable in float32 / float64: a designer computes in its own precision
        # and must either still answer inside the domain or refuse
        shape = r.choice(['beyond32', 'beyond32pos', 'wide32', 'wide64', 'huge64'])
        sc = None if sc in ('LOG', 'REVERSE_LOG') and shape != 'beyond32pos' else sc
      lo, hi = {'beyond32': (-1e39, 1e39), 'beyond32pos': (1.0, 1e39), 'wide32': (-3e38, 3e38), 'wide64': (-1e308, 1e308), 'huge64': (-1e300, 1e300),
                'unit': (0.0, 1.0), 'neg': (-5.0, -1.5), 'huge': (-1e6, 3e7), 'tiny': (1e-7, 3e-7), 'single': (2.5, 2.5),
                'odd': (0.1, 0.3), 'narrow': (0.9, 0.999), 'narrow2': (2.0, 3.0),
                # distinct bounds whose logarithms coincide in float32 / float64
                'near32': (1000.0, 1000.0001), 'near64': (1e15, 1e15 + 1.0)}[shape]
      if sc in ('LOG', 'REVERSE_LOG') and lo <= 0:
        lo, hi = r.choice([(1e-4, 1e2), (0.1, 0.7), (2.5, 2.5), (1.0, 8.0)])
      kw = {}
      if sc:
        kw['scale_type'] = getattr(vz.ScaleType, sc)
      if r.random() < 0.3:
        kw['default_value'] = r.choice([lo, hi, (lo + hi) / 2])
      root.add_float_param(nm, lo, hi, **kw)
      meta[nm] = ('f', (lo, hi))
    elif kind == 'i':
      lo = r.choice([-3, 0, 1, 100])
      hi = lo + r.choice([0, 1, 4, 15, 40])
      kw = {}
      if r.random() < 0.3:
        kw['default_value'] = r.choice([lo, hi])
      root.add_int_param(nm, lo, hi, **kw)
      meta[nm] = ('i', (lo, hi))
    elif kind == 'd':
      vals = sorted(r.sample([-2.0, 0.0, 0.5, 1.0, 1.5, 4.0, 1e3, 0.1, 0.3, 7.0, 8.0, 9.0, 10.0, 11.0, 12.0, 13.0], r.choice([1, 2, 3, 5, 12])))
      root.add_discrete_param(nm, vals)
      meta[nm] = ('d', vals)
    elif kind == 'c':
      vals = r.sample(['a', 'b', 'c', 'dd', 'é', ''], r.choice([1, 2, 3, 5]))
      vals = [v for v in vals if v != ''] or ['a']
      root.add_categorical_param(nm, vals)
      meta[nm] = ('c', sorted(vals))
    else:
      root.add_bool_param(nm)
      meta[nm] = ('c', ['False', 'True'])
  p.metric_information.append(vz.MetricInformation(name='m', goal=r.choice(list(vz.ObjectiveMetricGoal))))
  return p, meta


def check_suggestion(meta, params):
  """Oracle from the C03 text. params: dict name -> python value. Returns list of problems."""
  out = []
  if set(params) != set(meta):
    out.append('parameters %s instead of %s' % (sorted(params), sorted(meta)))
  for nm, v in params.items():
    if nm not in meta:
      continue
    kind, dom = meta[nm]
    if kind == 'c':
      if not isinstance(v, str) or v not in dom:
        out.append('%s=%r not a category of %r' % (nm, v, dom))
      continue
    if isinstance(v, str) or isinstance(v, bool):
      out.append('%s=%r is not a number' % (nm, v))
      continue
    x = float(v)
    if math.isnan(x) or math.isinf(x):
      out.append('%s=%r is not finite' % (nm, v))
    elif kind == 'f' and not dom[0] <= x <= dom[1]:
      out.append('%s=%r outside [%r, %r]' % (nm, x, dom[0], dom[1]))
    elif kind == 'i' and not (x == int(x) and dom[0] <= x <= dom[1]):
      out.append('%s=%r not an integer in [%r, %r]' % (nm, x, dom[0], dom[1]))
    elif kind == 'd' and not any(x == f for f in dom):
      out.append('%s=%r not in %r' % (nm, x, dom))
  return out
