"""Child process of the C05 crash harness.

usage: python -m harness.crashchild <dbdir> <json: {"prefix": [...], "rpc": [...], "k": int, "recycle": bool}>
Runs prefix on a SQLite-file servicer, then the rpc; dies with os._exit(9) just before the k-th SQL event
(statement execution or commit) of the rpc.  k = 0: count events only and print the count.
"""
import json
import os
import sys


def tuplify(x):
  if isinstance(x, list):
    return tuple(tuplify(y) for y in x)
  return x


def fix_rpc(rpc):
  from harness import svc
  rpc = list(rpc)
  kind = rpc[0]

  def lst(x):
    return [tuple(y) if isinstance(y, list) and y and not isinstance(y[0], list) else y for y in x]
  if kind in ('SuggestTrials', 'CheckEarlyStop'):
    o = rpc[-1]
    if o[0] == 'fail':
      o = ('fail', {c.__name__: c for c in svc.FAIL_CLASSES}[o[1]])
    elif o[0] == 'deliver':
      o = ('deliver', list(o[1]), [tuple(kv) for kv in o[2]], [(t, tuple(kv)) for t, kv in o[3]])
    else:
      o = ('decide', [tuple(d) for d in o[1]], [tuple(kv) for kv in o[2]], [(t, tuple(kv)) for t, kv in o[3]])
    rpc[-1] = o
  if kind == 'CreateStudy':
    rpc[5] = [tuple(m) for m in rpc[5]]
  if kind == 'CreateTrial':
    rpc[5] = [[tuple(p) for p in m] for m in rpc[5]]
    rpc[6] = [tuple(p) for p in rpc[6]]
  if kind == 'AddTrialMeasurement':
    rpc[4] = [tuple(p) for p in rpc[4]]
  if kind == 'CompleteTrial':
    rpc[4] = [tuple(p) for p in rpc[4]]
  if kind == 'UpdateMetadata':
    rpc[3] = [tuple(kv) for kv in rpc[3]]
    rpc[4] = [(t, tuple(kv)) for t, kv in rpc[4]]
  return tuple(rpc)


def main():
  dbdir = sys.argv[1]
  job = json.loads(sys.argv[2])
  from harness import svc
  import sqlalchemy as sqla
  serv, holder, proxy = svc.make_servicer('sqlfile', recycle=job.get('recycle', True), tmpdir=dbdir)
  for rpc in job['prefix']:
    svc.apply_rpc(serv, holder, fix_rpc(rpc))
  engine = proxy._inner._engine
  # SQLite's commit is atomic whatever the size of its page cache.  A one-page cache makes a transaction write its dirty pages
  # into the database file before COMMIT - as a study with thousands of trials does with the default cache - which only a
  # rollback journal that outlives the process can undo.
  try:
    proxy._inner._connection.exec_driver_sql('PRAGMA cache_size=1')
  except Exception:  # pylint: disable=broad-except
    pass
  state = {'n': 0}
  k = job['k']

  def bump(*a, **kw):
    state['n'] += 1
    if k and state['n'] == k:
      sys.stdout.flush()
      os._exit(9)

  sqla.event.listen(engine, 'before_cursor_execute', bump)
  sqla.event.listen(engine, 'commit', bump)
  out = svc.apply_rpc(serv, holder, fix_rpc(job['rpc']))
  print(json.dumps({'events': state['n'], 'outcome': out[:2]}))
  sys.stdout.flush()
  os._exit(0)


if __name__ == '__main__':
  main()
