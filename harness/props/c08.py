"""C08 — local, gRPC and split-Pythia deployments behave identically for clients."""
import datetime
import json

from harness import common as C


def run(tier, seed):
  from harness import svc
  from harness.translate import statusmap
  import grpc
  from vizier import pyvizier as vz
  from vizier.service import pyvizier as svz
  from vizier._src.service import clients, vizier_client, vizier_server, vizier_service, pythia_service, custom_errors
  from vizier._src.service import study_pb2, vizier_service_pb2 as vs, grpc_util
  from vizier.client import client_abc

  rep = C.Report('C08', tier, seed)
  rep.rule = ('client programs over clients.Study / clients.Trial (suggest, complete, measure, stop, early-stop check, add/request/delete '
              'trial, list/get trials incl. missing ids, optimal trials, set/get state, metadata, delete study) replayed against the '
              'in-process servicer, a loopback gRPC server and a gRPC server with a separate Pythia server, on RAM and in-memory SQLite; '
              'values and error classes compared pairwise; non-trivial = the program contains an error path')
  rep.trusted = ['Coq 8.16.1 kernel', 'harness/translate/statusmap.py (Python-ast translator, fail-closed)', 'loopback gRPC on localhost',
                 'scripted Pythia policy', 'proto shim / equinox stand-in']
  broke = None
  try:
    C.write_gen('Gen/StatusMap.v', statusmap.translate(C.REPO))
  except Exception as e:  # pylint: disable=broad-except
    broke = 'translator harness/translate/statusmap.py refused grpc_util.py / vizier_client.py: %r' % (e,)
  C.standard_proof_step(rep, 'C08')
  broke = ((broke or '') + ' ' + (rep.proof_broken or '')).strip() or None
  concrete = False
  known = {f['id']: f for f in C.load_known() if f['property'] == 'C08'}
  r = C.rng(seed, 'c08')
  vizier_client.environment_variables.new_suggestion_polling_secs = 0.0

  def cerr(e):
    if isinstance(e, grpc.RpcError):
      try:
        return ('status', e.code().name)
      except Exception:  # pylint: disable=broad-except
        return ('status', 'UNKNOWN')
    if isinstance(e, client_abc.ResourceNotFoundError):
      return ('raw', 'ResourceNotFoundError')
    return ('raw', svc.classify(e))

  def ctrial(t):
    return {'id': t.id, 'status': t.status.name, 'params': {k: v.value for k, v in t.parameters.items()},
            'final': None if t.final_measurement is None else {k: v.value for k, v in t.final_measurement.metrics.items()},
            'nmeas': len(t.measurements), 'infeasible': t.infeasible,
            'md': sorted((str(ns), k, str(v)) for ns in t.metadata.namespaces() for k, v in t.metadata.abs_ns(ns).items())}

  def make(deploy, url, recycle=datetime.timedelta(0)):
    holder = svc.Holder()
    fac = svc.Factory(holder)
    if deploy == 'local':
      serv = vizier_service.VizierServicer(database_url=url, early_stop_recycle_period=recycle)
      serv.default_pythia_service = pythia_service.PythiaServicer(serv, fac)
      return serv, holder, None
    cls = vizier_server.DefaultVizierServer if deploy == 'grpc' else vizier_server.DistributedPythiaVizierServer
    server = cls(database_url=url, policy_factory=fac, early_stop_recycle_period=recycle)
    return server.stub, holder, server

  def run_program(deploy, url, prog, recycle=datetime.timedelta(0)):
    service, holder, server = make(deploy, url, recycle)
    sc = svc.study_config([(1, True), (2, False)])
    out = []
    try:
      st = service.CreateStudy(vs.CreateStudyRequest(parent='owners/o1', study=study_pb2.Study(display_name='a', study_spec=sc.to_proto())))
      client = vizier_client.VizierClient(st.name, 'w0', service)
      study = clients.Study(client)
      for op in prog:
        try:
          k = op[0]
          if k == 'suggest':
            holder._default = op[3]
            v = [t.id for t in study.suggest(count=op[2], client_id=svc.CLIENTS[op[1]])]
          elif k == 'complete':
            m = None if op[2] is None else vz.Measurement({svc.METRICS[i]: float(x) for i, x in op[2]})
            fm = clients.Trial(client, op[1]).complete(m, infeasible_reason='bad' if op[3] else None)
            v = None if fm is None else {kk: vv.value for kk, vv in fm.metrics.items()}
          elif k == 'add_measurement':
            clients.Trial(client, op[1]).add_measurement(vz.Measurement({svc.METRICS[i]: float(x) for i, x in op[2]}, steps=1, elapsed_secs=1.0))
            v = None
          elif k == 'long_trial':
            # a fresh trial with a long history of measurements, then calls that are refused on it
            holder._default = ('deliver', [7], [], [])
            tr_ = study.suggest(count=1, client_id='long_history_worker')[0]
            for j_ in range(op[1]):
              tr_.add_measurement(vz.Measurement({svc.METRICS[1]: float(j_ % 7)}, steps=j_ + 1, elapsed_secs=float(j_)))
            tr_.complete(vz.Measurement({svc.METRICS[1]: 1.0, svc.METRICS[2]: 2.0}))
            v = []
            for what in ('complete', 'add_measurement', 'stop'):
              try:
                if what == 'complete':
                  tr_.complete(vz.Measurement({svc.METRICS[1]: 1.0, svc.METRICS[2]: 2.0}))
                elif what == 'add_measurement':
                  tr_.add_measurement(vz.Measurement({svc.METRICS[1]: 3.0}, steps=1, elapsed_secs=1.0))
                else:
                  tr_.stop()
                v.append((what, 'ok'))
              except Exception as e2:  # pylint: disable=broad-except
                v.append((what, cerr(e2)))
            v.append(len(tr_.materialize().measurements))
          elif k == 'stop':
            v = clients.Trial(client, op[1]).stop()
          elif k == 'check_es':
            holder._default = op[2]
            # sequential program, fixed recycle period: the answer is a function of the program (it is advisory only
            # under concurrency)
            v = bool(clients.Trial(client, op[1]).check_early_stopping())
          elif k == 'delete_trial':
            v = clients.Trial(client, op[1]).delete()
          elif k == 'add_trial':
            t = vz.Trial(parameters={'x': op[1]})
            if op[2]:
              t.complete(vz.Measurement({'m1': 1.0, 'm2': 2.0}))
            v = study.add_trial(t).id
          elif k == 'request':
            v = study.request(vz.TrialSuggestion({'x': op[1]})).id
          elif k == 'list_trials':
            v = [ctrial(t) for t in study.trials().get()]
          elif k == 'get_trial':
            v = study.get_trial(op[1]).id
          elif k == 'materialize':
            v = ctrial(clients.Trial(client, op[1]).materialize())
          elif k == 'parameters':
            v = dict(clients.Trial(client, op[1]).parameters)
          elif k == 'optimal':
            v = [t.id for t in study.optimal_trials().get()]
          elif k == 'set_state':
            v = study.set_state(getattr(vz.StudyState, op[1]))
          elif k == 'get_state':
            v = study.materialize_state().name
          elif k == 'md_study':
            md = vz.Metadata()
            md.ns(op[1])['k'] = op[2]
            v = study.update_metadata(md)
          elif k == 'md_trial':
            md = vz.Metadata()
            md['k'] = op[2]
            v = clients.Trial(client, op[1]).update_metadata(md)
          elif k == 'get_config_md':
            sc2 = study.materialize_study_config()
            v = sorted((str(ns), kk, str(vv)) for ns in sc2.metadata.namespaces() for kk, vv in sc2.metadata.abs_ns(ns).items())
          elif k == 'lookup_missing':
            # by-name lookup of a study that does not exist, through the endpoint configuration every client uses
            from vizier._src.service import constants as _const
            old_ep = vizier_client.environment_variables.server_endpoint
            vizier_client.environment_variables.server_endpoint = server.endpoint if server is not None else _const.NO_ENDPOINT
            vizier_client.environment_variables.servicer_kwargs['database_url'] = _const.SQL_MEMORY_URL   # never a file under /repo
            try:
              if op[1] == 'name':
                clients.Study.from_resource_name('owners/o1/studies/never_created_%d' % op[2])
              else:
                clients.Study.from_owner_and_id('o1', 'never_created_%d' % op[2])
              v = 'found'
            finally:
              vizier_client.environment_variables.server_endpoint = old_ep
          elif k == 'delete_study':
            v = study.delete()
          else:
            raise AssertionError(k)
          out.append(('ok', v))
        except Exception as e:  # pylint: disable=broad-except
          out.append(('err', cerr(e), repr(e)[:120]))
    finally:
      if server is not None:
        server._server.stop(None)
        if hasattr(server, '_pythia_server'):
          server._pythia_server.stop(None)
    return out

  def gen_program(r, force_long=False):
    prog = []
    nxt = 1
    made = [0]
    for _ in range(r.randrange(4, 14)):
      u = r.random()
      tid = r.randrange(1, nxt + 1) if r.random() < 0.85 else nxt + 3
      if u < 0.22:
        count = r.choice([1, 2])
        if r.random() < 0.12:
          oracle = ('fail', r.choice([ValueError, RuntimeError]))
        else:
          oracle = ('deliver', [r.randrange(100) for _ in range(max(0, count + r.choice([0, 0, 1, -1])))], [], [])
        prog.append(('suggest', r.choice([1, 2]), count, oracle))
        nxt += 2
        if oracle[0] == 'deliver':
          made[0] += min(count, len(oracle[1]))
          if made[0] and r.random() < 0.3:
            # a call the service rejects with an error that is not one of its own classes: completing a feasible trial
            # that has neither a final nor an intermediate measurement
            prog.append(('complete', made[0], None, False))
      elif u < 0.36:
        prog.append(('complete', tid, [(1, r.randrange(4)), (2, r.randrange(4))] if r.random() < 0.8 else None, r.random() < 0.15))
      elif u < 0.42:
        prog.append(('add_measurement', tid, [(1, r.randrange(4))]))
      elif u < 0.47:
        prog.append(('stop', tid))
      elif u < 0.52:
        prog.append(('check_es', tid, ('decide', [(tid, r.random() < 0.5)], [], []) if r.random() < 0.85 else ('fail', ValueError)))
      elif u < 0.56:
        prog.append(('delete_trial', tid))
      elif u < 0.62:
        prog.append(('add_trial', float(r.choice([5, 50, 500, -3])), r.random() < 0.5))
        nxt += 1
        made[0] += 1 if prog[-1][1] in (5.0, 50.0) else 0
      elif u < 0.66:
        prog.append(('request', float(r.randrange(100))))
        nxt += 1
        made[0] += 1
      elif u < 0.72:
        prog.append(('list_trials',))
      elif u < 0.78:
        prog.append(('get_trial', tid))
      elif u < 0.82:
        prog.append(('materialize', tid))
      elif u < 0.85:
        prog.append(('parameters', tid))
      elif u < 0.875:
        prog.append(('optimal',))
      elif u < 0.935:
        prog.append(('set_state', r.choice(['ACTIVE', 'ABORTED', 'COMPLETED', 'ACTIVE'])))
      elif u < 0.95:
        prog.append(('get_state',))
      elif u < 0.97:
        prog.append(('md_study', r.choice(['', 'a']), r.choice('vw')))
      elif u < 0.985:
        prog.append(('md_trial', tid, r.choice('vw')))
      elif u < 0.992:
        prog.append(('get_config_md',))
      elif u < 0.996:
        prog.append(('lookup_missing', r.choice(['name', 'owner_and_id']), r.randrange(3)))
      else:
        prog.append(('delete_study',))
      # the same call once more (a call that changes nothing the second time must be answered alike everywhere)
      if prog and prog[-1][0] in ('set_state', 'stop', 'complete', 'delete_trial', 'md_study', 'md_trial', 'get_state', 'add_measurement', 'check_es') \
          and r.random() < (0.6 if prog[-1][0] == 'set_state' else 0.25):
        prog.append(prog[-1])
    if r.random() < 0.5:
      prog.insert(r.randrange(len(prog) + 1), ('lookup_missing', r.choice(['name', 'owner_and_id']), r.randrange(3)))
    if force_long or r.random() < 0.08:
      # a trial with a long history of measurements, then calls that are refused on it: the refusal must be the same error
      # class everywhere however large the trial is (transports limit the size of error details)
      prog.append(('long_trial', 260))
    return prog

  nprog = 40 if tier == 'quick' else 150
  cases, objs = [], []
  for pi in range(nprog):
    prog = gen_program(r, force_long=(pi == 0))
    url = None if r.random() < 0.5 else 'sqlite:///:memory:'
    # early-stopping answers are recomputed on every check (period 0) or served from the stored operation (1 h)
    recycle = datetime.timedelta(hours=1) if (pi % 3 == 1) else datetime.timedelta(0)
    if pi % 6 == 1:
      # repeated checks answered from the stored operation, of the checked trial and of another trial decided with it
      a_, b_ = r.random() < 0.8, r.random() < 0.5
      prog = [('suggest', 1, 2, ('deliver', [3, 4], [], [])), ('add_measurement', 1, [(1, 1)]),
              ('check_es', 1, ('decide', [(1, a_), (2, b_)], [], [])), ('check_es', 1, ('decide', [(1, not a_)], [], [])),
              ('check_es', 2, ('decide', [(2, not b_)], [], [])), ('list_trials',)] + prog
    obs = {d: run_program(d, url, prog, recycle) for d in ('local', 'grpc', 'split')}
    rep.count('recycle_period_1h' if recycle else 'recycle_period_0')
    has_err = any(o[0] == 'err' for o in obs['local'])
    rep.case({'program': [op[:3] for op in prog], 'local': [o[:2] for o in obs['local']][:6]}, has_err)
    for op in prog:
      rep.count('op_' + op[0])
    for i, op in enumerate(prog):
      a = obs['local'][i]
      for d in ('grpc', 'split'):
        b = obs[d][i]
        if a[:2] == b[:2]:
          continue
        obj = {'datastore': url or 'ram', 'program': prog[:i + 1], 'op': op, 'local': a, d: b}
        if a[0] == 'err' and b[0] == 'err':
          cases.append('(%s, %s)' % (g_cerr(a[1]), g_cerr(b[1])))
          objs.append(obj)
          # the listed finding is about server-side exceptions that reach the client as they are (calls on a missing trial /
          # study); a by-name lookup converts EVERY failure to ResourceNotFoundError on the client side and is not part of it
          if a[1][0] == 'raw' and a[1][1] in ('ENotFound', 'EKey', 'ResourceNotFoundError', 'EAlreadyExists') and b[1] == ('status', 'UNKNOWN') \
              and op[0] != 'lookup_missing' and 'C08-escaping-exception-unknown' in known:
            rep.known('C08-escaping-exception-unknown', known['C08-escaping-exception-unknown']['what'])
            rep.count('known_escaping_on_' + op[0])
            continue
        concrete = True
        rep.violation('deployments local and %s disagree on %s' % (d, op[0]), obj)
        break
      if obs['grpc'][i][:2] != obs['split'][i][:2]:
        concrete = True
        rep.violation('deployments grpc and split-Pythia disagree on %s' % op[0], {'program': prog[:i + 1], 'grpc': obs['grpc'][i], 'split': obs['split'][i]})
      # promised exceptions (client_abc): get_trial of a missing trial -> ResourceNotFoundError; suggest on a finished study -> []
      if op[0] == 'get_trial' and a[0] == 'err' and a[1] != ('raw', 'ResourceNotFoundError') and a[1][0] == 'raw' and a[1][1] in ('ENotFound', 'EKey'):
        concrete = True
        rep.violation('get_trial of a missing trial did not raise ResourceNotFoundError locally', {'program': prog[:i + 1], 'local': a})
  # ---- real hosted algorithms (default policy factory): a deterministic stateful algorithm must hand out the same
  # suggestions in the three deployments, also after the study has been deleted and re-created under the same name
  def run_hosted(deploy, url, plan):
    if deploy == 'local':
      service, server = vizier_service.VizierServicer(database_url=url), None
    else:
      cls = vizier_server.DefaultVizierServer if deploy == 'grpc' else vizier_server.DistributedPythiaVizierServer
      server = cls(database_url=url)
      service = server.stub
    out = []
    try:
      for (algo, grid, ops) in plan:
        prob = vz.ProblemStatement()
        prob.search_space.root.add_int_param('i', 0, grid[0])
        prob.search_space.root.add_categorical_param('c', ['a', 'b', 'c'][:grid[1]])
        prob.metric_information.append(vz.MetricInformation(name='m1', goal=vz.ObjectiveMetricGoal.MAXIMIZE))
        sc = svc.svz.StudyConfig.from_problem(prob) if hasattr(svc, 'svz') else None
        if sc is None:
          from vizier.service import pyvizier as svz
          sc = svz.StudyConfig.from_problem(prob)
        sc.algorithm = algo
        study = None
        for op in ops:
          try:
            if op[0] == 'create':
              st = service.CreateStudy(vs.CreateStudyRequest(parent='owners/o1', study=study_pb2.Study(display_name='h', study_spec=sc.to_proto())))
              study = clients.Study(vizier_client.VizierClient(st.name, 'w0', service))
              v = st.name
            elif op[0] == 'suggest':
              ts = study.suggest(count=op[1], client_id='w%d' % op[2])
              v = sorted((t.id, tuple(sorted((k, str(x.value if hasattr(x, 'value') else x)) for k, x in t.parameters.items()))) for t in ts)
              for t in ts:
                if op[3]:
                  t.complete(vz.Measurement({'m1': float(t.id)}))
            elif op[0] == 'delete_trial':
              ids = sorted(t.id for t in study.trials())
              v = ('no trial',)
              if ids:
                study.get_trial(ids[op[1] % len(ids)]).delete()
                v = ('deleted', ids[op[1] % len(ids)])
            elif op[0] == 'delete':
              v = study.delete()
            else:
              raise AssertionError(op)
            out.append(('ok', v))
          except Exception as e:  # pylint: disable=broad-except
            out.append(('err', cerr(e), repr(e)[:120]))
    finally:
      if server is not None:
        server._server.stop(None)
        if hasattr(server, '_pythia_server'):
          server._pythia_server.stop(None)
    return out

  for hi in range(3 if tier == 'quick' else 12):
    plan = []
    for algo in (['GRID_SEARCH'] if tier == 'quick' else ['GRID_SEARCH', 'GRID_SEARCH']):
      ops = [('create',)]
      for _ in range(r.randrange(1, 4)):
        ops.append(('suggest', r.randrange(1, 4), r.randrange(2), r.random() < 0.8))
        if r.random() < 0.5:
          ops.append(('delete_trial', r.randrange(0, 5)))      # leaves a gap in the trial ids the algorithm has seen
      if hi % 3 == 0:
        ops += [('suggest', 2, 0, True), ('delete_trial', 0), ('suggest', 1, 0, True)]
      ops += [('delete',), ('create',)]
      for _ in range(r.randrange(1, 3)):
        ops.append(('suggest', r.randrange(1, 4), r.randrange(2), r.random() < 0.8))
      ops += [('delete',)]
      plan.append((algo, (r.randrange(1, 4), r.randrange(1, 4)), ops))
    url = None if hi % 2 == 0 else 'sqlite:///:memory:'
    hobs = {d: run_hosted(d, url, plan) for d in ('local', 'grpc', 'split')}
    rep.case({'hosted_plan': [(a, g, [o[0] for o in ops]) for a, g, ops in plan], 'local': [o[:2] for o in hobs['local']][:4]}, True)
    rep.count('hosted_plan')
    for d in ('grpc', 'split'):
      for i, (a, b) in enumerate(zip(hobs['local'], hobs[d])):
        if a[:2] != b[:2]:
          concrete = True
          rep.violation('hosted algorithm: deployments local and %s disagree at step %d' % (d, i),
                        {'datastore': url or 'ram', 'plan': plan, 'step': i, 'local': a, d: b})
          break

  bad = C.run_cases('C08', 'dep', 'From VZ Require Import Base.Prelude Model.Deploy.\n', cases, 'deploy_case_ok')
  rep.disagreements += len(bad)
  for i in bad[:3]:
    broke = ((broke or '') + ' correspondence: error transport model vs observed %r;' % (objs[i],))
  C.settle_broken(rep, broke, concrete)
  return rep.finish()


def g_cerr(c):
  kind, name = c
  if kind == 'status':
    return '(CStatus %s)' % {'FAILED_PRECONDITION': 'StFailedPrecondition', 'NOT_FOUND': 'StNotFound', 'ALREADY_EXISTS': 'StAlreadyExists',
                             'UNKNOWN': 'StUnknown', 'INTERNAL': 'StInternal', 'INVALID_ARGUMENT': 'StInvalidArgument'}.get(name, 'StUnknown')
  return '(CRaw %s)' % (name if name.startswith('E') else 'ENotFound' if name == 'ResourceNotFoundError' else 'EOther')


def replay(path):
  print(json.dumps(json.load(open(path)), indent=1)[:4000])
  return 1
