"""C20 — benchmark experimenters evaluate faithfully and leave suggestions intact."""
import copy
import json
import warnings
from fractions import Fraction

from harness import common as C
from harness.common import gN, gZ, gbool, glist, gopt, gpair, gstr, gnat

HDR = ('From VZ Require Import Base.Prelude Model.Exptr Gen.Exptrs.\nFrom Coq Require Import Qabs.\n'
       'Definition goal_case_ok (c : goal * goal) : bool := goal_eqb (apply_goal_table flip_goal_table (fst c)) (snd c).\n'
       'Definition perm_case_ok (c : perm * list (Q * Q)) : bool :=\n'
       '  perm_is_bijection (fst c) && forallb (fun kv => Qeq_bool (apply_perm (fst c) (fst kv)) (snd kv)) (snd c).\n'
       'Definition shift_case_ok (c : point * point * point) : bool :=\n'
       '  let \'(x, s, obs) := c in let m := psub x s in\n'
       '  Nat.eqb (length m) (length obs) && forallb (fun p => Qle_bool (Qabs (fst p - snd p)) (1 # 1000000000)) (combine m obs).\n')


def gQ(x):
  x = float(x)
  if x != x or x in (float('inf'), float('-inf')):
    return '(-987654321 # 1)%%Q' # a non-finite observation: printed as a value no model output equals
  fr = Fraction(x)
  return '(%d # %d)%%Q' % (fr.numerator, fr.denominator)


def run(tier, seed):
  from harness import boot
  boot.boot()
  import numpy as np
  from harness.translate import exptrs
  from vizier import pyvizier as vz
  from vizier._src.benchmarks.experimenters.synthetic import bbob, simplekd, branin, hartmann
  from vizier._src.benchmarks.experimenters import (
      shifting_experimenter as sh, sign_flip_experimenter as sf, permuting_experimenter as pe, discretizing_experimenter as de,
      normalizing_experimenter as ne, noisy_experimenter as no, sparse_experimenter as sp, switch_experimenter as sw,
      infeasible_experimenter as ie, multiobjective_experimenter as mo, numpy_experimenter as nu)
  warnings.filterwarnings('ignore')

  rep = C.Report('C20', tier, seed)
  rep.rule = ('base experimenters: every BBOB function in 2..4 dimensions, Branin, Hartmann, SimpleKD (three best categories, both output modes), a '
              'two-objective stack; wrappers sign-flip, shifting, discretizing (grid, numbers or strings), permuting, hyper-cube, normalizing, '
              'noisy (all noise types), sparse, hashing / region infeasible, switch, and random stacks of up to three of them; per experimenter: '
              'batches of 1..5 points incl. bounds; checks: every trial completed with the metrics of the problem statement or infeasible, '
              'parameters equal to a deep copy taken before, problem statement not affected by mutating a returned one, and the relation the '
              'wrapper documents against its inner experimenter at the mapped point; non-trivial = a wrapper over a base')
  rep.trusted = ['Coq 8.16.1 kernel + vm_compute', 'harness/translate/exptrs.py (Python-ast: sign-flip goal chain interpreted, the other wrappers '
                 'checked for their documented statement shapes; fail-closed)', 'the base objective functions themselves are not modelled '
                 '(an experimenter is an arbitrary function from points to metric values)']
  broke = None
  try:
    C.write_gen('Gen/Exptrs.v', exptrs.translate(C.REPO))
  except Exception as e:  # pylint: disable=broad-except
    broke = 'translator harness/translate/exptrs.py refused the experimenter sources: %r' % (e,)
  C.standard_proof_step(rep, 'C20')
  broke = ((broke or '') + ' ' + (rep.proof_broken or '')).strip() or None
  concrete = False
  r = C.rng(seed, 'c20')
  quick = tier == 'quick'

  def viol(what, obj):
    nonlocal concrete
    concrete = True
    rep.violation(what, obj)

  import inspect
  BBOB = [f for n, f in inspect.getmembers(bbob, inspect.isfunction) if list(inspect.signature(f).parameters)[:1] == ['arr'] and n not in ('Fpen',)]

  def base(kind):
    if kind == 'bbob':
      f, d = r.choice(BBOB), r.choice([2, 3, 4])
      return nu.NumpyExperimenter(f, bbob.DefaultBBOBProblemStatement(d)), 'bbob:%s:%d' % (f.__name__, d)
    if kind == 'branin':
      return branin.Branin2DExperimenter(), 'branin'
    if kind == 'hartmann':
      return (hartmann.HartmannExperimenter.from_6d() if r.random() < 0.5 else hartmann.HartmannExperimenter.from_3d()), 'hartmann'
    if kind == 'simplekd':
      bc, rel = r.choice(['corner', 'center', 'mixed']), r.random() < 0.5
      return simplekd.SimpleKDExperimenter(bc, output_relative_error=rel), 'simplekd:%s:%s' % (bc, rel)
    e1 = nu.NumpyExperimenter(bbob.Sphere, bbob.DefaultBBOBProblemStatement(2, metric_name='m1'))
    e2 = nu.NumpyExperimenter(bbob.Rastrigin, bbob.DefaultBBOBProblemStatement(2, metric_name='m2'))
    return mo.MultiObjectiveExperimenter({'m1': e1, 'm2': e2}), 'multiobjective'

  def sample(problem, n):
    out = []
    for _ in range(n):
      p = {}
      for pc in problem.search_space.parameters:
        if pc.type == vz.ParameterType.DOUBLE:
          lo, hi = pc.bounds
          p[pc.name] = r.choice([lo, hi, lo + (hi - lo) * r.random(), lo + (hi - lo) * r.random()])
        elif pc.type == vz.ParameterType.INTEGER:
          lo, hi = pc.bounds
          p[pc.name] = r.randrange(int(lo), int(hi) + 1)
        else:
          p[pc.name] = r.choice(list(pc.feasible_values))
      out.append(p)
    return out

  def evalv(ex, params):
    t = vz.Trial(parameters=params)
    ex.evaluate([t])
    return t

  def mvals(t):
    return None if (t.final_measurement is None or t.infeasible) else {k: v.value for k, v in t.final_measurement.metrics.items()}

  def generic(ex, name):
    """Completed-or-infeasible, parameters intact, statement by value. Returns the problem statement or None."""
    try:
      ps = ex.problem_statement()
    except Exception as e:  # pylint: disable=broad-except
      viol('%s.problem_statement() raised %s' % (name.split('(')[0], type(e).__name__), {'experimenter': name, 'error': str(e)[:300]})
      return None
    ref = copy.deepcopy(ex.problem_statement())
    try:
      ps.metric_information.append(vz.MetricInformation(name='zzz_added_by_caller', goal=vz.ObjectiveMetricGoal.MAXIMIZE))
      ps.search_space.root.add_float_param('zzz_added_by_caller', 0.0, 1.0)
    except Exception:  # pylint: disable=broad-except
      pass
    if ex.problem_statement() != ref:
      viol('%s: a caller that modifies the returned problem statement changes the experimenter' % name.split('(')[0], {'experimenter': name})
    ps = ref
    names = [m.name for m in ps.metric_information]
    pts = sample(ps, r.randrange(1, 6))
    trials = [vz.Trial(parameters=p) for p in pts]
    before = [copy.deepcopy(t.parameters) for t in trials]
    try:
      ex.evaluate(trials)
    except Exception as e:  # pylint: disable=broad-except
      viol('%s.evaluate raised %s' % (name.split('(')[0], type(e).__name__), {'experimenter': name, 'points': pts, 'error': str(e)[:300]})
      return None
    for t, b, p in zip(trials, before, pts):
      if t.parameters != b:
        viol('%s.evaluate changed the parameters of a suggestion' % name.split('(')[0], {'experimenter': name, 'suggested': p, 'after': {k: v.value for k, v in t.parameters.items()}})
      if not t.is_completed:
        viol('%s.evaluate left a trial uncompleted' % name.split('(')[0], {'experimenter': name, 'point': p})
      elif not t.infeasible:
        got = set(t.final_measurement.metrics.keys())
        if not set(names) <= got:
          viol('%s: a completed trial lacks a metric of the problem statement' % name.split('(')[0], {'experimenter': name, 'metrics': sorted(got), 'expected': names})
    # batches of any size: a trial evaluated in a batch gets what the same point gets when evaluated alone
    if 'noisy' not in name and 'infeasible' not in name and len(pts) > 1:
      try:
        for t, p in zip(trials, pts):
          a, c = mvals(t), mvals(evalv(ex, dict(p)))
          if (a is None) != (c is None) or (a is not None and any(m not in c or not (a[m] == c[m] or (a[m] != a[m] and c[m] != c[m])) for m in a)):
            viol('%s: a trial evaluated in a batch of %d gets other metric values than the same point evaluated alone' % (name.split('(')[0], len(pts)),
                 {'experimenter': name, 'point': p, 'in_batch': a, 'alone': c, 'batch': pts})
            break
      except Exception as e:  # pylint: disable=broad-except
        viol('%s.evaluate raised %s on a single point of a batch it had evaluated' % (name.split('(')[0], type(e).__name__), {'experimenter': name, 'error': str(e)[:300]})
    # a suggestion is a mapping from names to values: the order in which its parameters were inserted must not matter
    if 'noisy' not in name and pts and len(pts[0]) > 1:
      p = pts[0]
      try:
        a = mvals(evalv(ex, dict(p)))
        for how, order in (('reversed', list(reversed(list(p)))), ('sorted by name', sorted(p))):
          c = mvals(evalv(ex, {k: p[k] for k in order}))
          if (a is None) != (c is None) or (a is not None and any(not (a[m] == c[m] or (a[m] != a[m] and c[m] != c[m])) for m in a)):
            viol('%s: the value of a suggestion depends on the order in which its parameters were inserted (%s)' % (name.split('(')[0], how),
                 {'experimenter': name, 'point': p, 'in_search_space_order': a, 'reordered': c})
            break
      except Exception as e:  # pylint: disable=broad-except
        viol('%s.evaluate raised %s on a reordered suggestion' % (name.split('(')[0], type(e).__name__), {'experimenter': name, 'point': p, 'error': str(e)[:300]})
    return ps

  goal_cases, perm_cases, perm_objs, shift_cases, shift_objs = [], [], [], [], []
  G = {'MAXIMIZE': 'GMax', 'MINIMIZE': 'GMin'}

  def close(a, c, tol=1e-6):
    return abs(a - c) <= tol * (1 + abs(c))

  def check_wrapper(kind, inner, iname):
    """Builds one wrapper of `kind` over `inner`, checks its documented relation; returns (wrapper, name) or None."""
    ps = inner.problem_statement()
    params = list(ps.search_space.parameters)
    allfloat = all(pc.type == vz.ParameterType.DOUBLE for pc in params) and not ps.search_space.is_conditional
    mn = [m.name for m in ps.metric_information]
    name = '%s(%s)' % (kind, iname)
    rep.case({'wrapper': kind, 'over': iname}, True)
    rep.count('wrapper_' + kind)
    try:
      if kind == 'flip':
        w = sf.SignFlipExperimenter(inner)
        w2 = sf.SignFlipExperimenter(w)
        for p in sample(ps, 3):
          a, b, c = mvals(evalv(inner, p)), mvals(evalv(w, p)), mvals(evalv(w2, p))
          if a is None:
            continue
          for m in mn:
            if b[m] != -a[m]:
              viol('SignFlipExperimenter does not negate an objective', {'over': iname, 'point': p, 'base': a[m], 'flipped': b[m]})
            if c[m] != a[m]:
              viol('flipping twice does not return the original value', {'over': iname, 'point': p, 'base': a[m], 'twice': c[m]})
        g0 = [m.goal.name for m in ps.metric_information]
        g1 = [m.goal.name for m in w.problem_statement().metric_information]
        g2 = [m.goal.name for m in w2.problem_statement().metric_information]
        for x, y in zip(g0, g1):
          goal_cases.append('(%s, %s)' % (G[x], G[y]))
          if x == y:
            viol('SignFlipExperimenter leaves a goal unchanged while negating its values', {'over': iname, 'goal': x})
        if g0 != g2:
          viol('flipping twice does not return the original goals', {'over': iname, 'goals': g0, 'twice': g2})
      elif kind == 'shift':
        if not allfloat:
          return None
        shift = np.array([r.uniform(-0.3, 0.3) * (pc.bounds[1] - pc.bounds[0]) for pc in params])
        w = sh.ShiftingExperimenter(inner, shift=shift)
        wps = w.problem_statement()
        for p in sample(wps, 3):
          a = mvals(evalv(w, p))
          q = {pc.name: float(p[pc.name]) - shift[i] for i, pc in enumerate(params)}
          c = mvals(evalv(inner, q))
          if a is None or c is None:
            continue
          if any(not close(a[m], c[m]) for m in mn):
            viol('ShiftingExperimenter does not evaluate the base objective at the shifted point', {'over': iname, 'point': p, 'shift': shift.tolist(), 'wrapper': a, 'base_at_shifted': c})
          t = vz.Trial(parameters=p)
          w._offset([t], w._shift)
          shift_cases.append('(%s, %s, %s)' % (glist([p[pc.name] for pc in params], gQ), glist(shift.tolist(), gQ),
                                               glist([t.parameters[pc.name].value for pc in params], gQ)))
          shift_objs.append({'over': iname, 'point': p, 'shift': shift.tolist()})
      elif kind in ('discretize', 'permute'):
        if not allfloat:
          return None
        grid = {pc.name: r.choice([2, 3, 5]) for pc in params if r.random() < 0.7 and pc.bounds[0] < pc.bounds[1]}
        if not grid:
          return None
        as_str = r.random() < 0.5
        d = de.DiscretizingExperimenter.create_with_grid(inner, grid, convert_to_str=as_str)
        dps = d.problem_statement()
        for p in sample(dps, 3):
          a, c = mvals(evalv(d, p)), mvals(evalv(inner, {k: float(v) for k, v in p.items()}))
          if a is None or c is None:
            continue
          if any(not close(a[m], c[m], 1e-9) for m in mn):
            viol('DiscretizingExperimenter does not evaluate the base objective at the same point', {'over': iname, 'point': p, 'wrapper': a, 'base': c})
        w = d
        if kind == 'permute':
          generic(d, 'discretize(%s)' % iname)
          pn = [pc.name for pc in dps.search_space.parameters if pc.type != vz.ParameterType.DOUBLE]
          w = pe.PermutingExperimenter(d, pn, seed=r.randrange(1000))
          for nm, dct in w._parameter_permutation_dict.items():
            if not as_str:
              keys = [float(k) for k in dct.keys()]
              perm_cases.append('(%s, %s)' % (glist(list(zip(keys, [float(v) for v in dct.values()])), lambda kv: '(%s, %s)' % (gQ(kv[0]), gQ(kv[1]))),
                                              glist(list(zip(keys, [float(v) for v in dct.values()])), lambda kv: '(%s, %s)' % (gQ(kv[0]), gQ(kv[1])))))
              perm_objs.append({'over': iname, 'parameter': nm, 'dictionary': {str(k): str(v) for k, v in dct.items()}})
            fv_ = [str(v_) for v_ in dps.search_space.get(nm).feasible_values]
            if sorted(map(str, dct.keys())) != sorted(fv_) or sorted(map(str, dct.values())) != sorted(fv_):
              viol('PermutingExperimenter: the value map of a parameter is not a bijection of its feasible values', {'over': iname, 'parameter': nm, 'map': {str(k): str(v) for k, v in dct.items()}})
          for p in sample(dps, 3):
            a = mvals(evalv(w, p))
            q = {k: (w._parameter_permutation_dict[k][v] if k in w._parameter_permutation_dict else v) for k, v in p.items()}
            q = {k: (str(v) if isinstance(p[k], str) else float(v)) for k, v in q.items()}
            c = mvals(evalv(d, q))
            if a is None or c is None:
              continue
            if any(a[m] != c[m] for m in mn):
              viol('PermutingExperimenter does not evaluate the base objective at the permuted point', {'over': iname, 'point': p, 'permuted': q, 'wrapper': a, 'base': c})
      elif kind == 'hypercube':
        if not allfloat:
          return None
        w = ne.HyperCubeExperimenter(inner)
        for p in sample(w.problem_statement(), 3):
          a = mvals(evalv(w, p))
          q = {pc.name: pc.bounds[0] + (pc.bounds[1] - pc.bounds[0]) * float(p['h%d' % i]) for i, pc in enumerate(params)}
          c = mvals(evalv(inner, q))
          if a is None or c is None:
            continue
          if any(not close(a[m], c[m]) for m in mn):
            viol('HyperCubeExperimenter does not evaluate the base objective at the corresponding point', {'over': iname, 'cube_point': p, 'base_point': q, 'wrapper': a, 'base': c})
      elif kind == 'normalize':
        w = ne.NormalizingExperimenter(inner, num_normalization_samples=15)
        pts = sample(ps, 5)
        vb = [mvals(evalv(inner, p)) for p in pts]
        vn = [mvals(evalv(w, p)) for p in pts]
        for m in mn:
          for i in range(len(pts)):
            for j in range(len(pts)):
              if vb[i] is None or vb[j] is None:
                continue
              if vb[i][m] < vb[j][m] and not vn[i][m] <= vn[j][m]:
                viol('NormalizingExperimenter reverses the order of two objective values', {'over': iname, 'metric': m, 'base': [vb[i][m], vb[j][m]], 'normalised': [vn[i][m], vn[j][m]]})
      elif kind == 'noisy':
        nt = r.choice(['NO_NOISE', 'MODERATE_GAUSSIAN', 'SEVERE_GAUSSIAN', 'MODERATE_UNIFORM', 'SEVERE_UNIFORM', 'MODERATE_SELDOM_CAUCHY', 'SEVERE_SELDOM_CAUCHY'])
        sd = r.randrange(1, 1000)
        w = no.NoisyExperimenter.from_type(inner, nt, seed=sd)
        w2 = no.NoisyExperimenter.from_type(inner, nt, seed=sd)
        pts = sample(ps, 4)
        a = [mvals(evalv(w, p)) for p in pts]
        np.random.seed(r.randrange(1000))
        c = [mvals(evalv(w2, p)) for p in pts]
        if a != c:
          viol('NoisyExperimenter with a seed is not reproducible', {'over': iname, 'noise': nt, 'seed': sd, 'run1': a, 'run2': c})
        for x, p in zip(a, pts):
          if x is None:
            continue
          b0 = mvals(evalv(inner, p))
          for m in mn:
            if x.get(m + '_before_noise') != b0[m]:
              viol('NoisyExperimenter does not keep the unnoised value', {'over': iname, 'point': p, 'kept': x.get(m + '_before_noise'), 'base': b0[m]})
        name = 'noisy:%s(%s)' % (nt, iname)
        w = no.NoisyExperimenter.from_type(inner, nt, seed=sd)
      elif kind == 'sparse':
        w = sp.SparseExperimenter.create(inner, float_count=r.randrange(3), int_count=r.randrange(2), discrete_count=r.randrange(2), categorical_count=r.randrange(2))
        for p in sample(w.problem_statement(), 3):
          a = mvals(evalv(w, p))
          c = mvals(evalv(inner, {pc.name: p[pc.name] for pc in params}))
          if a is None or c is None:
            continue
          if any(a[m] != c[m] for m in mn):
            viol('SparseExperimenter: the placeholder parameters change the objective', {'over': iname, 'point': p, 'wrapper': a, 'base': c})
      elif kind == 'hash_infeasible':
        w = ie.HashingInfeasibleExperimenter(inner, infeasible_prob=r.choice([0.0, 0.3, 1.0]), seed=r.randrange(100))
        for p in sample(ps, 4):
          t1, t2 = evalv(w, p), evalv(w, p)
          if t1.infeasible != t2.infeasible:
            viol('HashingInfeasibleExperimenter is not a function of the parameters', {'over': iname, 'point': p})
          if not t1.infeasible and mvals(t1) != mvals(evalv(inner, p)):
            viol('HashingInfeasibleExperimenter changes the value of a feasible point', {'over': iname, 'point': p})
      else:
        raise AssertionError(kind)
    except Exception as e:  # pylint: disable=broad-except
      import traceback
      viol('building or evaluating %s raised %s' % (kind, type(e).__name__), {'over': iname, 'error': traceback.format_exc()[-500:]})
      return None
    return w, name

  # ---- wrappers over an experimenter that marks a REGION infeasible: whatever the wrapper does with the point, the trial it hands
  # back is infeasible exactly when the wrapped experimenter marks the corresponding base point infeasible, and a trial that is
  # not infeasible carries finite numbers for all its metrics
  try:
    for wi in range(10 if quick else 60):
      inner_ = nu.NumpyExperimenter(bbob.Sphere, bbob.DefaultBBOBProblemStatement(2))
      lo_ = r.choice([0.0, 0.3, 0.5, 0.75])          # the interval is given in the unit scale of the parameter
      region_ = ie.ParamRegionInfeasibleExperimenter(inner_, 'x0', infeasible_interval=(lo_, lo_ + r.choice([0.1, 0.25])))
      wkind = ['hypercube', 'discretize', 'discretize_str', 'shift', 'flip', 'permute'][wi % 6]
      if wkind == 'hypercube':
        w_ = ne.HyperCubeExperimenter(region_)
        to_base = lambda p_: {'x%d' % i_: -5.0 + 10.0 * float(p_['h%d' % i_]) for i_ in range(2)}
      elif wkind in ('discretize', 'discretize_str', 'permute'):
        w_ = de.DiscretizingExperimenter.create_with_grid(region_, {'x0': 9, 'x1': 3}, convert_to_str=(wkind == 'discretize_str'))
        to_base = lambda p_: {k_: float(v_) for k_, v_ in p_.items()}
        if wkind == 'permute':
          d_ = w_
          w_ = pe.PermutingExperimenter(d_, ['x0', 'x1'], seed=r.randrange(100))
          to_base = lambda p_, w__=w_: {k_: float(w__._parameter_permutation_dict[k_][v_]) for k_, v_ in p_.items()}
      elif wkind == 'shift':
        sh_ = np.array([r.uniform(-1.0, 1.0), 0.0])
        w_ = sh.ShiftingExperimenter(region_, shift=sh_)
        to_base = lambda p_, sh__=sh_: {'x0': float(p_['x0']) - sh__[0], 'x1': float(p_['x1']) - sh__[1]}
      else:
        w_ = sf.SignFlipExperimenter(region_)
        to_base = lambda p_: dict(p_)
      rep.count('infeasible_region_under_' + wkind)
      n_inf = 0
      for p_ in sample(w_.problem_statement(), 12):
        t_ = evalv(w_, p_)
        tb_ = evalv(region_, to_base(p_))
        n_inf += bool(tb_.infeasible)
        obj_ = {'wrapper': wkind, 'infeasible_region_x0': [lo_], 'point': {k_: (v_ if isinstance(v_, str) else float(v_)) for k_, v_ in p_.items()},
                'base_point': to_base(p_), 'base_infeasible': bool(tb_.infeasible), 'wrapper_infeasible': bool(t_.infeasible),
                'wrapper_metrics': None if t_.final_measurement is None else {k_: repr(v_.value) for k_, v_ in t_.final_measurement.metrics.items()}}
        if bool(t_.infeasible) != bool(tb_.infeasible):
          viol('%s over an experimenter with an infeasible region: the trial comes back %s although the wrapped experimenter marks the '
               'corresponding point %s' % (wkind, 'infeasible' if t_.infeasible else 'feasible', 'infeasible' if tb_.infeasible else 'feasible'), obj_)
          break
        if not t_.infeasible and (t_.final_measurement is None or any(not np.isfinite(v_.value) for v_ in t_.final_measurement.metrics.values())):
          viol('%s over an experimenter with an infeasible region: a trial that is not marked infeasible carries no finite metric value' % wkind, obj_)
          break
      rep.case({'infeasible_region_under': wkind, 'infeasible_points': n_inf}, n_inf > 0)
  except ImportError:
    pass

  KINDS = ['flip', 'shift', 'discretize', 'permute', 'hypercube', 'normalize', 'noisy', 'sparse', 'hash_infeasible']
  nbase = 14 if quick else 150
  for it in range(nbase):
    kind = ['bbob', 'bbob', 'branin', 'hartmann', 'simplekd', 'multi', 'bbob'][it % 7]
    b, bname = base(kind)
    rep.count('base_' + kind)
    if generic(b, bname) is None:
      continue
    # each wrapper once over the base, then one random stack
    for k in ([KINDS[(it + j) % len(KINDS)] for j in range(3)] if quick else KINDS):
      got = check_wrapper(k, b, bname)
      if got is not None:
        generic(got[0], got[1])
    cur, cname = b, bname
    for depth in range(r.choice([2, 3])):
      k = r.choice(['flip', 'shift', 'flip', 'noisy', 'sparse', 'normalize', 'hash_infeasible'])
      if k == 'sparse' and 'sparse' in cname:
        k = 'flip'      # the same prefix twice is documented as invalid
      got = check_wrapper(k, cur, cname)
      if got is None:
        break
      cur, cname = got
      generic(cur, cname)
      if k == 'noisy':
        break      # relations against a stochastic inner experimenter cannot be checked point by point
  # multi-objective base experimenters with MANY objectives (names f0 .. f11 sort differently as strings): the i-th metric of the
  # problem statement must carry the i-th component of the objective function
  for nobj in ([12] if quick else [3, 11, 12, 25]):
    try:
      pm = vz.ProblemStatement()
      for i in range(3):
        pm.search_space.root.add_float_param('x%d' % i, 0.0, 1.0)
      for j in range(nobj):
        pm.metric_information.append(vz.MetricInformation(name='f%d' % j, goal=vz.ObjectiveMetricGoal.MINIMIZE))
      impl = lambda x, nobj=nobj: [float(np.sum(x)) + 10.0 * j for j in range(nobj)]
      exm = nu.MultiObjectiveNumpyExperimenter(impl, pm)
      rep.case({'wrapper': 'multi-objective-many', 'objectives': nobj}, True)
      rep.count('multiobjective_%d' % nobj)
      for p in sample(pm, 3):
        a = mvals(evalv(exm, p))
        want = {('f%d' % j): sum(p.values()) + 10.0 * j for j in range(nobj)}
        if a is None or any(abs(a.get(k, float('nan')) - v) > 1e-9 for k, v in want.items()):
          bad = [k for k, v in want.items() if a is None or not abs(a.get(k, float('nan')) - v) <= 1e-9][:3]
          viol('MultiObjectiveNumpyExperimenter: a metric does not carry the objective component of its position in the problem statement',
               {'objectives': nobj, 'point': p, 'wrong_metrics': bad, 'got': {k: (a or {}).get(k) for k in bad}, 'expected': {k: want[k] for k in bad}})
          break
    except Exception as e:  # pylint: disable=broad-except
      import traceback
      viol('MultiObjectiveNumpyExperimenter with %d objectives raised %s' % (nobj, type(e).__name__), {'error': traceback.format_exc()[-400:]})

  # the dict combinator of single-objective experimenters when one component is infeasible in part of the space (a NaN objective):
  # every given trial is completed - with every metric, or marked infeasible - and keeps its parameters
  for k_ in range(2 if quick else 8):
    try:
      ps1 = bbob.DefaultBBOBProblemStatement(2, metric_name='m1')
      ps2 = bbob.DefaultBBOBProblemStatement(2, metric_name='m2')
      cut_ = r.choice([0.0, 1.0, -2.0])
      first_bad = r.random() < 0.5
      fbad = lambda x, cut_=cut_: float('nan') if x[0] > cut_ else float(np.sum(x))
      e_ok, e_bad = nu.NumpyExperimenter(bbob.Sphere, ps1), nu.NumpyExperimenter(fbad, ps2)
      exm = mo.MultiObjectiveExperimenter({'a': e_bad, 'b': e_ok} if first_bad else {'a': e_ok, 'b': e_bad})
      pts = sample(exm.problem_statement(), 4) + [{'x0': cut_ + 1.0, 'x1': 0.5}, {'x0': cut_ - 1.0, 'x1': 0.5}]
      trials = [vz.Trial(parameters=p_) for p_ in pts]
      rep.case({'wrapper': 'multi-objective-dict', 'infeasible_component_first': first_bad, 'cut': cut_}, True)
      rep.count('multiobjective_dict_with_infeasible_region')
      exm.evaluate(trials)
      for p_, t_ in zip(pts, trials):
        got_p = {kk: vv.value for kk, vv in t_.parameters.items()}
        should_be_infeasible = p_['x0'] > cut_
        if t_.status != vz.TrialStatus.COMPLETED or got_p != p_ or bool(t_.infeasible) != should_be_infeasible or \
            (not should_be_infeasible and set((t_.final_measurement.metrics if t_.final_measurement else {}).keys()) != {'a', 'b'}):
          viol('MultiObjectiveExperimenter: a trial is not completed with every metric / marked infeasible / left with its parameters '
               'when one objective is infeasible at some points',
               {'point': p_, 'cut': cut_, 'status': t_.status.name, 'infeasible': bool(t_.infeasible), 'parameters_after': got_p,
                'metrics': sorted((t_.final_measurement.metrics if t_.final_measurement else {}).keys())})
          break
    except Exception as e:  # pylint: disable=broad-except
      import traceback
      viol('MultiObjectiveExperimenter raised %s when one objective is infeasible at some points' % type(e).__name__,
           {'cut': cut_, 'error': traceback.format_exc()[-500:]})

  # every noise type, long enough for the rare (5%) heavy-tailed draws to fire: two wrappers with the same seed must agree
  # whatever the state of numpy's global generator is
  for nt in ['NO_NOISE', 'MODERATE_GAUSSIAN', 'SEVERE_GAUSSIAN', 'MODERATE_UNIFORM', 'SEVERE_UNIFORM', 'MODERATE_SELDOM_CAUCHY', 'SEVERE_SELDOM_CAUCHY']:
    b, bname = base('bbob')
    sd = r.randrange(0, 1000)
    try:
      pts = sample(b.problem_statement(), 150 if quick else 600)
      np.random.seed(r.randrange(1000))
      w1 = no.NoisyExperimenter.from_type(b, nt, seed=sd)
      a = [mvals(evalv(w1, p)) for p in pts]
      np.random.seed(r.randrange(1000) + 1000)
      w2 = no.NoisyExperimenter.from_type(b, nt, seed=sd)
      c = [mvals(evalv(w2, p)) for p in pts]
      rep.case({'wrapper': 'noisy-long', 'noise': nt, 'over': bname, 'seed': sd, 'evaluations': len(pts)}, True)
      rep.count('noisy_long_' + nt)
      diff = [i for i in range(len(pts)) if a[i] != c[i]]
      if diff:
        viol('NoisyExperimenter with a seed is not reproducible (%d of %d evaluations differ)' % (len(diff), len(pts)),
             {'over': bname, 'noise': nt, 'seed': sd, 'first_differing_evaluation': diff[0], 'run1': a[diff[0]], 'run2': c[diff[0]]})
    except Exception as e:  # pylint: disable=broad-except
      import traceback
      viol('NoisyExperimenter(%s) raised %s' % (nt, type(e).__name__), {'over': bname, 'error': traceback.format_exc()[-400:]})

  # switch experimenter over two bases
  for it in range(2 if quick else 10):
    e1, n1 = base('bbob')
    e2, n2 = base('bbob')
    try:
      w = sw.SwitchExperimenter([e1, e2])
      wps = w.problem_statement()
      ref = w.problem_statement()
      wps.metric_information.append(vz.MetricInformation(name='zzz_added_by_caller', goal=vz.ObjectiveMetricGoal.MAXIMIZE))
      if w.problem_statement() != ref:
        viol('SwitchExperimenter: a caller that modifies the returned problem statement changes the experimenter', {'over': [n1, n2]})
      rep.case({'wrapper': 'switch', 'over': [n1, n2]}, True)
      for i, ei in enumerate([e1, e2]):
        for p in sample(ei.problem_statement(), 2):
          t = vz.Trial(parameters=dict(p, switch=i))
          before = copy.deepcopy(t.parameters)
          w.evaluate([t])
          a, c = mvals(t), mvals(evalv(ei, p))
          if t.parameters != before:
            viol('SwitchExperimenter.evaluate changed the parameters of a suggestion', {'over': [n1, n2], 'point': p})
          if a is None or c is None or list(a.values()) != list(c.values()):
            viol('SwitchExperimenter does not evaluate the selected experimenter', {'over': [n1, n2], 'switch': i, 'point': p, 'wrapper': a, 'selected': c})
    except Exception as e:  # pylint: disable=broad-except
      import traceback
      viol('SwitchExperimenter raised %s' % type(e).__name__, {'over': [n1, n2], 'error': traceback.format_exc()[-400:]})

  for tag, cases, objs, chk, what in (('goal', goal_cases, goal_cases, 'goal_case_ok', 'sign-flip goal table'),
                                      ('perm', perm_cases, perm_objs, 'perm_case_ok', 'permutation dictionaries'),
                                      ('shift', shift_cases, shift_objs, 'shift_case_ok', 'ShiftingExperimenter._offset')):
    bad = C.run_cases('C20', tag, HDR, cases, chk, shard=300)
    rep.count('corr_' + tag, len(cases))
    rep.disagreements += len(bad)
    for i in bad[:3]:
      broke = (broke or '') + ' correspondence: model vs %s on %r;' % (what, objs[i])
  C.settle_broken(rep, broke, concrete)
  return rep.finish()


def replay(path):
  print(json.dumps(json.load(open(path)), indent=1)[:4000])
  return 1
