"""C18 — output warping keeps the ranking of trials and always yields finite labels."""
import json
import math
import warnings
from fractions import Fraction

from harness import common as C
from harness.common import gN, gZ, gbool, glist, gopt, gpair, gstr, gnat

HDR = 'From VZ Require Import Base.Prelude Model.Warp Model.WarpEq.\nOpen Scope Q_scope.\n'


def gQ(x):
  x = float(x)
  if x != x or x in (float('inf'), float('-inf')):
    return '(-987654321 # 1)' # a non-finite observation: printed as a value no model output equals
  fr = Fraction(x)
  return '(%d # %d)' % (fr.numerator, fr.denominator)


def glab(x):
  return 'None' if (math.isnan(x) or x == -math.inf) else '(Some %s)' % gQ(x)


def gen_labels(r, np):
  n = r.choice([1, 2, 3, 4, 5, 6, 8, 11, 16, 30])
  kind = r.choice(['plain', 'ties', 'ties_top', 'outlier', 'magnitude', 'const', 'small_ints', 'huge', 'all_missing', 'one_finite', 'minute'])
  if kind == 'ties':
    base = [r.choice([0., 1., 2., 3.5, -1., 10., 1e-3]) for _ in range(n)]
  elif kind == 'ties_top':
    top = r.choice([5., 0., -2.5, 1e6])
    base = [top if r.random() < 0.65 else top - r.choice([1., 2., 3., 0.5, 100.]) for _ in range(n)]
  elif kind == 'const':
    base = [r.choice([2.5, 0., -1e9])] * n
  elif kind == 'small_ints':
    base = [float(r.randrange(-3, 4)) for _ in range(n)]
  elif kind == 'magnitude':
    base = [r.uniform(-5, 5) * 10 ** r.choice([0, 0, 3, -6, 12]) for _ in range(n)]
  elif kind == 'huge':
    base = [r.uniform(-1, 1) * 10 ** r.choice([100, 150, 160, 0]) for _ in range(n)]
  elif kind == 'minute':
    # well separated values of a very small magnitude (their squares underflow)
    sc_ = 10.0 ** r.choice([-200, -170, -300])
    base = [float(r.randrange(1, 9)) * sc_ for _ in range(n)]
  elif kind == 'all_missing':
    base = [float('nan')] * n
  elif kind == 'one_finite':
    base = [float('nan')] * n
    base[r.randrange(n)] = r.choice([3., -1e29, 0., 1e-9])
  else:
    base = [r.uniform(-5, 5) for _ in range(n)]
  if kind == 'outlier' and n > 2:
    base[r.randrange(n)] = -1e30 * r.random()
  if kind not in ('all_missing', 'one_finite', 'const'):
    pm = r.choice([0, 0, 0.2, 0.5])
    for i in range(n):
      if r.random() < pm:
        base[i] = r.choice([float('nan'), -math.inf])
  return kind, np.array(base, dtype=float).reshape(-1, 1)


def run(tier, seed):
  from harness import boot
  boot.boot()
  import numpy as np
  from scipy import stats
  from harness.translate import warpers
  from vizier._src.algorithms.designers.gp import output_warpers as ow
  warnings.filterwarnings('ignore')

  rep = C.Report('C18', tier, seed)
  rep.rule = ('label arrays of length 1..30: plain, ties, ties at the top covering more than half, outliers, 18 orders of magnitude, 1e290, constants, '
              'small integers, all missing, one finite value; NaN and -inf entries with probability 0 / 0.2 / 0.5; the default pipeline, the '
              'outlier pipeline and every component on its own are checked for: input not modified, same shape, finite output (pipelines and '
              'components that promise it), ranking of the observed values (default pipeline: ties equal, distinct values distinct unless closer '
              'than 1e-7 of the range; every transformation: never reversed), infeasible entries not above the worst feasible one, '
              'unwarp(warp(y)) = y where an inverse exists; model correspondence for the infeasible warper, the half-rank structure, '
              'quantiles and variance estimate, and the pipeline short cuts; non-trivial = at least two distinct finite values')
  rep.trusted = ['Coq 8.16.1 kernel + vm_compute', 'harness/translate/warpers.py (Python-ast, fail-closed: log-warper formulas translated, '
                 'half-rank / infeasible statements compared textually)', 'scipy.stats.norm.ppf and np.sqrt enter the half-rank theorem as '
                 'parameters with the stated monotonicity / sign / positivity hypotheses', 'exact rationals and reals instead of float64; '
                 'float32 inside TransformToGaussian (jax without x64) is outside the model', 'equinox stand-in']
  broke = None
  try:
    C.write_gen('Gen/Warpers.v', warpers.translate(C.REPO))
  except Exception as e:  # pylint: disable=broad-except
    broke = 'translator harness/translate/warpers.py refused output_warpers.py: %r' % (e,)
  C.standard_proof_step(rep, 'C18')
  broke = ((broke or '') + ' ' + (rep.proof_broken or '')).strip() or None
  concrete = False
  r = C.rng(seed, 'c18')
  quick = tier == 'quick'

  def viol(what, obj):
    nonlocal concrete
    concrete = True
    rep.violation(what, obj)

  def order_problems(y0, out, strict, finite_required, infeasible_rule):
    """y0, out flat float arrays.  Returns a list of strings."""
    bad = []
    f = np.isfinite(y0)
    if finite_required and not np.all(np.isfinite(out)):
      bad.append('output is not finite')
    fin = y0[f]
    span = (fin.max() - fin.min()) if fin.size else 0.0
    idx = [i for i in range(len(y0)) if f[i]]
    for i in idx:
      for j in idx:
        if not (np.isfinite(out[i]) and np.isfinite(out[j])):
          continue
        if y0[i] < y0[j] and out[i] > out[j]:
          bad.append('order reversed: %r < %r became %r > %r' % (y0[i], y0[j], out[i], out[j]))
          return bad
        if strict:
          if y0[i] == y0[j] and out[i] != out[j]:
            bad.append('equal values became different: %r -> %r, %r' % (y0[i], out[i], out[j]))
            return bad
          if y0[i] < y0[j] and (y0[j] - y0[i]) > 1e-7 * span and not out[i] < out[j]:
            bad.append('distinct values collapsed: %r < %r became %r, %r' % (y0[i], y0[j], out[i], out[j]))
            return bad
    if infeasible_rule and fin.size and (~f).any():
      worst = min(out[i] for i in idx)
      for i in range(len(y0)):
        if not f[i] and not out[i] <= worst:
          bad.append('an infeasible entry (%r) is above the worst feasible one (%r)' % (out[i], worst))
          break
    return bad

  def run_warper(name, mk, y, strict, finite_required, infeasible_rule, finite_input_only=False, check_unwarp=False, first=None):
    """first: labels the SAME warper object has warped before (the designers keep one warper and re-warp the grown label set)."""
    y0 = y.copy()
    if finite_input_only and not np.all(np.isfinite(y0)):
      return
    if np.isposinf(y0).any():
      return
    w = mk()
    if first is not None:
      try:
        w.warp(first.copy())
      except Exception:  # pylint: disable=broad-except
        return
      name = name + ' (object re-used after warping other labels)'
    try:
      out = np.asarray(w.warp(y))
    except Exception as e:  # pylint: disable=broad-except
      if isinstance(e, ValueError) and not np.isfinite(y0).any():
        rep.count('refused_all_missing_' + name)     # ZScore / Normalize document this refusal
        return
      viol('%s.warp raised %s' % (name, type(e).__name__), {'warper': name, 'labels': y0.flatten().tolist(), 'error': str(e)[:200]})
      return
    obj = {'warper': name, 'labels': y0.flatten().tolist(), 'warped': np.asarray(out, dtype=float).flatten().tolist()}
    if not np.array_equal(y0, y, equal_nan=True):
      viol('%s.warp modified its input' % name, obj)
    if out.shape != y0.shape:
      viol('%s.warp changed the shape %s -> %s' % (name, y0.shape, out.shape), obj)
      return
    probs = order_problems(np.where(np.isneginf(y0), np.nan, y0).flatten(), np.asarray(out, dtype=float).flatten(), strict, finite_required, infeasible_rule)
    for p in probs:
      viol('%s: %s' % (name, p), obj)
    if check_unwarp and not probs:
      f = np.isfinite(y0).flatten()
      # (the inverse is not checked above 1e100, where differences of labels overflow or cancel completely)
      if f.sum() >= 1 and len(np.unique(y0[np.isfinite(y0)])) >= 2 and np.abs(y0[np.isfinite(y0)]).max() <= 1e100:
        try:
          back = np.asarray(w.unwarp(np.asarray(out)[f.reshape(-1, 1).flatten()].reshape(-1, 1))).flatten()
          orig = y0.flatten()[f]
          span = orig.max() - orig.min()
          if np.any(np.abs(back - orig) > 1e-6 * (span + np.abs(orig))):
            viol('%s: unwarp(warp(y)) differs from y' % name, dict(obj, unwarped=back.tolist()))
        except NotImplementedError:
          pass
        except Exception as e:  # pylint: disable=broad-except
          viol('%s.unwarp raised %s on its own output' % (name, type(e).__name__), dict(obj, error=str(e)[:200]))

  WARPERS = [
      # name, factory, strict ranking, finite output promised, infeasible rule, finite input only, unwarp
      ('default pipeline', ow.create_default_warper, True, True, True, False, True),
      ('outlier pipeline', ow.create_warp_outliers_warper, False, True, True, False, False),
      ('HalfRankComponent', ow.HalfRankComponent, True, False, False, False, False),
      ('LogWarperComponent', ow.LogWarperComponent, True, False, False, False, False),
      ('InfeasibleWarperComponent', ow.InfeasibleWarperComponent, True, True, True, False, False),
      ('ZScoreLabels', ow.ZScoreLabels, False, False, False, False, False),
      ('NormalizeLabels', ow.NormalizeLabels, False, False, False, False, False),
      ('DetectOutliers', ow.DetectOutliers, False, False, False, False, False),
      ('TransformToGaussian', ow.TransformToGaussian, False, True, False, True, False),
      ('TransformToGaussian(use_rank)', lambda: ow.TransformToGaussian(use_rank=True), False, True, False, True, False),
  ]
  narr = 150 if quick else 3000
  inf_cases, inf_objs, hr_cases, hr_objs, sc_cases, sc_objs = [], [], [], [], [], []
  for k in range(narr):
    kind, y = gen_labels(r, np)
    fin = y[np.isfinite(y)]
    rep.case({'kind': kind, 'labels': y.flatten().tolist()}, len(np.unique(fin)) >= 2)
    rep.count('kind_' + kind)
    for (name, mk, strict, finreq, infr, fonly, unw) in WARPERS:
      if name in ('HalfRankComponent', 'LogWarperComponent', 'DetectOutliers') and fin.size == 0:
        continue
      if kind == 'minute' and name == 'InfeasibleWarperComponent':
        # on its own this component adds a shift of order 1 to labels of order 1e-200: they merge by absorption (never reverse)
        strict = False
      run_warper(name, mk, y.copy(), strict, finreq, infr, fonly, unw)
      if k % 3 == 0 and fin.size >= 2 and name in ('default pipeline', 'outlier pipeline', 'LogWarperComponent', 'HalfRankComponent', 'ZScoreLabels', 'NormalizeLabels'):
        # the same object first warps the labels WITHOUT the best one (the study before its best trial arrived), then all of them;
        # and first the labels shrunk towards their median (a second metric on another scale)
        flat_ = y.flatten()
        top_ = int(np.nanargmax(np.where(np.isfinite(flat_), flat_, -np.inf)))
        earlier = np.delete(flat_, top_).reshape(-1, 1)
        for first_ in (earlier, np.where(np.isfinite(y), np.nanmedian(fin) + (y - np.nanmedian(fin)) * 1e-3, y)):
          if first_.size and np.isfinite(first_).any():
            run_warper(name, mk, y.copy(), strict, finreq, infr, fonly, unw, first=first_)
            rep.count('reused_object_' + name)
    # ---- correspondence inputs (moderate magnitudes only: the exact model has no overflow)
    if kind in ('huge',) or (fin.size and np.abs(fin).max() > 1e15):
      continue
    flat = np.where(np.isneginf(y), np.nan, y).flatten()
    labs = glist(flat.tolist(), glab)
    if k % 2 == 0:
      out = ow.InfeasibleWarperComponent().warp(y.copy()).flatten()
      # cancellation: the result is a difference of numbers of the size of the labels
      tol = 1e-9 * (1.0 + (float(np.abs(fin).max()) if fin.size else 0.0))
      inf_cases.append('(%s, %s, %s)' % (labs, glist(out.tolist(), gQ), gQ(tol)))
      inf_objs.append({'labels': flat.tolist(), 'observed': out.tolist()})
    if fin.size >= 1 and len(flat) != 1:
      comp = ow.HalfRankComponent()
      out = comp.warp(y.copy()).flatten()
      med = float(np.nanmedian(flat))
      uniq = np.unique(fin)
      std = float(comp._estimate_std_of_good_half(uniq, med))
      obs = []
      for a, b in zip(flat.tolist(), out.tolist()):
        if math.isnan(a):
          obs.append((2, 0.0))
        elif b == a and not a < med:
          obs.append((0, 0.0))
        else:
          q = float(stats.norm.cdf((b - med) / std)) if std > 0 and math.isfinite(std) else -1.0
          obs.append((1, q))
      hr_cases.append('(%s, %s, %s, %s)' % (labs, glist(obs, lambda o: gpair(gnat(o[0]), gQ(o[1]))), gQ(std * std if math.isfinite(std) else -1.0), '(1 # 10000000)'))
      hr_objs.append({'labels': flat.tolist(), 'observed': out.tolist(), 'std': std})
    try:
      pout = ow.create_default_warper().warp(y.copy()).flatten()
    except Exception as e:  # pylint: disable=broad-except
      viol('the default pipeline raised %s on a label array' % type(e).__name__, {'labels': flat.tolist(), 'error': str(e)[:300]})
      continue
    code = 0 if (np.all(pout == 0) and np.isfinite(flat).all() and len(np.unique(flat)) == 1) else (1 if (np.all(pout == -1) and np.isnan(flat).all()) else 2)
    sc_cases.append('(%s, %s)' % (labs, gnat(code)))
    sc_objs.append({'labels': flat.tolist(), 'pipeline_output': pout.tolist()})

  # ---- two warpers from the factory used side by side (one per metric, as the GP designers do): each un-warps its OWN labels
  for k in range(12 if quick else 120):
    ya = np.array(sorted({round(r.uniform(-5, 5), 3) for _ in range(r.randrange(4, 9))}), dtype=float).reshape(-1, 1)
    yb = np.array(sorted({round(r.uniform(50, 500), 2) for _ in range(r.randrange(4, 9))}), dtype=float).reshape(-1, 1)
    if len(ya) < 3 or len(yb) < 3:
      continue
    try:
      wa, wb = ow.create_default_warper(), ow.create_default_warper()
      oa = np.asarray(wa.warp(ya.copy()))
      ob = np.asarray(wb.warp(yb.copy()))
      back_a = np.asarray(wa.unwarp(oa.copy())).flatten()
      back_b = np.asarray(wb.unwarp(ob.copy())).flatten()
      # un-warping is a function of the fitted pipeline: a second and third call give the same answer (the GP designers
      # un-warp once per posterior sample)
      again = [np.asarray(wa.unwarp(oa.copy())).flatten() for _ in range(2)]
      if any(x.shape != back_a.shape or not np.allclose(x, back_a, atol=0, rtol=1e-12, equal_nan=True) for x in again):
        viol('un-warping the same warped labels again with the same pipeline gives a different answer',
             {'labels': ya.flatten().tolist(), 'first': back_a.tolist(), 'later': [x.tolist() for x in again]})
      rewarp = np.asarray(wa.warp(ya.copy())).flatten()
      if not np.allclose(rewarp, oa.flatten(), atol=0, rtol=1e-12, equal_nan=True):
        viol('warping the same labels again with the same pipeline (after un-warping) gives a different answer',
             {'labels': ya.flatten().tolist(), 'first': oa.flatten().tolist(), 'second': rewarp.tolist()})
      rep.case({'two_default_warpers': [ya.flatten().tolist(), yb.flatten().tolist()]}, True)
      rep.count('two_warpers_interleaved')
      tol_a = 1e-6 * max(1.0, float(np.abs(ya).max()))
      tol_b = 1e-6 * max(1.0, float(np.abs(yb).max()))
      if back_a.shape != ya.flatten().shape or not np.allclose(back_a, ya.flatten(), atol=tol_a, rtol=1e-6):
        viol('two default pipelines used side by side: the first no longer un-warps its own warped labels to the originals',
             {'labels_a': ya.flatten().tolist(), 'labels_b': yb.flatten().tolist(), 'unwarped_a': back_a.tolist(), 'same_object': wa is wb})
      elif back_b.shape != yb.flatten().shape or not np.allclose(back_b, yb.flatten(), atol=tol_b, rtol=1e-6):
        viol('two default pipelines used side by side: the second does not un-warp its own warped labels to the originals',
             {'labels_a': ya.flatten().tolist(), 'labels_b': yb.flatten().tolist(), 'unwarped_b': back_b.tolist()})
    except Exception as e:  # pylint: disable=broad-except
      viol('two default pipelines used side by side raised %s' % type(e).__name__, {'error': str(e)[:200]})

  # ---- log warper: numeric agreement of the live component with the translated formula
  for k in range(60 if quick else 600):
    o = r.choice([1.5, 1.5, 2.0, 1.01, 10.0])
    ys = sorted(r.uniform(-5, 5) * 10 ** r.choice([0, 0, 2, -3]) for _ in range(r.randrange(2, 8)))
    if ys[0] == ys[-1]:
      continue
    w = ow.LogWarperComponent(offset=o)
    out = w.warp(np.array(ys).reshape(-1, 1)).flatten()
    mn, mx = ys[0], ys[-1]
    want = [0.5 - math.log(1 + ((mx - y) / (mx - mn)) * (o - 1)) / math.log(o) for y in ys]
    rep.case({'log_warper_offset': o, 'labels': ys}, True)
    if any(abs(a - b) > 1e-9 for a, b in zip(out.tolist(), want)):
      broke = (broke or '') + ' the live LogWarperComponent disagrees with the translated formula on %r (offset %r);' % (ys, o)
    back = w.unwarp(out.reshape(-1, 1)).flatten()
    if any(abs(a - b) > 1e-6 * (mx - mn) for a, b in zip(back.tolist(), ys)):
      viol('LogWarperComponent: unwarp(warp(y)) differs from y', {'offset': o, 'labels': ys, 'unwarped': back.tolist()})
    if not (abs(out[-1] - 0.5) < 1e-9 and abs(out[0] + 0.5) < 1e-9):
      viol('LogWarperComponent: the range is not [-0.5, 0.5]', {'offset': o, 'labels': ys, 'warped': out.tolist()})

  for tag, cases, objs, chk, what in (('inf', inf_cases, inf_objs, 'infeasible_case_ok', 'InfeasibleWarperComponent'),
                                      ('hr', hr_cases, hr_objs, 'halfrank_case_ok', 'HalfRankComponent (structure, quantiles, variance estimate)'),
                                      ('sc', sc_cases, sc_objs, 'shortcut_case_ok', 'OutputWarperPipeline short cuts')):
    bad = C.run_cases('C18', tag, HDR, cases, chk, shard=300)
    rep.count('corr_' + tag, len(cases))
    rep.disagreements += len(bad)
    for i in bad[:3]:
      broke = (broke or '') + ' correspondence: model vs %s on %r;' % (what, objs[i])
  C.settle_broken(rep, broke, concrete)
  return rep.finish()


def replay(path):
  print(json.dumps(json.load(open(path)), indent=1)[:4000])
  return 1
