"""C16 — search-space definitions are validated and membership is decided correctly."""
import json
import math
from fractions import Fraction

from harness import common as C
from harness.common import gN, gZ, gbool, glist, gopt, gpair, gstr, gnat

HDR = 'From VZ Require Import Base.Prelude Model.Space.\n'


def gQf(x):
  if isinstance(x, float) and (math.isnan(x) or math.isinf(x)):
    return '(987654321 # 1)%Q'   # not representable: only reachable when the code accepted a non-finite number
  fr = Fraction(x)
  return '(%d # %d)%%Q' % (fr.numerator, fr.denominator)


def g_xq(x):
  if math.isnan(x):
    return 'XNaN'
  if x == math.inf:
    return 'XPInf'
  if x == -math.inf:
    return 'XNInf'
  return '(XF %s)' % gQf(x)


def g_rv(v):
  if isinstance(v, bool):
    return '(RBool %s)' % gbool(v)
  if isinstance(v, int):
    return '(RInt %s)' % gZ(v)
  if isinstance(v, float):
    return '(RFloat %s)' % g_xq(v)
  return '(RStr %s)' % gstr(v)


TY = {'DOUBLE': 'TDouble', 'INTEGER': 'TInteger', 'DISCRETE': 'TDiscrete', 'CATEGORICAL': 'TCategorical'}


def g_pcfg(pc):
  ty = pc.type.name
  lo = hi = 0
  nums, cats = [], []
  if ty in ('DOUBLE', 'INTEGER'):
    lo, hi = pc.bounds
  elif ty == 'DISCRETE':
    nums = list(pc.feasible_values)
    lo, hi = nums[0], nums[-1]
  else:
    cats = list(pc.feasible_values)
  return '(mkPC %s %s %s %s %s %s)' % (gstr(pc.name), TY[ty], gQf(lo), gQf(hi), glist(nums, gQf), glist(cats, gstr))


VALUES = [0, 1, 2, 3, 5, 6, -1, 0.0, 1.0, 2.0, 2.5, 0.5, -0.0, 5.0, 1e300, math.inf, -math.inf, math.nan, True, False,
          'a', 'b', 'True', 'False', '1', '1.0', '', 'nan',
          # almost, but not, integers / feasible values / bounds (a tolerant comparison accepts them)
          3.0000000001, 2.9999999999, 1.0000000000000002, 0.9999999999999999, 5.000000001, 1e-10, 2.5000000001, 6.0000000000001]


def in_domain(pc, v):
  """Independent oracle written from the property text."""
  ty = pc.type.name
  if ty == 'CATEGORICAL':
    if isinstance(v, bool):
      v = 'True' if v else 'False'
    return isinstance(v, str) and v in pc.feasible_values
  if isinstance(v, str):
    return False
  x = float(v)
  if math.isnan(x) or math.isinf(x):
    return False
  if ty == 'DOUBLE':
    return pc.bounds[0] <= x <= pc.bounds[1]
  if ty == 'INTEGER':
    return x == int(x) and pc.bounds[0] <= x <= pc.bounds[1]
  return any(x == f for f in pc.feasible_values)


def run(tier, seed):
  from harness import boot
  boot.boot()
  from vizier import pyvizier as vz
  from vizier._src.pyvizier.shared import parameter_iterators

  rep = C.Report('C16', tier, seed)
  rep.rule = ('ParameterConfig.factory on generated valid and invalid argument combinations (empty names, int/float/bool/inf/nan/reversed/'
              'mixed bounds, feasible lists with duplicates 1/1.0/True, mixed kinds, non-finite values, both bounds and feasible values); '
              'contains() of every built parameter on 28 candidate values of all kinds; flat spaces with near-miss assignments (missing / '
              'extra keys, wrong kinds); conditional spaces walked by SequentialParameterBuilder (dfs and bfs) with random choices; '
              'add_* builders with invalid arguments; non-trivial = invalid definition, near-miss assignment or conditional walk')
  rep.trusted = ['harness/translate/membership.py (Python-ast translator of assert_correct_type / _assert_feasible / contains, ParameterValue casts pinned, fail-closed)', 'Coq 8.16.1 kernel + vm_compute', 'harness/translate/pcfactory.py (Python-ast translator of ParameterConfig.factory into a decision tree, helper bodies pinned, fail-closed)', 'exact rationals + {inf, nan} instead of IEEE doubles', 'harness/props/c16.py oracle']
  tbroke = None
  try:
    from harness.translate import pcfactory
    C.write_gen('Gen/FactorySrc.v', pcfactory.translate(C.REPO))
  except Exception as e:  # pylint: disable=broad-except
    tbroke = 'translator harness/translate/pcfactory.py refused parameter_config.py: %r' % (e,)
  try:
    from harness.translate import membership
    C.write_gen('Gen/MembershipSrc.v', membership.translate(C.REPO))
  except Exception as e:  # pylint: disable=broad-except
    tbroke = ((tbroke or '') + ' translator harness/translate/membership.py refused trial.py / parameter_config.py: %r' % (e,)).strip()
  C.standard_proof_step(rep, 'C16')
  broke = ((tbroke or '') + ' ' + (rep.proof_broken or '')).strip() or None
  concrete = False
  r = C.rng(seed, 'c16')
  N = 400 if tier == 'quick' else 6000

  def viol(what, obj):
    nonlocal concrete
    concrete = True
    rep.violation(what, obj)

  F = vz.ParameterConfig.factory
  numpool = [0, 1, 2, 3, 5, -1, 0.0, 1.0, 2.5, 0.5, -0.0, True, False, math.inf, -math.inf, math.nan]
  built = []
  fcases, fobjs = [], []
  for i in range(N):
    name = r.choice(['p', 'p', 'q', 'x[0]', '', 'é'])
    u = r.random()
    bounds, feas = None, None
    if u < 0.45:
      bounds = (r.choice(numpool), r.choice(numpool))
    elif u < 0.9:
      k = r.randrange(0, 5)
      pool = numpool if r.random() < 0.6 else ['a', 'b', '', 'é', 'True'] if r.random() < 0.8 else numpool + ['a']
      feas = [r.choice(pool) for _ in range(k)]
    elif u < 0.95:
      bounds = (r.choice([0, 1.0]), r.choice([2, 3.0]))
      feas = [r.choice([1.0, 'a'])]
    kw = {}
    if bounds is not None:
      kw['bounds'] = bounds
    if feas is not None:
      kw['feasible_values'] = feas
    try:
      pc = F(name, **kw)
      res = ('ok', pc)
      if pc.type.name in TY:
        built.append(pc)
    except (ValueError, TypeError) as e:
      res = ('err', type(e).__name__)
    invalid = res[0] == 'err'
    rep.case({'factory': {'name': name, 'bounds': repr(bounds), 'feasible_values': repr(feas)}, 'result': res[0] if invalid else pc.type.name}, invalid)
    rep.count('factory_' + ('rejected' if invalid else pc.type.name))
    # monitor from the property text
    def should_reject():
      if not name:
        return True
      if bounds is not None and feas:
        return True
      if feas:
        nums = [v for v in feas if not isinstance(v, str)]
        if len(nums) not in (0, len(feas)):
          return True
        if nums and any(math.isnan(float(v)) or math.isinf(float(v)) for v in nums):
          return True
        if nums and len({float(v) for v in nums}) != len(nums):
          return True
        if not nums and len(set(feas)) != len(feas):
          return True
        return False
      if bounds is not None:
        a, b = bounds
        ints = all(isinstance(v, int) for v in bounds)
        floats = all(isinstance(v, float) for v in bounds)
        if not (ints or floats):
          return True
        if any(math.isnan(float(v)) or math.isinf(float(v)) for v in bounds):
          return True
        return float(a) > float(b)
      return False   # neither bounds nor feasible values: a CUSTOM parameter (not modelled)
    if should_reject() != invalid:
      viol('ParameterConfig.factory %s a definition that should be %s' % ('accepted' if not invalid else 'rejected', 'rejected' if not invalid else 'accepted'),
           {'name': name, 'bounds': repr(bounds), 'feasible_values': repr(feas)})
    if not invalid and pc.type.name in ('DISCRETE', 'CATEGORICAL'):
      fv = list(pc.feasible_values)
      if fv != sorted(fv) or len(set(fv)) != len(fv):
        viol('feasible values are not sorted and unique after factory', {'feasible_values': repr(feas), 'got': repr(fv)})
    g_b = 'None' if bounds is None else '(Some (%s, %s))' % (g_rv(bounds[0]), g_rv(bounds[1]))
    g_f = glist(feas or [], g_rv)
    exp = 'None' if invalid or pc.type.name not in TY else '(Some %s)' % g_pcfg(pc)
    fcases.append('(%s, %s, %s, %s)' % (gstr(name), g_b, g_f, exp))
    fobjs.append((name, repr(bounds), repr(feas)))
  ck = ('Definition q_eq (a b : Q) := Qeq_bool a b.\n'
        'Definition pcfg_eqb (a b : pcfg) := str_eqb (pc_name a) (pc_name b) && '
        'match pc_type a, pc_type b with TDouble, TDouble | TInteger, TInteger | TDiscrete, TDiscrete | TCategorical, TCategorical => true | _, _ => false end && '
        'q_eq (pc_lo a) (pc_lo b) && q_eq (pc_hi a) (pc_hi b) && list_eqb q_eq (pc_nums a) (pc_nums b) && list_eqb str_eqb (pc_cats a) (pc_cats b).\n'
        'Definition ck (c : str * option (rv * rv) * list rv * option pcfg) := let \'(n, b, f, e) := c in '
        'match factory n b f, e with Ok p, Some p\' => pcfg_eqb p p\' | Err _, None => true | _, _ => false end.\n')
  bad = C.run_cases('C16', 'fac', HDR + ck, fcases, 'ck')
  rep.disagreements += len(bad)
  for i in bad[:3]:
    broke = ((broke or '') + ' correspondence ParameterConfig.factory vs model on %r;' % (fobjs[i],))

  # ---- contains on single parameters
  ccases, cobjs = [], []
  r.shuffle(built)
  for pc in built[:max(40, N // 6)]:
    for v in VALUES:
      try:
        got = bool(pc.contains(v))
      except Exception as e:  # pylint: disable=broad-except
        viol('ParameterConfig.contains raised %s instead of answering' % type(e).__name__, {'config': repr(pc), 'value': repr(v)})
        continue
      want = in_domain(pc, v)
      rep.case({'contains': repr(pc)[:120], 'value': repr(v)}, got != (isinstance(v, (int, float)) and not isinstance(v, bool)))
      if got != want:
        viol('ParameterConfig.contains(%r) = %s but the value is %s the domain' % (v, got, 'inside' if want else 'outside'), {'config': repr(pc), 'value': repr(v)})
      ccases.append('(%s, %s, %s)' % (g_pcfg(pc), g_rv(v), gbool(got)))
      cobjs.append((repr(pc), repr(v)))
  bad = C.run_cases('C16', 'con', HDR + 'Definition ck (c : pcfg * rv * bool) := let \'(p, v, b) := c in Bool.eqb (match pc_contains p v with Accept => true | Refuse => false end) b.\n', ccases, 'ck')
  rep.disagreements += len(bad)
  for i in bad[:3]:
    broke = ((broke or '') + ' correspondence ParameterConfig.contains vs model on %r;' % (cobjs[i],))

  # ---- flat spaces with near-miss assignments
  scases, sobjs = [], []
  for i in range(N // 2):
    space = vz.SearchSpace()
    names = r.sample(['a', 'b', 'c', 'x[0]', 'lr'], r.randrange(1, 5))
    pcs = []
    for nm in names:
      k = r.choice(['f', 'i', 'd', 'c'])
      if k == 'f':
        pcs.append(space.root.add_float_param(nm, 0.0, r.choice([1.0, 2.5])))
      elif k == 'i':
        pcs.append(space.root.add_int_param(nm, 1, r.choice([3, 5])))
      elif k == 'd':
        pcs.append(space.root.add_discrete_param(nm, r.sample([0.5, 1.0, 2.0, 3.0], r.randrange(1, 4))))
      else:
        pcs.append(space.root.add_categorical_param(nm, r.sample(['a', 'b', 'True'], r.randrange(1, 4))))
    pcs = [space.get(nm) for nm in names]
    assign = {}
    for pc in pcs:
      good = [v for v in VALUES if in_domain(pc, v)]
      assign[pc.name] = r.choice(good) if r.random() < 0.8 and good else r.choice(VALUES)
    u = r.random()
    if u < 0.15 and assign:
      assign.pop(r.choice(list(assign)))
    elif u < 0.3:
      assign['extra'] = 1.0
    elif u < 0.4 and assign:
      k0 = r.choice(list(assign))
      assign['other'] = assign.pop(k0)
    try:
      pd = vz.ParameterDict(assign)
      got = bool(space.contains(pd))
    except Exception as e:  # pylint: disable=broad-except
      viol('SearchSpace.contains raised %s' % type(e).__name__, {'space': repr(space)[:300], 'assignment': repr(assign)})
      continue
    want = set(assign) == set(names) and all(in_domain(pc, assign[pc.name]) for pc in pcs)
    rep.case({'space': names, 'assignment': repr(assign), 'contains': got}, not want)
    rep.count('space_' + ('member' if want else 'near_miss'))
    if got != want:
      viol('SearchSpace.contains answers %s for an assignment that is %s the space' % (got, 'inside' if want else 'outside'),
           {'space': repr(space)[:400], 'assignment': repr(assign)})
    scases.append('(%s, %s, %s)' % (glist(pcs, g_pcfg), glist(list(assign.items()), lambda kv: gpair(gstr(kv[0]), g_rv(kv[1]))), gbool(got)))
    sobjs.append((names, repr(assign)))
  bad = C.run_cases('C16', 'sp', HDR + 'Definition ck (c : list pcfg * list (str * rv) * bool) := let \'(s, a, b) := c in Bool.eqb (match space_contains s a with Accept => true | Refuse => false end) b.\n', scases, 'ck')
  rep.disagreements += len(bad)
  for i in bad[:3]:
    broke = ((broke or '') + ' correspondence SearchSpace.contains vs model on %r;' % (sobjs[i],))

  # ---- conditional spaces: membership refused, builder visits exactly the active parameters
  bcases, bobjs = [], []
  vcases, vobjs = [], []
  for i in range(N // 4):
    space = vz.SearchSpace()
    counter = [0]
    has_children = [False]     # the oracle for "conditional": a child was declared, under a parent of any kind

    def grow(sel, depth):
      for _ in range(r.randrange(1, 3)):
        counter[0] += 1
        nm = 'p%d' % counter[0]
        kind = r.choice(['c', 'i', 'd', 'f'])
        if kind == 'c':
          vals = ['u', 'v', 'w'][:r.randrange(2, 4)]
          sel.add_categorical_param(nm, vals)
        elif kind == 'i':
          vals = [1, 2, 3]
          sel.add_int_param(nm, 1, 3)
        elif kind == 'd':
          vals = [0.5, 1.5]
          sel.add_discrete_param(nm, vals)
        else:
          sel.add_float_param(nm, 0.0, 1.0)
          continue
        if depth < 3 and r.random() < 0.6:
          for _ in range(r.randrange(1, 3)):
            has_children[0] = True
            grow(sel.select(nm, r.sample(vals, r.randrange(1, len(vals)))), depth + 1)
    if i % 5 == 3:
      # every parent is an INTEGER parameter (no categorical / discrete parent anywhere)
      counter[0] += 1
      space.root.add_int_param('p1', 1, 3)
      has_children[0] = True
      space.root.select('p1', [2]).add_float_param('p2', 0.0, 1.0)
      counter[0] += 1
      if r.random() < 0.5:
        space.root.select('p1', [2, 3]).add_int_param('p3', 1, 3)
        space.root.select('p1', [2, 3]).select('p3', [1]).add_categorical_param('p4', ['u', 'v'])
        counter[0] += 2
      rep.count('conditional_space_integer_parents_only')
    else:
      grow(space.root, 1)
    if space.is_conditional != has_children[0]:
      viol('SearchSpace.is_conditional is %r for a space %s child parameters' % (space.is_conditional, 'with' if has_children[0] else 'without'),
           {'space': repr(space)[:400]})
    if has_children[0]:
      try:
        space.contains(vz.ParameterDict({'p1': 1}))
        viol('membership in a conditional space was answered instead of refused', {'space': repr(space)[:300]})
      except NotImplementedError:
        pass
      except Exception as e:  # pylint: disable=broad-except
        viol('membership in a conditional space raised %s, not NotImplementedError' % type(e).__name__, {})
    choice = {}
    for order in ('dfs', 'bfs'):
      b = parameter_iterators.SequentialParameterBuilder(space, traverse_order=order)
      visited = []
      for pc in b:
        if pc.name not in choice:
          if pc.type.name == 'DOUBLE':
            choice[pc.name] = 0.5
          elif pc.type.name == 'INTEGER':
            choice[pc.name] = r.randrange(pc.bounds[0], pc.bounds[1] + 1)
          else:
            choice[pc.name] = r.choice(list(pc.feasible_values))
        visited.append(pc.name)
        b.choose_value(choice[pc.name])
      # oracle: active parameters under the chosen values
      active = []

      def walk(pcs):
        for pc in pcs:
          active.append(pc.name)
          v = choice.get(pc.name)
          kids = [c for c in pc.child_parameter_configs if v in c.matching_parent_values or (isinstance(v, float) and any(v == m for m in c.matching_parent_values))]
          walk(kids)
      walk(space.parameters)
      rep.case({'conditional_space_parameters': counter[0], 'order': order, 'visited': visited}, has_children[0])
      rep.count('builder_' + order)
      if sorted(visited) != sorted(active) or len(set(visited)) != len(visited):
        viol('SequentialParameterBuilder (%s) visited %s but the active parameters are %s' % (order, visited, active), {'space': repr(space)[:500], 'choice': repr(choice)})
      if set(b.parameters.keys()) != set(active):
        viol('SequentialParameterBuilder produced parameters that are not the active ones', {'order': order})
      # model: values -> atoms by position in the parent's domain
      def atom(pc, v):
        dom = list(range(pc.bounds[0], pc.bounds[1] + 1)) if pc.type.name == 'INTEGER' else list(pc.feasible_values)
        return dom.index(v) + 1 if v in dom else 0

      def g_tree(pc):
        return '(CNode %s %s)' % (gstr(pc.name), glist(pc.child_parameter_configs, lambda c: gpair(glist([atom(pc, m) for m in c.matching_parent_values], gN), g_tree(c))))
      table = glist([(nm, atom(space.get(nm) if False else pcmap(space, nm), v) if pcmap(space, nm).type.name != 'DOUBLE' else 0) for nm, v in choice.items()],
                    lambda kv: gpair(gstr(kv[0]), gN(kv[1])))
      bcases.append('(%s, %s, %s, %s)' % (gbool(order == 'bfs'), glist(space.parameters, g_tree), table, glist(visited, gstr)))
      bobjs.append((order, visited))
      # the validating walk: sometimes one parameter is given a value outside its domain; outcome vs build_v
      bad_name = r.choice(list(choice)) if r.random() < 0.5 else None
      b = parameter_iterators.SequentialParameterBuilder(space, traverse_order=order)
      recorded, outcome, given = [], 'ok', {}
      try:
        for pc in b:
          v = choice[pc.name]
          if pc.name == bad_name:
            v = {'DOUBLE': r.choice([pc.bounds[1] + 1.0, pc.bounds[0] - 0.25, float('nan')]) if pc.type.name == 'DOUBLE' else None,
                 'INTEGER': 7, 'DISCRETE': 9.25, 'CATEGORICAL': 'zzz_not'}[pc.type.name]
          given[pc.name] = v
          b.choose_value(v)
          recorded.append(pc.name)
      except ValueError:
        outcome = 'err'
      except Exception as e:  # pylint: disable=broad-except
        outcome = 'raised ' + type(e).__name__

      def atom_v(pc, v):
        if pc.type.name == 'DOUBLE':
          return 1 if pc.bounds[0] <= v <= pc.bounds[1] else 0
        return atom(pc, v)
      vt = glist([(nm, atom_v(pcmap(space, nm), v)) for nm, v in given.items()], lambda kv: gpair(gstr(kv[0]), gN(kv[1])))
      rep.case({'builder_validation': order, 'bad': bad_name is not None and bad_name in given, 'outcome': outcome}, True)
      rep.count('builder_validation_' + ('refused' if outcome == 'err' else 'answered'))
      if outcome == 'ok' and set(b.parameters.keys()) != set(recorded):
        viol('SequentialParameterBuilder.parameters differs from the values it was given', {'order': order})
      if outcome == 'ok' and bad_name in given:
        viol('SequentialParameterBuilder recorded a value outside the domain of %s' % bad_name,
             {'order': order, 'given': repr(given)[:300], 'parameter': repr(pcmap(space, bad_name))[:200]})
      vcases.append('(%s, %s, %s, %s, %s)' % (gbool(order == 'bfs'), glist(space.parameters, g_tree), vt, gbool(outcome == 'ok'),
                                              glist(recorded if outcome == 'ok' else [], gstr)))
      vobjs.append((order, given, outcome))
  ckb = ('Definition choose_of (tbl : list (str * N)) (t : ctree) : N := match t with CNode n _ => '
         'match find (fun kv => str_eqb (fst kv) n) tbl with Some kv => snd kv | None => 0%N end end.\n'
         'Definition ck (c : bool * list ctree * list (str * N) * list str) := let \'(bfs, roots, tbl, vis) := c in '
         'list_eqb str_eqb (map (fun t => match t with CNode n _ => n end) (build 200 bfs (choose_of tbl) roots)) vis.\n')
  bad = C.run_cases('C16', 'bld', HDR + ckb, bcases, 'ck')
  rep.disagreements += len(bad)
  for i in bad[:3]:
    broke = ((broke or '') + ' correspondence SequentialParameterBuilder vs model on %r;' % (bobjs[i],))
  ckv = ('Definition choose_of (tbl : list (str * N)) (t : ctree) : N := match t with CNode n _ => '
         'match find (fun kv => str_eqb (fst kv) n) tbl with Some kv => snd kv | None => 0%N end end.\n'
         'Definition ck (c : bool * list ctree * list (str * N) * bool * list str) := let \'(bfs, roots, tbl, ok, vis) := c in '
         'match build_v 200 bfs (choose_of tbl) roots with '
         '| Ok l => ok && list_eqb str_eqb (map (fun tv => match fst tv with CNode n _ => n end) l) vis '
         '| Err _ => negb ok end.\n')
  bad = C.run_cases('C16', 'bldv', HDR + ckv, vcases, 'ck')
  rep.disagreements += len(bad)
  for i in bad[:3]:
    broke = ((broke or '') + ' correspondence SequentialParameterBuilder validation vs build_v on %r;' % (vobjs[i],))

  # ---- boolean parents in both spellings: a boolean parameter is a categorical one with the values 'False' / 'True', and a Python
  # bool and the matching string are the same value - at construction (select_values) and when walking (choose_value)
  for built_with in (True, 'True', False, 'False'):
    for chosen in (True, 'True', False, 'False'):
      for order in ('dfs', 'bfs'):
        for nested in (False, True):
          try:
            sp_ = vz.SearchSpace()
            flag_ = sp_.root.add_bool_param('flag')
            sub_ = flag_.select_values([built_with])
            sub_.add_categorical_param('child', ['u', 'v'])
            if nested:
              sub_.add_bool_param('flag2').select_values([built_with]).add_float_param('grandchild', 0.0, 1.0)
            sp_.root.add_float_param('lr', 0.1, 1.0)
            b_ = parameter_iterators.SequentialParameterBuilder(sp_, traverse_order=order)
            visited_ = []
            for pc_ in b_:
              visited_.append(pc_.name)
              b_.choose_value(chosen if pc_.name in ('flag', 'flag2') else ('u' if pc_.name == 'child' else 0.5))
            same_ = str(built_with) == str(chosen)
            want_ = ['flag', 'lr'] + (['child'] + (['flag2', 'grandchild'] if nested else []) if same_ else [])
            rep.case({'boolean_parent_built_with': repr(built_with), 'chosen': repr(chosen), 'order': order, 'nested': nested}, same_)
            rep.count('boolean_parent_spellings')
            if sorted(visited_) != sorted(want_) or sorted(b_.parameters.keys()) != sorted(want_):
              viol('SequentialParameterBuilder (%s): children under a boolean parent built with %r and walked with %r: visited %s, active are %s'
                   % (order, built_with, chosen, sorted(visited_), sorted(want_)), {'built_with': repr(built_with), 'chosen': repr(chosen), 'nested': nested})
          except Exception as e:  # pylint: disable=broad-except
            viol('a boolean parent given as %r / %r is refused: %s' % (built_with, chosen, type(e).__name__), {'error': repr(e)[:200]})

  # ---- builders with invalid arguments / client add_trial
  for i in range(N // 8):
    space = vz.SearchSpace()
    space.root.add_float_param('x', 0.0, 1.0)
    space.root.add_categorical_param('c', ['a', 'b'])
    bad_calls = [lambda: space.root.add_float_param('x', 0.0, 2.0), lambda: space.root.add_int_param('', 1, 2),
                 lambda: space.root.add_float_param('y', 1.0, 0.0), lambda: space.root.add_float_param('z', 0.0, math.inf),
                 lambda: space.root.add_discrete_param('d', [1.0, 1.0]), lambda: space.root.select('x', [0.5]).add_int_param('k', 1, 2),
                 lambda: space.root.add_categorical_param('c', ['q']),
                 # an empty name stays empty when an index or a length composes 'name[i]' around it
                 lambda: space.root.add_float_param('', 0.0, 1.0, index=0), lambda: space.root.add_int_param('', 1, 3, length=2),
                 lambda: space.root.add_discrete_param('', [1.0, 2.0], index=1), lambda: space.root.add_categorical_param('', ['a'], index=0)]
    # children under a continuous parameter, also a degenerate one (lower bound = upper bound), by every route
    space.root.add_float_param('p', 0.5, 0.5)
    space.root.add_float_param('w', 0.25, 0.75, scale_type=vz.ScaleType.LOG)
    child = vz.ParameterConfig.factory('kid', bounds=(0.0, 1.0))
    bad_calls += [lambda: space.root.select('p', [0.5]).add_int_param('k', 1, 2),
                  lambda: space.root.select('p').select_values([0.5]).add_float_param('k', 0.0, 1.0),
                  lambda: vz.ParameterConfig.factory('q', bounds=(0.5, 0.5), children=[([0.5], child)]),
                  lambda: vz.ParameterConfig.factory('q', bounds=(0.0, 1.0), children=[([0.5], child)]),
                  lambda: space.root.select('w', [0.25]).add_categorical_param('k', ['a']),
                  lambda: vz.ParameterConfig.factory('q', bounds=(2, 2), children=[([2], child)]) if False else
                          space.root.select('p', [0.5, 0.5]).add_bool_param('k')]
    f = bad_calls[i % len(bad_calls)] if i < 2 * len(bad_calls) else r.choice(bad_calls)
    try:
      f()
      viol('an invalid parameter definition was accepted by the builder', {'call_index': bad_calls.index(f)})
    except (ValueError, TypeError, KeyError):
      pass
    rep.case({'invalid_builder_call': bad_calls.index(f)}, True)
  # ---- SequentialParameterBuilder validates the chosen value of EVERY parameter kind (its docstring: "get_subspace also
  # validates the value"): a value outside the domain is refused, never recorded
  for kind_, mk_, bad_ in [('double', lambda root: root.add_float_param('x', 0.0, 1.0), 5.0),
                           ('double', lambda root: root.add_float_param('x', 0.0, 1.0), float('nan')),
                           ('int', lambda root: root.add_int_param('x', 1, 3), 7),
                           ('discrete', lambda root: root.add_discrete_param('x', [1.0, 2.0]), 9.0),
                           ('categorical', lambda root: root.add_categorical_param('x', ['a', 'b']), 'zzz')]:
    sp_ = vz.SearchSpace()
    mk_(sp_.root)
    for order_ in ('dfs', 'bfs'):
      bld = vz.SequentialParameterBuilder(sp_, traverse_order=order_)
      rep.case({'builder_value_outside_domain': kind_, 'order': order_}, True)
      try:
        for pc_ in bld:
          bld.choose_value(bad_)
        viol('SequentialParameterBuilder recorded a value outside the parameter\'s domain', {'kind': kind_, 'value': repr(bad_), 'order': order_,
                                                                                              'parameters': repr(dict(bld.parameters))[:200]})
      except (ValueError, TypeError):
        pass
  broke2, conc2 = add_trial_check(rep, r, N)
  broke = ((broke or '') + ' ' + (broke2 or '')).strip() or None
  concrete = concrete or conc2
  C.settle_broken(rep, broke, concrete)
  return rep.finish()


def pcmap(space, name):
  for top in space.parameters:
    for pc in top.traverse(show_children=True):
      if pc.name == name:
        return pc
  raise KeyError(name)


def add_trial_check(rep, r, N):
  """Study.add_trial refuses trials outside the space (client_abc promises ValueError)."""
  from harness import svc
  from vizier import pyvizier as vz
  from vizier._src.service import clients, vizier_client, vizier_service, study_pb2, vizier_service_pb2 as vs
  serv = vizier_service.VizierServicer(database_url=None)
  sc = svc.study_config([(1, True)])
  st = serv.CreateStudy(vs.CreateStudyRequest(parent='owners/o1', study=study_pb2.Study(display_name='a', study_spec=sc.to_proto())))
  study = clients.Study(vizier_client.VizierClient(st.name, 'w0', serv))
  conc = False
  for v in [50.0, 0.0, 100.0, -1.0, 101.0, float('inf'), float('nan'), 'a', True]:
    for params, shape_ in (({'x': v}, 'plain'), ({'x': v, 'y': 1.0}, 'plain'), ({}, 'plain'), ({'x': v}, 'requested'), ({'x': v}, 'completed'),
                           ({'x': v}, 'infeasible')):
      inside = params.keys() == {'x'} and not isinstance(v, str) and 0.0 <= float(v) <= 100.0
      try:
        # every kind of trial a user can hand to add_trial: fresh, marked as requested, already completed, completed infeasible
        t_new = vz.Trial(parameters=params)
        if shape_ == 'requested':
          t_new.is_requested = True
        elif shape_ == 'completed':
          t_new.complete(vz.Measurement({'m1': 1.0}))
        elif shape_ == 'infeasible':
          t_new.complete(vz.Measurement(), infeasibility_reason='bad')
        rep.count('add_trial_' + shape_)
        study.add_trial(t_new)
        ok = True
      except ValueError:
        ok = False
      except Exception as e:  # pylint: disable=broad-except
        ok = None
        conc = True
        rep.violation('Study.add_trial raised %s (promised: ValueError) for a trial outside the space' % type(e).__name__, {'parameters': repr(params)})
      rep.case({'add_trial': repr(params), 'accepted': ok}, not inside)
      if ok is not None and ok != inside:
        conc = True
        rep.violation('Study.add_trial %s a trial that is %s the search space' % ('accepted' if ok else 'refused', 'inside' if inside else 'outside'), {'parameters': repr(params), 'trial': shape_})
  # the same study name with another search space: after deletion and re-creation, on another server, with another client
  # object - membership must be decided against the space the study has now
  def mk_space(kind):
    p = vz.ProblemStatement()
    if kind == 'wide':
      p.search_space.root.add_float_param('x', 0.0, 100.0)
    elif kind == 'narrow':
      p.search_space.root.add_float_param('x', 0.0, 1.0)
    else:
      p.search_space.root.add_float_param('x', 2.0, 3.0)
      p.search_space.root.add_int_param('i', 1, 4)
    p.metric_information.append(vz.MetricInformation(name='m1', goal=vz.ObjectiveMetricGoal.MAXIMIZE))
    return p
  from vizier.service import pyvizier as svz
  probes = [{'x': 0.5}, {'x': 50.0}, {'x': 2.5, 'i': 1}, {'x': 2.5}]
  inside_of = {'wide': [True, True, False, True], 'narrow': [True, False, False, False], 'mixed': [False, False, True, False]}
  for rnd in range(3):
    kinds = r.sample(['wide', 'narrow', 'mixed'], 3)
    serv2 = vizier_service.VizierServicer(database_url=None)
    for step, kind in enumerate(kinds):
      if step == 2 and r.random() < 0.5:
        serv2 = vizier_service.VizierServicer(database_url=None)     # another server, same study name
      sc2 = svz.StudyConfig.from_problem(mk_space(kind))
      sc2.algorithm = 'RANDOM_SEARCH'
      st2 = serv2.CreateStudy(vs.CreateStudyRequest(parent='owners/o7', study=study_pb2.Study(display_name='same_name', study_spec=sc2.to_proto())))
      study2 = clients.Study(vizier_client.VizierClient(st2.name, 'w0', serv2))
      for params, inside in zip(probes, inside_of[kind]):
        try:
          study2.add_trial(vz.Trial(parameters=params))
          ok = True
        except ValueError:
          ok = False
        except Exception as e:  # pylint: disable=broad-except
          ok = None
        rep.case({'recreated_study_space': kind, 'add_trial': repr(params), 'accepted': ok}, True)
        if ok is not None and ok != inside:
          conc = True
          rep.violation('Study.add_trial %s a trial that is %s the search space of a study re-created under the same name'
                        % ('accepted' if ok else 'refused', 'inside' if inside else 'outside'),
                        {'spaces_in_order': kinds[:step + 1], 'current_space': kind, 'parameters': repr(params)})
      try:
        study2.delete()
      except Exception:  # pylint: disable=broad-except
        pass
  return None, conc


def replay(path):
  print(json.dumps(json.load(open(path)), indent=1)[:4000])
  return 1
