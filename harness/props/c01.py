"""C01 — trial lifecycle: only legal transitions, completed trials immutable, illegal calls fail unchanged."""
from harness import svcrun


def run(tier, seed):
  from harness import svcmon
  return svcrun.run_service_check(
      'C01', tier, seed,
      rule=('all 17 handler bodies are regenerated from vizier_service.py and proved equal to the model\'s handler programs at every run; '
            'adaptively generated RPC sequences (17 RPC kinds, ~2/3 legal calls, every error kind reached) over 2 owners, 3 studies '
            '(one name a prefix of another), 3 workers, scripted Pythia; run on RAM and in-memory SQLite, every step compared '
            'with the model (response, datastore-call trace) plus final stored state; non-trivial = at least 3 successful calls'),
      monitors=[svcrun.wrap(svcmon.c01_step)], backends=('ram', 'sqlmem'), extra=extras, pre=regenerate_handlers,
      trusted_extra=['harness/translate/svchandlers.py (14 RPC handler bodies statement by statement), svcsuggest.py, svcearlystop.py, svcoptimal.py (SuggestTrials, '
                     'CheckTrialEarlyStoppingState, ListOptimalTrials block by block: the statements of each block are pinned, their meaning is given in coq/Model/*IR.v); '
                     'fail-closed; what each assumes by hand is listed at the top of the file'])


def regenerate_handlers():
  return svcrun.regenerate_handler_sources()


def extras(rep, tier, seed, known, r):
  b1, c1 = failing_writes_between_updates(rep, tier, seed, known, r)
  b2, c2 = sibling_studies(rep, tier, seed, known, r)
  b3, c3 = sibling_deletions(rep, tier, seed, known, r)
  b4, c4 = illegal_matrix(rep, tier, seed, known, r)
  b5, c5 = completion_matrix(rep, tier, seed, known, r)
  return (b1 or b2 or b3 or b4 or b5), (c1 or c2 or c3 or c4 or c5)


def illegal_matrix(rep, tier, seed, known, r):
  """Systematic: a trial brought into each state (ACTIVE, STOPPING, SUCCEEDED, INFEASIBLE, REQUESTED, deleted), with and without an
  early-stopping operation stored for it from the time it was ACTIVE, then EVERY trial-level call on it in turn (and a second
  round of them): each must end as the documented table says, whatever was stored for the trial earlier."""
  from harness import svcmon

  def seqgen(rr):
    target = seqgen.targets[seqgen.i % len(seqgen.targets)]
    with_es = (seqgen.i // len(seqgen.targets)) % 2 == 0
    seqgen.i += 1
    seq = [('CreateStudy', 1, 1, False, 'SS_ACTIVE', [(1, True)]),
           ('SuggestTrials', 1, 1, 1, 2, ('deliver', [rr.randrange(100), rr.randrange(100)], [], [])),
           ('CreateTrial', 1, 1, 30, 'REQUESTED', [], [])]
    tid = 3 if target == 'REQUESTED' else 1
    if with_es and target != 'REQUESTED':
      seq.append(('CheckEarlyStop', True, 1, 1, tid, ('decide', [(tid, False)], [], [])))
    if target == 'STOPPING':
      seq.append(('StopTrial', 1, 1, tid))
    elif target == 'SUCCEEDED':
      seq.append(('CompleteTrial', 1, 1, tid, [(1, 2)], False))
    elif target == 'INFEASIBLE':
      seq.append(('CompleteTrial', 1, 1, tid, [], True))
    elif target == 'DELETED':
      seq.append(('DeleteTrial', 1, 1, tid))
    probes = [('CheckEarlyStop', True, 1, 1, tid, ('decide', [(tid, True)], [], [])),
              ('AddTrialMeasurement', 1, 1, tid, [(1, 1)]),
              ('StopTrial', 1, 1, tid),
              ('CheckEarlyStop', rr.random() < 0.5, 1, 1, tid, ('decide', [(tid, False), (2, True)], [], [])),
              ('CompleteTrial', 1, 1, tid, [(1, 3)], False),
              ('GetTrial', 1, 1, tid),
              ('UpdateMetadata', 1, 1, [], [(tid, ('', 'k', 0, 'v'))])]
    rr.shuffle(probes)
    seq += probes
    seq += [('CheckEarlyStop', True, 1, 1, tid, ('decide', [(tid, True)], [], [])), ('ListTrials', 1, 1)]
    return seq
  seqgen.targets = ['SUCCEEDED', 'INFEASIBLE', 'STOPPING', 'ACTIVE', 'REQUESTED', 'DELETED']
  seqgen.i = 0
  return svcrun.service_part(rep, 'C01', r, tier, known, monitors=[svcrun.wrap(svcmon.c01_step)], backends=('ram', 'sqlmem'),
                             nseq_quick=12, nseq_thorough=48, tag='illegal', seqgen=seqgen)


def completion_matrix(rep, tier, seed, known, r):
  """Systematic: every way of completing a trial - 0, 1 or 2 intermediate measurements reported before x a final measurement given
  / not given x feasible / infeasible - then reads and a second completion: response and stored trial as the reference model says
  (an infeasible completion takes no measurement over; a feasible one without any measurement is refused and changes nothing)."""
  from harness import svcmon

  def seqgen(rr):
    i = seqgen.i
    seqgen.i += 1
    nmeas, given, infeasible = i % 3, (i // 3) % 2 == 0, (i // 6) % 2 == 1
    seq = [('CreateStudy', 1, 1, False, 'SS_ACTIVE', [(1, True)]),
           ('SuggestTrials', 1, 1, 1, 3, ('deliver', [rr.randrange(100) for _ in range(3)], [], []))]
    tid = 1 + i % 3     # ids 1, 2, 3: the empty-but-present final measurement of the driver (tid % 3 == 0) takes part too
    for j in range(nmeas):
      seq.append(('AddTrialMeasurement', 1, 1, tid, [(1, j + 1)]))
    seq.append(('CompleteTrial', 1, 1, tid, [(1, 9)] if given else [], infeasible))
    seq += [('GetTrial', 1, 1, tid), ('ListOptimalTrials', 1, 1), ('CompleteTrial', 1, 1, tid, [(1, 5)], False), ('ListTrials', 1, 1)]
    return seq
  seqgen.i = 0
  return svcrun.service_part(rep, 'C01', r, tier, known, monitors=[svcrun.wrap(svcmon.c01_step)], backends=('ram', 'sqlmem'),
                             nseq_quick=12, nseq_thorough=36, tag='compl', seqgen=seqgen)


def sibling_deletions(rep, tier, seed, known, r):
  """Systematic: the three studies of one owner whose names resemble each other (a_b, a_b2, axb: prefix / SQL LIKE pattern), each
  with completed and active trials; each study in turn is deleted (and sometimes re-created): the trials of the others stay."""
  from harness import svcmon

  def seqgen(rr):
    seq = []
    for sid in (1, 2, 3):
      seq.append(('CreateStudy', 1, sid, False, 'SS_ACTIVE', [(1, True)]))
      seq.append(('SuggestTrials', 1, sid, 1, 2, ('deliver', [rr.randrange(100), rr.randrange(100)], [], [])))
      seq.append(('CompleteTrial', 1, sid, 1, [(1, rr.randrange(5))], False))
    order = [1, 2, 3]
    rr.shuffle(order)
    for victim in order[:rr.choice([1, 2])]:
      seq.append(('DeleteStudy', 1, victim))
      for sid in (1, 2, 3):
        seq.append(('ListTrials', 1, sid))
        seq.append(('GetTrial', 1, sid, 1))
      if rr.random() < 0.5:
        seq.append(('CreateStudy', 1, victim, False, 'SS_ACTIVE', [(1, True)]))
        seq.append(('ListTrials', 1, victim))
    return seq
  return svcrun.service_part(rep, 'C01', r, tier, known, monitors=[svcrun.wrap(svcmon.c01_step)], backends=('ram', 'sqlmem'),
                             nseq_quick=4, nseq_thorough=24, tag='sibdel', seqgen=seqgen)


def sibling_studies(rep, tier, seed, known, r):
  """Several studies of ONE owner whose names resemble each other (a_b, a_b2, axb), each with trials, and study deletions in
  between: deleting or re-creating one study must not touch the trials of its siblings."""
  from harness import svcmon
  return svcrun.service_part(rep, 'C01', r, tier, known, monitors=[svcrun.wrap(svcmon.c01_step)], backends=('ram', 'sqlmem'),
                             nseq_quick=12, nseq_thorough=120, length=(10, 22), tag='sib',
                             profile={'owner2': 0.0, 'delete_study': 0.1, 'suggest': 0.3, 'fail': 0.02, 'warmup': 1.0})


def failing_writes_between_updates(rep, tier, seed, known, r):
  """Sequences dense in calls that fail half-way inside the datastore (metadata updates naming a missing trial, repeated study
  creation) between trial updates: a state change that was acknowledged must survive whatever fails afterwards."""
  from harness import svcmon
  return svcrun.service_part(rep, 'C01', r, tier, known, monitors=[svcrun.wrap(svcmon.c01_step)], backends=('ram', 'sqlmem'),
                             nseq_quick=25, nseq_thorough=200, length=(10, 24), tag='fw',
                             profile={'md': 0.3, 'owner2': 0.0, 'delete_study': 0.0, 'suggest': 0.25, 'fail': 0.05})


def replay(path):
  import json
  print(json.dumps(json.load(open(path)), indent=1)[:4000])
  return 1
