"""C01 — trial lifecycle: only legal transitions, completed trials immutable, illegal calls fail unchanged."""
from harness import svcrun


def run(tier, seed):
  from harness import svcmon
  return svcrun.run_service_check(
      'C01', tier, seed,
      rule=('adaptively generated RPC sequences (17 RPC kinds, ~2/3 legal calls, every error kind reached) over 2 owners, 3 studies '
            '(one name a prefix of another), 3 workers, scripted Pythia; run on RAM and in-memory SQLite, every step compared '
            'with the model (response, datastore-call trace) plus final stored state; non-trivial = at least 3 successful calls'),
      monitors=[svcrun.wrap(svcmon.c01_step)], backends=('ram', 'sqlmem'), extra=extras)


def extras(rep, tier, seed, known, r):
  b1, c1 = failing_writes_between_updates(rep, tier, seed, known, r)
  b2, c2 = sibling_studies(rep, tier, seed, known, r)
  return (b1 or b2), (c1 or c2)


def sibling_studies(rep, tier, seed, known, r):
  """Several studies of ONE owner whose names resemble each other (a_b, a_b2, axb), each with trials, and study deletions in
  between: deleting or re-creating one study must not touch the trials of its siblings."""
  from harness import svcmon
  return svcrun.service_part(rep, 'C01', r, tier, known, monitors=[svcrun.wrap(svcmon.c01_step)], backends=('ram', 'sqlmem'),
                             nseq_quick=12, nseq_thorough=120, length=(10, 22), tag='sib',
                             profile={'owner2': 0.0, 'delete_study': 0.1, 'suggest': 0.3, 'fail': 0.02, 'warmup': 1.0})


def failing_writes_between_updates(rep, tier, seed, known, r):
  """Sequences dense in calls that fail half-way inside the datastore (metadata updates naming a missing trial, repeated study
  creation) between trial updates: a state change that was acknowledged must survive whatever fails afterwards."""
  from harness import svcmon
  return svcrun.service_part(rep, 'C01', r, tier, known, monitors=[svcrun.wrap(svcmon.c01_step)], backends=('ram', 'sqlmem'),
                             nseq_quick=25, nseq_thorough=200, length=(10, 24), tag='fw',
                             profile={'md': 0.3, 'owner2': 0.0, 'delete_study': 0.0, 'suggest': 0.25, 'fail': 0.05})


def replay(path):
  import json
  print(json.dumps(json.load(open(path)), indent=1)[:4000])
  return 1
