"""C01 — trial lifecycle: only legal transitions, completed trials immutable, illegal calls fail unchanged."""
from harness import svcrun


def run(tier, seed):
  from harness import svcmon
  return svcrun.run_service_check(
      'C01', tier, seed,
      rule=('adaptively generated RPC sequences (17 RPC kinds, ~2/3 legal calls, every error kind reached) over 2 owners, 3 studies '
            '(one name a prefix of another), 3 workers, scripted Pythia; run on RAM and in-memory SQLite, every step compared '
            'with the model (response, datastore-call trace) plus final stored state; non-trivial = at least 3 successful calls'),
      monitors=[svcrun.wrap(svcmon.c01_step)], backends=('ram', 'sqlmem'))


def replay(path):
  import json
  print(json.dumps(json.load(open(path)), indent=1)[:4000])
  return 1
