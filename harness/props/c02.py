"""C02 — suggest hands out exactly the requested trials, sticky per worker, fresh ids."""
from harness import svcrun


def run(tier, seed):
  from harness import svcmon
  return svcrun.run_service_check(
      'C02', tier, seed,
      rule=('RPC sequences dominated by SuggestTrials from 3 workers with counts 1..3 and a scripted algorithm delivering exactly, '
            'more (surplus queued) or fewer suggestions, mixed with CreateTrial (queued REQUESTED), completions, deletions; RAM and '
            'in-memory SQLite; model compared per step (response, datastore-call trace) and on the final stored state; '
            'non-trivial = at least 3 successful calls'),
      monitors=[svcrun.wrap(svcmon.c02_step), svcrun.wrap(svcmon.owner_step)], backends=('ram', 'sqlmem'), profile={'suggest': 0.5, 'fail': 0.05},
      extra=long_studies)


def long_studies(rep, tier, seed, known, r):
  """A few long sequences on few studies, so that trial ids pass 10, 20, ... (id allocation must not depend on how ids sort)."""
  from harness import svcmon
  return svcrun.service_part(rep, 'C02', r, tier, known, monitors=[svcrun.wrap(svcmon.c02_step), svcrun.wrap(svcmon.owner_step)], backends=('ram', 'sqlmem'),
                             nseq_quick=3, nseq_thorough=25, length=(45, 60), tag='long',
                             profile={'suggest': 0.75, 'fail': 0.02, 'delete_study': 0.0, 'owner2': 0.0})


def replay(path):
  import json
  print(json.dumps(json.load(open(path)), indent=1)[:4000])
  return 1
