"""C02 — suggest hands out exactly the requested trials, sticky per worker, fresh ids."""
from harness import svcrun


def run(tier, seed):
  from harness import svcmon
  return svcrun.run_service_check(
      'C02', tier, seed,
      rule=('RPC sequences dominated by SuggestTrials from 3 workers with counts 1..3 and a scripted algorithm delivering exactly, '
            'more (surplus queued) or fewer suggestions, mixed with CreateTrial (queued REQUESTED), completions, deletions; RAM and '
            'in-memory SQLite; model compared per step (response, datastore-call trace) and on the final stored state; '
            'non-trivial = at least 3 successful calls'),
      pre=svcrun.regenerate_handler_sources,
      monitors=[svcrun.wrap(svcmon.c02_step), svcrun.wrap(svcmon.owner_step)], backends=('ram', 'sqlmem'), profile={'suggest': 0.5, 'fail': 0.05},
      extra=lambda rep, tier, seed, known, r: _both(long_studies(rep, tier, seed, known, r), many_trials(rep, tier, seed, known, r)))


def _both(a, b):
  return (((a[0] or '') + ' ' + (b[0] or '')).strip() or None), (a[1] or b[1])


def long_studies(rep, tier, seed, known, r):
  """A few long sequences on few studies, so that trial ids pass 10, 20, ... (id allocation must not depend on how ids sort)."""
  from harness import svcmon
  return svcrun.service_part(rep, 'C02', r, tier, known, monitors=[svcrun.wrap(svcmon.c02_step), svcrun.wrap(svcmon.owner_step)], backends=('ram', 'sqlmem'),
                             nseq_quick=3, nseq_thorough=25, length=(45, 60), tag='long',
                             profile={'suggest': 0.75, 'fail': 0.02, 'delete_study': 0.0, 'owner2': 0.0})


def many_trials(rep, tier, seed, known, r):
  """Systematic: ONE study filled by suggestion rounds until its trial ids pass 10 (and 100 in the thorough tier), with
  queued trials, completions and deletions of old trials in between; afterwards every worker still gets fresh, larger ids."""
  from harness import svcmon

  def seqgen(rr):
    target = rr.choice([12, 14]) if tier == 'quick' else rr.choice([13, 24, 104])
    seq = [('CreateStudy', 1, 1, False, 'SS_ACTIVE', [(1, True)])]
    nxt = 1
    while nxt <= target:
      c, count = rr.choice([1, 2, 3]), rr.choice([2, 3])
      extra = rr.choice([0, 0, 1])
      seq.append(('SuggestTrials', 1, 1, c, count, ('deliver', [rr.randrange(100) for _ in range(count + extra)], [], [])))
      ids = list(range(nxt, nxt + count))
      nxt += count + extra
      for t in ids:
        seq.append(('CompleteTrial', 1, 1, t, [(1, rr.randrange(5))], rr.random() < 0.2))
      if rr.random() < 0.3:
        seq.append(('CreateTrial', 1, 1, rr.randrange(100), 'REQUESTED', [], []))
        nxt += 1
      if rr.random() < 0.25 and ids:
        seq.append(('DeleteTrial', 1, 1, ids[0]))
    for c in (1, 2, 3):
      seq.append(('SuggestTrials', 1, 1, c, 2, ('deliver', [rr.randrange(100), rr.randrange(100)], [], [])))
    seq.append(('ListTrials', 1, 1))
    return seq
  return svcrun.service_part(rep, 'C02', r, tier, known, monitors=[svcrun.wrap(svcmon.c02_step), svcrun.wrap(svcmon.owner_step)],
                             backends=('ram', 'sqlmem'), nseq_quick=2, nseq_thorough=6, tag='many', seqgen=seqgen)


def replay(path):
  import json
  print(json.dumps(json.load(open(path)), indent=1)[:4000])
  return 1
