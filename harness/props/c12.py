"""C12 — algorithms get each completed trial exactly once, and all active trials."""
import json

from harness import common as C
from harness.common import gnat, gbool, glist, gpair

HDR = 'From VZ Require Import Base.Prelude Model.TrialCache.\n'


def g_ti(t):
  return '(mkTI %s %s %s)' % (gnat(t[0]), gbool(t[1] == 'C'), gbool(t[1] == 'A'))


def g_rq(rq):
  lost, mx, trials = rq
  return gpair(gbool(lost), gpair(gnat(mx), glist(trials, g_ti)))


def g_upd(u):
  return gpair(glist(u[0], gnat), glist(u[1], gnat))


def gen_history(r, guard_ok):
  """A world evolving between requests. Returns list of (lost, max_id, [(id, status)]) with status in C/A/R."""
  trials = {}
  next_id = 1
  out = []
  for _ in range(r.randrange(1, 7)):
    for _ in range(r.randrange(0, 4)):
      u = r.random()
      act = [i for i, s in trials.items() if s in 'AR']
      if u < 0.45 or not trials:
        trials[next_id] = r.choice('AAAC' + 'R')
        next_id += 1
      elif u < 0.8 and act:
        i = r.choice(act)
        trials[i] = 'C' if trials[i] == 'A' else 'A'
      elif u < 0.92:
        i = r.choice(list(trials))
        if guard_ok and i == max(trials):
          continue
        del trials[i]
        if not guard_ok:
          next_id = max(list(trials) + [0]) + 1   # the service allocates max+1: ids get reused
    mx = max(list(trials) + [0])
    out.append((r.random() < 0.07, mx, sorted(trials.items())))
  return out


def monotone(hist):
  m = 0
  for _, mx, _ in hist:
    if mx < m:
      return False
    m = mx
  return True


def run(tier, seed):
  from harness import boot
  boot.boot()
  from vizier import pyvizier as vz
  from vizier import pythia
  from vizier import algorithms as vza
  from vizier._src.algorithms.policies import trial_caches, designer_policy
  from vizier._src.pythia import local_policy_supporters

  rep = C.Report('C12', tier, seed)
  rep.rule = ('the loader (guard, set expressions, status filter, dump / load / clear) is regenerated from trial_caches.py and proved equal to the model at every run; (A) generated worlds (trials created/activated/completed/deleted between requests, state lost with p=0.07, a dump->load '
              'restart before every request) served by the real IdDeduplicatingTrialLoader through a TrialFilter-based supporter; '
              '(B) real PartiallySerializableDesignerPolicy / InRamDesignerPolicy / DesignerPolicy with a recording designer over '
              'InRamPolicySupporter histories; (C) the same policies hosted in the real service (policy rebuilt per request, state in '
              'study metadata) incl. DeleteTrial; deliveries compared with the model; non-trivial = some trial completes between requests')
  rep.trusted = ['Coq 8.16.1 kernel + vm_compute', 'harness/translate/trialcache.py (Python-ast translator of IdDeduplicatingTrialLoader, fail-closed; assumes GetTrials filters by id set and status)', 'harness/props/c12.py recording designer and world generator', 'proto shim / equinox stand-in']
  tbroke = None
  try:
    from harness.translate import trialcache
    C.write_gen('Gen/TrialCacheSrc.v', trialcache.translate(C.REPO))
  except Exception as e:  # pylint: disable=broad-except
    tbroke = 'translator harness/translate/trialcache.py refused trial_caches.py: %r' % (e,)
  try:
    from harness.translate import policysteps
    C.write_gen('Gen/PolicySrc.v', policysteps.translate(C.REPO))
  except Exception as e:  # pylint: disable=broad-except
    tbroke = ((tbroke or '') + ' translator harness/translate/policysteps.py refused designer_policy.py: %r' % (e,)).strip()
  C.standard_proof_step(rep, 'C12')
  broke = ((tbroke or '') + ' ' + (rep.proof_broken or '')).strip() or None
  concrete = False
  known = {f['id']: f for f in C.load_known() if f['property'] == 'C12'}
  r = C.rng(seed, 'c12')
  N = 400 if tier == 'quick' else 5000

  def viol(what, obj, guard_broken):
    nonlocal concrete
    if guard_broken and 'C12-max-trial-id-decreases' in known:
      rep.known('C12-max-trial-id-decreases', known['C12-max-trial-id-decreases']['what'])
    else:
      concrete = True
      rep.violation(what, obj)

  def mk_trial(i, st):
    t = vz.Trial(id=i, parameters={'x': 0.5})
    if st == 'C':
      t.complete(vz.Measurement({'m': 1.0}))
    elif st == 'R':
      t.is_requested = True
    return t

  class FakeSupporter(pythia.PolicySupporter):
    def __init__(self):
      self.trials = []
    def GetStudyConfig(self, study_guid=None):
      raise NotImplementedError
    @property
    def study_guid(self):
      return 'fake'
    def GetTrials(self, *, study_guid=None, trial_ids=None, min_trial_id=None, max_trial_id=None, status_matches=None,
                  include_intermediate_measurements=True):
      f = vz.TrialFilter(ids=trial_ids, min_id=min_trial_id, max_id=max_trial_id, status=[status_matches] if status_matches else None)
      return [t for t in self.trials if f(t)]
    def CheckCancelled(self, note=None):
      pass
    def TimeRemaining(self):
      import datetime
      return datetime.timedelta(seconds=100)

  # ---- (A) loader level
  cases, objs = [], []
  for n in range(N):
    guard_ok = r.random() < 0.7
    hist = gen_history(r, guard_ok)
    sup = FakeSupporter()
    loader = trial_caches.IdDeduplicatingTrialLoader(sup, include_intermediate_measurements=False)
    got = []
    for lost, mx, trials in hist:
      sup.trials = [mk_trial(i, s) for i, s in trials]
      md = loader.dump()
      loader = trial_caches.IdDeduplicatingTrialLoader(sup, include_intermediate_measurements=False)
      if lost:
        loader.clear()
      else:
        loader.load(md)
      d = [t.id for t in loader.get_newly_completed_trials(mx)]
      a = [t.id for t in loader.get_active_trials()]
      got.append((d, a))
    cases.append('(%s, %s)' % (glist(hist, g_rq), glist(got, g_upd)))
    objs.append((hist, got))
    changed = any(s == 'C' for _, _, tr in hist[1:] for _, s in tr)
    rep.case({'history': hist, 'updates': got}, changed)
    rep.count('hist_guard_ok' if monotone(hist) else 'hist_max_decreases')
    # monitor (property text): within one policy life (no state loss) exactly once; actives exact
    seen = {}
    for k, ((lost, mx, trials), (d, a)) in enumerate(zip(hist, got)):
      if lost:
        seen = {}
      if sorted(a) != sorted(i for i, s in trials if s == 'A'):
        viol('update does not contain exactly the ACTIVE trials', {'history': hist, 'request': k, 'got_active': a}, False)
      for i in d:
        if i in seen:
          viol('completed trial delivered twice', {'history': hist, 'request': k, 'trial': i}, not monotone(hist[:k + 1]))
        seen[i] = k
      for i, s in trials:
        if s == 'C' and i not in seen:
          viol('completed trial not delivered', {'history': hist, 'request': k, 'trial': i}, not monotone(hist[:k + 1]))
      for i in d:
        if (i, 'C') not in trials:
          viol('delivered trial is not completed', {'history': hist, 'request': k, 'trial': i}, False)
  bad = C.run_cases('C12', 'ld', HDR + 'Definition ck (c : list (bool * request) * list (list nat * list nat)) := list_eqb upd_eqb (serve_all [] (fst c)) (snd c).\n', cases, 'ck')
  rep.disagreements += len(bad)
  for i in bad[:3]:
    broke = (broke or '') + ' correspondence IdDeduplicatingTrialLoader vs model on %r;' % (objs[i],)

  # ---- (B) policy wrappers over InRamPolicySupporter
  class Recorder(vza.PartiallySerializableDesigner):
    log = None
    def __init__(self, problem, log):
      self._log = log
    def update(self, completed, all_active):
      self._log.append(([t.id for t in completed.trials], [t.id for t in all_active.trials]))
    def suggest(self, count=None):
      return [vz.TrialSuggestion({'x': 0.25}) for _ in range(count or 1)]
    def dump(self):
      md = vz.Metadata()
      md['s'] = 'x'
      return md
    def load(self, md):
      if md.get('s', default=None) != 'x':
        from vizier.interfaces import serializable
        raise serializable.HarmlessDecodeError('no usable state')

  pcases, pobjs = [], []
  for n in range(N // 4):
    problem = vz.ProblemStatement()
    problem.search_space.root.add_float_param('x', 0.0, 1.0)
    problem.metric_information.append(vz.MetricInformation(name='m', goal=vz.ObjectiveMetricGoal.MAXIMIZE))
    kind = r.choice(['partial', 'inram', 'fresh'])
    sup = local_policy_supporters.InRamPolicySupporter(problem)
    log = []
    fac = lambda p, **kw: Recorder(p, log)
    mk = {'partial': lambda: designer_policy.PartiallySerializableDesignerPolicy(problem, sup, fac),
          'inram': lambda: designer_policy.InRamDesignerPolicy(problem, sup, fac),
          'fresh': lambda: designer_policy.DesignerPolicy(sup, lambda p, **kw: Recorder(p, log), use_seeding=False)}[kind]
    pol = mk()
    hist = []
    for _ in range(r.randrange(1, 6)):
      for t in sup.trials:
        if t.status == vz.TrialStatus.ACTIVE and r.random() < 0.5:
          t.complete(vz.Measurement({'m': float(r.randrange(5))}), infeasibility_reason=('bad' if r.random() < 0.2 else None))
      if r.random() < 0.3:
        extra = vz.Trial(parameters={'x': 0.75})
        extra.complete(vz.Measurement({'m': 2.0}))
        sup.AddTrials([extra])
      rebuilt = kind == 'partial' and r.random() < 0.4
      lost = False
      if rebuilt:
        if hist and r.random() < 0.35:
          # the designer's stored state becomes unusable (e.g. written by another version) while the policy's own
          # id cache is intact: the policy must start a new designer AND give it every completed trial again
          delta = vz.MetadataDelta()
          delta.on_study.ns('designer_policy_v0').ns('designer')['s'] = 'written by another version'
          sup._UpdateMetadata(delta)
          lost = True
        pol = mk()   # state comes back from study metadata written by the previous suggest
      world = [(t.id, 'C' if t.status == vz.TrialStatus.COMPLETED else 'A' if t.status == vz.TrialStatus.ACTIVE else 'R') for t in sup.trials]
      mx = max([t.id for t in sup.trials] + [0])
      problem_now = sup.GetStudyConfig()
      sup.SuggestTrials(pol, count=r.choice([1, 2]))
      hist.append((lost, mx, world))
    got = list(log)
    pobjs.append((kind, hist, got))
    if kind == 'fresh':
      pcases.append('(true, %s, %s)' % (glist(hist, g_rq), glist(got, g_upd)))
    else:
      pcases.append('(false, %s, %s)' % (glist(hist, g_rq), glist(got, g_upd)))
    rep.case({'policy': kind, 'history': hist, 'updates': got}, len(hist) > 1)
    rep.count('policy_' + kind)
    delivered = {}
    for k, ((lost_k, mx, world), (d, a)) in enumerate(zip(hist, got)):
      if lost_k:
        delivered = {}      # a new designer instance: it has seen nothing
      if sorted(a) != sorted(i for i, s in world if s == 'A'):
        viol('policy update does not contain exactly the ACTIVE trials', {'policy': kind, 'history': hist, 'request': k}, False)
      comp = sorted(i for i, s in world if s == 'C')
      if kind == 'fresh':
        if sorted(d) != comp:
          viol('rebuilt-from-scratch policy did not get the complete set of completed trials', {'history': hist, 'request': k}, False)
      else:
        for i in d:
          if i in delivered:
            viol('policy delivered a completed trial twice', {'policy': kind, 'history': hist, 'request': k, 'trial': i}, False)
          delivered[i] = k
        if any(i not in delivered for i in comp):
          viol('policy did not deliver a completed trial', {'policy': kind, 'history': hist, 'request': k}, False)
  bad = C.run_cases('C12', 'pol', HDR + ('Definition ck (c : bool * list (bool * request) * list (list nat * list nat)) := '
                                         'let \'(fresh, h, got) := c in list_eqb upd_eqb (if fresh then map (fun lr => serve_fresh (snd lr)) h '
                                         'else serve_all [] h) got.\n'), pcases, 'ck')
  rep.disagreements += len(bad)
  for i in bad[:3]:
    broke = (broke or '') + ' correspondence designer policy vs model on %r;' % (pobjs[i],)

  # ---- (C) hosted in the real service
  b2, c2 = service_level(rep, tier, r, known, Recorder, viol)
  broke = ((broke or '') + ' ' + (b2 or '')).strip() or None

  C.settle_broken(rep, broke, concrete)
  return rep.finish()


def service_level(rep, tier, r, known, Recorder, viol):
  from harness import svc
  from vizier import pythia, pyvizier as vz
  from vizier._src.algorithms.policies import designer_policy
  from vizier._src.service import pythia_service
  log = []
  worlds = []

  class F(pythia.PolicyFactory):
    def __call__(self, problem, algorithm, supporter, study_name):
      fac = lambda p, **kw: Recorder(p, log)
      return designer_policy.PartiallySerializableDesignerPolicy(problem, supporter, fac)

  cases, objs = [], []
  n = 25 if tier == 'quick' else 300
  for _ in range(n):
    serv, holder, proxy = svc.make_servicer(r.choice(['ram', 'sqlmem']))
    serv.default_pythia_service = pythia_service.PythiaServicer(serv, F())
    del log[:]
    hist = []
    calls = []
    _apply = svc.apply_rpc
    def apply(serv_, holder_, rpc_):
      calls.append(rpc_)
      return _apply(serv_, holder_, rpc_)
    apply(serv, holder, ('CreateStudy', 1, 1, False, 'SS_ACTIVE', [(1, True)]))
    deleted_newest = False
    directed = len(objs) < (8 if tier == 'quick' else 40)
    if directed:
      # a queue of REQUESTED trials (added by a user) that does not cover the next request: the same operation assigns them to the
      # worker AND calls the algorithm, which must be shown them as ACTIVE
      for _ in range(r.choice([1, 2])):
        apply(serv, holder, ('CreateTrial', 1, 1, 50, 'REQUESTED', [], []))
      rep.count('hosted_pool_smaller_than_request')
    for step_i in range(r.randrange(2, 9)):
      snap = svc.snapshot(serv)[0][0][1]
      trials = snap['trials']
      ids = [t['id'] for t in trials]
      u = r.random()
      if directed and step_i == 0:
        u = 0.0
      if u < 0.45 or not ids:
        c = r.choice([1, 2])
        own = [t for t in trials if t['state'] == 'ACTIVE' and t['client'] == c]
        pool = [t for t in trials if t['state'] == 'REQUESTED']
        count = r.choice([1, 2, 3])
        if directed and step_i == 0:
          count = len(pool) + len(own) + 1
        before = len(log)
        world = [(t['id'], 'C' if t['state'] in ('SUCCEEDED', 'INFEASIBLE') else 'A' if t['state'] == 'ACTIVE' or (t['state'] == 'REQUESTED' and False) else 'R') for t in trials]
        # REQUESTED pool trials are assigned (ACTIVE) before Pythia is called
        assign = [t['id'] for t in reversed(pool)][:max(0, count - len(own))]
        world = [(i, 'A' if i in assign else s) for i, s in world]
        out = apply(serv, holder, ('SuggestTrials', 1, 1, c, count, ('deliver', [], [], [])))
        if len(log) > before:
          hist.append((False, max(ids + [0]), world))
      elif u < 0.75:
        act = [t['id'] for t in trials if t['state'] in ('ACTIVE', 'STOPPING')]
        if act:
          inf = r.random() < 0.3
          apply(serv, holder, ('CompleteTrial', 1, 1, r.choice(act), [] if inf and r.random() < 0.6 else [(1, r.randrange(4))], inf))
      elif u < 0.85:
        st_ = r.choice(['REQUESTED', 'SUCCEEDED'])
        apply(serv, holder, ('CreateTrial', 1, 1, 50, st_, [], [(1, 1)] if st_ == 'SUCCEEDED' else []))
      else:
        i = r.choice(ids)
        if i == max(ids):
          deleted_newest = True
        apply(serv, holder, ('DeleteTrial', 1, 1, i))
    got = list(log)
    objs.append((hist, got))
    cases.append('(%s, %s)' % (glist(hist, g_rq), glist(got, g_upd)))
    rep.case({'hosted_history': hist, 'updates': got}, len(hist) > 1)
    rep.count('hosted_deleted_newest' if deleted_newest else 'hosted_plain')
    delivered = {}
    for k, ((lost_k, mx, world), (d, a)) in enumerate(zip(hist, got)):
      if lost_k:
        delivered = {}      # a new designer instance: it has seen nothing
      if sorted(a) != sorted(i for i, s in world if s == 'A'):
        viol('hosted policy update does not contain exactly the ACTIVE trials', {'history': hist, 'request': k, 'got': a, 'calls': calls}, False)
      for i in d:
        if i in delivered:
          viol('hosted policy delivered a completed trial twice', {'history': hist, 'request': k, 'trial': i}, deleted_newest or not monotone(hist[:k + 1]))
        delivered[i] = k
      if any(s == 'C' and i not in delivered for i, s in world):
        viol('hosted policy did not deliver a completed trial', {'history': hist, 'request': k, 'delivered': sorted(delivered)}, deleted_newest or not monotone(hist[:k + 1]))
  # ---- large studies: more trials than any page / batch size a handler could apply (the supporter reads them with
  # one ListTrials call); both policy kinds, both datastores in the thorough tier
  class FF(pythia.PolicyFactory):
    def __call__(self, problem, algorithm, supporter, study_name):
      return designer_policy.DesignerPolicy(supporter, lambda p, **kw: Recorder(p, log), use_seeding=False)
  for kind, fac_ in (('partial', F()), ('fresh', FF())):
    for be_ in (['ram'] if tier == 'quick' else ['ram', 'sqlmem']):
      big = (1003 + r.randrange(40)) if tier == 'quick' else r.choice([1003, 2051, 5007]) + r.randrange(40)
      serv, holder, proxy = svc.make_servicer(be_)
      serv.default_pythia_service = pythia_service.PythiaServicer(serv, fac_)
      del log[:]
      svc.apply_rpc(serv, holder, ('CreateStudy', 1, 1, False, 'SS_ACTIVE', [(1, True)]))
      for _ in range(big):
        svc.apply_rpc(serv, holder, ('CreateTrial', 1, 1, 50, 'SUCCEEDED', [], [(1, 1)]))
      svc.apply_rpc(serv, holder, ('SuggestTrials', 1, 1, 1, 2, ('deliver', [], [], [])))
      svc.apply_rpc(serv, holder, ('CompleteTrial', 1, 1, big + 1, [(1, 2)], False))
      svc.apply_rpc(serv, holder, ('SuggestTrials', 1, 1, 2, 1, ('deliver', [], [], [])))
      got = list(log)
      rep.case({'hosted_large_study': big, 'policy': kind, 'backend': be_, 'updates': [(len(d), a) for d, a in got]}, True)
      rep.count('hosted_large_' + kind)
      want = [(list(range(1, big + 1)), []),
              ((list(range(1, big + 2)) if kind == 'fresh' else [big + 1]), [big + 2])]
      if [(sorted(d), sorted(a)) for d, a in got] != want:
        miss = [sorted(set(w[0]) - set(g[0]))[:5] for w, g in zip(want, got)]
        viol('hosted %s policy on a study of %d trials (%s): updates are not [all completed; then the new completed trial + '
             'the ACTIVE one]' % (kind, big, be_),
             {'trials': big, 'policy': kind, 'backend': be_, 'updates_got_sizes': [(len(d), a) for d, a in got],
              'first_missing_completed': miss}, False)
  bad = C.run_cases('C12', 'svc', HDR + 'Definition ck (c : list (bool * request) * list (list nat * list nat)) := list_eqb upd_eqb (serve_all [] (fst c)) (snd c).\n', cases, 'ck')
  rep.disagreements += len(bad)
  msg = None
  for i in bad[:2]:
    msg = (msg or '') + ' correspondence hosted policy vs model on %r;' % (objs[i],)
  return msg, False


def replay(path):
  print(json.dumps(json.load(open(path)), indent=1)[:4000])
  return 1
