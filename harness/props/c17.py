"""C17 — clients receive parameter values in the declared external types."""
import json
from fractions import Fraction

from harness import common as C
from harness.common import gN, gZ, gbool, glist, gpair, gstr

HDR = 'From VZ Require Import Base.Prelude Model.External.\n'


def gQf(x):
  fr = Fraction(x)
  return '(%d # %d)%%Q' % (fr.numerator, fr.denominator)


def g_pyv(v):
  if v is None:
    return 'YNone'
  if isinstance(v, bool):
    return '(YBool %s)' % gbool(v)
  if isinstance(v, int):
    return '(YInt %s)' % gZ(v)
  if isinstance(v, float):
    return '(YFloat %s)' % gQf(v)
  return '(YStr %s)' % gstr(v)


EXT = {'INTERNAL': 'ExInternal', 'BOOLEAN': 'ExBoolean', 'INTEGER': 'ExInteger', 'FLOAT': 'ExFloat'}


def g_tree(pc):
  return '(XNode %s %s %s %s)' % (gstr(pc.name), EXT[pc.external_type.name], glist(list(pc.matching_parent_values), g_pyv),
                                  glist(pc.child_parameter_configs, g_tree))


def g_presented(v):
  if isinstance(v, list):
    return '(PList %s)' % glist(v, g_pyv)
  return '(PScalar %s)' % g_pyv(v)


def same_typed(a, b):
  if isinstance(a, list) or isinstance(b, list):
    return isinstance(a, list) and isinstance(b, list) and len(a) == len(b) and all(same_typed(x, y) for x, y in zip(a, b))
  return type(a) is type(b) and a == b


def run(tier, seed):
  from harness import boot
  boot.boot()
  from vizier import pyvizier as vz
  from vizier.service import pyvizier as svz
  from vizier._src.service import study_pb2

  rep = C.Report('C17', tier, seed)
  rep.rule = ('generated search spaces (bool parameters, auto-cast and float discrete parameters, int / float / categorical parameters, '
              'indexed names name[i] with up to 13 indices, conditional children with single and multiple parent values, depth <= 3) and '
              'trials inside them as they arrive from the wire (doubles / strings), plus trials carrying unknown or inactive parameters; '
              'StudyConfig.trial_parameters compared with the model and with an oracle written from the property text; '
              'non-trivial = conditional space, indexed parameter or invalid trial')
  rep.trusted = ['harness/translate/autocast.py (Python-ast translator of the auto-cast rule of add_discrete_param, fail-closed)', 'Coq 8.16.1 kernel + vm_compute', 'harness/translate/extbfs.py (Python-ast translator of the loop of _trial_to_external_values, fail-closed)', 'exact rationals instead of IEEE doubles', 'harness/props/c17.py oracle', 'proto shim']
  tbroke = None
  try:
    from harness.translate import extbfs
    C.write_gen('Gen/ExternalSrc.v', extbfs.translate(C.REPO))
  except Exception as e:  # pylint: disable=broad-except
    tbroke = 'translator harness/translate/extbfs.py refused study_config.py: %r' % (e,)
  try:
    from harness.translate import autocast
    C.write_gen('Gen/AutoCastSrc.v', autocast.translate(C.REPO))
  except Exception as e:  # pylint: disable=broad-except
    tbroke = ((tbroke or '') + ' translator harness/translate/autocast.py refused parameter_config.py: %r' % (e,)).strip()
  C.standard_proof_step(rep, 'C17')
  broke = ((tbroke or '') + ' ' + (rep.proof_broken or '')).strip() or None
  concrete = False
  known = {f['id']: f for f in C.load_known() if f['property'] == 'C17'}
  r = C.rng(seed, 'c17')
  N = 300 if tier == 'quick' else 5000

  def viol(what, obj, fid=None):
    nonlocal concrete
    if fid and fid in known:
      rep.known(fid, known[fid]['what'])
    else:
      concrete = True
      rep.violation(what, obj)

  cases, objs = [], []
  for it in range(N):
    sc = svz.StudyConfig()
    root = sc.search_space.root
    declared = {}       # name -> (kind, domain)
    counter = [0]
    collide = r.random() < 0.04

    def add(sel, depth):
      for _ in range(r.randrange(1, 4)):
        counter[0] += 1
        nm = 'p%d' % counter[0]
        k = r.choice(['bool', 'disc_int', 'disc_float', 'int', 'float', 'cat', 'multi'])
        if k == 'bool':
          sel.add_bool_param(nm)
          declared[nm] = ('bool', ['True', 'False'])
        elif k == 'disc_int':
          vals = r.sample([-3, -1, 0, 1, 2, 3, 5, 8], r.randrange(1, 4))
          sel.add_discrete_param(nm, vals)
          declared[nm] = ('int', [float(v) for v in vals])
        elif k == 'disc_float':
          vals = r.sample([0.5, 1.0, 2.5], r.randrange(1, 4))
          if r.random() < 0.4:
            # values that are almost, but not, integers (tiny step sizes, results of floating-point arithmetic): still floats
            vals = r.sample([1e-8, 1e-7, 2.9999999999999996, 3.0000001, 1.0000000001, 5.0, 0.1 * 30 + 4e-16], r.randrange(1, 4))
            vals = sorted(set(vals))
            rep.count('discrete_almost_integral_values')
          if all(float(v).is_integer() for v in vals):
            vals = vals + [0.25]
          sel.add_discrete_param(nm, vals)
          declared[nm] = ('float', [float(v) for v in vals])
        elif k == 'int':
          sel.add_int_param(nm, 1, 4)
          declared[nm] = ('internal', [1.0, 2.0, 3.0, 4.0])
        elif k == 'float':
          sel.add_float_param(nm, 0.0, 1.0)
          declared[nm] = ('float', [0.0, 0.25, 1.0])
          continue
        elif k == 'cat':
          sel.add_categorical_param(nm, ['u', 'v', 'w'])
          declared[nm] = ('str', ['u', 'v', 'w'])
        else:
          n_idx = r.choice([1, 2, 3, 11, 13])
          for i in range(n_idx):
            sel.add_float_param(nm, 0.0, 1.0, index=i)
            declared['%s[%d]' % (nm, i)] = ('float', [0.0, 0.25, 0.5, 0.75, 1.0])
          if collide and depth == 1:
            sel.add_float_param(nm, 0.0, 1.0)
            declared[nm] = ('float', [0.0, 1.0])
          continue
        if depth < 3 and r.random() < 0.45:
          kind, dom = declared[nm]
          pv = dom if kind != 'bool' else ['True', 'False']
          chosen = r.sample(pv, r.randrange(1, min(2, len(pv)) + 1))
          if kind in ('int', 'internal'):
            chosen = [int(v) for v in chosen]
          add(sel.select(nm, chosen), depth + 1)
    if it % 6 == 4:
      # the same parameter name in several subtrees (one optimiser per model, a learning rate only under some of them)
      rep.count('space_same_name_in_subtrees')
      root.add_categorical_param('model', ['dnn', 'linear', 'tree'])
      declared['model'] = ('str', ['dnn', 'linear', 'tree'])
      declared['opt'] = ('str', ['adam', 'sgd'])
      declared['lr'] = ('float', [0.0, 0.25, 1.0])
      declared['depth'] = ('internal', [1.0, 2.0, 3.0, 4.0])
      with_lr = r.sample(['dnn', 'linear', 'tree'], r.randrange(1, 3))
      for mv in ['dnn', 'linear', 'tree']:
        if mv == 'tree' and r.random() < 0.5:
          root.select('model', [mv]).add_int_param('depth', 1, 4)
          continue
        sub = root.select('model', [mv])
        sub.add_categorical_param('opt', ['adam', 'sgd'])
        if mv in with_lr:
          sub.select('opt', [r.choice(['adam', 'sgd'])]).add_float_param('lr', 0.0, 1.0)
    else:
      add(root, 1)
    space = sc.search_space
    # choose a trial: walk the space, pick values for active parameters
    params = {}

    def walk(pcs):
      for pc in pcs:
        kind, dom = declared[pc.name]
        v = r.choice(dom)
        params[pc.name] = v
        kids = [c for c in pc.child_parameter_configs if any((v == m) or (isinstance(v, float) and not isinstance(m, str) and float(m) == v) for m in c.matching_parent_values)]
        walk(kids)
    walk(space.parameters)
    mode = r.choice(['ok', 'ok', 'ok', 'unknown', 'inactive', 'missing'])
    if it % 6 == 4 and r.random() < 0.6:
      mode = 'inactive'
    inactive_name = None
    if mode == 'unknown':
      params['zzz'] = 1.0
    elif mode == 'inactive':
      allnames = [pc.name for top in space.parameters for pc in top.traverse()]
      cand = [n for n in allnames if n not in params]
      if cand:
        inactive_name = r.choice(cand)
        params[inactive_name] = r.choice(declared[inactive_name][1])
      else:
        mode = 'ok'
    elif mode == 'missing' and len(params) > 1:
      params.pop(r.choice(list(params)))
    else:
      mode = 'ok'
    proto = study_pb2.Trial(id='1')
    # a client that is not the Python client may store a boolean as the protobuf bool_value (for parameters without children here;
    # an unknown parameter may carry one too and must still be reported)
    parents_ = set()

    def find_parents_(pcs_):
      for pc_ in pcs_:
        if pc_.child_parameter_configs:
          parents_.add(pc_.name)
          find_parents_(pc_.child_parameter_configs)
    find_parents_(space.parameters)
    as_bool_value = r.random() < 0.4
    for k_, v in params.items():
      p = proto.parameters.add(parameter_id=k_)
      if as_bool_value and ((k_ in declared and declared[k_][0] == 'bool' and k_ not in parents_) or k_ == 'zzz'):
        p.value.bool_value = (v == 'True') if isinstance(v, str) else bool(v)
        rep.count('parameter_stored_as_bool_value')
      elif isinstance(v, str):
        p.value.string_value = v
      else:
        p.value.number_value = float(v)
    # half of the studies are read as a client reads them: through the wire form of the study configuration (conditions
    # with several parent values are rebuilt there from one declaration)
    sc_used = sc
    if it % 2 == 1:
      try:
        sc_used = svz.StudyConfig.from_proto(sc.to_proto())
        rep.count('config_through_proto')
      except Exception as e:  # pylint: disable=broad-except
        viol('StudyConfig.from_proto(to_proto()) raised %s on a valid search space' % type(e).__name__, {'space': repr(space)[:500], 'error': str(e)[:200]})
        continue
    try:
      got = sc_used.trial_parameters(proto)
      res = ('ok', got)
    except ValueError:
      res = ('err', None)
    except Exception as e:  # pylint: disable=broad-except
      viol('trial_parameters raised %s' % type(e).__name__, {'space': repr(space)[:400], 'parameters': repr(params)})
      continue
    nontriv = space.is_conditional or any('[' in k_ for k_ in params) or mode != 'ok'
    rep.case({'parameters': repr(params), 'mode': mode, 'presented': repr(res[1])[:300]}, nontriv)
    rep.count('trial_' + mode + ('_conditional' if space.is_conditional else ''))
    # ---- oracle from the property text
    has_collision = collide and any(k_ in declared and ('%s[0]' % k_) in declared for k_ in list(declared))
    # which of the trial's parameters are active in the space under the trial's own values?
    active = set()

    def walk_active(pcs):
      for pc in pcs:
        if pc.name not in params:
          continue
        active.add(pc.name)
        v = params[pc.name]
        kids = [c for c in pc.child_parameter_configs if any((v == m) or (not isinstance(v, str) and not isinstance(m, str) and float(m) == float(v)) for m in c.matching_parent_values)]
        walk_active(kids)
    walk_active(space.parameters)
    invalid = any(k_ not in active for k_ in params)
    if invalid:
      if res[0] != 'err':
        viol('a trial with an unknown or inactive parameter was presented instead of reported as an error', {'parameters': repr(params), 'presented': repr(res[1])})
    elif res[0] == 'err':
      viol('a trial inside the space was reported as an error', {'space': repr(space)[:400], 'parameters': repr(params)})
    else:
      want = {}
      groups = {}
      for k_, v in params.items():
        kind = declared[k_][0]
        ev = {'bool': lambda x: x == 'True', 'int': lambda x: int(x), 'float': float, 'internal': float, 'str': str}[kind](v)
        if '[' in k_ and k_.endswith(']'):
          base, idx = k_[:k_.rindex('[')], int(k_[k_.rindex('[') + 1:-1])
          groups.setdefault(base, []).append((idx, ev))
        else:
          want[k_] = ev
      for base, lst in groups.items():
        want_list = [x[1] for x in sorted(lst)]
        if base in want:
          has_collision = True
        want[base] = want_list
      ok = set(want) == set(got) and all(same_typed(want[k_], got[k_]) for k_ in want)
      if not ok:
        viol('presented parameters differ from the stored values in the declared external types', {'parameters': repr(params), 'presented': repr(got), 'expected': repr(want)},
             'C17-scalar-and-indexed-name-collide' if has_collision else None)
      elif has_collision:
        viol('a scalar parameter and an indexed parameter of the same base name: the scalar value is lost', {'parameters': repr(params), 'presented': repr(got)},
             'C17-scalar-and-indexed-name-collide')
    exp = 'None' if res[0] == 'err' else '(Some %s)' % glist(list(res[1].items()), lambda kv: gpair(gstr(kv[0]), g_presented(kv[1])))
    cases.append('(%s, %s, %s)' % (glist(space.parameters, g_tree),
                                   glist(list(params.items()), lambda kv: gpair(gstr(kv[0]), g_pyv(float(kv[1]) if not isinstance(kv[1], str) else kv[1]))), exp))
    objs.append((repr(params), mode))
  ck = ('Definition pres_eqb (a b : presented) := match a, b with PScalar x, PScalar y => pyv_same x y | PList x, PList y => list_eqb pyv_same x y | _, _ => false end.\n'
        'Definition ck (c : list xtree * list (str * pyv) * option (list (str * presented))) := let \'(t, p, e) := c in '
        'match trial_parameters t p, e with Ok l, Some l\' => list_eqb (fun a b => str_eqb (fst a) (fst b) && pres_eqb (snd a) (snd b)) l l\' | Err _, None => true | _, _ => false end.\n')
  bad = C.run_cases('C17', 'tp', HDR + ck, cases, 'ck', shard=150)
  rep.disagreements += len(bad)
  for i in bad[:3]:
    broke = ((broke or '') + ' correspondence StudyConfig.trial_parameters vs model on %r;' % (objs[i],))
  # ---- a study deleted and re-created under the same name with OTHER declared types: the client presents what the study
  # declares now (one process, one server; any client-side memory of the old study must not leak)
  try:
    from vizier._src.service import clients as _clients, vizier_client as _vc, vizier_service as _vsvc, study_pb2 as _spb, vizier_service_pb2 as _vs
    serv_ = _vsvc.VizierServicer(database_url=None)
    def declare(kind):
      p_ = vz.ProblemStatement()
      if kind == 'typed':
        p_.search_space.root.add_bool_param('flag')
        p_.search_space.root.add_discrete_param('width', [1, 2, 3])
      else:
        p_.search_space.root.add_categorical_param('flag', ['True', 'False'])
        p_.search_space.root.add_float_param('width', 0.0, 5.0)
      p_.metric_information.append(vz.MetricInformation(name='m1', goal=vz.ObjectiveMetricGoal.MAXIMIZE))
      sc_ = svz.StudyConfig.from_problem(p_)
      sc_.algorithm = 'RANDOM_SEARCH'
      return sc_
    expect = {'typed': {'flag': True, 'width': 2}, 'plain': {'flag': 'True', 'width': 2.0}}
    order = ['typed', 'plain', 'typed'] if r.random() < 0.5 else ['plain', 'typed', 'plain']
    for kind in order:
      st_ = serv_.CreateStudy(_vs.CreateStudyRequest(parent='owners/o9', study=_spb.Study(display_name='same_name', study_spec=declare(kind).to_proto())))
      study_ = _clients.Study(_vc.VizierClient(st_.name, 'w0', serv_))
      tr_ = study_.add_trial(vz.Trial(parameters={'flag': 'True', 'width': 2.0}))
      got_ = dict(tr_.parameters)
      got2_ = dict(study_.get_trial(tr_.id).parameters)
      rep.case({'recreated_study_declares': kind, 'presented': repr(got_)}, True)
      rep.count('recreated_study_' + kind)
      for g_ in (got_, got2_):
        if set(g_) != set(expect[kind]) or any(not same_typed(expect[kind][k_], g_[k_]) for k_ in expect[kind]):
          viol('a study re-created under the same name with other declared types: parameters are presented in the OLD types',
               {'declared_now': kind, 'presented': repr(g_), 'expected': repr(expect[kind]), 'history': order})
          break
      study_.delete()
  except ImportError:
    pass

  # ---- one child declared once under SEVERAL parent values (factory(children=...) and the wire form of such a condition)
  for it in range(N // 6):
    pk = r.choice(['cat', 'disc', 'int'])
    pvals = {'cat': ['a', 'b', 'c', 'd'], 'disc': [1.0, 2.0, 4.0, 8.0], 'int': [1, 2, 3, 4]}[pk]
    under = sorted(r.sample(pvals, r.choice([2, 2, 3])), key=pvals.index)
    ck_ = r.choice(['float', 'cat', 'int'])
    child = {'float': vz.ParameterConfig.factory('child', bounds=(0.0, 1.0)),
             'cat': vz.ParameterConfig.factory('child', feasible_values=['u', 'v']),
             'int': vz.ParameterConfig.factory('child', bounds=(1, 3))}[ck_]
    cval = {'float': 0.5, 'cat': 'u', 'int': 2}[ck_]
    if r.random() < 0.4:   # a grandchild under two of the child's values
      if ck_ == 'cat':
        child = vz.ParameterConfig.factory('child', feasible_values=['u', 'v'], children=[(['u', 'v'], vz.ParameterConfig.factory('grand', bounds=(0.0, 1.0)))])
    kw = {'bounds': (1, 4)} if pk == 'int' else {'feasible_values': pvals}
    try:
      parent = vz.ParameterConfig.factory('parent', children=[(under, child)], **kw)
      sc = svz.StudyConfig()
      sc.search_space.add(parent)
      sc.metric_information.append(vz.MetricInformation(name='m', goal=vz.ObjectiveMetricGoal.MAXIMIZE))
      configs = [('built', sc), ('through_proto', svz.StudyConfig.from_proto(sc.to_proto()))]
    except Exception as e:  # pylint: disable=broad-except
      viol('a condition with several parent values could not be declared / sent over the wire: %s' % type(e).__name__,
           {'parent_values': under, 'error': str(e)[:200]})
      continue
    for how, cfg in configs:
      for pv in pvals:
        params = {'parent': pv}
        if pv in under:
          params['child'] = cval
          if 'grand' in [c.name for c in child.traverse()] and cval in ('u', 'v'):
            params['grand'] = 0.25
        proto = study_pb2.Trial(id='1')
        for k_, v in params.items():
          p_ = proto.parameters.add(parameter_id=k_)
          if isinstance(v, str):
            p_.value.string_value = v
          else:
            p_.value.number_value = float(v)
        rep.case({'multi_valued_condition': under, 'parent': pv, 'config': how}, True)
        try:
          got = cfg.trial_parameters(proto)
        except Exception as e:  # pylint: disable=broad-except
          viol('trial_parameters refused a valid trial of a space whose child is declared under several parent values (%s)' % type(e).__name__,
               {'config': how, 'parent_values_of_child': under, 'trial': params, 'error': str(e)[:200]})
          continue
        if set(got) != set(params):
          viol('trial_parameters does not present exactly the trial\'s parameters for a multi-valued condition',
               {'config': how, 'parent_values_of_child': under, 'trial': params, 'presented': repr(got)})
  # ---- children with the SAME NAME but different declared types under different values of one parent (names are unique per
  # subspace only): each is presented in the type declared for it in the subspace that is active
  for k_ in range(4 if tier == 'quick' else 24):
    sc = svz.StudyConfig()
    root_ = sc.search_space.root
    root_.add_categorical_param('model', ['cnn', 'mlp'])
    cnn_, mlp_ = root_.select('model', ['cnn']), root_.select('model', ['mlp'])
    int_first = k_ % 2 == 0
    (cnn_ if int_first else mlp_).add_discrete_param('width', [1, 2, 4])             # integer-valued: presented as int
    (mlp_ if int_first else cnn_).add_discrete_param('width', [0.25, 0.5, 1.5])      # presented as float
    (cnn_ if int_first else mlp_).add_bool_param('flag')                              # presented as True / False
    (mlp_ if int_first else cnn_).add_categorical_param('flag', ['True', 'x'])        # presented as str
    sc.metric_information.append(vz.MetricInformation(name='m', goal=vz.ObjectiveMetricGoal.MAXIMIZE))
    a_, b_ = ('cnn', 'mlp') if int_first else ('mlp', 'cnn')
    cases_ = [({'model': a_, 'width': 2.0, 'flag': 'True'}, {'model': a_, 'width': 2, 'flag': True}),
              ({'model': a_, 'width': 4.0, 'flag': 'False'}, {'model': a_, 'width': 4, 'flag': False}),
              ({'model': b_, 'width': 1.5, 'flag': 'x'}, {'model': b_, 'width': 1.5, 'flag': 'x'}),
              ({'model': b_, 'width': 0.25, 'flag': 'True'}, {'model': b_, 'width': 0.25, 'flag': 'True'})]
    try:
      configs = [('built', sc), ('through_proto', svz.StudyConfig.from_proto(sc.to_proto()))]
    except Exception as e:  # pylint: disable=broad-except
      viol('a space with same-named children under different parent values could not be sent over the wire: %s' % type(e).__name__, {'error': str(e)[:200]})
      continue
    for how, cfg in configs:
      for stored_, want_ in cases_:
        proto = study_pb2.Trial(id='1')
        for kk_, v in stored_.items():
          p_ = proto.parameters.add(parameter_id=kk_)
          if isinstance(v, str):
            p_.value.string_value = v
          else:
            p_.value.number_value = float(v)
        rep.case({'same_named_children': True, 'config': how, 'trial': stored_}, True)
        rep.count('same_named_children_different_types')
        try:
          got = dict(cfg.trial_parameters(proto))
        except Exception as e:  # pylint: disable=broad-except
          viol('trial_parameters refused a valid trial of a space with same-named children of different types (%s)' % type(e).__name__,
               {'config': how, 'trial': stored_, 'error': str(e)[:200]})
          continue
        if got != want_ or any(type(got[n_]) is not type(want_[n_]) for n_ in want_):
          viol('a parameter is not presented with the value / type declared for it in the active subspace (a same-named parameter of another '
               'type exists under another parent value)',
               {'config': how, 'trial': stored_, 'presented': {n_: repr(v_) for n_, v_ in got.items()}, 'expected': {n_: repr(v_) for n_, v_ in want_.items()}})
  C.settle_broken(rep, broke, concrete)
  return rep.finish()


def replay(path):
  print(json.dumps(json.load(open(path)), indent=1)[:4000])
  return 1
