"""C07 — RAM and SQL datastores are observationally equivalent behind the service."""
from harness import svcrun


def run(tier, seed):
  from harness import svcmon
  return svcrun.run_service_check(
      'C07', tier, seed,
      rule=('the structure of every RAM datastore method (error wrapping, existence checks, locking, copying) is regenerated from ram_datastore.py and compared with the model\'s primitives in the kernel; '
            'the same RPC sequence (incl. DeleteStudy + re-creation under the same name, sibling studies whose names are prefixes of '
            'each other, metadata updates naming missing trials, early-stopping checks) replayed on RAM, in-memory SQLite and an '
            'SQLite file; responses, error classes and stored data compared pairwise after every step and with the model; '
            'non-trivial = at least 3 successful calls'),
      monitors=[], backends=('ram', 'sqlmem', 'sqlfile'), compare_backends=True,
      profile={'delete_study': 0.07, 'owner2': 0.15, 'warmup': 0.6}, nseq_quick=50, nseq_thorough=500, extra=lambda rep, tier, seed, known, r: _both(_both(long_studies(rep, tier, seed, known, r), malformed_trial_ids(rep, tier, seed, known, r)), _both(many_trials(rep, tier, seed, known, r), write_then_rollback(rep, tier, seed, known, r))), pre=regenerate_ram_shapes,
      trusted_extra=['harness/translate/ramshape.py (Python-ast translator of the 20 NestedDictRAMDataStore methods into rows of structural facts, fail-closed)'])


def regenerate_ram_shapes():
  from harness import common as C
  try:
    from harness.translate import ramshape
    C.write_gen('Gen/RamShapes.v', ramshape.translate(C.REPO))
    return None
  except Exception as e:  # pylint: disable=broad-except
    return 'translator harness/translate/ramshape.py refused ram_datastore.py: %r' % (e,)


def _both(a, b):
  return (((a[0] or '') + ' ' + (b[0] or '')).strip() or None), (a[1] or b[1])


def malformed_trial_ids(rep, tier, seed, known, r):
  """UpdateMetadata whose delta names a trial by something that is not a positive integer ('0', 'abc', '-1', ''): refused on every
  backend with the same error class, and - like an update naming a missing trial - it changes nothing, whatever the delta
  carried before the bad item and whatever is written afterwards."""
  import tempfile, shutil
  from harness import svc, common as C
  from vizier._src.service import vizier_service_pb2 as vs
  broke, concrete = None, False
  tmp = tempfile.mkdtemp(prefix='vz_', dir=C.VERIF + '/.scratch')
  try:
    for i in range(6 if tier == 'quick' else 40):
      bad = ['0', 'abc', '-1', '1x', '00', '0'][i % 6]
      pos = r.choice([0, 1, 2])
      results = {}
      for be in ('ram', 'sqlmem', 'sqlfile'):
        td = tempfile.mkdtemp(dir=tmp)
        serv, holder, proxy = svc.make_servicer(be, recycle=True, tmpdir=td)
        for rpc in [('CreateStudy', 1, 1, False, 'SS_ACTIVE', [(1, True)]), ('SuggestTrials', 1, 1, 1, 2, ('deliver', [10, 20], [], []))]:
          svc.apply_rpc(serv, holder, rpc)
        before = svc.snapshot(serv)
        req = vs.UpdateMetadataRequest(name=svc.study_name(1, 1))
        items = [('', ('', 'sk', 0, 'sv')), ('1', ('', 'tk', 0, 'tv')), ('2', (':a', 'k', 0, 'w'))]
        items.insert(pos, (bad, ('', 'bad', 0, 'x')))
        for tid_, kv_ in items:
          u = req.delta.add()
          if tid_:
            u.trial_id = tid_
          u.metadatum.CopyFrom(svc.mk_kv(kv_))
        try:
          resp = serv.UpdateMetadata(req)
          out = ('Done', 'error_details' if resp.error_details else 'ok')
        except Exception as e:  # pylint: disable=broad-except
          out = ('Failed', svc.classify(e))
        after = svc.snapshot(serv)
        # one more (successful) write, then read again: nothing of the refused call may surface
        svc.apply_rpc(serv, holder, ('AddTrialMeasurement', 1, 1, 1, [(1, 1)]))
        later = svc.snapshot(serv)
        results[be] = (out, before == after, [n for _, n in (later[0] or [])][0]['study']['md'] if later[0] else None)
        try:
          serv.datastore._inner._connection.close()
        except Exception:  # pylint: disable=broad-except
          pass
        shutil.rmtree(td, ignore_errors=True)
      rep.case({'malformed_trial_id': bad, 'position_in_delta': pos, 'outcomes': {k: v[0] for k, v in results.items()}}, True)
      rep.count('malformed_trial_id_' + bad)
      obj = {'trial_id': bad, 'position_in_delta': pos, 'results': {k: [list(v[0]), v[1], v[2]] for k, v in results.items()}}
      if len({v[0] for v in results.values()}) != 1:
        concrete = True
        rep.violation('UpdateMetadata naming a trial by %r ends differently on the backends' % bad, obj)
      elif any(v[0][0] != 'Done' or v[0][1] != 'ok' for v in results.values()) and (not all(v[1] for v in results.values()) or any(v[2] for v in results.values())):
        concrete = True
        rep.violation('a refused UpdateMetadata (trial id %r) changed stored data on %s' % (bad, sorted(k for k, v in results.items() if not v[1] or v[2])), obj)
  finally:
    shutil.rmtree(tmp, ignore_errors=True)
  return broke, concrete


def many_trials(rep, tier, seed, known, r):
  """Systematic: one study filled until its trial ids pass 10 (100 in the thorough tier), with queued REQUESTED trials spanning the
  boundary handed out afterwards and listings in between (string-ordered vs numeric ids, on all three backends)."""
  def seqgen(rr):
    target = rr.choice([11, 13]) if tier == 'quick' else rr.choice([12, 23, 103])
    seq = [('CreateStudy', 1, 1, False, 'SS_ACTIVE', [(1, True)])]
    nxt = 1
    while nxt <= target:
      if rr.random() < 0.5:
        seq.append(('CreateTrial', 1, 1, rr.randrange(100), 'REQUESTED', [], []))
        nxt += 1
      else:
        c, count = rr.choice([1, 2, 3]), rr.choice([1, 2])
        seq.append(('SuggestTrials', 1, 1, c, count, ('deliver', [rr.randrange(100) for _ in range(count + 1)], [], [])))
        nxt += count + 1
      if rr.random() < 0.3:
        seq.append(('ListTrials', 1, 1))
    for c in (1, 2, 3):
      seq.append(('SuggestTrials', 1, 1, c, 3, ('deliver', [rr.randrange(100) for _ in range(3)], [], [])))
    seq += [('ListTrials', 1, 1), ('ListOptimalTrials', 1, 1)]
    return seq
  return svcrun.service_part(rep, 'C07', r, tier, known, monitors=[], backends=('ram', 'sqlmem', 'sqlfile'), compare_backends=True,
                             nseq_quick=2, nseq_thorough=8, tag='many', seqgen=seqgen)


def write_then_rollback(rep, tier, seed, known, r):
  """Systematic: every kind of acknowledged write directly followed by a call that fails half-way inside the datastore (a metadata
  update naming a missing trial, a second creation of an existing study): the acknowledged write survives on every backend."""
  def seqgen(rr):
    i = seqgen.i
    seqgen.i += 1
    writes = [('CheckEarlyStop', True, 1, 1, 1, ('decide', [(1, True)], [], [])),
              ('CheckEarlyStop', True, 1, 1, 2, ('decide', [(2, False), (1, True)], [(':a', 'k', 0, 'v')], [])),
              ('CompleteTrial', 1, 1, 1, [(1, 2)], False), ('StopTrial', 1, 1, 2), ('AddTrialMeasurement', 1, 1, 1, [(1, 1)]),
              ('SetStudyState', 1, 1, 'SS_INACTIVE'), ('UpdateMetadata', 1, 1, [('', 'u', 0, 'a')], [(1, ('', 'k', 0, 'v'))]),
              ('CreateTrial', 1, 1, 33, 'REQUESTED', [], []), ('DeleteTrial', 1, 1, 2),
              ('SuggestTrials', 1, 1, 2, 1, ('deliver', [44, 45], [(':a', 's', 0, 'x')], []))]
    rollbacks = [('UpdateMetadata', 1, 1, [('', 'z', 0, 'z')], [(9, ('', 'k', 0, 'v'))]),
                 ('UpdateMetadata', 1, 1, [], [(1, ('', 'k2', 0, 'w')), (8, ('', 'k', 0, 'v'))]),
                 ('CreateStudy', 1, 1, False, 'SS_ACTIVE', [(1, True)]), ('CreateStudy', 1, 2, False, 'SS_ACTIVE', [(1, True)])]
    w = writes[i % len(writes)]
    rb = rollbacks[(i // len(writes)) % len(rollbacks)]
    seq = [('CreateStudy', 1, 1, False, 'SS_ACTIVE', [(1, True)]), ('SuggestTrials', 1, 1, 1, 2, ('deliver', [10, 20], [], [])), w, rb,
           ('ListTrials', 1, 1), ('GetStudy', 1, 1), ('CheckEarlyStop', False, 1, 1, 1, ('decide', [(1, False)], [], [])), rb, ('ListTrials', 1, 1)]
    return seq
  seqgen.i = 0
  return svcrun.service_part(rep, 'C07', r, tier, known, monitors=[], backends=('ram', 'sqlmem', 'sqlfile'), compare_backends=True,
                             nseq_quick=20, nseq_thorough=40, tag='wrb', seqgen=seqgen)


def long_studies(rep, tier, seed, known, r):
  """Long sequences on few studies: more than ten trials per study (string-ordered vs numeric ids), many operations."""
  return svcrun.service_part(rep, 'C07', r, tier, known, monitors=[], backends=('ram', 'sqlmem', 'sqlfile'), compare_backends=True,
                             nseq_quick=3, nseq_thorough=20, length=(45, 60), tag='long',
                             profile={'suggest': 0.7, 'fail': 0.02, 'delete_study': 0.0, 'owner2': 0.0})


def replay(path):
  import json
  print(json.dumps(json.load(open(path)), indent=1)[:4000])
  return 1
