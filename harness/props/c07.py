"""C07 — RAM and SQL datastores are observationally equivalent behind the service."""
from harness import svcrun


def run(tier, seed):
  from harness import svcmon
  return svcrun.run_service_check(
      'C07', tier, seed,
      rule=('the same RPC sequence (incl. DeleteStudy + re-creation under the same name, sibling studies whose names are prefixes of '
            'each other, metadata updates naming missing trials, early-stopping checks) replayed on RAM, in-memory SQLite and an '
            'SQLite file; responses, error classes and stored data compared pairwise after every step and with the model; '
            'non-trivial = at least 3 successful calls'),
      monitors=[], backends=('ram', 'sqlmem', 'sqlfile'), compare_backends=True,
      profile={'delete_study': 0.07, 'owner2': 0.15, 'warmup': 0.6}, nseq_quick=50, nseq_thorough=500)


def replay(path):
  import json
  print(json.dumps(json.load(open(path)), indent=1)[:4000])
  return 1
