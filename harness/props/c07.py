"""C07 — RAM and SQL datastores are observationally equivalent behind the service."""
from harness import svcrun


def run(tier, seed):
  from harness import svcmon
  return svcrun.run_service_check(
      'C07', tier, seed,
      rule=('the structure of every RAM datastore method (error wrapping, existence checks, locking, copying) is regenerated from ram_datastore.py and compared with the model\'s primitives in the kernel; '
            'the same RPC sequence (incl. DeleteStudy + re-creation under the same name, sibling studies whose names are prefixes of '
            'each other, metadata updates naming missing trials, early-stopping checks) replayed on RAM, in-memory SQLite and an '
            'SQLite file; responses, error classes and stored data compared pairwise after every step and with the model; '
            'non-trivial = at least 3 successful calls'),
      monitors=[], backends=('ram', 'sqlmem', 'sqlfile'), compare_backends=True,
      profile={'delete_study': 0.07, 'owner2': 0.15, 'warmup': 0.6}, nseq_quick=50, nseq_thorough=500, extra=long_studies, pre=regenerate_ram_shapes,
      trusted_extra=['harness/translate/ramshape.py (Python-ast translator of the 20 NestedDictRAMDataStore methods into rows of structural facts, fail-closed)'])


def regenerate_ram_shapes():
  from harness import common as C
  try:
    from harness.translate import ramshape
    C.write_gen('Gen/RamShapes.v', ramshape.translate(C.REPO))
    return None
  except Exception as e:  # pylint: disable=broad-except
    return 'translator harness/translate/ramshape.py refused ram_datastore.py: %r' % (e,)


def long_studies(rep, tier, seed, known, r):
  """Long sequences on few studies: more than ten trials per study (string-ordered vs numeric ids), many operations."""
  return svcrun.service_part(rep, 'C07', r, tier, known, monitors=[], backends=('ram', 'sqlmem', 'sqlfile'), compare_backends=True,
                             nseq_quick=3, nseq_thorough=20, length=(45, 60), tag='long',
                             profile={'suggest': 0.7, 'fail': 0.02, 'delete_study': 0.0, 'owner2': 0.0})


def replay(path):
  import json
  print(json.dumps(json.load(open(path)), indent=1)[:4000])
  return 1
