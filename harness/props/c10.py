"""C10 — metadata is an exact last-writer-wins key-value store across namespaces."""
from harness import common as C
from harness.common import gN, glist, gpair, gstr

ALPH = ['a', 'b', ':', '\\', 'é', '\U0001F600', ' ', 'Z']


def gen_comp(r):
  n = r.choice([0, 1, 1, 2, 2, 3, 4, 6])
  w = r.choice([(6, 1, 1), (2, 3, 3), (1, 1, 4), (3, 3, 1)])
  out = []
  for _ in range(n):
    k = r.choices([0, 1, 2], weights=w)[0]
    out.append(r.choice(['a', 'b', 'é', '\U0001F600', ' ', 'Z']) if k == 0 else (':' if k == 1 else '\\'))
  return ''.join(out)


def gen_ns(r):
  return tuple(gen_comp(r) for _ in range(r.choice([0, 1, 1, 2, 2, 3, 4])))


def g_ns(ns):
  return glist([gstr(c) for c in ns])


def g_kv(kv):
  ns, k, tag, payload = kv
  return gpair(gpair(gstr(ns), gstr(k)), gpair(gN(tag), gstr(payload)))


def kv_of_proto(p):
  if p.HasField('proto'):
    return (p.ns, p.key, 1, p.proto.type_url + '|' + p.proto.value.decode('latin1'))
  return (p.ns, p.key, 0, p.value)


def proto_of_kv(kv, key_value_pb2):
  ns, k, tag, payload = kv
  p = key_value_pb2.KeyValue(ns=ns, key=k)
  if tag == 1:
    url, val = payload.split('|', 1)
    p.proto.type_url = url
    p.proto.value = val.encode('latin1')
  else:
    p.value = payload
  return p


def gen_kv(r):
  ns = r.choice(['', ':a', ':a:b', ':b', ':a\\:b', ':é'])
  k = r.choice(['', 'k', 'k2', 'K', 'é'])
  if r.random() < 0.3:
    return (ns, k, 1, r.choice(['type.googleapis.com/x.Y', 't/u']) + '|' + r.choice(['', 'ab', '\x00\x01']))
  return (ns, k, 0, r.choice(['', 'v', 'w', 'long value', '0']))


def ns_monitor(ns, enc, dec):
  """Property text: encoding a namespace to its string form and decoding it returns the same namespace."""
  return tuple(dec) == tuple(ns)


def run(tier, seed):
  from harness import boot
  boot.boot()
  from vizier._src.pyvizier.shared import common as vzc
  from vizier._src.pyvizier.oss import metadata_util
  from vizier._src.service import key_value_pb2, study_pb2, vizier_service_pb2

  rep = C.Report('C10', tier, seed)
  rep.rule = ('Namespace.encode / _parse are regenerated from common.py and proved equal to the model at every run; namespace tuples over {letters, unicode, colon, backslash, empty} run through the real '
              'Namespace.encode/decode and the model; metadata merges (study and trial level) of generated '
              'KeyValue lists run through the real merge_* and the model; a case is non-trivial when the namespace '
              'has a colon/backslash/empty component, or the merge overwrites an existing key')
  rep.trusted = ['Coq 8.16.1 kernel + vm_compute', 'harness/translate/nsparse.py (Python-ast translator of Namespace.encode / _parse, fail-closed)', 'harness/props/c10.py generators and Gallina printers',
                 'proto shim (harness/shim/protoshim.py)']
  tbroke = None
  try:
    from harness.translate import nsparse
    C.write_gen('Gen/NamespaceSrc.v', nsparse.translate(C.REPO))
  except Exception as e:  # pylint: disable=broad-except
    tbroke = 'translator harness/translate/nsparse.py refused common.py: %r' % (e,)
  C.standard_proof_step(rep, 'C10')
  broke = ((tbroke or '') + ' ' + (rep.proof_broken or '')).strip() or None
  concrete = False
  known = {f['id']: f for f in C.load_known() if f['property'] == 'C10'}
  r = C.rng(seed, 'c10')
  n_ns = 1500 if tier == 'quick' else 30000
  n_mg = 600 if tier == 'quick' else 8000

  # ---- namespaces
  corpus = [('a\\',), ('a\\', 'b'), ('a:b',), ('',), (), ('', ''), (':',), ('\\:',), ('a\\\\',), ('\\',)]
  nss = corpus + [gen_ns(r) for _ in range(n_ns)]
  if tier == 'thorough':  # exhaustive small scope: all tuples of <=2 components over {a,:,\} of length <=3
    import itertools
    comps = [''.join(t) for k in range(4) for t in itertools.product('a:\\', repeat=k)]
    nss += [()] + [(c,) for c in comps] + [(c, d) for c in comps for d in comps]
  cases, objs = [], []
  for ns in nss:
    enc = vzc.Namespace(ns).encode()
    dec = tuple(vzc.Namespace.decode(enc))
    cases.append(gpair(g_ns(ns), gpair(gstr(enc), g_ns(dec))))
    objs.append((ns, enc, dec))
    nontriv = any((':' in c or '\\' in c or c == '') for c in ns)
    rep.case({'ns': ns, 'encoded': enc, 'decoded': dec}, nontriv)
    rep.count('ns_len_%d' % len(ns))
    if any(c.endswith('\\') for c in ns):
      rep.count('ns_trailing_backslash')
    if not ns_monitor(ns, enc, dec):
      if any(c.endswith('\\') for c in ns) and 'C10-ns-trailing-backslash' in known:
        rep.known('C10-ns-trailing-backslash', known['C10-ns-trailing-backslash']['what'])
      else:
        concrete = True
        rep.violation('Namespace.decode(Namespace(ns).encode()) != ns for a namespace with no component ending in a backslash',
                      {'ns': list(ns), 'encoded': enc, 'decoded': list(dec)})
  hdr = 'From VZ Require Import Base.Prelude Model.Namespace.\n'
  bad = C.run_cases('C10', 'ns', hdr, cases, 'ns_case_ok')
  rep.disagreements += len(bad)
  for i in bad[:5]:
    broke = (broke or '') + ' correspondence Namespace model vs code on %r' % (objs[i],)
    ns, enc, dec = objs[i]
    # code changed: does the property itself fail on this input?
    if not ns_monitor(ns, enc, dec) and not any(c.endswith('\\') for c in ns):
      concrete = True
  # decode on arbitrary strings (glue: decode is also applied to stored kv.ns)
  strs = ['', ':', '::', 'a', ':a', 'a:b', 'a\\:b', '\\', ':\\', 'a\\', '\\:', ':\\:\\'] + [
      ''.join(r.choice(['a', ':', '\\', 'é']) for _ in range(r.randrange(0, 7))) for _ in range(n_ns // 3)]
  cases2 = [gpair(gstr(s), g_ns(tuple(vzc.Namespace.decode(s)))) for s in strs]
  for s in strs:
    rep.case({'decode_arg': s}, ':' in s or '\\' in s)
  bad = C.run_cases('C10', 'dec', hdr, cases2, 'parse_case_ok')
  rep.disagreements += len(bad)
  for i in bad[:5]:
    broke = (broke or '') + ' correspondence Namespace.decode model vs code on %r' % (strs[i],)

  # ---- merges
  mcases, mobjs = [], []
  for _ in range(n_mg):
    # stored metadata is always the output of a previous merge (sorted, unique); raw for a fraction
    old = [gen_kv(r) for _ in range(r.randrange(0, 6))]
    new = [gen_kv(r) for _ in range(r.randrange(0, 6))]
    spec = study_pb2.StudySpec()
    if r.random() < 0.8:
      metadata_util.merge_study_metadata(spec, [proto_of_kv(k, key_value_pb2) for k in old])
      old = [kv_of_proto(p) for p in spec.metadata]
    else:
      spec.metadata.extend([proto_of_kv(k, key_value_pb2) for k in old])
    newp = [proto_of_kv(k, key_value_pb2) for k in new]
    newp_copy = [type(p).FromString(p.SerializeToString()) for p in newp]
    metadata_util.merge_study_metadata(spec, newp)
    res = [kv_of_proto(p) for p in spec.metadata]
    mcases.append('(%s, %s, %s)' % (glist(old, g_kv), glist(new, g_kv), glist(res, g_kv)))
    mobjs.append((old, new, res))
    overw = any((k[0], k[1]) in {(o[0], o[1]) for o in old} for k in new)
    rep.case({'old': old, 'new': new, 'result': res}, overw)
    rep.count('merge_overwrites' if overw else 'merge_disjoint')
    # monitor from the property text
    want = {}
    for k in old + new:
      want[(k[0], k[1])] = k
    ok = (sorted(want.values(), key=lambda k: (k[0], k[1])) == res and newp == newp_copy)
    if not ok:
      concrete = True
      rep.violation('merge_study_metadata result is not last-writer-wins / sorted / unique', {'old': old, 'new': new, 'result': res})
  bad = C.run_cases('C10', 'mg', 'From VZ Require Import Base.Prelude Model.Metadata.\n', mcases, 'merge_case_ok')
  rep.disagreements += len(bad)
  for i in bad[:5]:
    broke = (broke or '') + ' correspondence merge_study_metadata model vs code on %r' % (mobjs[i],)

  tcases, tobjs = [], []
  for _ in range(n_mg):
    tid = r.choice([1, 2, 3])
    old = [gen_kv(r) for _ in range(r.randrange(0, 5))]
    trial = study_pb2.Trial(id=str(tid))
    metadata_util.merge_trial_metadata(trial, [vizier_service_pb2.UnitMetadataUpdate(trial_id=str(tid), metadatum=proto_of_kv(k, key_value_pb2)) for k in old])
    old = [kv_of_proto(p) for p in trial.metadata]
    ups = [(r.choice([1, 2, 3]) if r.random() < 0.4 else tid, gen_kv(r)) for _ in range(r.randrange(0, 6))]
    metadata_util.merge_trial_metadata(trial, [vizier_service_pb2.UnitMetadataUpdate(trial_id=str(t), metadatum=proto_of_kv(k, key_value_pb2)) for t, k in ups])
    res = [kv_of_proto(p) for p in trial.metadata]
    tcases.append('(%s, %s, %s, %s)' % (gN(tid), glist(old, g_kv), glist(ups, lambda u: gpair(gN(u[0]), g_kv(u[1]))), glist(res, g_kv)))
    tobjs.append((tid, old, ups, res))
    rep.case({'trial': tid, 'old': old, 'updates': ups, 'result': res}, any(t != tid for t, _ in ups))
    want = {(k[0], k[1]): k for k in old}
    for t, k in ups:
      if t == tid:
        want[(k[0], k[1])] = k
    if sorted(want.values(), key=lambda k: (k[0], k[1])) != res:
      concrete = True
      rep.violation('merge_trial_metadata result is not last-writer-wins restricted to this trial', {'trial': tid, 'old': old, 'updates': ups, 'result': res})
  bad = C.run_cases('C10', 'tm', 'From VZ Require Import Base.Prelude Model.Metadata.\n', tcases, 'merge_trial_case_ok')
  rep.disagreements += len(bad)
  for i in bad[:5]:
    broke = (broke or '') + ' correspondence merge_trial_metadata model vs code on %r' % (tobjs[i],)

  # ---- the single-value encoder: metadata_util.assign / get / get_proto and make_key_value_list / from_key_value_list with string,
  # Message and already-packed Any values (a value read from the wire and written again is an Any): the value read is the value written last
  from google.protobuf import any_pb2, duration_pb2
  for ai in range(n_mg // 4):
    container = r.choice([study_pb2.StudySpec, study_pb2.Trial])()
    want = {}
    script = []
    for _ in range(r.randrange(1, 7)):
      ns_s, key = r.choice(['', ':a', ':a:b']), r.choice(['k', 'k2', ''])
      kind = r.choice(['str', 'msg', 'any', 'any'])
      dur = duration_pb2.Duration(seconds=r.randrange(5), nanos=r.choice([0, 7]))
      if kind == 'str':
        value, canon_v = r.choice(['v', '', 'w']), None
      elif kind == 'msg':
        value = dur
      else:
        value = any_pb2.Any()
        value.Pack(dur)
      if kind == 'str':
        want[(ns_s, key)] = ('str', value)
      else:
        want[(ns_s, key)] = ('dur', dur.seconds, dur.nanos)
      script.append((ns_s, key, kind, str(value)[:30]))
      metadata_util.assign(container, key=key, ns=ns_s, value=value, mode='insert_or_assign')
    rep.case({'assign_script': script}, len(script) > 2)
    rep.count('assign_script')
    for (ns_s, key), w in want.items():
      if w[0] == 'str':
        got = ('str', metadata_util.get(container, key=key, ns=ns_s))
        gotp = metadata_util.get_proto(container, key=key, ns=ns_s, cls=duration_pb2.Duration)
        if gotp is not None:
          got = ('both', got, str(gotp))
      else:
        m = metadata_util.get_proto(container, key=key, ns=ns_s, cls=duration_pb2.Duration)
        got = None if m is None else ('dur', m.seconds, m.nanos)
        if metadata_util.get(container, key=key, ns=ns_s) is not None:
          got = ('both', got)
      if got != w:
        concrete = True
        rep.violation('metadata_util.assign / get: the value read back is not the value written last',
                      {'script': script, 'ns': ns_s, 'key': key, 'want': w, 'got': got})
    if len(container.metadata) != len(want):
      concrete = True
      rep.violation('metadata_util.assign(insert_or_assign) stored %d entries for %d distinct (ns, key)' % (len(container.metadata), len(want)),
                    {'script': script})
    # pyvizier Metadata -> KeyValue list -> Metadata -> KeyValue list (second conversion identical, values kept)
    md = vzc.Metadata()
    for (ns_s, key), w in want.items():
      if w[0] == 'str':
        md.abs_ns(vzc.Namespace.decode(ns_s))[key] = w[1]
      else:
        a = any_pb2.Any()
        a.Pack(duration_pb2.Duration(seconds=w[1], nanos=w[2]))
        md.abs_ns(vzc.Namespace.decode(ns_s))[key] = a
    kvs = metadata_util.make_key_value_list(md)
    md2 = metadata_util.from_key_value_list(kvs)
    kvs2 = metadata_util.make_key_value_list(md2)
    ser = lambda l: sorted((k.ns, k.key, k.value, k.proto.type_url, bytes(k.proto.value)) for k in l)
    if ser(kvs) != ser(kvs2):
      concrete = True
      rep.violation('make_key_value_list(from_key_value_list(x)) differs from x (a value changes when it is written again)',
                    {'first': [str(k)[:80] for k in kvs], 'second': [str(k)[:80] for k in kvs2]})
    for k in kvs:
      w = want[(k.ns, k.key)]
      if w[0] == 'dur':
        d2 = duration_pb2.Duration()
        if not (k.HasField('proto') and k.proto.Unpack(d2) and (d2.seconds, d2.nanos) == (w[1], w[2])):
          concrete = True
          rep.violation('make_key_value_list does not carry the protobuf value that was written', {'kv': str(k)[:120], 'want': w})

  # ---- algorithm-issued deltas in the LOCAL deployment (InRamPolicySupporter): a policy stores state in namespaces of its own,
  # building the delta in every way the API offers - MetadataDelta.assign, chained .ns(), Metadata objects positioned at a
  # namespace, absolute namespaces; afterwards the study and the trials hold, per (namespace, key), the value written last and
  # every user entry is untouched
  try:
    from vizier import pythia as _py
    from vizier import pyvizier as _vz
    from vizier._src.pythia import local_policy_supporters as _lps

    def _snap(md_):
      return {(ns_.encode(), k_): str(v_) for ns_, k_, v_ in md_.all_items()}

    class _DeltaPolicy(_py.Policy):
      def __init__(self):
        self.delta = None

      def suggest(self, request):
        return _py.SuggestDecision([_vz.TrialSuggestion({'x': 0.5})], metadata=self.delta)

      def early_stop(self, request):
        raise NotImplementedError()

    for ai in range(60 if tier == 'quick' else 800):
      prob_ = _vz.ProblemStatement()
      prob_.search_space.root.add_float_param('x', 0.0, 1.0)
      prob_.metric_information.append(_vz.MetricInformation('obj', goal=_vz.ObjectiveMetricGoal.MAXIMIZE))
      prob_.metadata['state'] = 'user-study-value'
      prob_.metadata.ns('u')['k'] = 'user-ns-value'
      sup_ = _lps.InRamPolicySupporter(prob_)
      t_ = _vz.Trial(parameters={'x': 0.1})
      t_.metadata['state'] = 'user-trial-value'
      sup_.AddTrials([t_])
      pol_ = _DeltaPolicy()
      expect_s, expect_t = _snap(sup_.GetStudyConfig().metadata), _snap(sup_.GetTrials(trial_ids=[1])[0].metadata)
      style = ['assign', 'chain', 'positioned', 'abs'][ai % 4]
      written = []
      for round_ in range(2):
        entries = [(r.choice([('algo',), ('algo', 'sub'), ('algo', ''), ('a:b',), ()]) if style != 'positioned' else r.choice([(), ('sub',), ('',)]),
                    r.choice(['state', 'k', '']), 'v%d_%d' % (round_, j_), r.random() < 0.4) for j_ in range(r.randrange(1, 4))]
        delta_ = _vz.MetadataDelta()
        if style == 'positioned':
          on_study, on_trial = _vz.Metadata().ns('algo'), _vz.Metadata().ns('algo')
          for ns_, k_, v_, tr_ in entries:
            tgt_ = on_trial if tr_ else on_study
            for c_ in ns_:
              tgt_ = tgt_.ns(c_)
            tgt_[k_] = v_
          delta_ = _vz.MetadataDelta(on_study=on_study, on_trials={1: on_trial})
          entries = [(('algo',) + ns_, k_, v_, tr_) for ns_, k_, v_, tr_ in entries]
        else:
          for ns_, k_, v_, tr_ in entries:
            if style == 'assign' and len(ns_) == 1:
              delta_.assign(ns_[0], k_, v_, trial_id=1 if tr_ else None)
            elif style == 'abs':
              (delta_.on_trials[1] if tr_ else delta_.on_study).abs_ns(_vz.Namespace(ns_))[k_] = v_
            else:
              tgt_ = delta_.on_trials[1] if tr_ else delta_.on_study
              for c_ in ns_:
                tgt_ = tgt_.ns(c_)
              tgt_[k_] = v_
        pol_.delta = delta_
        sup_.SuggestTrials(pol_, count=1)
        for ns_, k_, v_, tr_ in entries:
          (expect_t if tr_ else expect_s)[(_vz.Namespace(ns_).encode(), k_)] = v_
        written.append([(list(ns_), k_, v_, tr_) for ns_, k_, v_, tr_ in entries])
      got_s, got_t = _snap(sup_.GetStudyConfig().metadata), _snap(sup_.GetTrials(trial_ids=[1])[0].metadata)
      rep.case({'local_algorithm_delta': style, 'entries': sum(len(w_) for w_ in written)}, style == 'positioned' or any(e_[0] == [] for w_ in written for e_ in w_))
      rep.count('local_delta_' + style)
      for what_, got_, exp_ in (('study', got_s, expect_s), ('trial 1', got_t, expect_t)):
        if got_ != exp_:
          concrete = True
          rep.violation('algorithm delta applied by InRamPolicySupporter: the %s metadata is not "last value per (namespace, key), everything else untouched"' % what_,
                        {'style': style, 'written': written, 'expected': sorted(map(list, exp_.items())), 'stored': sorted(map(list, got_.items()))})
          break
  except ImportError:
    pass

  # ---- end-to-end through the service (both datastores), if the service driver is available
  try:
    from harness import svc
  except ImportError:
    svc = None
  if svc is not None and hasattr(svc, 'c10_e2e'):
    b2, c2 = svc.c10_e2e(rep, tier, seed, known)
    broke = broke or b2
    concrete = concrete or c2

  # ---- acknowledged metadata writes under overlap: a metadata update of trial 1 (or an algorithm's metadata delta) overlaps
  # another call that rewrites the same trial / study (complete, measurement, stop, a second update of other keys, a state
  # change); every schedule "A takes j steps, B completes, A finishes".  Whatever the order, each (namespace, key) written by a
  # call that reported success must be read back with the value written, and keys nobody wrote must not appear.
  if svc is not None:
    try:
      from harness import conc, svcmon
    except ImportError:
      conc = None
    if conc is not None:
      r2 = C.rng(seed, 'c10-overlap')
      prefix = [('CreateStudy', 1, 1, False, 'SS_ACTIVE', [(1, True)]), ('SuggestTrials', 1, 1, 1, 2, ('deliver', [10, 20], [], [])),
                ('UpdateMetadata', 1, 1, [('', 'old', 0, 's0')], [(1, ('', 'old', 0, 't0'))])]
      writer_kinds = [
          ('UpdateMetadata', 1, 1, [('', 'u', 0, 'a')], [(1, ('', 'k', 0, 'v'))]),
          ('UpdateMetadata', 1, 1, [('a:b', 'u', 0, 'a2')], [(1, ('x', 'k', 0, 'v2'))]),
          ('SuggestTrials', 1, 1, 2, 1, ('deliver', [33], [(':designer_policy_v0', 's', 0, 'x')], [(1, (':designer_policy_v0', 'k', 0, 'p'))])),
          ('CheckEarlyStop', True, 1, 1, 1, ('decide', [(1, False)], [(':designer_policy_v0', 'e', 0, 'z')], [(1, (':designer_policy_v0', 'ek', 0, 'q'))])),
      ]
      other_kinds = [
          ('CompleteTrial', 1, 1, 1, [(1, 2)], False), ('CompleteTrial', 1, 1, 1, [], True), ('AddTrialMeasurement', 1, 1, 1, [(1, 3)]),
          ('StopTrial', 1, 1, 1), ('UpdateMetadata', 1, 1, [('', 'u2', 0, 'b')], [(1, ('', 'k2', 0, 'w'))]),
          ('SetStudyState', 1, 1, 'SS_ACTIVE'), ('CreateTrial', 1, 1, 70, 'REQUESTED', [], []),
      ]
      combos = [(w_, o_) for w_ in writer_kinds for o_ in other_kinds]
      if tier == 'quick':
        r2.shuffle(combos)
        must = [(writer_kinds[0], o_) for o_ in other_kinds[:4]]
        combos = must + [c_ for c_ in combos if c_ not in must][:8]

      def written(rpc):
        if rpc[0] == 'UpdateMetadata':
          return list(rpc[3]), list(rpc[4])
        if rpc[0] in ('SuggestTrials', 'CheckEarlyStop'):
          return list(rpc[-1][2]), list(rpc[-1][3])
        return [], []
      for (w_, o_) in combos:
        for be_ in (['ram'] if tier == 'quick' else ['ram', 'sqlmem']):
          seen_ = set()
          for first in (0, 1):
            for j in range(0, 10):
              rpcs = [w_, o_]
              res = conc.run_concurrent(be_, prefix, rpcs, [first] * j + [1 - first] * 40 + [first] * 40)
              ex = tuple(res['executed'])
              if ex in seen_:
                continue
              seen_.add(ex)
              rep.case({'overlap': [w_[0], o_[0]], 'schedule': list(ex)[:12]}, 0 < j)
              rep.count('overlap_%s+%s' % (w_[0], o_[0]))
              obj = {'backend': be_, 'prefix': prefix, 'rpcs': rpcs, 'schedule': list(ex), 'outcomes': [o2[:2] for o2 in (res['outcomes'] or [])]}
              if res['deadlock']:
                concrete = True
                rep.violation('deadlock while a metadata update overlaps %s' % o_[0], obj)
                continue
              node = svcmon.nodes_of(res['snapshot']).get((1, 1))
              if node is None:
                continue
              exp_s, exp_t = {('', 'old', 0): 's0'}, {('', 'old', 0): 't0'}
              got_s = {tuple(kv[:3]): kv[3] for kv in node['study']['md']}
              t1 = [t_ for t_ in node['trials'] if t_['id'] == 1]
              got_t = {tuple(kv[:3]): kv[3] for kv in t1[0]['md']} if t1 else None
              for rpc, out in zip(rpcs, res['outcomes']):
                if out[0] != 'Done':
                  continue
                ws, wt = written(rpc)
                if rpc[0] in ('SuggestTrials', 'CheckEarlyStop'):
                  # an algorithm's delta exists only if the algorithm was asked: a suggestion served entirely from the queue of
                  # REQUESTED trials (the other call may just have added one) or an early-stopping check answered from a stored
                  # operation never reaches it.  Then NONE of its keys is stored; otherwise ALL of them are.
                  keys_s = [tuple(kv[:3]) for kv in ws]
                  keys_t = [tuple(kv[:3]) for tid_, kv in wt if tid_ == 1]
                  if not any(k_ in got_s for k_ in keys_s) and not any(k_ in (got_t or {}) for k_ in keys_t):
                    continue
                for kv in ws:
                  exp_s[tuple(kv[:3])] = kv[3]
                for tid_, kv in wt:
                  if tid_ == 1:
                    exp_t[tuple(kv[:3])] = kv[3]
              # the two writers never write the same key, so the expectation does not depend on the order
              if got_s != exp_s or (got_t is not None and got_t != exp_t):
                concrete = True
                rep.violation('metadata written by a successful call is missing or changed after it overlapped %s' % o_[0],
                              dict(obj, expected_study=sorted(map(list, exp_s.items())), stored_study=sorted(map(list, got_s.items())),
                                   expected_trial_1=sorted(map(list, exp_t.items())), stored_trial_1=sorted(map(list, (got_t or {}).items()))))
  C.settle_broken(rep, broke, concrete)
  return rep.finish()


def replay(path):
  import json
  from harness import boot
  boot.boot()
  from vizier._src.pyvizier.shared import common as vzc
  obj = json.load(open(path))['replay']
  if 'ns' in obj:
    ns = tuple(obj['ns'])
    enc = vzc.Namespace(ns).encode()
    dec = tuple(vzc.Namespace.decode(enc))
    print('ns=%r encoded=%r decoded=%r' % (ns, enc, dec))
    return 0 if dec == ns else 1
  print(json.dumps(obj, indent=1))
  return 1
