"""C19 — the acquisition optimiser returns in-bounds candidates, the best it evaluated."""
import json
import warnings

from harness import common as C
from harness.common import gN, gZ, gbool, glist, gopt, gpair, gstr, gnat

HDR = ('From VZ Require Import Base.Prelude Model.TopK.\n'
       'Definition topk_case_ok (c : nat * Z * list (list Z) * list Z) : bool :=\n'
       '  let \'(k, lowest, batches, obs) := c in list_eqb Z.eqb (run_k k (repeat lowest k) batches) obs.\n')


def _worker(args):
  """Runs a slice of the generated optimiser runs in its own process; returns the events for the report."""
  seed, its, known_ids = args
  from harness import boot
  boot.boot()
  import jax
  import numpy as np
  from jax import numpy as jnp
  from vizier import pyvizier as vz
  from vizier._src.algorithms.optimizers import eagle_strategy, random_vectorized_optimizer as rvo
  from vizier._src.algorithms.optimizers import vectorized_base as vb
  from vizier.pyvizier import converters
  from vizier.pyvizier.converters import padding
  warnings.filterwarnings('ignore')
  events = []

  class Rep:
    def case(self, tag, nt):
      events.append(('case', tag, nt))

    def count(self, name, n=1):
      events.append(('count', name, n))

    def known(self, kid, what):
      events.append(('known', kid, what))
  rep = Rep()
  known = {k: {'what': w} for k, w in known_ids.items()}
  cases, objs = [], []

  def viol(what, obj):
    events.append(('viol', what, obj))

  def make(ncont, cats, pad):
    p = vz.ProblemStatement()
    root = p.search_space.root
    for i in range(ncont):
      root.add_float_param('x%d' % i, 0.0, 1.0)
    for j, k in enumerate(cats):
      root.add_categorical_param('c%d' % j, [chr(97 + t) for t in range(k)])
    p.metric_information.append(vz.MetricInformation('obj', goal=vz.ObjectiveMetricGoal.MAXIMIZE))
    sched = padding.PaddingSchedule(num_trials=padding.PaddingType.NONE,
                                    num_features=padding.PaddingType.POWERS_OF_2 if pad else padding.PaddingType.NONE)
    return p, converters.TrialToModelInputConverter.from_problem(p, padding_schedule=sched)

  # record what the eagle strategy is seeded with (prior points, their rewards) and the pool it starts from
  seeded = []
  _orig_init = eagle_strategy.VectorizedEagleStrategy.init_state

  def _init_state(self, seed_, n_parallel=1, *, prior_features=None, prior_rewards=None):
    st_ = _orig_init(self, seed_, n_parallel, prior_features=prior_features, prior_rewards=prior_rewards)
    if prior_features is not None and prior_rewards is not None:
      seeded.append((prior_features, np.asarray(prior_rewards), st_.features))
    return st_
  eagle_strategy.VectorizedEagleStrategy.init_state = _init_state

  cases, objs = [], []
  for it in its:
    r = C.rng(seed, 'c19/%d' % it)
    if it >= 3000:
      # many optimisers for search spaces of different shapes built (and dropped) one after the other in this process: what an
      # optimiser knows about ITS space (numbers of features, category counts) must not come from an earlier one
      mismatch = None
      shapes_ = [(2, [6, 6]), (0, [2, 3]), (1, [5]), (3, []), (2, [2, 3]), (0, [4, 4, 4])]
      for att in range(240):
        ncont_, cats_ = shapes_[(att // 40 + att % 2) % len(shapes_)] if att >= 80 else shapes_[0 if att % 2 == 0 else 1 + (att // 2) % (len(shapes_) - 1)]
        _prob, conv_ = make(ncont_, cats_, False)
        fd_ = eagle_strategy.compute_feature_dimensions_from_converter(conv_)
        got_sizes = [int(x_) for x_ in fd_.categorical_sizes][:len(cats_)]
        got_n = (int(fd_.n_feature_dimensions.continuous), int(fd_.n_feature_dimensions.categorical))
        if got_sizes != list(cats_) or got_n != (ncont_, len(cats_)):
          mismatch = (att, ncont_, cats_, got_n, [int(x_) for x_ in fd_.categorical_sizes], conv_)
          break
        del _prob, conv_
      rep.case({'stage': 'many-optimisers-in-one-process', 'converters_built': att + 1}, True)
      rep.count('many_optimisers_in_one_process')
      if mismatch is not None:
        att, ncont_, cats_, got_n, got_sizes, conv_ = mismatch
        detail = {'converters_built_before': att, 'n_continuous': ncont_, 'categorical_sizes': cats_, 'dimensions_reported': got_n,
                  'category_counts_reported': got_sizes}
        try:
          opt_ = vb.VectorizedOptimizerFactory(strategy_factory=eagle_strategy.VectorizedEagleStrategyFactory(), max_evaluations=20,
                                               suggestion_batch_size=5, use_fori=False)(conv_)
          res_ = opt_(lambda x, _: -jnp.sum(x.continuous.padded_array ** 2, axis=-1) + 0.0 * jnp.sum(x.categorical.padded_array, axis=-1), count=4,
                      seed=jax.random.PRNGKey(1))
          cat_ = np.asarray(res_.features.categorical)
          detail['returned_categorical_features'] = cat_[..., :len(cats_)].tolist()
          detail['valid'] = bool(np.all(cat_[..., :len(cats_)] >= 0) and np.all(cat_[..., :len(cats_)] < np.array(cats_)))
        except Exception as e:  # pylint: disable=broad-except
          detail['optimiser_error'] = '%s: %s' % (type(e).__name__, str(e)[:200])
        viol('an eagle optimiser built after optimisers for other search spaces works with the feature layout of an earlier space '
             '(category counts / numbers of features do not belong to its converter): its candidates need not be valid category indices', detail)
      continue
    ncont = r.choice([0, 1, 2, 3])
    cats = [r.choice([2, 3, 5]) for _ in range(r.choice([0, 1, 2, 3]))]
    if ncont == 0 and not cats:
      ncont = 1
    # stratified so that a quick run covers both strategies, padding on / off and every score shape
    pad = (it // 2) % 2 == 0
    strat = 'random' if it % 4 == 0 else 'eagle'
    if strat == 'random' and pad and not cats:
      cats = [3]
    if it % 4 == 1:
      # categorical features of different sizes, a flat score and many steps: an invalid category index is not
      # punished by the score and has time to appear through mutation
      cats = r.choice([[2, 5], [2, 3, 5], [5, 2], [3, 2, 5]])
      ncont = r.choice([0, 1])
    batch, count, maxev = r.choice([3, 5, 10]), r.choice([1, 2, 4, 7, 12]), r.choice([30, 60, 100])
    if r.random() < 0.1:
      count, maxev = 12, 5            # more candidates requested than evaluations made
    if it % 8 == 7:
      # an evaluation budget below one batch (the repository's own GP tests use max_evaluations=10 with the default batch of 25)
      # or not a multiple of the batch: the requested candidates must still be real, scored candidates
      batch, maxev, count = r.choice([(10, 5, 2), (10, 3, 1), (5, 4, 4), (10, 24, 7), (5, 14, 3)])
    kind = ['nonfinite', 'interior', 'needle', 'corner', 'plateau', 'categorical'][(it + it // 6) % 6]
    if it % 4 == 1:
      kind = 'plateau'
    lastslot = it >= 1000
    if lastslot:
      # a space large enough for the pool to reach its configured ceiling, a batch size that does not divide that ceiling, more
      # prior points than the pool has room for and the best of them kept in the LAST slot of the pool; the budget walks the
      # whole pool, so that point is proposed (pool members are proposed as they are in the first round) and the result
      # cannot be worse than it
      ncont, cats, pad, strat, kind = r.choice([36, 40]), [], False, 'eagle', 'needle'
      batch, count = r.choice([32, 30, 40, 64]), 2
      maxev = 6 * batch
    catonly = 2000 <= it < 3000
    if catonly:
      # no continuous feature at all, a categorical space too large to hit one combination by chance, a few prior points and the
      # needle on one of them; the budget walks the whole pool, so the needle is proposed and the result cannot be worse than it
      ncont, cats, strat, kind = 0, r.choice([[5, 5, 5, 3], [5, 5, 5, 5], [3, 5, 5, 5, 2]]), 'eagle', 'needle'
      batch, count = r.choice([5, 10]), r.choice([1, 2])
      maxev = 8 * batch
    tag = dict(strategy=strat, n_continuous=ncont, categorical_sizes=cats, feature_padding=pad, batch=batch, count=count,
               max_evaluations=maxev, score=kind, seed=it)
    prob, conv = make(ncont, cats, pad)
    try:
      if strat == 'eagle':
        opt = vb.VectorizedOptimizerFactory(strategy_factory=eagle_strategy.VectorizedEagleStrategyFactory(), max_evaluations=maxev,
                                            suggestion_batch_size=batch, use_fori=False)(conv)
      else:
        opt = vb.VectorizedOptimizerFactory(strategy_factory=rvo.random_strategy_factory, max_evaluations=maxev,
                                            suggestion_batch_size=batch, use_fori=False)(conv)
    except Exception as e:  # pylint: disable=broad-except
      viol('building the %s optimiser failed: %s' % (strat, type(e).__name__), dict(tag, error=str(e)[:300]))
      continue
    tgt = np.array([r.random() for _ in range(64 if lastslot else 8)])
    if kind == 'corner':
      tgt = np.array([r.choice([0., 1.]) for _ in range(8)])
    prior, needle = None, None
    many = (strat == 'eagle' and it % 8 == 3) or lastslot   # more prior points than the pool has room for; the best one is the oldest
    if many:
      kind = 'needle'
      tag['score'] = kind
    if many or catonly or r.random() < 0.5:
      trials = []
      for _ in range(r.choice([110, 140]) if many and not lastslot else 150 if lastslot else r.choice([1, 3, 6])):
        params = {('x%d' % i): r.random() for i in range(ncont)}
        params.update({('c%d' % j): chr(97 + r.randrange(kk)) for j, kk in enumerate(cats)})
        trials.append(vz.Trial(parameters=params))
      prior = conv.to_features(trials)
      needle = (jnp.asarray(prior.continuous.padded_array[0]), jnp.asarray(prior.categorical.padded_array[0]))
      if lastslot:
        # the pool keeps its first slots for random points and fills the rest with the most recent prior points, newest first:
        # the prior point that starts in the last slot is the (pool_left_space)-th most recent one
        st_ = opt.strategy
        left = st_.pool_size - int(st_.pool_size * (1 - st_.config.prior_trials_pool_pct))
        ni = len(trials) - left
        needle = (jnp.asarray(prior.continuous.padded_array[ni]), jnp.asarray(prior.categorical.padded_array[ni]))
        tag['pool_size'], tag['needle_is_prior'] = int(st_.pool_size), ni
    tag['prior'] = prior is not None
    tag['n_prior'] = 0 if prior is None else int(prior.continuous.padded_array.shape[0])
    evals = []
    del seeded[:]

    def raw(cont, cat):
      t = jnp.asarray(tgt)[:cont.shape[-1]]
      s = -jnp.sum((cont - t) ** 2, axis=-1) + (0.5 if kind == 'categorical' else 0.1) * jnp.sum((cat == 1).astype(cont.dtype), axis=-1)
      if kind == 'plateau':
        s = jnp.round(s * 2) / 2
      if kind == 'nonfinite':
        s = jnp.where(jnp.sum(cont, axis=-1) > 0.6 * max(1, ncont), jnp.nan, s)
        s = jnp.where(jnp.sum(cont, axis=-1) < 0.2 * max(1, ncont), -jnp.inf, s)
      if kind == 'needle' and needle is not None:
        hit = jnp.all(jnp.abs(cont[..., :ncont] - needle[0][:ncont]) < 1e-12, axis=-1) & jnp.all(cat[..., :len(cats)] == needle[1][:len(cats)], axis=-1)
        s = jnp.where(hit, 5.0, s)
      return s

    def score_fn(x, _):
      s = raw(x.continuous.padded_array, x.categorical.padded_array)
      evals.append(np.asarray(s))
      return s

    nsteps = (maxev - 1) // batch + 1
    rep.case(tag, nsteps >= 2)
    rep.count('strategy_' + strat)
    rep.count('score_' + kind)
    try:
      res = opt(score_fn, count=count, prior_features=prior, seed=jax.random.PRNGKey(it))
    except Exception as e:  # pylint: disable=broad-except
      viol('the %s optimiser raised %s' % (strat, type(e).__name__), dict(tag, error=str(e)[:300]))
      continue
    cont = np.asarray(res.features.continuous)
    cat = np.asarray(res.features.categorical)
    rew = np.asarray(res.rewards)
    npc, npk = cont.shape[-1], cat.shape[-1]
    out = dict(tag, rewards=rew.tolist(), continuous=cont.tolist(), categorical=cat.tolist())
    if rew.shape != (count,) or cont.shape[:2] != (count, 1) or cat.shape[:2] != (count, 1):
      viol('the optimiser did not return the requested number of candidates', out)
      continue
    is_filler = np.isneginf(rew) & np.all(cont == 0, axis=(1, 2)) & np.all(cat == 0, axis=(1, 2))
    if ncont and (np.any(cont[..., :ncont] < 0) or np.any(cont[..., :ncont] > 1) or not np.all(np.isfinite(cont))):
      viol('a continuous feature of a returned candidate is outside the unit cube', out)
    if cats and (np.any(cat[..., :len(cats)] < 0) or np.any(cat[..., :len(cats)] >= np.array(cats))):
      viol('a categorical feature of a returned candidate is not a valid category index', out)
    if np.any(cont[..., ncont:] != 0) or np.any(cat[..., len(cats):] != 0):
      viol('a padding column of a returned candidate is not zero', out)
    if np.isnan(rew).any():
      viol('a returned candidate carries a NaN score', out)
    rs = np.asarray(raw(jnp.asarray(cont[:, 0]), jnp.asarray(cat[:, 0])))
    rs_c = np.where(np.isnan(rs), -np.inf, rs)
    for i in range(count):
      if is_filler[i] and nsteps * batch < count:
        continue      # a budget smaller than the request: untouched fillers are all that can be returned
      if not (rs_c[i] == rew[i] or abs(rs_c[i] - rew[i]) <= 1e-5):
        viol('the reported score of a returned candidate is not the score the function gives at that candidate',
             dict(out, candidate=i, reported=float(rew[i]), rescored=float(rs[i])))
        break
    # the best of everything evaluated (the first recorded call scores the prior points, which are not candidates)
    cand_evals = evals[1:] if prior is not None else evals
    allr = np.concatenate(cand_evals) if cand_evals else np.array([])
    allr = np.where(np.isnan(allr), -np.inf, allr)
    want = np.sort(np.concatenate([allr, -np.inf * np.ones(count)]))[::-1][:count]
    got = np.sort(np.where(np.isnan(rew), -np.inf, rew))[::-1]
    if not np.allclose(np.where(np.isneginf(want), -1e30, want).astype(float), np.where(np.isneginf(got), -1e30, got).astype(float), atol=1e-6):
      viol('the returned candidates are not the best of the evaluated ones', dict(out, best_evaluated=want.tolist()))
    # model correspondence on ranks
    vals = sorted(set(np.concatenate([allr, rew]).tolist()) | {float('-inf')})
    rank = {v: i for i, v in enumerate(vals)}
    cases.append('(%s, %s, %s, %s)' % (gnat(count), gZ(0), glist([[rank[v] for v in b.tolist()] for b in
                                                                  [np.where(np.isnan(e), -np.inf, e) for e in cand_evals]], lambda b: glist(b, gZ)),
                                       glist([rank[v] for v in got.tolist()], gZ)))
    objs.append(dict(tag, rewards=rew.tolist()))
    if prior is not None and strat == 'eagle' and seeded:
      # the rewards the strategy is seeded with: a real prior point whose score is finite must arrive with that score (-inf is
      # how padding rows are marked; a real point marked so is thrown away)
      prw_ = np.asarray(seeded[0][1]).reshape(-1)
      pr_all = np.asarray(raw(jnp.asarray(prior.continuous.padded_array), jnp.asarray(prior.categorical.padded_array))).reshape(-1)
      nreal = min(tag['n_prior'], prw_.shape[0], pr_all.shape[0])
      lost = [i for i in range(nreal) if np.isfinite(pr_all[i]) and not np.isfinite(prw_[i])]
      rep.count('prior_rewards_checked')
      if lost:
        viol('prior points with a finite score reach the strategy marked as padding (reward -inf)',
             dict(tag, prior_points_lost=lost[:10], scores=pr_all[:nreal].tolist()[:10], seeded_rewards=prw_[:nreal].tolist()[:10]))
    if prior is not None:
      pr = np.asarray(raw(jnp.asarray(prior.continuous.padded_array), jnp.asarray(prior.categorical.padded_array)))
      pr = pr[np.isfinite(pr)]
      if pr.size and not np.isnan(rew).any() and rew.max() < pr.max() - 1e-9:
        # The listed finding: the optimiser is seeded with the prior points but never counts them as candidates.  It only
        # explains this input if the strategy really started from the best prior point; otherwise the seeding itself lost it.
        retained, reached = True, False
        if strat == 'eagle' and seeded:
          pf_, prw_, pool_ = seeded[0]
          pc_, pk_ = np.asarray(pf_.continuous), np.asarray(pf_.categorical)
          qc_, qk_ = np.asarray(pool_.continuous), np.asarray(pool_.categorical)
          fin_ = np.where(np.isfinite(prw_), prw_, -np.inf)
          present = [i for i in range(pc_.shape[0])
                     if any(np.array_equal(pc_[i], qc_[j]) and np.array_equal(pk_[i], qk_[j]) for j in range(qc_.shape[0]))]
          retained = bool(present) and max(fin_[i] for i in present) >= fin_.max() - 1e-9
          if retained:
            # the pool is walked batch by batch; in its first round the strategy proposes the pool members themselves, so a
            # prior point kept in slot j is proposed - and counted as a candidate - in step j // batch if the budget gets there
            best_i = max(present, key=lambda i: fin_[i])
            slots = [j for j in range(qc_.shape[0]) if np.array_equal(pc_[best_i], qc_[j]) and np.array_equal(pk_[best_i], qk_[j])]
            reached = any(j // batch < nsteps for j in slots)
            out = dict(out, pool_size=int(qc_.shape[0]), best_prior_slots=slots, steps=nsteps)
        kf = 'C19-prior-points-are-not-candidates'
        if retained and reached and strat == 'eagle' and seeded:
          viol('the best prior point was kept in the strategy\'s pool and the budget covers its turn, yet the result is worse than it '
               '(that pool slot is never proposed)', dict(out, best_prior=float(pr.max()), n_prior=tag['n_prior']))
        elif retained and kf in known:
          rep.known(kf, known[kf]['what'])
        elif not retained:
          viol('the result is worse than the best prior point, and the strategy was not started from that point (the pool it was '
               'seeded with contains no prior point as good)', dict(out, best_prior=float(pr.max()), n_prior=tag['n_prior']))
        else:
          viol('the result is worse than the best prior point', dict(out, best_prior=float(pr.max())))
    res2 = opt(score_fn, count=count, prior_features=prior, seed=jax.random.PRNGKey(it))
    if not (np.array_equal(np.asarray(res2.features.continuous), cont) and np.array_equal(np.asarray(res2.features.categorical), cat)
            and np.array_equal(np.asarray(res2.rewards), rew, equal_nan=True)):
      viol('the same seed and score function gave different candidates', out)
    if it % 4 == 1 and strat == 'eagle' and cats:
      # a long compiled run (mutation phase, thousands of evaluations) with a score that rewards large category indices:
      # validity of what comes back, re-scoring and decoding to parameters
      def raw_big(cont_, cat_):
        s_ = -jnp.sum((cont_ - 0.5) ** 2, axis=-1) + 0.25 * cat_[..., 0].astype(cont_.dtype)
        if len(cats) > 1:
          s_ = s_ + 0.05 * cat_[..., 1].astype(cont_.dtype)
        return s_
      opt_l = vb.VectorizedOptimizerFactory(strategy_factory=eagle_strategy.VectorizedEagleStrategyFactory(), max_evaluations=3000,
                                            suggestion_batch_size=10, use_fori=True)(conv)
      resl = opt_l(lambda x, s_: raw_big(x.continuous.padded_array, x.categorical.padded_array), count=5, seed=jax.random.PRNGKey(it))
      contl, catl, rewl = np.asarray(resl.features.continuous), np.asarray(resl.features.categorical), np.asarray(resl.rewards)
      outl = dict(tag, long_run=True, max_evaluations=3000, rewards=rewl.tolist(), continuous=contl.tolist(), categorical=catl.tolist())
      rep.case(dict(tag, long_run=True), True)
      if np.any(catl[..., :len(cats)] < 0) or np.any(catl[..., :len(cats)] >= np.array(cats)):
        viol('a categorical feature of a returned candidate is not a valid category index', outl)
      if ncont and (np.any(contl[..., :ncont] < 0) or np.any(contl[..., :ncont] > 1)):
        viol('a continuous feature of a returned candidate is outside the unit cube', outl)
      if np.any(contl[..., ncont:] != 0) or np.any(catl[..., len(cats):] != 0):
        viol('a padding column of a returned candidate is not zero', outl)
      rsl = np.asarray(raw_big(jnp.asarray(contl[:, 0]), jnp.asarray(catl[:, 0])))
      if not np.allclose(rsl, rewl, atol=1e-5):
        viol('the reported score of a returned candidate is not the score the function gives at that candidate', dict(outl, rescored=rsl.tolist()))
      try:
        for t in vb.best_candidates_to_trials(resl, conv):
          for j, kk in enumerate(cats):
            if t.parameters.get_value('c%d' % j) not in [chr(97 + q) for q in range(kk)]:
              viol('a returned candidate decodes to a parameter value outside the search space', dict(outl, parameter='c%d' % j, value=repr(t.parameters.get_value('c%d' % j))))
      except Exception as e:  # pylint: disable=broad-except
        viol('decoding the returned candidates raised %s' % type(e).__name__, dict(outl, error=str(e)[:200]))
    if it % 5 == 0 and strat == 'eagle':
      # the compiled loop must agree with the observed python loop
      evals_backup = list(evals)
      opt_f = vb.VectorizedOptimizerFactory(strategy_factory=eagle_strategy.VectorizedEagleStrategyFactory(), max_evaluations=maxev,
                                            suggestion_batch_size=batch, use_fori=True)(conv)
      res3 = opt_f(lambda x, s: raw(x.continuous.padded_array, x.categorical.padded_array), count=count, prior_features=prior, seed=jax.random.PRNGKey(it))
      if not np.allclose(np.sort(np.asarray(res3.rewards)), np.sort(rew), atol=1e-5, equal_nan=True):
        viol('fori_loop and python loop disagree', dict(out, fori_rewards=np.asarray(res3.rewards).tolist()))
      evals[:] = evals_backup
  events.append(('corr', cases, objs))
  return events


def run(tier, seed):
  from harness import boot
  boot.boot()
  import jax
  import numpy as np
  from jax import numpy as jnp
  from harness.translate import optloop
  from vizier import pyvizier as vz
  from vizier._src.algorithms.optimizers import eagle_strategy, random_vectorized_optimizer as rvo
  from vizier._src.algorithms.optimizers import vectorized_base as vb
  from vizier.pyvizier import converters
  from vizier.pyvizier.converters import padding
  warnings.filterwarnings('ignore')

  rep = C.Report('C19', tier, seed)
  rep.rule = ('feature layouts with 0..3 continuous and 0..3 categorical features (sizes 2/3/5), with and without feature padding (powers of 2); eagle '
              'and random strategies; batch 3/5/10, count 1..12 (also count > batch and count > all evaluations), 30..100 evaluations; score '
              'functions with the optimum in the interior, at a corner, on a categorical choice, with plateaus, with NaN / -inf regions, and a '
              'needle exactly at a prior point; with and without prior features; one layout with 36-40 continuous features (pool at its ceiling), a '
              'batch size that does not divide the ceiling, 150 prior points and the best of them in the last pool slot; every run repeated with the same seed; every call of the score '
              'function is recorded (python loop, use_fori=False) so that the result can be compared with the best of everything evaluated; '
              'non-trivial = at least two steps and a non-constant score')
  rep.trusted = ['Coq 8.16.1 kernel + vm_compute', 'harness/translate/optloop.py (Python-ast data-flow of the one-step function, fail-closed)',
                 'rewards enter the model through their order only (dense integer ranks computed by the harness; NaN and -inf lowest)',
                 'jax.lax.fori_loop is taken to run the same step function as the python loop that is observed', 'equinox stand-in']
  known = {f['id']: f for f in C.load_known() if f['property'] == 'C19'}
  broke = None
  try:
    C.write_gen('Gen/OptLoop.v', optloop.translate(C.REPO))
  except Exception as e:  # pylint: disable=broad-except
    broke = 'translator harness/translate/optloop.py refused vectorized_base.py: %r' % (e,)
  C.standard_proof_step(rep, 'C19')
  broke = ((broke or '') + ' ' + (rep.proof_broken or '')).strip() or None
  concrete = False
  r = C.rng(seed, 'c19')
  quick = tier == 'quick'

  def viol(what, obj):
    nonlocal concrete
    concrete = True
    rep.violation(what, obj)

  nrun = 16 if quick else 160
  import concurrent.futures
  import multiprocessing
  nproc = 16
  slices = [list(range(k, nrun, nproc)) for k in range(nproc)]
  for k_, it_ in enumerate(range(1000, 1001 if quick else 1008)):     # the "best prior in the last pool slot" stratum
    slices[(3 + k_) % nproc].append(it_)
  for k_, it_ in enumerate(range(2000, 2003 if quick else 2024)):     # the "no continuous feature, needle on a prior point" stratum
    slices[(7 + k_) % nproc].append(it_)
  for k_, it_ in enumerate(range(3000, 3001 if quick else 3004)):     # the "many optimisers in one process" stage
    slices[(11 + k_) % nproc].insert(0, it_)
  cases, objs = [], []
  with concurrent.futures.ProcessPoolExecutor(max_workers=nproc, mp_context=multiprocessing.get_context('spawn')) as pool:
    for events in pool.map(_worker, [(seed, sl, {k: v['what'] for k, v in known.items()}) for sl in slices if sl]):
      for ev in events:
        if ev[0] == 'case':
          rep.case(ev[1], ev[2])
        elif ev[0] == 'count':
          rep.count(ev[1], ev[2])
        elif ev[0] == 'known':
          rep.known(ev[1], ev[2])
        elif ev[0] == 'viol':
          viol(ev[1], ev[2])
        else:
          cases += ev[1]
          objs += ev[2]
  bad = C.run_cases('C19', 'topk', HDR, cases, 'topk_case_ok', shard=100)
  rep.count('corr_topk', len(cases))
  rep.disagreements += len(bad)
  for i in bad[:3]:
    broke = (broke or '') + ' correspondence: top-k bookkeeping of the model vs the optimiser on %r;' % (objs[i],)
  C.settle_broken(rep, broke, concrete)
  return rep.finish()


def replay(path):
  print(json.dumps(json.load(open(path)), indent=1)[:4000])
  return 1
