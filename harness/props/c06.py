"""C06 — a failing algorithm is reported and never wedges the study."""
from harness import svcrun


def run(tier, seed):
  from harness import svcmon
  return svcrun.run_service_check(
      'C06', tier, seed,
      rule=('RPC sequences in which the scripted algorithm raises (ValueError/RuntimeError/KeyError/AssertionError) at suggest or '
            'early-stop time with probability 0.35, or delivers 0..N+2 suggestions, each followed by further calls of the same and '
            'other workers; RAM and in-memory SQLite; non-trivial = at least 3 successful calls'),
      monitors=[svcmon.c06_step, svcrun.wrap(svcmon.c01_step)], backends=('ram', 'sqlmem'), profile={'suggest': 0.45, 'fail': 0.35})


def replay(path):
  import json
  print(json.dumps(json.load(open(path)), indent=1)[:4000])
  return 1
