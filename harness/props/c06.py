"""C06 — a failing algorithm is reported and never wedges the study."""
from harness import svcrun


def run(tier, seed):
  from harness import svcmon
  return svcrun.run_service_check(
      'C06', tier, seed,
      rule=('RPC sequences in which the scripted algorithm raises (ValueError/RuntimeError/KeyError/AssertionError) at suggest or '
            'early-stop time with probability 0.35, or delivers 0..N+2 suggestions, each followed by further calls of the same and '
            'other workers; RAM and in-memory SQLite; non-trivial = at least 3 successful calls'),
      pre=svcrun.regenerate_handler_sources,
      monitors=[svcmon.c06_step, svcrun.wrap(svcmon.c01_step)], backends=('ram', 'sqlmem'), profile={'suggest': 0.45, 'fail': 0.35}, extra=lambda rep, tier, seed, known, r: _both(_both(early_stop_shapes(rep, tier, seed, known, r), unusual_failures(rep, tier, seed, known, r)), delivery_matrix(rep, tier, seed, known, r)))


def delivery_matrix(rep, tier, seed, known, r):
  """Every combination of (ACTIVE trials the worker already has, suggestions still missing, suggestions the algorithm delivers):
  0 or 2 own trials, 1..5 missing, 0..missing+2 delivered - a short delivery is handed out as it is, a surplus is queued, and the
  next request of the same and of another worker is served."""
  from harness import svcmon
  matrix = [(own, m, d) for own in (0, 2) for m in range(1, 6) for d in range(0, m + 3)]
  if tier == 'quick':
    r.shuffle(matrix)
    matrix = sorted(matrix[:36])
  it = iter(matrix)

  def gen(_r):
    own, m, d = next(it)
    seq = [('CreateStudy', 1, 1, False, 'SS_ACTIVE', [(1, True)])]
    if own:
      seq.append(('SuggestTrials', 1, 1, 1, own, ('deliver', list(range(10, 10 + own)), [], [])))
    seq.append(('SuggestTrials', 1, 1, 1, own + m, ('deliver', list(range(20, 20 + d)), [], [])))
    seq.append(('SuggestTrials', 1, 1, 1, own + m, ('deliver', list(range(40, 40 + m)), [], [])))
    seq.append(('SuggestTrials', 1, 1, 2, 1, ('deliver', [60], [], [])))
    seq.append(('ListTrials', 1, 1))
    rep.count('delivery_own%d_missing%d_delivered%d' % (own, m, d))
    return seq
  return svcrun.service_part(rep, 'C06', r, tier, known, monitors=[svcmon.c06_step, svcrun.wrap(svcmon.c01_step)], backends=('ram', 'sqlmem'),
                             nseq_quick=len(matrix), nseq_thorough=len(matrix), tag='deliv', seqgen=gen)


def _both(a, b):
  return (((a[0] or '') + ' ' + (b[0] or '')).strip() or None), (a[1] or b[1])


def unusual_failures(rep, tier, seed, known, r):
  """Failures that do not come from the algorithm's own code path: algorithm metadata for a trial id that is not a trial id (0),
  and a Pythia endpoint that cannot be reached when an early-stopping check needs it.  Each must be reported and leave no
  unfinished operation; later calls reach the algorithm again."""
  from harness import svc, svcmon
  concrete = False
  seqs = [[('CreateStudy', 1, 1, False, 'SS_ACTIVE', [(1, True)]),
           ('SuggestTrials', 1, 1, 1, 2, ('deliver', [5, 6], [], [(0, (':a', 'k', 0, 'v'))])),
           ('SuggestTrials', 1, 1, 1, 1, ('deliver', [7], [], [])),
           ('SuggestTrials', 1, 1, 2, 1, ('deliver', [8], [(':a', 'k', 0, 'v')], []))]]
  broke, c1 = svcrun.service_part(rep, 'C06', r, tier, known, monitors=[svcmon.c06_step, svcrun.wrap(svcmon.c01_step)], backends=('ram', 'sqlmem'),
                                  nseq_quick=1, nseq_thorough=1, tag='badid', seqgen=lambda rr: seqs[0])
  # the Pythia service cannot be selected (an unreachable per-study endpoint): monitor only, no model
  for be in ('ram', 'sqlmem'):
    serv, holder, proxy = svc.make_servicer(be, recycle=True)
    for rpc in [('CreateStudy', 1, 1, False, 'SS_ACTIVE', [(1, True)]), ('SuggestTrials', 1, 1, 1, 2, ('deliver', [5, 6], [], []))]:
      svc.apply_rpc(serv, holder, rpc)
    real = serv._select_pythia_service

    def unreachable(endpoint):
      raise TimeoutError('cannot reach the Pythia endpoint')
    serv._select_pythia_service = unreachable
    out1 = svc.apply_rpc(serv, holder, ('CheckEarlyStop', True, 1, 1, 1, ('decide', [(1, True)], [], [])))
    serv._select_pythia_service = real
    snap = svc.snapshot(serv)
    c0 = holder.calls
    out2 = svc.apply_rpc(serv, holder, ('CheckEarlyStop', True, 1, 1, 1, ('decide', [(1, True)], [], [])))
    rep.case({'unreachable_pythia_endpoint': be, 'first': list(out1[:2]), 'second': list(out2[:2])}, True)
    rep.count('unreachable_endpoint_' + be)
    active = [e for _, n in svcmon.nodes_of(snap).items() for e in n['es'] if e['active']]
    if out1[0] != 'Failed' or active or holder.calls == c0 or out2[0] != 'Done':
      concrete = True
      rep.violation('an early-stopping check that cannot reach its Pythia endpoint is not reported / leaves its operation ACTIVE / the next check does not reach the algorithm [%s]' % be,
                    {'backend': be, 'first_check': list(out1), 'early_stopping_records_left_active': active, 'second_check': list(out2), 'second_check_reached_the_algorithm': holder.calls != c0})
  return broke, (c1 or concrete)


def early_stop_shapes(rep, tier, seed, known, r):
  """Systematic: every shape of an early-stopping answer - no decision, a decision for the checked trial, decisions for OTHER trials
  only, for the checked and other trials, for a trial that does not exist, a failing algorithm - each followed by a second
  check of the same trial by the same and another route: the operation must be finished and the later check must reach the
  algorithm again (or be answered from a FINISHED operation when the recycle period has not passed)."""
  from harness import svcmon
  from harness import svc

  def seqgen(rr):
    i = seqgen.i
    seqgen.i += 1
    shapes = [[], [(1, True)], [(2, True)], [(2, False), (3, True)], [(1, False), (2, True)], [(9, True)], [(2, True), (9, False)], 'fail']
    shape = shapes[i % len(shapes)]
    recycle = (i // len(shapes)) % 2 == 0
    oracle = ('fail', rr.choice(svc.FAIL_CLASSES)) if shape == 'fail' else ('decide', shape, [(':a', 'k', 0, 'v')] if rr.random() < 0.3 else [], [])
    seq = [('CreateStudy', 1, 1, False, 'SS_ACTIVE', [(1, True)]),
           ('SuggestTrials', 1, 1, 1, 3, ('deliver', [rr.randrange(100) for _ in range(3)], [], [])),
           ('CheckEarlyStop', recycle, 1, 1, 1, oracle),
           ('CheckEarlyStop', recycle, 1, 1, 1, ('decide', [(1, True)], [], [])),
           ('CheckEarlyStop', recycle, 1, 1, 2, ('decide', [(2, False)], [], [])),
           ('SuggestTrials', 1, 1, 2, 1, ('deliver', [rr.randrange(100)], [], [])),
           ('CheckEarlyStop', recycle, 1, 1, 1, ('decide', [], [], [])),
           ('CompleteTrial', 1, 1, 1, [(1, 1)], False),
           ('ListTrials', 1, 1)]
    return seq
  seqgen.i = 0
  return svcrun.service_part(rep, 'C06', r, tier, known, monitors=[svcmon.c06_step, svcrun.wrap(svcmon.c01_step)], backends=('ram', 'sqlmem'),
                             nseq_quick=16, nseq_thorough=48, tag='es', seqgen=seqgen)


def replay(path):
  import json
  print(json.dumps(json.load(open(path)), indent=1)[:4000])
  return 1
