"""C03 — every suggestion lies inside the search space, for every algorithm."""
import json
import math

from harness import common as C
from harness import spaces


def run(tier, seed):
  from harness import boot
  boot.boot()
  import numpy as np
  from vizier import pyvizier as vz
  from vizier import algorithms as vza
  from vizier._src.algorithms.designers import random as random_designer
  from vizier._src.algorithms.designers import quasi_random, grid, cmaes, bocs, harmonica
  from vizier._src.algorithms.designers.eagle_strategy import eagle_strategy
  from vizier._src.algorithms.evolution import nsga2
  from vizier._src.pythia import suggest_default
  from vizier.pyvizier import converters

  rep = C.Report('C03', tier, seed)
  rep.rule = ('generated flat search spaces (1..5 parameters of the four kinds, singleton domains, negative / huge / tiny ranges, LINEAR / LOG / '
              'REVERSE_LOG, defaults) x algorithms random, quasi-random, grid, shuffled grid, eagle, NSGA-II, CMA-ES, BOCS, Harmonica run as '
              'designers in suggest / complete loops (batch sizes 1..4, infeasible and duplicate trials fed back, eagle for 80 trials), the '
              'default / centre seeding, DefaultModelInputConverter / TrialToArrayConverter decoding of arbitrary arrays; every suggestion is '
              'checked by an independent membership oracle; refusals must be exceptions; non-trivial = at least 3 suggestions after feedback')
  rep.trusted = ['harness/translate/scaledispatch.py (Python-ast translator of the dispatch of scaler_from_spec, fail-closed)', 'Coq 8.16.1 kernel + vm_compute', 'equinox stand-in (GP_UCB_PE / GAUSSIAN_PROCESS_BANDIT are never executed)',
                 'harness/spaces.py membership oracle', 'harness/translate/scalers.py and suggdefault.py (Python-ast translators, fail-closed)', 'exact rationals instead of float32/float64 in the model']
  tbroke = None
  try:
    from harness.translate import scalers
    C.write_gen('Gen/Scalers.v', scalers.translate(C.REPO))
  except Exception as e:  # pylint: disable=broad-except
    tbroke = 'translator harness/translate/scalers.py refused converters/core.py: %r' % (e,)
  try:
    from harness.translate import suggdefault
    C.write_gen('Gen/SuggestDefault.v', suggdefault.translate(C.REPO))
  except Exception as e:  # pylint: disable=broad-except
    tbroke = ((tbroke or '') + ' translator harness/translate/suggdefault.py refused pythia/suggest_default.py: %r' % (e,)).strip()
  try:
    from harness.translate import scaledispatch
    C.write_gen('Gen/ScaleDispatchSrc.v', scaledispatch.translate(C.REPO))
  except Exception as e:  # pylint: disable=broad-except
    tbroke = ((tbroke or '') + ' translator harness/translate/scaledispatch.py refused converters/core.py / parameter_config.py: %r' % (e,)).strip()
  C.standard_proof_step(rep, 'C03')
  broke = ((tbroke or '') + ' ' + (rep.proof_broken or '')).strip() or None
  concrete = False
  r = C.rng(seed, 'c03')
  nspace = 25 if tier == 'quick' else 300

  def viol(what, obj):
    nonlocal concrete
    concrete = True
    rep.violation(what, obj)

  def pdict(s):
    return {k: v.value for k, v in s.parameters.items()}

  algos = {
      'random': lambda p, sd: random_designer.RandomDesigner(p.search_space, seed=sd),
      'quasi_random': lambda p, sd: quasi_random.QuasiRandomDesigner(p.search_space, seed=sd),
      'grid': lambda p, sd: grid.GridSearchDesigner(p.search_space),
      'shuffled_grid': lambda p, sd: grid.GridSearchDesigner(p.search_space, shuffle_seed=sd),
      'eagle': lambda p, sd: eagle_strategy.EagleStrategyDesigner(p, seed=sd),
      'nsga2': lambda p, sd: nsga2.NSGA2Designer(p, seed=sd),
  }
  for si in range(nspace):
    problem, meta = spaces.gen_space(r, vz, extreme=(si % 4 == 3))     # every fourth space has ranges beyond float32 / float64
    for name, make in algos.items():
      if tier == 'quick' and r.random() < 0.45 and name != 'eagle':
        continue
      sd = r.randrange(1, 1000)
      try:
        d = make(problem, sd)
      except Exception as e:  # pylint: disable=broad-except
        rep.count('refused_' + name)
        continue
      nsug = 0
      tid = 0
      long_run = name == 'eagle' and r.random() < (0.5 if tier == 'quick' else 0.8)
      rounds = 25 if long_run else r.randrange(2, 6)
      hist = []
      try:
        for rd in range(rounds):
          batch = r.choice([1, 1, 2, 3, 4])
          sug = d.suggest(batch)
          trials = []
          for s in sug:
            nsug += 1
            probs = spaces.check_suggestion(meta, pdict(s))
            if probs:
              viol('%s suggested a point outside the search space: %s' % (name, '; '.join(probs)[:200]),
                   {'algorithm': name, 'seed': sd, 'space': repr(problem.search_space)[:600], 'suggestion': repr(pdict(s)), 'after_trials': tid})
            tid += 1
            t = s.to_trial(tid)
            if r.random() < 0.15:
              t.complete(vz.Measurement(), infeasibility_reason='infeasible')
            else:
              t.complete(vz.Measurement({'m': r.choice([0.0, 1.0, r.random(), -3.0])}))
            trials.append(t)
          if trials and r.random() < 0.2:
            dup = vz.Trial(id=tid + 1, parameters=trials[0].parameters)
            dup.complete(vz.Measurement({'m': 0.5}))
            tid += 1
            trials.append(dup)
          d.update(vza.CompletedTrials(trials), vza.ActiveTrials())
      except Exception as e:  # pylint: disable=broad-except
        rep.count('refused_%s_%s' % (name, type(e).__name__))
      rep.case({'algorithm': name, 'space': {k: v for k, v in meta.items()}, 'suggestions': nsug}, nsug >= 3)
      rep.count('algo_' + name)
    # default / centre seeding
    try:
      dflt = suggest_default.get_default_parameters(problem.search_space)
      probs = spaces.check_suggestion(meta, {k: v.value for k, v in dflt.items()})
      rep.case({'seeding': repr(dflt)[:200]}, True)
      if probs:
        viol('default / centre seeding outside the search space: ' + '; '.join(probs)[:200], {'space': repr(problem.search_space)[:600]})
    except Exception as e:  # pylint: disable=broad-except
      rep.count('refused_seeding_%s' % type(e).__name__)
    # decoding of arbitrary arrays
    for opts in ({}, {'max_discrete_indices': 0}, {'onehot_embed': True}, {'scale': True, 'onehot_embed': True, 'pad_oovs': True}):
      try:
        conv = converters.TrialToArrayConverter.from_study_config(problem, **opts)
      except Exception as e:  # pylint: disable=broad-except
        rep.count('refused_converter_%s' % type(e).__name__)
        continue
      dim = sum(s.num_dimensions for s in conv.output_specs)
      arr = np.array([[r.choice([0.0, 1.0, 0.5, -0.3, 1.7, 1e9, -1e9, 0.999999, 1e-9]) for _ in range(dim)] for _ in range(6)], dtype=float)
      try:
        decoded = conv.to_parameters(arr)
      except Exception as e:  # pylint: disable=broad-except
        rep.count('refused_decode_%s' % type(e).__name__)
        continue
      for row, pd in zip(arr, decoded):
        probs = spaces.check_suggestion(meta, {k: v.value for k, v in pd.items()})
        rep.case({'decode': row.tolist(), 'options': opts}, True)
        if probs:
          viol('TrialToArrayConverter.to_parameters decoded an array outside the search space: ' + '; '.join(probs)[:200],
               {'options': opts, 'array': row.tolist(), 'space': repr(problem.search_space)[:600], 'decoded': repr(pd)})
  # CMA-ES fed a history of identical (duplicate) trials for hundreds of rounds: the search distribution collapses; the designer
  # must keep answering inside the space or refuse, never hand out a suggestion without parameters
  for hi in range(2 if tier == 'quick' else 6):
    problem, meta = spaces.gen_space(r, vz, float_only=True, allow_log=False)
    try:
      d = cmaes.CMAESDesigner(problem, pop_size=r.choice([4, 6]), seed=r.randrange(1000))
      fixed_point = None
      tid = 0
      for rd in range(360):
        sug = d.suggest(d._cma_es_jax.hyper_parameters.pop_size)
        bad_ = [(s, spaces.check_suggestion(meta, pdict(s))) for s in sug]
        bad_ = [(s, pr) for s, pr in bad_ if pr]
        if bad_:
          viol('cmaes, after %d rounds of identical completed trials, suggested outside the search space: %s' % (rd, '; '.join(bad_[0][1])[:200]),
               {'space': repr(problem.search_space)[:400], 'rounds_of_identical_trials': rd, 'suggestion': repr(pdict(bad_[0][0]))})
          break
        if fixed_point is None:
          fixed_point = dict(pdict(sug[0]))
        trials = []
        for s in sug:
          tid += 1
          t = vz.Trial(id=tid, parameters=fixed_point)
          t.complete(vz.Measurement({'m': 1.0}))
          trials.append(t)
        d.update(vza.CompletedTrials(trials), vza.ActiveTrials())
      rep.case({'algorithm': 'cmaes', 'history': 'identical trials', 'space': meta}, True)
      rep.count('cmaes_identical_history')
    except Exception as e:  # pylint: disable=broad-except
      rep.count('refused_cmaes_identical_history_%s' % type(e).__name__)
  # algorithms with restricted spaces
  for si in range(nspace // 3 + 1):
    problem, meta = spaces.gen_space(r, vz, float_only=True, allow_log=False)
    if si % 2 == 0:
      # a parameter with a single value next to ordinary ones (its encoding has zero width)
      problem.search_space.root.add_float_param('fixed', 2.5, 2.5)
      meta = dict(meta, fixed=('f', (2.5, 2.5)))
    try:
      # small populations and enough rounds for several whole populations to be fed back (the evolution state is then updated
      # from encoded trials, not only sampled)
      d = cmaes.CMAESDesigner(problem, pop_size=4, seed=r.randrange(1000)) if si % 3 else cmaes.CMAESDesigner(problem)
      tid = 0
      for rd in range(7 if si % 3 else 3):
        sug = d.suggest(r.choice([1, 3]) if not si % 3 else r.choice([2, 4]))
        trials = []
        for s in sug:
          probs = spaces.check_suggestion(meta, pdict(s))
          if probs:
            viol('cmaes suggested a point outside the search space: ' + '; '.join(probs)[:200], {'space': repr(problem.search_space)[:400], 'suggestion': repr(pdict(s))})
          tid += 1
          t = s.to_trial(tid)
          t.complete(vz.Measurement({'m': r.random()}))
          trials.append(t)
        d.update(vza.CompletedTrials(trials), vza.ActiveTrials())
      rep.case({'algorithm': 'cmaes', 'space': meta}, True)
    except Exception as e:  # pylint: disable=broad-except
      rep.count('refused_cmaes_%s' % type(e).__name__)
    # boolean-only designers: proper boolean spaces, and near misses they must refuse or handle (a boolean with one
    # feasible value, two-valued categoricals that are not booleans, three-valued categoricals); run past the ten random
    # seeding trials so that the model-based phase is reached
    kindb = ['bool', 'bool', 'single_bool', 'two_cat', 'three_cat'][si % 5]
    if kindb == 'bool':
      problem, meta = spaces.gen_space(r, vz, bool_only=True)
    else:
      problem = vz.ProblemStatement()
      meta = {}
      for i in range(r.randrange(1, 4)):
        nm_ = 'b%d' % i
        if kindb == 'single_bool':
          val = r.choice([True, False])
          problem.search_space.root.add_bool_param(nm_, feasible_values=[val])
          meta[nm_] = ('c', [str(val)])
        else:
          vals = r.choice([['adam', 'sgd'], ['relu', 'tanh'], ['0', '1']]) if kindb == 'two_cat' else ['a', 'b', 'c']
          problem.search_space.root.add_categorical_param(nm_, vals)
          meta[nm_] = ('c', sorted(vals))
      problem.metric_information.append(vz.MetricInformation(name='m', goal=vz.ObjectiveMetricGoal.MAXIMIZE))
    for nm, cls in (('bocs', bocs.BOCSDesigner), ('harmonica', harmonica.HarmonicaDesigner)):
      try:
        d = cls(problem)
        tid = 0
        for rd in range(14 if (tier != 'quick' or si % 2 == 0) else 3):
          sug = d.suggest(1)
          trials = []
          for s in sug:
            probs = spaces.check_suggestion(meta, pdict(s))
            if probs:
              viol('%s suggested a point outside the search space: %s' % (nm, '; '.join(probs)[:200]), {'space': repr(problem.search_space)[:500], 'suggestion': repr(pdict(s)), 'after_trials': tid})
            tid += 1
            t = s.to_trial(tid)
            t.complete(vz.Measurement({'m': r.random()}))
            trials.append(t)
          d.update(vza.CompletedTrials(trials), vza.ActiveTrials())
        rep.case({'algorithm': nm, 'space': meta, 'kind': kindb}, True)
      except Exception as e:  # pylint: disable=broad-except
        rep.count('refused_%s_%s_%s' % (nm, kindb, type(e).__name__))
  # ---- the default / centre seed that GP_UCB_PE, GAUSSIAN_PROCESS_BANDIT, BOCS and HARMONICA hand out first in an empty study
  from vizier._src.pythia import suggest_default
  from vizier import pythia as _pythia
  for di in range(40 if tier == 'quick' else 400):
    prob, meta = spaces.gen_space(r, vz, nmax=4)
    rep.count('default_seed_space')
    try:
      dflt = {k: v.value for k, v in suggest_default.get_default_parameters(prob.search_space).items()}
    except Exception as e:  # pylint: disable=broad-except
      viol('get_default_parameters raised %s on a valid search space' % type(e).__name__, {'space': meta, 'error': str(e)[:200]})
      continue
    rep.case({'default_seed': dflt, 'space': meta}, any(k_[0] == 'f' for k_ in meta.values()))
    probs = spaces.check_suggestion(meta, dflt)
    if probs:
      viol('the default / centre seed of an empty study lies outside the search space: ' + '; '.join(probs[:2]), {'space': meta, 'suggested': dflt})
    # through the decorator, as the service's policies use it
    class _P(_pythia.Policy):
      def suggest(self, request):
        return _pythia.SuggestDecision([])
      def early_stop(self, request):
        return _pythia.EarlyStopDecisions()
    pol = _P()
    pol.suggest = suggest_default.seed_with_default(pol.suggest)
    try:
      from vizier.service import pyvizier as _svz
      sc_ = _svz.StudyConfig.from_problem(prob)
      req = _pythia.SuggestRequest(study_descriptor=vz.StudyDescriptor(config=sc_, guid='g', max_trial_id=0), count=1)
      dec = pol.suggest(req)
      for sg in dec.suggestions:
        probs = spaces.check_suggestion(meta, {k: v.value for k, v in sg.parameters.items()})
        if probs:
          viol('seed_with_default: the first suggestion of an empty study lies outside the search space: ' + '; '.join(probs[:2]),
               {'space': meta, 'suggested': {k: v.value for k, v in sg.parameters.items()}})
    except Exception as e:  # pylint: disable=broad-except
      rep.count('seed_with_default_refused_%s' % type(e).__name__)
  # ---- large INTEGER ranges walked to their end: grid search enumerates every value of the range (whatever stride or cache it uses
  # internally), so after (number of values + a few) suggestions the last grid points have been handed out
  for gi, (lo_, hi_) in enumerate([(0, 2000), (-7, 1500), (0, 2503)] if tier == 'quick' else [(0, 2000), (-7, 1500), (0, 2503), (1, 4001), (0, 999), (0, 1000), (5, 3333)]):
    for shuffled in (False, True):
      prob_ = vz.ProblemStatement()
      prob_.search_space.root.add_int_param('n', lo_, hi_)
      prob_.metric_information.append(vz.MetricInformation(name='m', goal=vz.ObjectiveMetricGoal.MAXIMIZE))
      meta_ = {'n': ('i', (lo_, hi_))}
      nm_ = 'shuffled_grid' if shuffled else 'grid'
      try:
        d_ = grid.GridSearchDesigner(prob_.search_space, shuffle_seed=7) if shuffled else grid.GridSearchDesigner(prob_.search_space)
        seen_, bad_ = set(), None
        total_ = hi_ - lo_ + 1
        got_ = 0
        while got_ < total_ + 3:
          for s_ in d_.suggest(r.choice([250, 400, 1000])):
            got_ += 1
            v_ = s_.parameters['n'].value
            seen_.add(v_)
            if bad_ is None and spaces.check_suggestion(meta_, {'n': v_}):
              bad_ = (got_, v_)
        rep.case({'large_integer_range': [lo_, hi_], 'algorithm': nm_, 'suggestions': got_}, True)
        rep.count('large_integer_' + nm_)
        if bad_:
          viol('%s suggested a value outside a large INTEGER range: suggestion %d is n = %r' % (nm_, bad_[0], bad_[1]),
               {'algorithm': nm_, 'bounds': [lo_, hi_], 'suggestion_number': bad_[0], 'value': repr(bad_[1])})
      except Exception as e:  # pylint: disable=broad-except
        rep.count('large_integer_refused_%s_%s' % (nm_, type(e).__name__))
  # ---- through the service: a study deleted and re-created under the same name with ANOTHER search space, one server process
  # (whatever the server remembers of the old study must not shape the suggestions of the new one)
  try:
    from vizier._src.service import clients as _clients, vizier_client as _vc, vizier_service as _vsvc, study_pb2 as _spb, vizier_service_pb2 as _vs
    from vizier.service import pyvizier as _svz2
    hosted = ['GRID_SEARCH', 'QUASI_RANDOM_SEARCH', 'NSGA2', 'EAGLE_STRATEGY', 'SHUFFLED_GRID_SEARCH', 'RANDOM_SEARCH']
    for hi in range(4 if tier == 'quick' else 36):
      algo = hosted[hi % len(hosted)]
      serv_ = _vsvc.VizierServicer(database_url=None)
      history = []
      for gen_ in range(3):
        prob_, meta_ = spaces.gen_space(r, vz, nmax=3, allow_log=False)
        sc_ = _svz2.StudyConfig.from_problem(prob_)
        sc_.algorithm = algo
        st_ = serv_.CreateStudy(_vs.CreateStudyRequest(parent='owners/o9', study=_spb.Study(display_name='same_name', study_spec=sc_.to_proto())))
        study_ = _clients.Study(_vc.VizierClient(st_.name, 'w0', serv_))
        history.append(meta_)
        rep.case({'recreated_study': algo, 'generation': gen_, 'space': meta_}, gen_ > 0)
        rep.count('service_recreated_%s' % algo)
        try:
          for round_ in range(2):
            for t_ in study_.suggest(count=2):
              got_ = {k: v.value for k, v in t_.materialize().parameters.items()}
              probs = spaces.check_suggestion(meta_, got_)
              if probs:
                viol('%s in the service: a suggestion for a study re-created under the same name lies outside its search space: %s' % (algo, '; '.join(probs[:2])),
                     {'algorithm': algo, 'spaces_under_this_name_so_far': history, 'suggested': got_})
              t_.complete(vz.Measurement({'m': float(r.randrange(5))}))
        except Exception as e:  # pylint: disable=broad-except
          rep.count('service_refused_%s_%s' % (algo, type(e).__name__))
        study_.delete()
  except ImportError:
    pass
  # ---- a declared default value outside the parameter's domain: refused somewhere (factory or seeding), never suggested
  for kind_, mk_, nm_ in [('double', lambda root: root.add_float_param('x', 0.0, 1.0, default_value=5.0), 'x'),
                          ('double_log', lambda root: root.add_float_param('x', 0.5, 2.0, default_value=0.25, scale_type=vz.ScaleType.LOG), 'x'),
                          ('int', lambda root: root.add_int_param('i', 1, 3, default_value=7), 'i'),
                          ('discrete', lambda root: root.add_discrete_param('d', [1.0, 2.0], default_value=9.0), 'd'),
                          ('categorical', lambda root: root.add_categorical_param('c', ['a', 'b'], default_value='zzz'), 'c')]:
    p_ = vz.ProblemStatement()
    rep.case({'default_outside_domain': kind_}, True)
    rep.count('default_outside_' + kind_)
    try:
      mk_(p_.search_space.root)
      dflt = {k: v.value for k, v in suggest_default.get_default_parameters(p_.search_space).items()}
    except (ValueError, TypeError):
      continue      # refused: fine
    except Exception as e:  # pylint: disable=broad-except
      viol('a default value outside the domain made the default seeding raise %s (promised: ValueError)' % type(e).__name__, {'kind': kind_})
      continue
    pc_ = p_.search_space.get(nm_)
    if not pc_.contains(dflt[nm_]):
      viol('a declared default value outside the domain is handed out as the first suggestion of an empty study',
           {'kind': kind_, 'suggested': dflt, 'parameter': repr(pc_)[:200]})
  b2, c2 = model_part(rep, tier, r)
  broke = ((broke or '') + ' ' + (b2 or '')).strip() or None
  from harness import convmodel
  b3, _ = convmodel.default_cases(rep, tier, r)
  broke = ((broke or '') + ' ' + (b3 or '')).strip() or None
  concrete = concrete or c2 or getattr(rep, 'default_seed_concrete', False)
  C.settle_broken(rep, broke, concrete)
  return rep.finish()


def model_part(rep, tier, r):
  """Correspondence of DefaultModelInputConverter.to_parameter_values with Model/Conv.v (added with the model)."""
  try:
    from harness import convmodel
  except ImportError:
    return None, False
  return convmodel.c03_cases(rep, tier, r)


def replay(path):
  print(json.dumps(json.load(open(path)), indent=1)[:4000])
  return 1
