"""C15 — numeric encoding of trials is invertible and always decodes into the space."""
import json
import math

from harness import common as C
from harness import spaces, convmodel


class ArrayConv:
  """DefaultTrialConverter over every parameter with the given DefaultModelInputConverter options, seen as one array."""

  def __init__(self, core, problem, opts):
    self.core = core
    self.impl = core.DefaultTrialConverter(
        [core.DefaultModelInputConverter(p, scale=opts['scale'], max_discrete_indices=opts['max_discrete_indices'],
                                         onehot_embed=opts['onehot_embed'], float_dtype=opts['dtype'], pad_oovs=opts['pad_oovs'])
         for p in problem.search_space.root.select_all().merge()],
        [core.DefaultModelOutputConverter(m, dtype=opts['dtype']) for m in problem.metric_information])

  @property
  def output_specs(self):
    return [c.output_spec for c in self.impl.parameter_converters]

  def to_features(self, trials):
    return self.core.dict_to_array(self.impl.to_features(trials))

  def to_parameters(self, arr):
    fmt = self.core.DictOf2DArrays(self.impl.to_features([]))
    return self.impl.to_parameters(fmt.dict_like(arr))


def run(tier, seed):
  from harness import boot
  boot.boot()
  import numpy as np
  from harness.translate import scalers
  from vizier import pyvizier as vz
  from vizier.pyvizier import converters
  from vizier.pyvizier.converters import core

  rep = C.Report('C15', tier, seed)
  rep.rule = ('generated flat search spaces x converter options (scale on/off, one-hot on/off, oov padding on/off, continuification '
              'threshold 0/10/inf, float32/float64): feasible points encoded and decoded through TrialToArrayConverter, scaled features '
              'checked for range and orientation, one-hot blocks for exactly one active entry, arbitrary real arrays decoded and checked '
              'for membership, objective labels converted and back under both sign conventions, padded arrays un-padded; the live scaler '
              'compared with the translated formulas; DefaultModelInputConverter decoding compared with the model; '
              'non-trivial = scaled or one-hot configuration or out-of-range array')
  rep.trusted = ['harness/translate/scaledispatch.py (Python-ast translator of the dispatch of scaler_from_spec and the scale mapping of continuify, fail-closed)', 'Coq 8.16.1 kernel + vm_compute', 'standard-library real-number axioms (see assumptions)',
                 'harness/translate/scalers.py (Python-ast translator, fail-closed)', 'exact rationals / reals instead of float32/float64',
                 'harness/spaces.py membership oracle']
  broke = None
  try:
    C.write_gen('Gen/Scalers.v', scalers.translate(C.REPO))
  except Exception as e:  # pylint: disable=broad-except
    broke = 'translator harness/translate/scalers.py refused converters/core.py: %r' % (e,)
  try:
    from harness.translate import scaledispatch
    C.write_gen('Gen/ScaleDispatchSrc.v', scaledispatch.translate(C.REPO))
  except Exception as e:  # pylint: disable=broad-except
    broke = ((broke or '') + ' translator harness/translate/scaledispatch.py refused converters/core.py / parameter_config.py: %r' % (e,)).strip()
  C.standard_proof_step(rep, 'C15')
  broke = ((broke or '') + ' ' + (rep.proof_broken or '')).strip() or None
  concrete = False
  r = C.rng(seed, 'c15')
  nspace = 40 if tier == 'quick' else 500

  def viol(what, obj):
    nonlocal concrete
    concrete = True
    rep.violation(what, obj)

  def sample_point(meta):
    out = {}
    for nm, (kind, dom) in meta.items():
      if kind == 'f':
        out[nm] = r.choice([dom[0], dom[1], dom[0] + (dom[1] - dom[0]) * r.random()])
      elif kind == 'i':
        out[nm] = r.randrange(dom[0], dom[1] + 1)
      else:
        out[nm] = r.choice(dom)
    return out

  for si in range(nspace):
    problem, meta = spaces.gen_space(r, vz)
    opts = {'scale': r.random() < 0.7, 'onehot_embed': r.random() < 0.6, 'pad_oovs': r.random() < 0.6,
            'max_discrete_indices': r.choice([0, 10, 10, np.inf]), 'dtype': r.choice([np.float32, np.float64, np.float64])}
    if si % 2 == 0:
      # INTEGER / DISCRETE parameters that carry a scale type: with more feasible values than max_discrete_indices they become
      # continuous features and must be scaled with the formula of their scale type
      sc_ = r.choice(['LINEAR', 'LOG', 'REVERSE_LOG', 'REVERSE_LOG'])
      if r.random() < 0.5:
        lo_i = r.choice([1, 2, 10])
        hi_i = lo_i + r.choice([11, 15, 40])
        problem.search_space.root.add_int_param('pis', lo_i, hi_i, scale_type=getattr(vz.ScaleType, sc_))
        meta['pis'] = ('i', (lo_i, hi_i))
      else:
        vals_ = sorted(r.sample([0.5, 1.0, 1.5, 2.0, 3.0, 4.0, 6.0, 8.0, 12.0, 16.0, 24.0, 32.0, 48.0, 64.0], r.choice([3, 11, 12])))
        problem.search_space.root.add_discrete_param('pds', vals_, scale_type=getattr(vz.ScaleType, sc_))
        meta['pds'] = ('d', vals_)
      rep.count('space_with_scaled_integer_or_discrete_%s' % sc_)
    if si % 5 == 2:
      # a log-scaled parameter whose distinct bounds have the same logarithm in the feature dtype (scaling must not divide by 0)
      lo_, hi_, dt_ = r.choice([(1000.0, 1000.0001, np.float32), (1e15, 1e15 + 1.0, np.float64), (1e15, 1e15 + 2.0, np.float64)])
      problem.search_space.root.add_float_param('pnear', lo_, hi_, scale_type=r.choice([vz.ScaleType.LOG, vz.ScaleType.REVERSE_LOG]))
      meta['pnear'] = ('f', (lo_, hi_))
      opts['scale'], opts['dtype'] = True, dt_
      rep.count('space_with_near_degenerate_log_range')
    try:
      if opts['onehot_embed'] and r.random() < 0.5:
        conv = converters.TrialToArrayConverter.from_study_config(
            problem, scale=opts['scale'], pad_oovs=opts['pad_oovs'], max_discrete_indices=opts['max_discrete_indices'], dtype=opts['dtype'])
        rep.count('via_TrialToArrayConverter')
      else:
        conv = ArrayConv(core, problem, opts)
        rep.count('via_DefaultTrialConverter')
    except Exception as e:  # pylint: disable=broad-except
      rep.count('refused_converter_%s' % type(e).__name__)
      continue
    pts = [sample_point(meta) for _ in range(5)]
    trials = [vz.Trial(parameters=p) for p in pts]
    try:
      feats = np.asarray(conv.to_features(trials))
      back = conv.to_parameters(feats)
    except Exception as e:  # pylint: disable=broad-except
      viol('encoding / decoding points of the search space raised %s' % type(e).__name__,
           {'space': meta, 'options': {k: str(v) for k, v in opts.items()}, 'points': pts, 'error': str(e)[:200]})
      continue
    nontriv = opts['scale'] or opts['onehot_embed']
    rep.case({'space': meta, 'options': {k: str(v) for k, v in opts.items()}}, nontriv)
    rep.count('opts_scale_%s_onehot_%s' % (opts['scale'], opts['onehot_embed']))
    eps = float(np.finfo(opts['dtype']).eps)

    def feature_tol(nm):
      # rounding a value to the feature dtype moves it by eps*|x|; the scaler amplifies that by its steepest slope
      # (1/(hi-lo) linear, 1/(lo*ln(hi/lo)) for the two log scalers).  Anything beyond is not floating-point accuracy.
      lo, hi = meta[nm][1]
      if lo == hi:
        return 1e-6
      sc = problem.search_space.get(nm).scale_type
      if sc is not None and sc.name in ('LOG', 'REVERSE_LOG') and lo > 0:
        slope = 1.0 / (lo * math.log(hi / lo))
      else:
        slope = 1.0 / (hi - lo)
      return 16 * eps * (max(abs(lo), abs(hi)) * slope + 1.0)

    def value_tol(nm):
      lo, hi = meta[nm][1]
      sc = problem.search_space.get(nm).scale_type
      stretch = 1.0 + (math.log(hi / lo) if (sc is not None and sc.name in ('LOG', 'REVERSE_LOG') and 0 < lo < hi) else 0.0)
      return 16 * eps * max(abs(lo), abs(hi), 1e-300) * stretch
    for p, b in zip(pts, back):
      bd = {k: v.value for k, v in b.items()}
      bad = []
      if set(bd) != set(p):
        bad.append('keys %s' % sorted(bd))
      for k, v in p.items():
        if k not in bd:
          continue
        kind = meta[k][0]
        if kind == 'f':
          if abs(float(bd[k]) - v) > value_tol(k):
            bad.append('%s: %r -> %r' % (k, v, bd[k]))
        elif kind == 'c':
          if bd[k] != v:
            bad.append('%s: %r -> %r' % (k, v, bd[k]))
        elif float(bd[k]) != float(v):
          # float32 may merge two feasible values that differ by less than one ulp: not generated here
          bad.append('%s: %r -> %r' % (k, v, bd[k]))
      if bad:
        viol('decode(encode(point)) differs from the point: ' + '; '.join(bad)[:200], {'space': repr(problem.search_space)[:500], 'options': {k: str(v) for k, v in opts.items()}, 'point': repr(p)})
    # scaled features in the unit interval, one-hot blocks
    col = 0
    for spec in conv.output_specs:
      block = feats[:, col:col + spec.num_dimensions]
      col += spec.num_dimensions
      if spec.type.name == 'ONEHOT_EMBEDDING':
        for row in block:
          if sorted(row.tolist()) != [0.0] * (len(row) - 1) + [1.0]:
            viol('one-hot block does not have exactly one active entry', {'row': row.tolist(), 'space': repr(problem.search_space)[:300]})
      elif spec.type.name == 'CONTINUOUS' and opts['scale']:
        ft = feature_tol(spec.name) if meta[spec.name][0] == 'f' else 1e-6
        if np.any(block < -ft) or np.any(block > 1 + ft):
          viol('scaled feature outside the unit interval', {'feature': spec.name, 'values': block.tolist(), 'space': repr(problem.search_space)[:300]})
    # orientation: scaled feature is increasing in the parameter value
    if opts['scale']:
      for nm, (kind, dom) in meta.items():
        if kind == 'f' and dom[0] < dom[1]:
          base = sample_point(meta)
          vals = sorted({dom[0], dom[1], dom[0] + (dom[1] - dom[0]) * 0.25, dom[0] + (dom[1] - dom[0]) * 0.8})
          ts = [vz.Trial(parameters=dict(base, **{nm: v})) for v in vals]
          f = np.asarray(conv.to_features(ts))
          idx = 0
          for spec in conv.output_specs:
            if spec.name == nm:
              colv = f[:, idx]
              ft = feature_tol(nm)
              if not all(a <= b + ft for a, b in zip(colv, colv[1:])) or abs(colv[0]) > ft or abs(colv[-1] - 1) > ft:
                viol('scaled feature is not increasing from 0 to 1 over the parameter range', {'parameter': nm, 'range': dom, 'values': vals, 'features': colv.tolist()})
            idx += spec.num_dimensions
    # the documented formula of each scale type, at interior points, for every parameter that is encoded as one continuous feature
    # (DOUBLE, and INTEGER / DISCRETE with more values than max_discrete_indices)
    if opts['scale']:
      for nm, (kind, dom) in meta.items():
        if kind not in ('f', 'i', 'd'):
          continue
        lo, hi = (float(dom[0]), float(dom[1])) if kind in ('f', 'i') else (float(min(dom)), float(max(dom)))
        if not lo < hi:
          continue
        sct = problem.search_space.get(nm).scale_type
        scn = 'LINEAR' if sct is None else sct.name
        if scn not in ('LINEAR', 'LOG', 'REVERSE_LOG') or (scn != 'LINEAR' and lo <= 0):
          continue
        if scn != 'LINEAR' and not math.log(hi) - math.log(lo) > 1e-3:
          continue    # nearly degenerate log range: covered by the round-trip and unit-interval checks only
        idx, found = 0, None
        for spec in conv.output_specs:
          if spec.name == nm and spec.type.name == 'CONTINUOUS' and spec.num_dimensions == 1:
            found = idx
          idx += spec.num_dimensions
        if found is None:
          continue
        if kind == 'f':
          xs = [lo + (hi - lo) * q for q in (0.0, 0.25, 0.5, 0.8, 1.0)]
        elif kind == 'i':
          xs = sorted({int(lo), int(hi), int(lo + (hi - lo) * 0.3), int(lo + (hi - lo) * 0.7)})
        else:
          xs = list(dom)
        base = sample_point(meta)
        f = np.asarray(conv.to_features([vz.Trial(parameters=dict(base, **{nm: v})) for v in xs]), dtype=float)[:, found]
        def formula(x):
          if scn == 'LINEAR':
            return (x - lo) / (hi - lo)
          if scn == 'LOG':
            return (math.log(x) - math.log(lo)) / (math.log(hi) - math.log(lo))
          return 1.0 - (math.log(lo + hi - x) - math.log(lo)) / (math.log(hi) - math.log(lo))
        want = [formula(float(x)) for x in xs]
        slope = (1.0 / (lo * math.log(hi / lo))) if scn != 'LINEAR' else 1.0 / (hi - lo)
        tol = 64 * eps * (max(abs(lo), abs(hi)) * slope + 1.0)
        rep.count('formula_%s_%s' % (scn, kind))
        if any(abs(a - b) > tol for a, b in zip(f.tolist(), want)):
          viol('scaled feature differs from the %s formula of the parameter\'s scale type' % scn,
               {'parameter': nm, 'kind': kind, 'scale_type': scn, 'range': [lo, hi], 'values': xs, 'features': f.tolist(), 'formula': want,
                'options': {k: str(v) for k, v in opts.items()}})
    # arbitrary arrays decode into the space
    dim = sum(s.num_dimensions for s in conv.output_specs)
    def column_values(spec):
      if spec.type.name == 'DISCRETE':
        # an integer index feature, not a real-valued one: index len(feasible) is the documented code for "missing"
        kind, dom = meta[spec.name]
        n = dom[1] - dom[0] + 1 if kind == 'i' else len(dom)
        return [float(r.randrange(n))]
      return [r.choice([0.0, 1.0, 0.5, -0.3, 1.7, 1e9, -1e9, 0.999999, 1e-9, 0.25, math.inf, -math.inf, 1.7e308, -1.7e308, 3e38]) for _ in range(spec.num_dimensions)]
    arr = np.array([sum((column_values(s) for s in conv.output_specs), []) for _ in range(6)], dtype=float)
    try:
      decoded = conv.to_parameters(arr)
      for row, pd in zip(arr, decoded):
        probs = spaces.check_suggestion(meta, {k: v.value for k, v in pd.items()})
        rep.case({'decode': row.tolist()}, True)
        if probs:
          viol('an arbitrary real array decoded outside the search space: ' + '; '.join(probs)[:200],
               {'options': {k: str(v) for k, v in opts.items()}, 'array': row.tolist(), 'space': repr(problem.search_space)[:500], 'decoded': repr(pd)})
    except Exception as e:  # pylint: disable=broad-except
      rep.count('refused_decode_%s' % type(e).__name__)
  # ---- labels
  for i in range(nspace):
    goal = r.choice(list(vz.ObjectiveMetricGoal))
    flip = r.random() < 0.5
    # objective metrics and safety metrics (with a threshold that the model form is shifted by, or not)
    thr = None if i % 3 else r.choice([2.0, -1.5, 0.0, 10.0])
    shift = r.random() < 0.7
    mi = vz.MetricInformation(name='m', goal=goal) if thr is None else vz.MetricInformation(name='m', goal=goal, safety_threshold=thr)
    oc = core.DefaultModelOutputConverter(mi, flip_sign_for_minimization_metrics=flip, dtype=np.float64) if thr is None else \
        core.DefaultModelOutputConverter(mi, flip_sign_for_minimization_metrics=flip, dtype=np.float64, shift_safe_metrics=shift)
    vals = [r.choice([0.0, 1.5, -2.25, 1e6, 3.0]) for _ in range(4)]
    labels = oc.convert([vz.Measurement({'m': v}) for v in vals])
    back = [m.value for m in oc.to_metrics(labels)]
    rep.case({'labels': vals, 'goal': goal.name, 'flip': flip}, flip and goal.name == 'MINIMIZE')
    if back != vals:
      viol('%s labels do not round-trip through convert / to_metrics' % ('objective' if thr is None else 'safety-metric'),
           {'values': vals, 'goal': goal.name, 'flip': flip, 'safety_threshold': thr, 'shift_safe_metrics': shift if thr is not None else None, 'back': back})
    # the same label array in the shapes callers use - (n, 1), (n,), a column of a label matrix - decoded twice: the second
    # decoding gives the same metrics and the array is left as it was (safety metrics with a threshold included)
    for shape_ in ('n1', 'n', 'column'):
      arr_ = {'n1': lambda: labels.copy(), 'n': lambda: labels.flatten().copy(),
              'column': lambda: np.stack([labels.flatten(), labels.flatten() * 2.0], axis=1)[:, 0]}[shape_]()
      before_ = np.array(arr_, copy=True)
      try:
        first_ = [m.value for m in oc.to_metrics(arr_)]
        second_ = [m.value for m in oc.to_metrics(arr_)]
      except Exception as e:  # pylint: disable=broad-except
        rep.count('to_metrics_refused_%s_%s' % (shape_, type(e).__name__))
        continue
      if first_ != vals or second_ != vals or not np.array_equal(before_, np.asarray(arr_)):
        viol('decoding a label array (shape %s) does not return the metric values both times or modifies the array' % shape_,
             {'values': vals, 'goal': goal.name, 'flip': flip, 'first': first_, 'second': second_, 'array_before': before_.tolist(),
              'array_after': np.asarray(arr_).tolist()})
        break
    want = [(-1.0 if (flip and goal.name == 'MINIMIZE') else 1.0) * (v - (thr if (thr is not None and shift) else 0.0)) for v in vals]
    if labels.flatten().tolist() != want:
      viol('label sign convention differs from the documented one', {'values': vals, 'goal': goal.name, 'flip': flip, 'labels': labels.flatten().tolist()})
  # ---- padding
  try:
    from vizier.pyvizier.converters import padding
    from vizier._src.jax import types as vt
    for i in range(nspace // 2):
      n, d = r.randrange(1, 23), r.randrange(1, 14)
      a = np.arange(n * d, dtype=float).reshape(n, d) + 1.0
      for pt in (padding.PaddingType.NONE, padding.PaddingType.MULTIPLES_OF_10, padding.PaddingType.POWERS_OF_2):
        sched = padding.PaddingSchedule(num_trials=pt, num_features=pt)
        pa = sched.pad_features(a)
        un = np.asarray(pa.unpad())
        rep.case({'pad': [n, d], 'schedule': pt.name, 'padded_shape': list(np.asarray(pa.padded_array).shape)}, pt.name != 'NONE')
        if un.shape != a.shape or not np.array_equal(un, a):
          viol('unpad(pad(array)) differs from the array', {'shape': [n, d], 'schedule': pt.name})
        ps = np.asarray(pa.padded_array).shape
        if ps[0] < n or ps[1] < d:
          viol('padded array is smaller than the array', {'shape': [n, d], 'padded': list(ps)})
  except Exception as e:  # pylint: disable=broad-except
    rep.notes.append('padding not exercised: %r' % (e,))
  # ---- live scalers vs translated formulas
  import ast
  src = open(C.REPO + '/vizier/pyvizier/converters/core.py').read()
  for i in range(nspace):
    sc = r.choice(['LOG', 'REVERSE_LOG', 'LINEAR'])
    lo, hi = r.choice([(1e-4, 1e2), (0.1, 0.7), (1.0, 8.0), (0.5, 2.5), (-3.0, 5.0) if sc == 'LINEAR' else (2.0, 3.0)])
    spec = core.NumpyArraySpec(core.NumpyArraySpecType.CONTINUOUS, np.float64, bounds=(lo, hi), num_dimensions=1, name='p', num_oovs=0,
                               scale=getattr(vz.ScaleType, sc))
    bij = core.ModelInputArrayBijector.scaler_from_spec(spec)
    xs = np.array([lo, hi, lo + (hi - lo) * r.random(), lo + (hi - lo) * 0.5])
    ys = bij.forward_fn(xs)
    if sc == 'LOG':
      low, denom = math.log(lo), math.log(hi) - math.log(lo)
      want = [(math.log(x) - low) / denom for x in xs]
    elif sc == 'REVERSE_LOG':
      low, denom, rs = math.log(lo), math.log(hi) - math.log(lo), lo + hi
      want = [1.0 - (math.log(rs - x) - low) / denom for x in xs]
    else:
      want = [(x - lo) / (hi - lo) for x in xs]
    rep.case({'scaler': sc, 'bounds': [lo, hi]}, True)
    if any(abs(a - b) > 1e-9 for a, b in zip(ys.tolist(), want)):
      broke = (broke or '') + ' the live %s scaler disagrees with the translated formula on bounds %r;' % (sc, (lo, hi))
    back = bij.backward_fn(ys)
    if any(abs(a - b) > 1e-9 * max(1.0, abs(b)) for a, b in zip(back.tolist(), xs.tolist())):
      viol('unscale(scale(x)) != x for the %s scaler' % sc, {'bounds': [lo, hi], 'x': xs.tolist(), 'back': back.tolist()})
    if ys[0] > 1e-9 or abs(ys[1] - 1) > 1e-9 or np.any(ys < -1e-9) or np.any(ys > 1 + 1e-9):
      viol('%s scaling does not map the bounds to 0 and 1 / leaves the unit interval' % sc, {'bounds': [lo, hi], 'scaled': ys.tolist()})
  b2, c2 = convmodel.decode_cases(rep, tier, r, 'C15')
  broke = ((broke or '') + ' ' + (b2 or '')).strip() or None
  C.settle_broken(rep, broke, concrete)
  return rep.finish()


def replay(path):
  print(json.dumps(json.load(open(path)), indent=1)[:4000])
  return 1
