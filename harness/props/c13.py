"""C13 — a restarted stateful algorithm continues exactly like one that never stopped."""
import copy
import json
import math
import os
import shutil
import tempfile

from harness import common as C
from harness import spaces
from harness.common import gN, gZ, gbool, glist, gopt, gpair, gstr, gnat

HDR = 'From VZ Require Import Base.Prelude Model.Restart Gen.Serial Model.RestartEq.\n'


def objective(params):
  s = 0.0
  for _, v in sorted(params.items()):
    v = v.value
    s += (sum(map(ord, v)) % 7) if isinstance(v, str) else float(v)
  return s


FRESH_SEED_FREE = ('shuffled_grid', 'quasi_random', 'eagle')


def run(tier, seed):
  from harness import boot
  boot.boot()
  import numpy as np
  from harness.translate import serial
  from vizier import pyvizier as vz
  from vizier import algorithms as vza
  from vizier import pythia
  from vizier._src.algorithms.designers import grid, quasi_random, cmaes
  from vizier._src.algorithms.designers.eagle_strategy import eagle_strategy, eagle_strategy_utils, serialization
  from vizier._src.algorithms.evolution import nsga2
  from vizier._src.algorithms.policies import designer_policy as dp
  from vizier._src.pythia import local_policy_supporters
  from evojax.algo import cma_jax

  rep = C.Report('C13', tier, seed)
  rep.rule = ('designers grid / shuffled grid / quasi-random / eagle / NSGA-II / CMA-ES on generated flat spaces x seeds x batch-size sequences: '
              'run A keeps one instance alive, run B inserts dump -> fresh instance -> load before every step, before one step, before a random '
              'subset; trials are completed out of order, some infeasible; the same through PartiallySerializableDesignerPolicy with the state '
              'in real study metadata, and for grid / shuffled grid / quasi-random through the servicer on a SQLite file with a new servicer '
              'object per restart; suggestions (NSGA-II: population, phase, counter on the same trial history) must be identical; grid: every '
              'point exactly once per period; model correspondence for str/int, grid indexing, pool order, phase counter, CMA queue; '
              'non-trivial = at least one restart after state has changed')
  rep.trusted = ['harness/translate/gridstate.py (Python-ast translator of GridSearchDesigner.dump / load, fail-closed)', 'Coq 8.16.1 kernel + vm_compute', 'harness/translate/serial.py (Python-ast translator, fail-closed; the list of members mutated '
                 'through calls is hand-written there)', 'scipy Halton / numpy Generator / random.Random are deterministic functions of their '
                 'seed and position (checked by the differential runs, assumed in the model as a function)', 'equinox stand-in']
  broke = None
  try:
    C.write_gen('Gen/Serial.v', serial.translate(C.REPO))
  except Exception as e:  # pylint: disable=broad-except
    broke = 'translator harness/translate/serial.py refused the designer sources: %r' % (e,)
  try:
    from harness.translate import gridstate
    C.write_gen('Gen/GridSrc.v', gridstate.translate(C.REPO))
  except Exception as e:  # pylint: disable=broad-except
    broke = ((broke or '') + ' translator harness/translate/gridstate.py refused designers/grid.py: %r' % (e,)).strip()
  C.standard_proof_step(rep, 'C13')
  broke = ((broke or '') + ' ' + (rep.proof_broken or '')).strip() or None
  concrete = False
  r = C.rng(seed, 'c13')
  quick = tier == 'quick'

  def viol(what, obj):
    nonlocal concrete
    concrete = True
    rep.violation(what, obj)

  def sugg_key(s):
    return {k: v.value for k, v in s.parameters.items()}

  # ---------------------------------------------------------------- designer level
  def run_designer(factory, prob, steps, restart_at, order_seed, infeas_p, observe=None, history=None, fresh=None):
    """Returns (suggestions per step, observations per step, trials fed per step).  history: feed these trials instead."""
    import random as _random
    d = factory(prob)
    rr = _random.Random(order_seed)
    out, obs, fed = [], [], []
    tid = 0
    for si, count in enumerate(steps):
      if si in restart_at:
        md = d.dump()
        d = (fresh or factory)(prob)
        d.load(md)
      if observe:
        obs.append(observe(d))
      sugg = list(d.suggest(count))
      out.append([sugg_key(s) for s in sugg])
      if history is not None:
        trials = history[si]
      else:
        trials = []
        for s in sugg:
          tid += 1
          t = s.to_trial(tid)
          if rr.random() < infeas_p:
            t.complete(vz.Measurement(), infeasibility_reason='bad')
          else:
            t.complete(vz.Measurement({'m': objective(s.parameters)}))
          trials.append(t)
        rr.shuffle(trials)
      fed.append(trials)
      d.update(vza.CompletedTrials(trials), vza.ActiveTrials())
    return out, obs, fed, d

  def restart_sets(n):
    sets = [set(range(n)), {r.randrange(n)}, {n - 1}, set(r.sample(range(n), max(1, n // 3)))]
    return sets if quick else sets + [{r.randrange(n)} for _ in range(3)] + [set(r.sample(range(n), max(1, n // 2)))]

  nspace = 8 if quick else 60
  for si in range(nspace):
    prob, meta = spaces.gen_space(r, vz)
    sd = r.randrange(10000)
    if si % 3 == 0:
      sd = (si // 3) % 2     # the smallest seeds, 0 included
    mkfacts = lambda sd: {
        'grid': lambda p: grid.GridSearchDesigner(p.search_space),
        'shuffled_grid': lambda p, sd=sd: grid.GridSearchDesigner(p.search_space, shuffle_seed=sd),
        'quasi_random': lambda p, sd=sd: quasi_random.QuasiRandomDesigner(p.search_space, seed=sd),
        'eagle': lambda p, sd=sd: eagle_strategy.EagleStrategyDesigner(p, seed=sd),
    }
    facts = mkfacts(sd)
    # the fresh instance a host builds before loading the state need not be built with the seed of the stored one (the
    # hosted policies build it with no seed or a time-based one): the stored state decides
    other_sd = r.choice([None, sd + 1, 12345])
    fresh_facts = mkfacts(other_sd) if si % 2 == 0 else facts
    for name, f in facts.items():
      fresh_f = fresh_facts[name] if name in FRESH_SEED_FREE else f
      n = r.choice([6, 12]) if name != 'eagle' else r.choice([10, 25])
      steps = [r.randrange(1, 5) for _ in range(n)]
      infeas = r.choice([0, 0, 0.25])
      oseed = r.randrange(1000)
      def dump_of(d_):
        # the state a designer would persist now: also public behaviour, and the earliest place where a component that was not
        # restored shows (long before it changes a suggestion)
        md_ = d_.dump()
        return sorted((ns_.encode(), k_, v_ if isinstance(v_, str) else repr(v_)) for ns_, k_, v_ in md_.all_items() if 'timestamp' not in k_)
      try:
        live, live_dumps, _, _ = run_designer(f, prob, steps, set(), oseed, infeas, observe=dump_of)
      except Exception as e:  # pylint: disable=broad-except
        rep.count('refused_%s_%s' % (name, type(e).__name__))
        continue
      for rs in restart_sets(n):
        rep.case({'designer': name, 'space': meta, 'steps': steps, 'restarts': sorted(rs), 'seed': sd}, True)
        rep.count('designer_' + name)
        try:
          got, got_dumps, _, _ = run_designer(f, prob, steps, rs, oseed, infeas, observe=dump_of, fresh=fresh_f)
          rep.count('fresh_instance_other_seed' if fresh_f is not f else 'fresh_instance_same_seed')
        except Exception as e:  # pylint: disable=broad-except
          viol('%s: the restarted run raised %s where the live run did not' % (name, type(e).__name__),
               {'designer': name, 'space': repr(prob.search_space)[:600], 'steps': steps, 'restarts': sorted(rs), 'seed': sd, 'error': repr(e)[:300]})
          break
        if got != live:
          first = [i for i in range(n) if got[i] != live[i]][0]
          viol('%s: a restarted instance makes different suggestions than the one kept alive' % name,
               {'designer': name, 'space': repr(prob.search_space)[:600], 'steps': steps, 'restarts': sorted(rs), 'seed': sd,
                'order_seed': oseed, 'infeasible_p': infeas, 'first_differing_step': first, 'live': live[first], 'restarted': got[first]})
          break
        if got_dumps != live_dumps:
          first = [i for i in range(n) if got_dumps[i] != live_dumps[i]][0]
          diff_ = [x_ for x_ in got_dumps[first] if x_ not in live_dumps[first]][:2] + [x_ for x_ in live_dumps[first] if x_ not in got_dumps[first]][:2]
          viol('%s: after a restart the state the designer would persist differs from that of the instance kept alive (a component was not restored)' % name,
               {'designer': name, 'space': repr(prob.search_space)[:600], 'steps': steps, 'restarts': sorted(rs), 'seed': sd,
                'first_differing_step': first, 'differing_entries': [[e_[0], e_[1], e_[2][:160]] for e_ in diff_]})
          break

  # ---------------------------------------------------------------- NSGA-II: population, phase, counter on the same history
  evo_cases, evo_objs = [], []
  for si in range(6 if quick else 40):
    prob, meta = spaces.gen_space(r, vz)
    psize, fsa, sd = r.choice([3, 4, 6]), r.choice([4, 6, 9]), r.randrange(1000)
    f = lambda p, psize=psize, fsa=fsa, sd=sd: nsga2.NSGA2Designer(p, population_size=psize, first_survival_after=fsa, seed=sd)
    n = r.choice([6, 10])
    steps = [r.randrange(1, 5) for _ in range(n)]
    sample_calls = []

    def observe(d):
      pop = d.population
      return {'seen': int(d._num_trials_seen), 'sampling': bool(d._num_trials_seen < d._first_survival_after),
              'pop': [np.asarray(getattr(pop, a)).tolist() for a in ('xs', 'ys', 'ages', 'generations', 'ids')],
              # the counter that numbers new offspring (a counter of the designer's state, kept by its sampler)
              'sampled': int(getattr(d._sampler, '_num_samples', -1))}
    try:
      live, lobs, fed, _ = run_designer(f, prob, steps, set(), 0, 0.0, observe=observe)
    except Exception as e:  # pylint: disable=broad-except
      rep.count('refused_nsga2_%s' % type(e).__name__)
      continue
    for rs in restart_sets(n)[:3]:
      rep.case({'designer': 'nsga2', 'steps': steps, 'restarts': sorted(rs), 'first_survival_after': fsa}, True)
      rep.count('designer_nsga2')
      try:
        _, gobs, _, _ = run_designer(f, prob, steps, rs, 0, 0.0, observe=observe, history=fed)
      except Exception as e:  # pylint: disable=broad-except
        viol('nsga2: the restarted run raised %s' % type(e).__name__, {'steps': steps, 'restarts': sorted(rs), 'error': repr(e)[:300]})
        break
      evo_cases.append('(%s, %s, %s)' % (gN(fsa), glist(list(zip([i in rs for i in range(n)], [len(t) for t in fed])), lambda x: gpair(gbool(x[0]), gnat(x[1]))),
                                       glist(gobs, lambda o: gpair(gbool(o['sampling']), gN(o['seen'])))))
      evo_objs.append({'first_survival_after': fsa, 'steps': steps, 'restarts': sorted(rs)})
      strip_ = lambda obs_: [{k_: v_ for k_, v_ in o_.items() if k_ != 'sampled'} for o_ in obs_]
      if [o_['sampled'] for o_ in gobs] != [o_['sampled'] for o_ in lobs] and json.dumps(strip_(gobs)) == json.dumps(strip_(lobs)):
        kf_ = 'C13-nsga2-sampler-counter-not-restored'
        known_ = {f_['id']: f_ for f_ in C.load_known() if f_['property'] == 'C13'}
        if kf_ in known_:
          rep.known(kf_, known_[kf_]['what'])
        else:
          viol('nsga2: after a restart the sampler\'s offspring counter differs from the instance kept alive',
               {'steps': steps, 'restarts': sorted(rs), 'live': [o_['sampled'] for o_ in lobs], 'restarted': [o_['sampled'] for o_ in gobs]})
      gobs, lobs_cmp = strip_(gobs), strip_(lobs)
      if json.dumps(gobs) != json.dumps(lobs_cmp):
        first = [i for i in range(n) if json.dumps(gobs[i]) != json.dumps(lobs_cmp[i])][0]
        viol('nsga2: after a restart the population / phase / counter differ from the instance kept alive',
             {'space': repr(prob.search_space)[:400], 'population_size': psize, 'first_survival_after': fsa, 'steps': steps, 'restarts': sorted(rs),
              'first_differing_step': first, 'live': {k: lobs[first][k] for k in ('seen', 'sampling')},
              'restarted': {k: gobs[first][k] for k in ('seen', 'sampling')}})
        break

  # ---------------------------------------------------------------- CMA-ES
  cma_cases, cma_objs = [], []
  tells = [0]
  orig_tell = cma_jax.CMA_ES_JAX.tell

  def counting_tell(self, *a, **k):
    tells[0] += 1
    return orig_tell(self, *a, **k)
  cma_jax.CMA_ES_JAX.tell = counting_tell
  try:
    for si in range(2 if quick else 12):
      prob, meta = spaces.gen_space(r, vz, float_only=True, allow_log=False)
      pop, sd = r.choice([3, 4, 5]), r.randrange(1000)
      f = lambda p, pop=pop, sd=sd: cmaes.CMAESDesigner(p, pop_size=pop, seed=sd)
      n = 6 if quick else 9
      steps = [r.randrange(1, 4) for _ in range(n)]
      obs_box = []

      def run_cma(rs):
        tells[0] = 0
        obs_box.clear()
        d = f(prob)
        out, tid = [], 0
        for i, count in enumerate(steps):
          if i in rs:
            md = d.dump()
            d = f(prob)
            d.load(md)
          sugg = list(d.suggest(count))
          out.append([sugg_key(s) for s in sugg])
          trials = []
          for s in sugg:
            tid += 1
            t = s.to_trial(tid)
            t.complete(vz.Measurement({'m': objective(s.parameters)}))
            trials.append(t)
          d.update(vza.CompletedTrials(trials), vza.ActiveTrials())
          obs_box.append((tells[0], d._trial_population.qsize()))
        return out
      try:
        live = run_cma(set())
      except Exception as e:  # pylint: disable=broad-except
        rep.count('refused_cmaes_%s' % type(e).__name__)
        continue
      for rs in restart_sets(n)[:2 if quick else 4]:
        rep.case({'designer': 'cmaes', 'steps': steps, 'restarts': sorted(rs), 'pop_size': pop}, True)
        rep.count('designer_cmaes')
        got = run_cma(rs)
        cma_cases.append('(%s, %s, %s)' % (gnat(pop), glist([(i in rs, (c, c)) for i, c in enumerate(steps)],
                                                              lambda x: gpair(gbool(x[0]), gpair(gnat(x[1][0]), gnat(x[1][1])))),
                                           glist(list(obs_box), lambda o: gpair(gnat(o[0]), gnat(o[1])))))
        cma_objs.append({'pop_size': pop, 'steps': steps, 'restarts': sorted(rs), 'observed': list(obs_box)})
        if got != live:
          first = [i for i in range(n) if got[i] != live[i]][0]
          viol('cmaes: a restarted instance makes different suggestions than the one kept alive',
               {'space': repr(prob.search_space)[:400], 'pop_size': pop, 'seed': sd, 'steps': steps, 'restarts': sorted(rs), 'first_differing_step': first,
                'live': live[first], 'restarted': got[first]})
          break
  finally:
    cma_jax.CMA_ES_JAX.tell = orig_tell

  # ---------------------------------------------------------------- policy level: state in real study metadata
  def run_policy(factory, prob, steps, restart_at, order_seed):
    import random as _random
    rr = _random.Random(order_seed)
    prob = copy.deepcopy(prob)    # the supporter writes the designer state into the problem's metadata
    sup = local_policy_supporters.InRamPolicySupporter(prob)
    pol = dp.PartiallySerializableDesignerPolicy(prob, sup, factory)
    out = []
    pending = []
    for i, count in enumerate(steps):
      if i in restart_at:
        # a new policy object, as the Pythia service builds for every request; the study config now carries the state
        pol = dp.PartiallySerializableDesignerPolicy(sup.GetStudyConfig(), sup, factory)
      trials = sup.SuggestTrials(pol, count)
      out.append([sugg_key(t) for t in trials])
      # trials finish out of order and across requests: some stay ACTIVE while later ones complete
      pending += list(trials)
      rr.shuffle(pending)
      k = len(pending) if (order_seed % 2 == 0 or i == len(steps) - 1) else rr.randrange(0, len(pending) + 1)
      for t in pending[:k]:
        t.complete(vz.Measurement({'m': objective(t.parameters)}))
      pending = pending[k:]
    return out

  for si in range(4 if quick else 30):
    prob, meta = spaces.gen_space(r, vz)
    sd = r.randrange(10000)
    pf = {
        'grid': lambda p, seed=None: grid.GridSearchDesigner.from_problem(p, seed),
        'shuffled_grid': lambda p, seed=None, sd=sd: grid.GridSearchDesigner.from_problem(p, sd),
        'quasi_random': lambda p, seed=None, sd=sd: quasi_random.QuasiRandomDesigner.from_problem(p, seed=sd),
        'eagle': lambda p, seed=None, sd=sd: eagle_strategy.EagleStrategyDesigner(p, seed=sd),
        'cmaes': lambda p, seed=None, sd=sd: cmaes.CMAESDesigner(p, pop_size=4, seed=sd),
    }
    fprob, _fm = spaces.gen_space(r, vz, float_only=True, allow_log=False)
    for name, f in pf.items():
      if name == 'cmaes' and quick and si % 2:
        continue
      n = 8 if name != 'eagle' else r.choice([8, 20])
      steps = [r.randrange(1, 4) for _ in range(n)]
      oseed = r.randrange(100)
      prob_used = fprob if name == 'cmaes' else prob
      try:
        live = run_policy(f, prob_used, steps, set(), oseed)
      except Exception as e:  # pylint: disable=broad-except
        rep.count('refused_policy_%s_%s' % (name, type(e).__name__))
        continue
      for rs in [set(range(1, n)), {r.randrange(1, n)}]:
        rep.case({'policy': name, 'steps': steps, 'restarts': sorted(rs)}, True)
        rep.count('policy_' + name)
        try:
          got = run_policy(f, prob_used, steps, rs, oseed)
        except Exception as e:  # pylint: disable=broad-except
          viol('%s policy: the restarted run raised %s' % (name, type(e).__name__), {'space': repr(prob_used.search_space)[:400], 'steps': steps,
                                                                                    'restarts': sorted(rs), 'error': repr(e)[:300]})
          break
        if got != live:
          first = [i for i in range(n) if got[i] != live[i]][0]
          viol('%s hosted in PartiallySerializableDesignerPolicy: a new policy object restored from study metadata suggests differently' % name,
               {'space': repr(prob_used.search_space)[:400], 'steps': steps, 'restarts': sorted(rs), 'seed': sd, 'first_differing_step': first,
                'live': live[first], 'restarted': got[first]})
          break

  # ---------------------------------------------------------------- the array encoding every population / state dump goes through
  # (vizier/utils/json_utils.py): what is read back is the array that was written - dtype, shape and every entry, the special
  # values +-inf and nan of objective columns included
  try:
    import json as _json
    from vizier.utils import json_utils as _ju
    specials = [0.0, -0.0, 1.5, -2.25, 1e300, -1e300, 5e-324, math.inf, -math.inf, math.nan]
    for ai in range(40 if quick else 400):
      dt = r.choice(['float64', 'float64', 'float32', 'int64', 'int32', 'bool'])
      shape = r.choice([(0,), (3,), (2, 2), (4, 1), (0, 3), (2, 0, 2), (1, 5)])
      n_ = int(np.prod(shape))
      if dt.startswith('float'):
        vals = [r.choice(specials) if r.random() < 0.5 else r.uniform(-10, 10) for _ in range(n_)]
      elif dt == 'bool':
        vals = [r.random() < 0.5 for _ in range(n_)]
      else:
        vals = [r.randrange(-2 ** 31, 2 ** 31) for _ in range(n_)]
      arr = np.array(vals, dtype=dt).reshape(shape)
      rep.case({'array_dump': dt, 'shape': list(shape), 'special_entries': int(dt.startswith('float') and not np.isfinite(arr).all())},
               dt.startswith('float') and not np.isfinite(arr).all())
      rep.count('array_dump_' + dt)
      try:
        back = _json.loads(_json.dumps({'a': arr, 'nested': {'b': [arr]}}, cls=_ju.NumpyEncoder), object_hook=_ju.numpy_hook)
        for b_ in (back['a'], back['nested']['b'][0]):
          same = isinstance(b_, np.ndarray) and b_.dtype == arr.dtype and b_.shape == arr.shape and \
              (np.array_equal(b_, arr, equal_nan=True) if dt.startswith('float') else np.array_equal(b_, arr)) and \
              (not dt.startswith('float') or np.array_equal(np.signbit(b_), np.signbit(arr)))
          if not same:
            viol('an array written into a state dump (NumpyEncoder) is not the array read back (numpy_hook)',
                 {'dtype': dt, 'shape': list(shape), 'written': repr(arr.tolist())[:300], 'read_back': repr(getattr(b_, 'tolist', lambda: b_)())[:300]})
            break
      except Exception as e:  # pylint: disable=broad-except
        viol('dumping / loading an array raised %s' % type(e).__name__, {'dtype': dt, 'shape': list(shape), 'written': repr(arr.tolist())[:300], 'error': repr(e)[:200]})
  except ImportError:
    pass

  # ---------------------------------------------------------------- service level (SQLite file, new servicer per restart)
  service_part(rep, r, quick, viol)

  # ---------------------------------------------------------------- correspondence with the model
  cases = []
  ints = [0, 1, -1, 9, 10, 99, 100, 12345678901234567890, -4096, 2 ** 63, 2 ** 128 + 7, int(np.int32(1759000000))] + \
      [r.randrange(-10 ** r.randrange(1, 40), 10 ** r.randrange(1, 40)) for _ in range(60 if quick else 400)]
  bad = C.run_cases('C13', 'str', HDR, ['(%s, %s)' % (gZ(i), gstr(str(i))) for i in ints], 'str_case_ok')
  rep.count('corr_str', len(ints))
  for i in bad[:3]:
    broke = (broke or '') + ' correspondence: str(%d) / int() differs from the model;' % ints[i]
  # strings that the grid designer's load() must treat as None / int / refuse
  samples = ['None', '', 'abc', '-', '--1', '12a', 'none', '0', '-0', '007', '5', '-17']
  oc = []
  for s_ in samples:
    try:
      want = None if s_ == 'None' else int(s_)
      oc.append('(%s, Some %s)' % (gstr(s_), gopt(want, gZ)))
    except ValueError:
      oc.append('(%s, None)' % gstr(s_))
  bad = C.run_cases('C13', 'opt', HDR, oc, 'optint_case_ok')
  for i in bad[:3]:
    broke = (broke or '') + ' correspondence: int(%r) differs from the model;' % samples[i]

  # grid indexing incl. restarts
  gcases, gobjs = [], []
  for si in range(20 if quick else 150):
    prob, meta = spaces.gen_space(r, vz, nmax=4)
    sd = r.choice([None, r.randrange(1000)])
    mk = lambda: grid.GridSearchDesigner(prob.search_space, shuffle_seed=sd, double_grid_resolution=r_res)
    r_res = r.choice([2, 3, 10])
    ref = mk()
    axes = [(p, list(vs)) for p, vs in ref._grid_values.items()]
    dims = [len(vs) for _, vs in axes]
    if any(len(set(vs)) != len(vs) for _, vs in axes):
      # a DOUBLE range a few ulps wide gives the same grid value several times: the index of a suggested value is then
      # not recoverable from the value, so this space cannot be compared with the index model
      rep.count('grid_axis_with_repeated_values_skipped')
      continue
    n = r.choice([3, 6])
    ins = [(r.random() < 0.4, r.randrange(1, 5)) for _ in range(n)]
    d = mk()
    outs = []
    try:
      for flag, count in ins:
        if flag:
          md = d.dump()
          d = mk()
          d.load(md)
        sugg = d.suggest(count)
        outs.append([[vs.index(s.parameters[p]) for p, vs in axes] for s in sugg])
    except Exception as e:  # pylint: disable=broad-except
      viol('grid designer raised %s during suggest / dump / load' % type(e).__name__, {'space': repr(prob.search_space)[:400], 'steps': ins, 'error': repr(e)[:300]})
      continue
    gcases.append('(%s, %s, %s, %s, %s)' % (glist(dims, gN), gopt(sd, gZ), glist(ins, lambda x: gpair(gbool(x[0]), gnat(x[1]))),
                                            glist(outs, lambda o: glist(o, lambda v: glist(v, gN))), gN(d._current_index)))
    gobjs.append({'dims': dims, 'seed': sd, 'steps': ins, 'observed': outs})
  bad = C.run_cases('C13', 'grid', HDR, gcases, 'grid_case_ok')
  rep.count('corr_grid', len(gcases))
  rep.disagreements += len(bad)
  for i in bad[:3]:
    broke = (broke or '') + ' correspondence: grid indexing / restart of the model vs GridSearchDesigner on %r;' % (gobjs[i],)

  # eagle pool order
  pcases, pobjs = [], []
  prob, _ = spaces.gen_space(r, vz)
  scaler_problem = prob
  for si in range(20 if quick else 100):
    rng = np.random.default_rng(si)
    utils = eagle_strategy_utils.EagleStrategyUtils(scaler_problem, eagle_strategy.FireflyAlgorithmConfig(), rng)
    pool = eagle_strategy_utils.FireflyPool(utils=utils, capacity=12)
    ids = r.sample(range(0, 40), r.randrange(1, 9))
    for fid in ids:
      t = vz.Trial(parameters={k: (v[1][0] if v[0] in 'fi' else v[1][0]) for k, v in _.items()})
      t.complete(vz.Measurement({eagle_strategy_utils.OBJECTIVE_NAME: float(fid)}))
      pool._pool[fid] = eagle_strategy_utils.Firefly(id_=fid, perturbation=0.1, generation=1, trial=t)
    enc = serialization.partially_serialize_firefly_pool(pool)
    back = serialization.restore_firefly_pool(utils, enc)
    got = list(back._pool.keys())
    pcases.append('(%s, %s)' % (glist(ids, gN), glist(got, gN)))
    pobjs.append({'inserted': ids, 'restored': got})
    rep.case({'pool_ids': ids}, ids != sorted(ids))
    if got != ids:
      viol('eagle: the restored firefly pool iterates in a different order than the dumped one', {'inserted_order': ids, 'restored_order': got})
  bad = C.run_cases('C13', 'pool', HDR, pcases, 'pool_case_ok')
  rep.count('corr_pool', len(pcases))
  rep.disagreements += len(bad)
  for i in bad[:3]:
    broke = (broke or '') + ' correspondence: pool order of the model vs serialization.py on %r;' % (pobjs[i],)

  bad = C.run_cases('C13', 'evo', HDR, evo_cases, 'evo_case_ok')
  rep.count('corr_evo', len(evo_cases))
  rep.disagreements += len(bad)
  for i in bad[:3]:
    broke = (broke or '') + ' correspondence: phase / counter of the model vs NSGA2Designer on %r;' % (evo_objs[i],)
  bad = C.run_cases('C13', 'cma', HDR, cma_cases, 'cma_case_ok')
  rep.count('corr_cma', len(cma_cases))
  rep.disagreements += len(bad)
  for i in bad[:3]:
    broke = (broke or '') + ' correspondence: queue / tell count of the model vs CMAESDesigner on %r;' % (cma_objs[i],)
  # ---------------------------------------------------------------- restart in ANOTHER OS PROCESS (another PYTHONHASHSEED): the state
  # of a shuffled grid search is (position, seed); the process that loads it must expand the seed into the same grid ordering,
  # so that the two processes together hand out every grid point exactly once
  import subprocess
  import sys as _sys
  for k_ in range(2 if quick else 8):
    sd_ = [0, 7, 123, 99991][k_ % 4] if k_ < 4 else r.randrange(10**6)
    total_, cut_ = 24, r.randrange(3, 20)
    parts = []
    for (hs_, idx_, cnt_) in (('11', 0, cut_), ('22', cut_, total_ - cut_)):
      env_ = {'PATH': '/usr/local/bin:/usr/bin:/bin', 'HOME': '/root', 'PYTHONPATH': C.VERIF, 'PYTHONHASHSEED': hs_,
              'VERIF_REPO': C.REPO, 'JAX_PLATFORMS': 'cpu', 'TF_CPP_MIN_LOG_LEVEL': '3', 'PYTHONWARNINGS': 'ignore', 'PYTHONDONTWRITEBYTECODE': '1'}
      pr_ = subprocess.run([_sys.executable, '-m', 'harness.gridchild', str(sd_), str(idx_), str(cnt_)], env=env_, capture_output=True, text=True, timeout=300,
                           cwd=C.VERIF)
      line_ = [l_ for l_ in pr_.stdout.splitlines() if l_.startswith('GRIDCHILD ')]
      if not line_:
        raise RuntimeError('grid child failed: %s' % pr_.stderr[-400:])
      parts.append(json.loads(line_[0][len('GRIDCHILD '):]))
    pts_ = [json.dumps(p_, sort_keys=True) for part_ in parts for p_ in part_]
    rep.case({'designer': 'shuffled_grid', 'stage': 'restart-in-another-process', 'seed': sd_, 'cut': cut_}, True)
    rep.count('cross_process_restart')
    if len(set(pts_)) != total_:
      dup_ = sorted({p_ for p_ in pts_ if pts_.count(p_) > 1})
      viol('shuffled grid search restarted in another OS process (another PYTHONHASHSEED) does not continue the same grid ordering: '
           '%d of the %d grid points handed out, %d twice' % (len(set(pts_)), total_, len(dup_)),
           {'shuffle_seed': sd_, 'first_process_made': cut_, 'second_process_made': total_ - cut_, 'repeated_points': dup_[:4]})
  C.settle_broken(rep, broke, concrete)
  return rep.finish()


def service_part(rep, r, quick, viol):
  """Grid / shuffled grid / quasi-random hosted in the servicer on a SQLite file; a restart = a new servicer object."""
  from vizier import pyvizier as vz
  from vizier._src.service import vizier_service, vizier_client
  from vizier._src.service import study_pb2, vizier_service_pb2 as vs
  from vizier.service import pyvizier as svz
  from vizier.service import clients
  from vizier._src.algorithms.designers import grid, quasi_random
  def canon(v):
    v = getattr(v, 'value', v)
    return v if isinstance(v, str) else float(v)
  scratch = tempfile.mkdtemp(prefix='c13_', dir=os.path.join(C.VERIF, '.scratch') if os.path.isdir(os.path.join(C.VERIF, '.scratch')) else None)
  try:
    for si in range(3 if quick else 20):
      algo = ['GRID_SEARCH', 'SHUFFLED_GRID_SEARCH', 'QUASI_RANDOM_SEARCH'][si % 3]
      prob, meta = spaces.gen_space(r, vz, nmax=3)
      sc = svz.StudyConfig.from_problem(prob)
      sc.algorithm = algo
      url = 'sqlite:///%s/s%d.db' % (scratch, si)
      serv = vizier_service.VizierServicer(database_url=url)
      st = serv.CreateStudy(vs.CreateStudyRequest(parent='owners/o1', study=study_pb2.Study(display_name='g%d' % si, study_spec=sc.to_proto())))
      ref = grid.GridSearchDesigner(prob.search_space)
      volume = 1
      for vs_ in ref._grid_values.values():
        volume *= len(vs_)
      total = min(2 * volume, 40 if quick else 120) if 'GRID' in algo else 12
      got, batches, steps, restarts = [], [], [], []
      key = lambda d: json.dumps(d, sort_keys=True)
      failed = False
      while len(got) < total:
        if r.random() < 0.4:
          serv = vizier_service.VizierServicer(database_url=url)   # server restart: nothing but the database survives
          restarts.append(len(steps))
        count = r.randrange(1, 5)
        steps.append(count)
        study = clients.Study(vizier_client.VizierClient(st.name, 'w%d' % r.randrange(2), serv))
        batch = []
        try:
          suggested = study.suggest(count=count)
        except Exception as e:  # pylint: disable=broad-except
          viol('%s hosted in the service stopped working (%s)' % (algo, type(e).__name__),
               {'space': repr(prob.search_space)[:400], 'steps': steps, 'restarts_before_step': restarts, 'error': str(e)[:400]})
          failed = True
          break
        for t in suggested:
          batch.append({k: canon(v) for k, v in t.parameters.items()})
          t.complete(vz.Measurement({'m': 1.0}))
        got += batch
        batches.append(sorted(key(x) for x in batch))
      rep.case({'service': algo, 'steps': steps, 'restarts': restarts, 'grid_volume': volume}, bool(restarts))
      rep.count('service_' + algo)
      if failed:
        continue
      sprob = clients.Study(vizier_client.VizierClient(st.name, 'w0', serv)).materialize_problem_statement()
      dmd = sprob.metadata.ns('designer_policy_v0').ns('designer')
      obj = {'algorithm': algo, 'space': repr(prob.search_space)[:500], 'steps': steps, 'restarts_before_step': restarts}
      if 'GRID' in algo:
        sd = dmd.ns('grid').get('shuffle_seed', default='None')
        live = grid.GridSearchDesigner(sprob.search_space, shuffle_seed=None if sd == 'None' else int(sd))
      else:
        sd = dmd.ns('quasi_random')['seed']
        live = quasi_random.QuasiRandomDesigner(sprob.search_space, seed=int(sd))
      # the service hands out the suggestions of one batch in its own order: compare batch by batch as multisets
      want = [sorted(key({k: canon(v.value) for k, v in s.parameters.items()}) for s in live.suggest(c)) for c in steps]
      if batches != want:
        first = [i for i in range(len(steps)) if batches[i] != want[i]][0]
        viol('%s hosted in the service differs from a designer kept alive (seed %s)' % (algo, sd),
             dict(obj, first_differing_batch=first, service=batches[first], live=want[first]))
      if 'GRID' in algo and volume <= 400:
        # "every grid point exactly once before repeating", at the granularity the service offers (the trials of one
        # batch are created together): after every batch each grid point has been suggested n or n+1 times
        allpts = [key({k: canon(v.value) for k, v in s_.parameters.items()})
                  for s_ in grid.GridSearchDesigner(sprob.search_space).suggest(volume)]
        counts = {k_: 0 for k_ in allpts}
        if len(counts) != len(allpts):
          # a DOUBLE range a few ulps wide puts the same value on the grid several times: points are not recognisable by value
          rep.count('service_grid_with_repeated_values_skipped')
          batches = []
        for bi, b in enumerate(batches):
          for x in b:
            if x not in counts:
              viol('%s hosted in the service suggested a point that is not on the grid' % algo, dict(obj, point=x))
              counts[x] = 0
            counts[x] += 1
          if max(counts.values()) - min(counts.values()) > 1:
            viol('%s hosted in the service repeats a grid point before every other point has been suggested' % algo,
                 dict(obj, volume=volume, after_batch=bi, most=max(counts.values()), least=min(counts.values())))
            break
    # evolutionary / eagle designers hosted in the service: they keep working across restarts and their counters advance
    for si, algo in enumerate(['NSGA2', 'EAGLE_STRATEGY', 'CMA_ES'] * (1 if quick else 4)):
      prob, meta = spaces.gen_space(r, vz, nmax=3, float_only=(algo == 'CMA_ES'), allow_log=(algo != 'CMA_ES'))
      sc = svz.StudyConfig.from_problem(prob)
      sc.algorithm = algo
      url = 'sqlite:///%s/e%d.db' % (scratch, si)
      serv = vizier_service.VizierServicer(database_url=url)
      st = serv.CreateStudy(vs.CreateStudyRequest(parent='owners/o1', study=study_pb2.Study(display_name='e%d' % si, study_spec=sc.to_proto())))
      done, steps, restarts = 0, [], []
      rep.case({'service': algo}, True)
      rep.count('service_' + algo)
      try:
        for step in range(5):
          if r.random() < 0.5:
            serv = vizier_service.VizierServicer(database_url=url)
            restarts.append(step)
          count = r.randrange(1, 4)
          steps.append(count)
          study = clients.Study(vizier_client.VizierClient(st.name, 'w', serv))
          seen_before = done
          for t in study.suggest(count=count):
            t.complete(vz.Measurement({'m': float(done)}))
            done += 1
          dmd = study.materialize_problem_statement().metadata.ns('designer_policy_v0').ns('designer')
          if algo == 'NSGA2':
            seen = dmd.get('num_trials_seen', default=None)
            if seen is None or int(seen) != seen_before:
              viol('NSGA2 hosted in the service: the stored trials-seen counter does not follow the completed trials (phase is lost across requests)',
                   {'space': repr(prob.search_space)[:400], 'steps': steps, 'restarts_before_step': restarts, 'completed_before_request': seen_before,
                    'stored_counter': seen})
              break
      except Exception as e:  # pylint: disable=broad-except
        viol('%s hosted in the service stopped working (%s)' % (algo, type(e).__name__),
             {'space': repr(prob.search_space)[:400], 'steps': steps, 'restarts_before_step': restarts, 'error': str(e)[:400]})
  finally:
    shutil.rmtree(scratch, ignore_errors=True)


def replay(path):
  print(json.dumps(json.load(open(path)), indent=1)[:4000])
  return 1
