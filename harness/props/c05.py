"""C05 — the SQL-backed service survives a crash at any point without losing or tearing data."""
import concurrent.futures
import json
import os
import shutil
import subprocess
import sys
import tempfile

from harness import common as C

ENV = dict(os.environ)


def jsonable(x):
  if isinstance(x, tuple):
    return [jsonable(y) for y in x]
  if isinstance(x, list):
    return [jsonable(y) for y in x]
  if isinstance(x, dict):
    return {k: jsonable(v) for k, v in x.items()}
  if isinstance(x, type):
    return x.__name__
  return x


def child(dbdir, job):
  p = subprocess.run([sys.executable, '-m', 'harness.crashchild', dbdir, json.dumps(jsonable(job))], cwd=C.VERIF, env=ENV,
                     stdout=subprocess.PIPE, stderr=subprocess.PIPE, text=True, timeout=300)
  return p.returncode, p.stdout, p.stderr[-2000:]


SINGLE = ('CreateStudy', 'DeleteStudy', 'SetStudyState', 'CreateTrial', 'AddTrialMeasurement', 'CompleteTrial', 'StopTrial',
          'DeleteTrial', 'UpdateMetadata')


def run(tier, seed):
  from harness import svc, svcmon
  from harness.translate import sqlshape
  rep = C.Report('C05', tier, seed)
  rep.rule = ('translator: per SQLDataStore method the read/write/commit/rollback skeleton is regenerated from sql_datastore.py and '
              're-checked by the kernel; crash harness: after a generated prefix of calls a child process runs one RPC on an SQLite '
              'file and is killed (os._exit) just before the k-th SQL statement or commit; a fresh server reopens the file; large transactions '
              '(60-90 fat trials deleted / annotated by one call) with a one-page cache; '
              'non-trivial = the interrupted RPC issues at least one write')
  rep.trusted = ['Coq 8.16.1 kernel + vm_compute', 'harness/translate/sqlshape.py (Python-ast translator, fail-closed)',
                 "SQLite's atomic commit (with the page cache shrunk to one page in the crash child, so that transactions spill early) and "
                 "SQLAlchemy's statement/commit events", 'os._exit as the crash',
                 'service model tied by trace-level correspondence (see C01)']
  # ---- translator + theorems
  broke = None
  try:
    text, names = sqlshape.translate(C.REPO)
    changed = C.write_gen('Gen/SqlShapes.v', text)
    rep.extra['translated_methods'] = names
    rep.extra['gen_changed'] = changed
  except Exception as e:  # pylint: disable=broad-except
    broke = 'translator harness/translate/sqlshape.py refused sql_datastore.py: %r' % (e,)
  from harness import svcrun as _svcrun
  hb_ = _svcrun.regenerate_handler_sources()
  C.standard_proof_step(rep, 'C05')
  broke = ((broke or '') + ' ' + (rep.proof_broken or '') + ' ' + (hb_ or '')).strip() or None
  concrete = False
  known = {f['id']: f for f in C.load_known() if f['property'] == 'C05'}
  r = C.rng(seed, 'c05')
  ncase = 11 if tier == 'quick' else 99
  per_case = 3 if tier == 'quick' else 10**6
  if broke:
    # a proof obligation or the translator broke: search harder for a concrete failing crash point
    ncase, per_case = max(ncase, 33), 10**6
  scratch = tempfile.mkdtemp(prefix='c05_', dir=os.path.join(C.VERIF, '.scratch'))
  jobs = []
  try:
    kinds = ['SuggestTrials', 'CompleteTrial', 'CreateTrial', 'DeleteStudy', 'UpdateMetadata', 'AddTrialMeasurement', 'StopTrial',
             'DeleteTrial', 'SetStudyState', 'CheckEarlyStop', 'CreateStudy']
    for ci in range(ncase):
      want = kinds[ci % len(kinds)]
      for _ in range(200):
        full = svc.Gen(r, nan=False, profile={'warmup': 1.0, 'delete_study': 0.06}).seq(r.randrange(6, 16), recycle=True)
        idx = [i for i, x in enumerate(full) if x[0] == want and i >= 2]
        if idx:
          i = idx[-1]
          seq, rpc = full[:i], full[i]
          break
      else:
        continue
      seq = svc.fix_recycle(seq, True)
      rpc = svc.fix_recycle([rpc], True)[0]
      # reference runs (no crash) on in-memory sqlite: before / after snapshots and outcome
      steps, before, serv = svc.run_sequence('sqlmem', seq, recycle=True)
      out = svc.apply_rpc(serv, serv.default_pythia_service._policy_factory.h, rpc)
      after = svc.snapshot(serv)
      d0 = tempfile.mkdtemp(dir=scratch)
      rc, so, se = child(d0, {'prefix': seq, 'rpc': rpc, 'k': 0})
      shutil.rmtree(d0, ignore_errors=True)
      if rc != 0:
        raise RuntimeError('crash child failed: %s' % se)
      events = json.loads(so.strip().splitlines()[-1])['events']
      ks = list(range(1, events + 2))
      if len(ks) > per_case:
        ks = sorted(r.sample(ks, per_case))
      for k in ks:
        jobs.append({'prefix': seq, 'rpc': rpc, 'k': k, 'before': before, 'after': after, 'events': events, 'outcome': out})

    # ---- one worker on two studies with different numbers of earlier operations: after the restart it continues on both (whatever
    # the server keeps in memory about a worker is gone, what it keeps on file is per study)
    for bi in range(1 if tier == 'quick' else 4):
      seq = [('CreateStudy', 1, 1, False, 'SS_ACTIVE', [(1, True)]), ('CreateStudy', 1, 2, False, 'SS_ACTIVE', [(1, True)]),
             ('SuggestTrials', 1, 1, 2, 1, ('deliver', [r.randrange(100)], [], [])), ('CompleteTrial', 1, 1, 1, [(1, 1)], False)]
      for j_ in range(1, 4):
        seq += [('SuggestTrials', 1, 2, 2, 1, ('deliver', [r.randrange(100)], [], [])), ('CompleteTrial', 1, 2, j_, [(1, 1)], False)]
      rpc = r.choice([('SuggestTrials', 1, 1, 3, 1, ('deliver', [r.randrange(100)], [], [])), ('UpdateMetadata', 1, 2, [('', 'k', 0, 'w')], [])])
      steps, before, serv = svc.run_sequence('sqlmem', seq, recycle=True)
      out = svc.apply_rpc(serv, serv.default_pythia_service._policy_factory.h, rpc)
      after = svc.snapshot(serv)
      d0 = tempfile.mkdtemp(dir=scratch)
      rc, so, se = child(d0, {'prefix': seq, 'rpc': rpc, 'k': 0})
      shutil.rmtree(d0, ignore_errors=True)
      if rc != 0:
        raise RuntimeError('crash child failed: %s' % se)
      events = json.loads(so.strip().splitlines()[-1])['events']
      rep.count('one_worker_two_studies_' + rpc[0])
      for k in sorted({1, events, events + 1}):
        jobs.append({'prefix': seq, 'rpc': rpc, 'k': k, 'before': before, 'after': after, 'events': events, 'outcome': out})

    # ---- every request shape of the trial-level calls (complete with / without a final measurement, infeasible with / without
    # measurements, measure, stop, delete, add requested / completed trial), crashed at EVERY event: all-or-nothing per call
    shapes_ = [('CompleteTrial', 1, 1, 1, [(1, 2)], False), ('CompleteTrial', 1, 1, 1, [(1, 2)], True), ('CompleteTrial', 1, 1, 1, [], True),
               ('CompleteTrial', 1, 1, 2, [], False), ('AddTrialMeasurement', 1, 1, 1, [(1, 3)]), ('StopTrial', 1, 1, 1), ('DeleteTrial', 1, 1, 2),
               ('CreateTrial', 1, 1, 70, 'REQUESTED', [], []), ('CreateTrial', 1, 1, 71, 'SUCCEEDED', [], [(1, 1)])]
    if tier == 'quick':
      shapes_ = shapes_[:3] + r.sample(shapes_[3:], 2)
    for rpc in shapes_:
      seq = [('CreateStudy', 1, 1, False, 'SS_ACTIVE', [(1, True)]), ('SuggestTrials', 1, 1, 1, 2, ('deliver', [11, 12], [], [])),
             ('AddTrialMeasurement', 1, 1, 2, [(1, 5)])]
      steps, before, serv = svc.run_sequence('sqlmem', seq, recycle=True)
      out = svc.apply_rpc(serv, serv.default_pythia_service._policy_factory.h, rpc)
      after = svc.snapshot(serv)
      d0 = tempfile.mkdtemp(dir=scratch)
      rc, so, se = child(d0, {'prefix': seq, 'rpc': rpc, 'k': 0})
      shutil.rmtree(d0, ignore_errors=True)
      if rc != 0:
        raise RuntimeError('crash child failed: %s' % se)
      events = json.loads(so.strip().splitlines()[-1])['events']
      rep.count('request_shape_' + rpc[0])
      for k in range(1, events + 2):
        jobs.append({'prefix': seq, 'rpc': rpc, 'k': k, 'before': before, 'after': after, 'events': events, 'outcome': out})

    # ---- large transactions: one call that rewrites many pages (a study with many fat trials deleted / annotated in one
    # transaction).  Together with the tiny page cache of the crash child the dirty pages reach the database file before the
    # COMMIT, so only a rollback journal that survives the process can undo them.
    for bi in range(2 if tier == 'quick' else 8):
      ntr = r.choice([60, 90])
      seq = [('CreateStudy', 1, 1, False, 'SS_ACTIVE', [(1, True)]),
             ('SuggestTrials', 1, 1, 1, ntr, ('deliver', [r.randrange(100) for _ in range(ntr)], [], [])),
             ('UpdateMetadata', 1, 1, [], [(t, ('', 'k', 0, 'v' * 300)) for t in range(1, ntr + 1)])]
      rpc = ('DeleteStudy', 1, 1) if bi % 2 == 0 else \
          ('UpdateMetadata', 1, 1, [('', 'k', 0, 'w')], [(t, ('', 'k', 0, 'w' * 300)) for t in range(1, ntr + 1)])
      steps, before, serv = svc.run_sequence('sqlmem', seq, recycle=True)
      out = svc.apply_rpc(serv, serv.default_pythia_service._policy_factory.h, rpc)
      after = svc.snapshot(serv)
      d0 = tempfile.mkdtemp(dir=scratch)
      rc, so, se = child(d0, {'prefix': seq, 'rpc': rpc, 'k': 0})
      shutil.rmtree(d0, ignore_errors=True)
      if rc != 0:
        raise RuntimeError('crash child failed: %s' % se)
      events = json.loads(so.strip().splitlines()[-1])['events']
      rep.count('large_transaction_' + rpc[0])
      for k in sorted(set([max(1, events - 1), events, events + 1] + ([r.randrange(1, events + 1)] if tier == 'quick' else list(range(1, events + 1))))):
        jobs.append({'prefix': seq, 'rpc': rpc, 'k': k, 'before': before, 'after': after, 'events': events, 'outcome': out})

    def do(job):
      d = tempfile.mkdtemp(dir=scratch)
      rc, so, se = child(d, {'prefix': job['prefix'], 'rpc': job['rpc'], 'k': job['k']})
      return job, d, rc, se

    cases, objs = [], []
    big_terms = [0]
    with concurrent.futures.ThreadPoolExecutor(max_workers=12) as ex:
      results = list(ex.map(do, jobs))
    for job, d, rc, se in results:
      rpc = job['rpc']
      rep.count('crash_' + rpc[0])
      if rc not in (0, 9):
        raise RuntimeError('crash child failed: %s' % se)
      try:
        serv, holder, proxy = svc.make_servicer('sqlfile', tmpdir=d)
        rec = svc.snapshot(serv)
      except Exception as e:  # pylint: disable=broad-except
        concrete = True
        rep.violation('database not readable after a crash: %r' % (e,), {'prefix': jsonable(job['prefix']), 'rpc': jsonable(rpc), 'crash_before_event': job['k']})
        shutil.rmtree(d, ignore_errors=True)
        continue
      obj = {'prefix': jsonable(job['prefix']), 'rpc': jsonable(rpc), 'crash_before_event': job['k'], 'events': job['events']}
      rec_recovered = rec      # what the restart found (the probes below go on to modify the database)
      rep.case(dict(obj, recovered_equals=('before' if rec == job['before'] else 'after' if rec == job['after'] else 'intermediate')),
               job['events'] > 1 and job['before'] != job['after'])
      # (i) all-or-nothing for single-resource calls; completed call (k beyond the last event) must be fully there
      if job['k'] > job['events'] and rec != job['after']:
        concrete = True
        rep.violation('acknowledged %s lost after restart' % rpc[0], obj)
      if rpc[0] in SINGLE and rec not in (job['before'], job['after']):
        concrete = True
        rep.violation('%s torn by a crash: recovered state is neither before nor after' % rpc[0], dict(obj, recovered=rec))
      # (iii) invariants of whatever is stored
      for key, n in svcmon.nodes_of(rec).items():
        ids = [t['id'] for t in n['trials']]
        if len(ids) != len(set(ids)):
          concrete = True
          rep.violation('duplicate trial ids after recovery', obj)
      nb = svcmon.nodes_of(job['before'])
      for key, n in svcmon.nodes_of(rec).items():
        if key in nb:
          for v in svcmon.c01_step(job['before'], ('GetStudy',) + key, ('Done', 'RpEmpty', None), rec):
            if 'disappeared' in v and rpc[0] in ('DeleteTrial', 'DeleteStudy'):
              continue
            if 'metadata' in v and rpc[0] in ('UpdateMetadata', 'SuggestTrials', 'CheckEarlyStop'):
              continue
            concrete = True
            rep.violation('after recovery: ' + v, obj)
      # a study that is gone must be gone with everything that belonged to it
      nr = svcmon.nodes_of(rec)
      for key, n in nb.items():
        if key in nr:
          continue
        for t in n['trials']:
          g = svc.apply_rpc(serv, holder, ('GetTrial', key[0], key[1], t['id']))
          if g[0] == 'Done':
            concrete = True
            rep.violation('study deleted but its trial is still stored after the crash (torn DeleteStudy)', dict(obj, study=key, trial=t['id']))
        svc.apply_rpc(serv, holder, ('CreateStudy', key[0], key[1], False, 'SS_ACTIVE', [(1, True)]))
        lt = svc.apply_rpc(serv, holder, ('ListTrials', key[0], key[1]))
        if lt[0] != 'Done' or lt[2]:
          concrete = True
          rep.violation('re-created study inherits trials of the deleted one after a crash', dict(obj, study=key, listed=jsonable(lt)))
        try:
          rec = svc.snapshot(serv)
        except Exception as e:  # pylint: disable=broad-except
          concrete = True
          rep.violation('stored records not readable after a crash and one more call: %r' % (e,), dict(obj, study=key))
          break
      # (iv) clients can continue: a worker without unfinished operation suggests and completes
      probe_nodes = sorted(svcmon.nodes_of(rec).items(), key=lambda kn: (sum(1 for x in kn[1]['ops'] if x['client'] == 2), kn[0]))
      for pi_, (key, n) in enumerate(probe_nodes):
        if n['study']['state'] not in ('SS_ACTIVE', 'SS_UNSPEC'):
          continue
        if pi_ >= 3:
          break
        for c in (3, rpc[3] if rpc[0] == 'SuggestTrials' else 2):
          o = svc.apply_rpc(serv, holder, ('SuggestTrials', key[0], key[1], c, 1, ('deliver', [11], [], [])))
          stuck = any(x['client'] == c and not x['done'] for x in n['ops'])
          okk = o[0] == 'Done' and o[2]['done'] and len(o[2]['trials']) == 1
          if not okk:
            if stuck and 'C05-crash-inside-suggest-leaves-operation' in known:
              rep.known('C05-crash-inside-suggest-leaves-operation', known['C05-crash-inside-suggest-leaves-operation']['what'])
            else:
              concrete = True
              rep.violation('after restart a worker cannot get a suggestion', dict(obj, worker=c, got=jsonable(o)))
          else:
            t = o[2]['trials'][0]['id']
            o2 = svc.apply_rpc(serv, holder, ('CompleteTrial', key[0], key[1], t, [(1, 1)], False))
            if o2[0] != 'Done':
              concrete = True
              rep.violation('after restart a suggested trial cannot be completed', dict(obj, got=jsonable(o2)))
      # model: recovered state = state after some prefix of the RPC's datastore calls
      pre = glist_pairs(job['prefix'])
      term_ = '(%s, (%s, %s), %s)' % (pre, svc.g_rpc(rpc), oracle_of(rpc), svc.g_snapshot(rec_recovered))
      if len(term_) > 120000 and big_terms[0] >= 6:
        # the large-transaction histories (a study with 60-90 fat trials) are half a megabyte each as Gallina terms: a handful of
        # them is replayed in the model, the rest is judged by the monitor above (all-or-nothing, invariants, continuation) only
        rep.count('crash_case_too_large_for_model_replay')
      else:
        big_terms[0] += 1 if len(term_) > 120000 else 0
        cases.append(term_)
        objs.append(obj)
      try:
        proxy._inner._connection.close()
      except Exception:  # pylint: disable=broad-except
        pass
      shutil.rmtree(d, ignore_errors=True)
    bad = C.run_cases('C05', 'crash', svc.HDR + 'From VZ Require Import Model.Crash.\n', cases, 'crash_case_ok', shard=40)
    rep.disagreements += len(bad)
    for i in bad[:3]:
      broke = ((broke or '') + ' correspondence: recovered state is not a prefix of the RPC\'s datastore calls in the model: %r;' % (objs[i],))
  finally:
    shutil.rmtree(scratch, ignore_errors=True)
  C.settle_broken(rep, broke, concrete)
  return rep.finish()


def oracle_of(rpc):
  from harness import svc
  o = svc.rpc_oracle(rpc)
  return svc.g_oracle(o) if o is not None else '(PFail EOther)'


def glist_pairs(seq):
  from harness import svc
  return C.glist(seq, lambda rpc: '(%s, %s)' % (svc.g_rpc(rpc), oracle_of(rpc)))


def replay(path):
  print(json.dumps(json.load(open(path)), indent=1)[:4000])
  return 1
