"""C11 — optimal trials are exactly the non-dominated completed trials."""
import math

from harness import common as C
from harness.common import gZ, glist, gbool, gnat, gopt


def g_x(v):
  if isinstance(v, float) and math.isnan(v):
    return 'NaN'
  if v == math.inf:
    return 'PInf'
  if v == -math.inf:
    return 'NInf'
  assert float(v) == int(v), v
  return '(Fin %s)' % gZ(int(v))


def g_vec(p):
  return glist(p, g_x)


def g_pts(ps):
  return glist(ps, g_vec)


def g_bools(bs):
  return glist([bool(b) for b in bs], gbool)


def dominates(q, p):
  return all(a >= b for a, b in zip(q, p)) and any(a > b for a, b in zip(q, p))


def brute(ps):
  return [not any(dominates(q, p) for q in ps) for p in ps]


def gen_points(r, nmax=9, allow_nan=False, allow_inf=True):
  d = r.choice([1, 2, 2, 3, 3, 4])
  n = r.choice([0, 1, 2, 3, 4, 5, 6, 7, 8, nmax])
  span = r.choice([1, 2, 2, 3, 5])
  pts = []
  for _ in range(n):
    if pts and r.random() < 0.2:
      pts.append(list(r.choice(pts)))  # duplicates
      continue
    p = []
    for _ in range(d):
      u = r.random()
      if allow_inf and u < 0.04:
        p.append(math.inf if r.random() < 0.5 else -math.inf)
      elif allow_nan and u < 0.07:
        p.append(math.nan)
      else:
        p.append(float(r.randrange(0, span + 1)))
    pts.append(p)
  return d, pts


def has_first_tie(ps):
  f = [p[0] for p in ps]
  return len(set(f)) < len(f)


HDR = 'From VZ Require Import Base.Prelude Base.XFloat Model.Pareto.\n'


def run(tier, seed):
  from harness import boot
  boot.boot()
  import numpy as np
  from vizier._src.pyvizier.multimetric import pareto_optimal as po
  from vizier._src.algorithms.evolution import nsga2

  rep = C.Report('C11', tier, seed)
  rep.rule = ('point sets on small integer grids with duplicates, single-coordinate ties and +-inf (n<=9, d<=4) run through '
              'Naive/Fast/Jax Pareto routines, nsga2._pareto_rank and (via the service driver) ListOptimalTrials, and through '
              'the model; non-trivial = at least one dominated and one non-dominated point')
  rep.trusted = ['harness/translate/besttrials.py (Python-ast translator of GetBestTrials: candidate tests, attributes read / written, fail-closed)', 'Coq 8.16.1 kernel + vm_compute', 'harness/translate/dominance.py (Python-ast translator of the dominance tests of ListOptimalTrials, nsga2._pareto_rank and xla_pareto, fail-closed; numpy / jax reductions and vmap axes are assumed)', 'numpy argsort modelled as stable insertion sort (true for n<16)',
                 'np.linspace cut points are taken from numpy and only required to descend from len(ys) to 0',
                 'harness/props/c11.py generators and printers', 'proto shim / equinox stand-in']
  tbroke = None
  try:
    from harness.translate import dominance
    C.write_gen('Gen/Dominance.v', dominance.translate(C.REPO))
  except Exception as e:  # pylint: disable=broad-except
    tbroke = 'translator harness/translate/dominance.py refused the Pareto sources: %r' % (e,)
  from harness import svcrun as _svcrun
  hb_ = _svcrun.regenerate_handler_sources()
  tbroke = ((tbroke or '') + ' ' + (hb_ or '')).strip() or None
  try:
    from harness.translate import besttrials
    C.write_gen('Gen/BestTrialsSrc.v', besttrials.translate(C.REPO))
  except Exception as e:  # pylint: disable=broad-except
    tbroke = ((tbroke or '') + ' translator harness/translate/besttrials.py refused local_policy_supporters.py: %r' % (e,)).strip()
  C.standard_proof_step(rep, 'C11')
  broke = ((tbroke or '') + ' ' + (rep.proof_broken or '')).strip() or None
  concrete = False
  known = {f['id']: f for f in C.load_known() if f['property'] == 'C11'}
  r = C.rng(seed, 'c11')
  N = 500 if tier == 'quick' else 6000
  naive = po.NaiveParetoOptimalAlgorithm()

  def viol(what, obj):
    nonlocal concrete
    concrete = True
    rep.violation(what, obj)

  # ---- naive is_pareto_optimal (+ NaN rows for the model tie only)
  cases, objs = [], []
  corpus = [[[1., 5.], [1., 3.]], [[1., 1.], [1., 1.]], [[math.inf, 0.], [0., math.inf], [0., 0.]]]
  sets = [(len(c[0]), c) for c in corpus] + [gen_points(r, allow_nan=(i % 5 == 0)) for i in range(N)]
  if tier == 'thorough':
    import itertools
    for d in (1, 2):
      grid = [list(map(float, t)) for t in itertools.product(range(3), repeat=d)]
      for n in range(0, 4 if d == 2 else 5):
        for combo in itertools.product(grid, repeat=n):
          sets.append((d, [list(p) for p in combo]))
  for d, ps in sets:
    arr = np.array(ps, dtype=float).reshape(len(ps), d)
    got = [bool(b) for b in naive.is_pareto_optimal(arr)]
    cases.append('(%s, %s)' % (g_pts(ps), g_bools(got)))
    objs.append((ps, got))
    nan = any(math.isnan(v) for p in ps for v in p)
    want = brute(ps)
    rep.case({'routine': 'naive', 'points': ps, 'result': got}, (not nan) and any(want) and not all(want))
    rep.count('naive_nan' if nan else 'naive')
    if not nan and got != want:
      viol('NaiveParetoOptimalAlgorithm.is_pareto_optimal disagrees with the definition', {'points': ps, 'got': got, 'want': want})
  bad = C.run_cases('C11', 'naive', HDR + 'Definition ck (c : list vec * list bool) := bools_eqb (naive_opt (fst c)) (snd c).\n', cases, 'ck')
  rep.disagreements += len(bad)
  for i in bad[:3]:
    broke = (broke or '') + ' correspondence naive_opt vs code on %r;' % (objs[i],)

  # ---- against (naive, both strictness), fast against, fast is_optimal
  cases_a, objs_a, cases_fa, objs_fa, cases_f, objs_f = [], [], [], [], [], []
  for i in range(N):
    d, ps = gen_points(r)
    _, ag = gen_points(r)
    ag = [(a + [0.0] * d)[:d] for a in ag]
    strict = r.random() < 0.5
    P = np.array(ps, dtype=float).reshape(len(ps), d)
    A = np.array(ag, dtype=float).reshape(len(ag), d)
    got = [bool(b) for b in naive.is_pareto_optimal_against(P, A, strict=strict)]
    if strict:
      want = [not any(dominates(a, p) for a in ag) for p in ps]
    else:
      want = [not any(all(x >= y for x, y in zip(a, p)) for a in ag) for p in ps]
    cases_a.append('(%s, %s, %s, %s)' % (gbool(strict), g_pts(ps), g_pts(ag), g_bools(got)))
    objs_a.append((strict, ps, ag, got))
    rep.case({'routine': 'naive_against', 'strict': strict, 'points': ps, 'against': ag, 'result': got}, any(want) and not all(want))
    rep.count('against')
    if got != want:
      viol('NaiveParetoOptimalAlgorithm.is_pareto_optimal_against disagrees with the definition', {'strict': strict, 'points': ps, 'against': ag, 'got': got, 'want': want})
    thr = r.choice([0, 1, 2, 3, len(ps), len(ps) + 1])
    fast = po.FastParetoOptimalAlgorithm(naive, recursive_threshold=thr)
    try:
      fg = np.atleast_1d(fast.is_pareto_optimal_against(P, A, strict=strict))
      fg = [bool(b) for b in fg.reshape(-1)]
    except Exception as e:  # pylint: disable=broad-except
      fg = None
    cases_fa.append('(%s, %s, %s, %s, %s)' % (gnat(thr), gbool(strict), g_pts(ps), g_pts(ag), gopt(fg, g_bools)))
    objs_fa.append((thr, strict, ps, ag, fg))
    rep.case({'routine': 'fast_against', 'thr': thr, 'strict': strict, 'points': ps, 'against': ag, 'result': fg}, any(want) and not all(want))
    rep.count('fast_against_thr_%s' % ('0' if thr == 0 else 'small' if thr <= 3 else 'n'))
    if fg != want:
      viol('FastParetoOptimalAlgorithm.is_pareto_optimal_against disagrees with the definition', {'thr': thr, 'strict': strict, 'points': ps, 'against': ag, 'got': fg, 'want': want})
    # fast is_pareto_optimal
    thr2 = r.choice([0, 1, 1, 2, 3, len(ps)])
    fast2 = po.FastParetoOptimalAlgorithm(naive, recursive_threshold=thr2)
    try:
      fo = [bool(b) for b in np.atleast_1d(fast2.is_pareto_optimal(P)).reshape(-1)]
    except Exception:  # pylint: disable=broad-except
      fo = None
    wanto = brute(ps)
    # numpy's argsort order among equal first coordinates is unspecified (AVX512 quicksort is unstable), and the
    # result of the (defective) fast is_pareto_optimal depends on it: tie the model on tie-free inputs and n<=2 only
    if not has_first_tie(ps) or len(ps) <= 2:
      cases_f.append('(%s, %s, %s)' % (gnat(thr2), g_pts(ps), gopt(fo, g_bools)))
      objs_f.append((thr2, ps, fo))
    rep.case({'routine': 'fast_opt', 'thr': thr2, 'points': ps, 'result': fo}, any(wanto) and not all(wanto))
    rep.count('fast_opt_tie' if has_first_tie(ps) else 'fast_opt_notie')
    if fo != wanto:
      if fo is None and thr2 == 0 and len(ps) >= 1 and 'C11-fast-threshold-zero' in known:
        rep.known('C11-fast-threshold-zero', known['C11-fast-threshold-zero']['what'])
      elif has_first_tie(ps) and 'C11-fast-first-coordinate-ties' in known:
        rep.known('C11-fast-first-coordinate-ties', known['C11-fast-first-coordinate-ties']['what'])
      else:
        viol('FastParetoOptimalAlgorithm.is_pareto_optimal disagrees with the definition on points with pairwise distinct first coordinates',
             {'thr': thr2, 'points': ps, 'got': fo, 'want': wanto})
  bad = C.run_cases('C11', 'ag', HDR + 'Definition ck (c : bool * list vec * list vec * list bool) := let \'(s, p, a, r) := c in bools_eqb (naive_against s p a) r.\n', cases_a, 'ck')
  rep.disagreements += len(bad)
  for i in bad[:3]:
    broke = (broke or '') + ' correspondence naive_against vs code on %r;' % (objs_a[i],)
  bad = C.run_cases('C11', 'fa', HDR + 'Definition ck (c : nat * bool * list vec * list vec * option (list bool)) := let \'(t, s, p, a, r) := c in fres_eqb (fast_against 40 t s p a) r.\n', cases_fa, 'ck')
  rep.disagreements += len(bad)
  for i in bad[:3]:
    broke = (broke or '') + ' correspondence fast_against vs code on %r;' % (objs_fa[i],)
  bad = C.run_cases('C11', 'fo', HDR + 'Definition ck (c : nat * list vec * option (list bool)) := let \'(t, p, r) := c in fres_eqb (fast_opt 40 t p) r.\n', cases_f, 'ck')
  rep.disagreements += len(bad)
  for i in bad[:3]:
    broke = (broke or '') + ' correspondence fast_opt vs code on %r;' % (objs_f[i],)

  # ---- nsga2 rank
  cases_r, objs_r = [], []
  for i in range(N // 2):
    d, ps = gen_points(r)
    arr = np.array(ps, dtype=float).reshape(len(ps), d)
    got = [int(x) for x in nsga2._pareto_rank(arr)]
    want = [sum(1 for q in ps if dominates(q, p)) for p in ps]
    cases_r.append('(%s, %s)' % (g_pts(ps), glist(got, gnat)))
    objs_r.append((ps, got))
    rep.case({'routine': 'nsga2_rank', 'points': ps, 'result': got}, any(want))
    if got != want:
      viol('nsga2._pareto_rank is not the number of dominating points', {'points': ps, 'got': got, 'want': want})
  bad = C.run_cases('C11', 'rk', HDR + 'Definition ck (c : list vec * list nat) := list_eqb Nat.eqb (pareto_rank (fst c)) (snd c).\n', cases_r, 'ck')
  rep.disagreements += len(bad)
  for i in bad[:3]:
    broke = (broke or '') + ' correspondence pareto_rank vs code on %r;' % (objs_r[i],)

  # ---- jax routines (few shapes: every new shape is a jit compile)
  try:
    from vizier._src.jax import xla_pareto
  except Exception as e:  # pylint: disable=broad-except
    xla_pareto = None
    rep.notes.append('xla_pareto not importable: %r' % (e,))
  if xla_pareto is not None:
    cases_j, objs_j = [], []
    nj = 60 if tier == 'quick' else 600
    for i in range(nj):
      d = r.choice([1, 2, 3])
      n = r.choice([1, 2, 3, 5, 8])
      ps = [[float(r.randrange(0, 4)) if r.random() > 0.05 else math.inf for _ in range(d)] for _ in range(n)]
      arr = np.array(ps, dtype=float)
      shards = r.choice([1, 2, 3, 4, 10, n + 2])
      idx = [int(x) for x in reversed(np.linspace(0, n, shards).astype(np.int32))]
      got = [bool(b) for b in xla_pareto.is_frontier(arr, num_shards=shards)]
      rk = [int(x) for x in xla_pareto.pareto_rank(arr)]
      want = brute(ps)
      cases_j.append('(%s, %s, %s, %s)' % (glist(idx, gnat), g_pts(ps), g_bools(got), glist(rk, gnat)))
      objs_j.append((shards, idx, ps, got, rk))
      rep.case({'routine': 'jax_is_frontier', 'num_shards': shards, 'cuts': idx, 'points': ps, 'result': got}, any(want) and not all(want))
      rep.count('jax_shards_%s' % ('1' if shards == 1 else '>=2'))
      chain_ok = idx[0] == n and idx[-1] == 0 and all(a >= b for a, b in zip(idx, idx[1:])) and len(idx) >= 2
      if got != want:
        if shards == 1 and 'C11-is-frontier-one-shard' in known:
          rep.known('C11-is-frontier-one-shard', known['C11-is-frontier-one-shard']['what'])
        else:
          viol('xla_pareto.is_frontier disagrees with the definition', {'num_shards': shards, 'points': ps, 'got': got, 'want': want})
      if shards >= 2 and not chain_ok:
        viol('np.linspace cut points do not descend from len(ys) to 0 (assumption of C11_frontier_correct)', {'cuts': idx, 'n': n})
      if rk != [sum(1 for q in ps if dominates(q, p)) for p in ps]:
        viol('xla_pareto.pareto_rank is not the number of dominating points', {'points': ps, 'got': rk})
    bad = C.run_cases('C11', 'jx', HDR + 'Definition ck (c : list nat * list vec * list bool * list nat) := let \'(i, p, r, k) := c in bools_eqb (is_frontier i p) r && list_eqb Nat.eqb (pareto_rank p) k.\n', cases_j, 'ck')
    rep.disagreements += len(bad)
    for i in bad[:3]:
      broke = (broke or '') + ' correspondence is_frontier/pareto_rank vs code on %r;' % (objs_j[i],)

  # ---- service ListOptimalTrials and InRamPolicySupporter.GetBestTrials
  try:
    from harness import svc
  except ImportError:
    svc = None
  if svc is not None and hasattr(svc, 'c11_e2e'):
    b2, c2 = svc.c11_e2e(rep, tier, seed, known)
    broke = broke or b2
    concrete = concrete or c2

  # ---- the in-memory best-trial query: InRamPolicySupporter.GetBestTrials() against the definition, incl. infeasible /
  # unfinished / partial trials anywhere in the study, ties, +-inf, NaN objectives and safety metrics (documented semantics:
  # a reported safety metric on the wrong side of its threshold makes the trial unsafe; its objectives count as the worst value)
  try:
    from vizier import pyvizier as vz_
    from vizier._src.pythia import local_policy_supporters as lps_
    import math as _m
    rb = C.rng(seed, 'c11best')
    MAXG, MING = vz_.ObjectiveMetricGoal.MAXIMIZE, vz_.ObjectiveMetricGoal.MINIMIZE
    for bi in range(60 if tier == 'quick' else 600):
      nobj = rb.choice([1, 1, 2, 2, 3])
      goals = [rb.choice([MAXG, MING]) for _ in range(nobj)]
      nsafe = rb.choice([0, 0, 1, 2])
      sgoals = [rb.choice([MAXG, MING]) for _ in range(nsafe)]
      prob_ = vz_.ProblemStatement()
      prob_.search_space.root.add_float_param('x', 0.0, 1.0)
      for j, g in enumerate(goals):
        prob_.metric_information.append(vz_.MetricInformation(name='o%d' % j, goal=g))
      for j, g in enumerate(sgoals):
        prob_.metric_information.append(vz_.MetricInformation(name='s%d' % j, goal=g, safety_threshold=1.0))
      sup_ = lps_.InRamPolicySupporter(prob_)
      rows, trials_ = [], []
      # now and then neighbouring integers above 2^24 (distinct doubles, equal in single precision) or values beyond float32
      big_ = rb.choice([0, 0, 0, 16777216, 1e39])
      if big_ == 1e39:
        big_ = 0
        scale_ = 1e39
      else:
        scale_ = 1.0
      rep.count('best_trials_values_%s' % ('beyond_float32' if scale_ != 1.0 else 'above_2^24' if big_ else 'small'))
      for ti in range(rb.randrange(1, 8)):
        kind = rb.choice(['ok', 'ok', 'ok', 'ok', 'infeasible', 'active', 'missing', 'nan', 'inf'])
        t_ = vz_.Trial(parameters={'x': 0.5})
        vec, safe = None, True
        if kind == 'infeasible':
          t_.complete(vz_.Measurement({'o0': 9.0} if rb.random() < 0.5 else {}), infeasibility_reason='bad')
        elif kind == 'active':
          pass
        else:
          m = {'o%d' % j: float(big_ + rb.randrange(0, 3)) * scale_ for j in range(nobj)}
          if kind == 'missing':
            m.pop('o%d' % rb.randrange(nobj))
          elif kind == 'nan':
            m['o%d' % rb.randrange(nobj)] = float('nan')
          elif kind == 'inf':
            m['o%d' % rb.randrange(nobj)] = rb.choice([float('inf'), float('-inf')])
          for j, g in enumerate(sgoals):
            if rb.random() < 0.7:
              v_ = rb.choice([0.0, 1.0, 2.0])
              m['s%d' % j] = v_
              if (g == MAXG and not v_ >= 1.0) or (g == MING and not v_ <= 1.0):
                safe = False
          t_.complete(vz_.Measurement(m))
          if all(('o%d' % j) in m and not _m.isnan(m['o%d' % j]) for j in range(nobj)):
            vec = [(m['o%d' % j] if goals[j] == MAXG else -m['o%d' % j]) for j in range(nobj)]
            if not safe:
              vec = [float('-inf')] * nobj
        rows.append((kind, vec))
        trials_.append(t_)
      sup_.AddTrials(trials_)
      cands = [(i + 1, v) for i, (k_, v) in enumerate(rows) if v is not None]
      dom = lambda a, b: all(x >= y for x, y in zip(a, b)) and any(x > y for x, y in zip(a, b))
      want = sorted(i for i, v in cands if not any(dom(w, v) for _, w in cands))
      try:
        got = sorted(t.id for t in sup_.GetBestTrials())
      except Exception as e:  # pylint: disable=broad-except
        got = 'raised %s' % type(e).__name__
      rep.case({'best_trials_rows': [(k_, v) for k_, v in rows], 'objectives': nobj, 'safety_metrics': nsafe}, len(cands) > 1)
      rep.count('best_trials_query')
      if got != want:
        concrete = True
        rep.violation('InRamPolicySupporter.GetBestTrials() differs from the non-dominated completed trials',
                      {'goals': [g.name for g in goals], 'safety_goals': [g.name for g in sgoals],
                       'trials': [(k_, None if t.final_measurement is None else {n: mm.value for n, mm in t.final_measurement.metrics.items()})
                                  for (k_, _v), t in zip(rows, trials_)], 'got': got, 'expected': want})
      # the same study later: the unfinished trials are completed in place (the number of trials does not change), one of them
      # possibly replaced by an incoming trial with the same id; the query must follow
      act_ = [i for i, (k_, _v) in enumerate(rows) if k_ == 'active']
      if act_ and isinstance(got, list):
        for i in act_:
          m = {'o%d' % j: float(big_ + rb.randrange(0, 4)) * scale_ for j in range(nobj)}
          vec = [(m['o%d' % j] if goals[j] == MAXG else -m['o%d' % j]) for j in range(nobj)]
          stored = [t for t in sup_.trials if t.id == i + 1][0]
          how = rb.choice(['in_place', 'in_place', 'replaced', 'infeasible'])
          if how == 'in_place':
            stored.complete(vz_.Measurement(m))
          elif how == 'infeasible':
            stored.complete(vz_.Measurement(m), infeasibility_reason='bad')
            vec = None
          else:
            t2 = vz_.Trial(id=i + 1, parameters={'x': 0.25})
            t2.complete(vz_.Measurement(m))
            try:
              sup_.AddTrials([t2])
            except Exception:  # pylint: disable=broad-except
              stored.complete(vz_.Measurement(m))
          rows[i] = ('completed_later_' + how, vec)
        cands = [(i + 1, v) for i, (k_, v) in enumerate(rows) if v is not None]
        want2 = sorted(i for i, v in cands if not any(dom(w, v) for _, w in cands))
        try:
          got2 = sorted(t.id for t in sup_.GetBestTrials())
        except Exception as e:  # pylint: disable=broad-except
          got2 = 'raised %s' % type(e).__name__
        rep.case({'best_trials_rows_after_completions': [(k_, v) for k_, v in rows], 'objectives': nobj}, len(cands) > 1)
        rep.count('best_trials_query_after_completion')
        if got2 != want2:
          concrete = True
          rep.violation('InRamPolicySupporter.GetBestTrials() after unfinished trials were completed differs from the non-dominated '
                        'completed trials', {'goals': [g.name for g in goals], 'rows': [(k_, v) for k_, v in rows],
                                             'first_answer': got, 'got': got2, 'expected': want2})
  except ImportError:
    pass

  C.settle_broken(rep, broke, concrete)
  return rep.finish()


def replay(path):
  import json
  obj = json.load(open(path))
  print(json.dumps(obj, indent=1))
  return 1
