"""C04 — concurrent clients: every interleaving is equivalent to a serial order."""
import itertools
import json

from harness import common as C

KINDS = ['SuggestTrials', 'CreateTrial', 'CompleteTrial', 'AddTrialMeasurement', 'StopTrial', 'DeleteTrial', 'DeleteStudy',
         'UpdateMetadata', 'SetStudyState', 'CreateStudy', 'CheckEarlyStop']


def make_rpc(r, kind, ctx):
  """A concrete RPC of the given kind aimed at the shared study (1,1) / its trials."""
  tid = r.choice(ctx['active']) if ctx['active'] and r.random() < 0.85 else r.choice(ctx['ids'] or [1])
  if kind == 'SuggestTrials':
    c = r.choice([1, 2])
    count = r.choice([1, 2, 3])
    k = max(0, count + r.choice([0, 0, 1, -1]))
    tmd = [(tid, (':designer_policy_v0', 'k', 0, 'p'))] if r.random() < 0.4 else []
    return ('SuggestTrials', 1, 1, c, count, ('deliver', [r.randrange(100) for _ in range(k)], [(':designer_policy_v0', 's', 0, r.choice('xy'))] if r.random() < 0.5 else [], tmd))
  if kind == 'CreateTrial':
    return ('CreateTrial', 1, 1, r.randrange(100), r.choice(['REQUESTED', 'SUCCEEDED']), [], [])
  if kind == 'CompleteTrial':
    return ('CompleteTrial', 1, 1, tid, [(1, r.randrange(4))], r.random() < 0.2)
  if kind == 'AddTrialMeasurement':
    return ('AddTrialMeasurement', 1, 1, tid, [(1, r.randrange(4))])
  if kind == 'StopTrial':
    return ('StopTrial', 1, 1, tid)
  if kind == 'DeleteTrial':
    return ('DeleteTrial', 1, 1, tid)
  if kind == 'DeleteStudy':
    return ('DeleteStudy', 1, 1)
  if kind == 'UpdateMetadata':
    return ('UpdateMetadata', 1, 1, [('', 'u', 0, r.choice('ab'))] if r.random() < 0.6 else [], [(tid, ('', 'k', 0, r.choice('vw')))] if r.random() < 0.8 else [])
  if kind == 'SetStudyState':
    return ('SetStudyState', 1, 1, r.choice(['SS_INACTIVE', 'SS_ACTIVE', 'SS_COMPLETED']))
  if kind == 'CreateStudy':
    return ('CreateStudy', 1, r.choice([1, 2, 2]), False, 'SS_ACTIVE', [(1, True)])
  if kind == 'CheckEarlyStop':
    return ('CheckEarlyStop', True, 1, 1, tid, ('decide', [(tid, r.random() < 0.5)], [(':designer_policy_v0', 'e', 0, 'z')] if r.random() < 0.5 else [], []))
  raise AssertionError(kind)


def gen_prefix(r):
  p = [('CreateStudy', 1, 1, False, 'SS_ACTIVE', [(1, True)]),
       ('SuggestTrials', 1, 1, 1, 2, ('deliver', [10, 20], [], []))]
  if r.random() < 0.6:
    p.append(('CreateTrial', 1, 1, 30, 'REQUESTED', [], []))
  if r.random() < 0.4:
    p.append(('SuggestTrials', 1, 1, 2, 1, ('deliver', [40], [], [])))
  if r.random() < 0.3:
    p.append(('AddTrialMeasurement', 1, 1, 1, [(1, 1)]))
  return p


def classify(rpcs, conc, serials):
  """Known-finding id for a non-serialisable outcome, or None."""
  kinds = [x[0] for x in rpcs]
  if conc['deadlock']:
    return None
  if 'DeleteStudy' in kinds or 'SetStudyState' in kinds:
    return 'C04-guard-outside-lock'
  return None


def run(tier, seed):
  from harness import svc, conc, svcmon
  rep = C.Report('C04', tier, seed)
  rep.rule = ('pairs (and some triples) of concurrent RPCs drawn from 11 kinds after a short sequential prefix, run as real threads under a '
              'deterministic scheduler (scheduling points = datastore primitive calls and servicer-lock acquisitions); schedules random '
              '(quick) or exhaustive per pair (thorough); oracle = some serial order of the same calls on the real implementation up to '
              'renumbering of new trials; model replayed on the same schedule; non-trivial = the two calls really interleave')
  rep.trusted = ['Coq 8.16.1 kernel + vm_compute', 'harness/translate/svclocks.py (Python-ast: datastore call sites and enclosing servicer locks, fail-closed)', 'harness/conc.py deterministic scheduler (one managed thread runs at a time; '
                 'interleavings inside a datastore primitive, inside SQLite/gRPC and the GIL are not explored)',
                 'service model tied by trace-level correspondence (see C01)']
  broke = None
  try:
    from harness.translate import svclocks
    C.write_gen('Gen/ServiceLocks.v', svclocks.translate(C.REPO))
  except Exception as e:  # pylint: disable=broad-except
    broke = 'translator harness/translate/svclocks.py refused vizier_service.py: %r' % (e,)
  from harness import svcrun as _svcrun
  hb_ = _svcrun.regenerate_handler_sources()
  broke = ((broke or '') + ' ' + (hb_ or '')).strip() or None
  C.standard_proof_step(rep, 'C04')
  broke = ((broke or '') + ' ' + (rep.proof_broken or '')).strip() or None
  concrete = False
  known = {f['id']: f for f in C.load_known() if f['property'] == 'C04'}
  r = C.rng(seed, 'c04')
  cases, objs = [], []
  pairs = list(itertools.combinations_with_replacement(KINDS, 2))
  r.shuffle(pairs)
  npairs = 40 if tier == 'quick' else len(pairs) * 3
  nsched = 6 if tier == 'quick' else 40
  for pi in range(npairs):
    ka, kb = pairs[pi % len(pairs)]
    backend = 'ram' if r.random() < 0.7 else 'sqlmem'
    prefix = gen_prefix(r)
    steps, snap0, _ = svc.run_sequence('ram', prefix)
    node = svcmon.nodes_of(snap0).get((1, 1), {'trials': []})
    ctx = {'ids': [t['id'] for t in node['trials']], 'active': [t['id'] for t in node['trials'] if t['state'] == 'ACTIVE']}
    rpcs = [make_rpc(r, ka, ctx), make_rpc(r, kb, ctx)]
    if pi % 4 == 0:
      # two studies of one owner: the second call goes to a sibling study (same worker id when both are suggestions)
      prefix = prefix + [('CreateStudy', 1, 2, False, 'SS_ACTIVE', [(1, True)])]
      if r.random() < 0.5:
        prefix.append(('SuggestTrials', 1, 2, 1, 1, ('deliver', [55], [], [])))
      both = (pi // 4) % 2 == 0
      kb2 = 'SuggestTrials' if both else r.choice(['SuggestTrials', 'CreateTrial', 'SetStudyState', 'DeleteStudy'])
      ka2 = 'SuggestTrials' if both else r.choice(['SuggestTrials', 'CreateTrial'])
      backend = 'sqlmem' if (pi // 8) % 2 == 0 else 'ram'
      a, b = make_rpc(r, ka2, ctx), make_rpc(r, kb2, ctx)
      b = (b[0], 1, 2) + tuple(b[3:])
      if a[0] == b[0] == 'SuggestTrials':
        b = b[:3] + (a[3],) + tuple(b[4:])
        a = a[:5] + (('deliver', a[5][1], a[5][2], []),)
        b = b[:5] + (('deliver', b[5][1], b[5][2], []),)
      elif b[0] == 'SuggestTrials':
        b = b[:5] + (('deliver', b[5][1], b[5][2], []),)
      rpcs = [a, b]
      rep.count('cross_study_pair')
    if tier == 'thorough' and r.random() < 0.15:
      rpcs.append(make_rpc(r, r.choice(KINDS), ctx))
    n = len(rpcs)
    serials = [conc.run_serial(backend, prefix, rpcs, o) for o in itertools.permutations(range(n))]
    scheds = set()
    for _ in range(nsched):
      L = r.randrange(2, 30)
      scheds.add(tuple(r.randrange(n) for _ in range(L)) if r.random() < 0.7 else tuple([r.randrange(n)] * r.randrange(1, 8) + [r.randrange(n)] * 12))
    seen_exec = set()
    for sched in sorted(scheds):
      res = conc.run_concurrent(backend, prefix, rpcs, list(sched))
      ex = tuple(res['executed'])
      if ex in seen_exec:
        continue
      seen_exec.add(ex)
      switches = sum(1 for a, b in zip(ex, ex[1:]) if a != b)
      obj = {'backend': backend, 'prefix': prefix, 'rpcs': rpcs, 'schedule': list(ex)}
      rep.case({'rpcs': [x[:5] for x in rpcs], 'schedule': list(ex)}, switches >= 2)
      rep.count('pair_%s+%s' % (ka, kb))
      if res['deadlock']:
        concrete = True
        rep.violation('deadlock: no runnable thread although calls are unfinished', obj)
        continue
      ok = any(conc.equivalent(res, s, res['before']) for s in serials)
      unfinished = [x for k_, nn in svcmon.nodes_of(res['snapshot']).items() for x in nn['ops'] if not x['done']]
      if not ok or unfinished:
        fid = classify(rpcs, res, serials) if not unfinished else None
        what = ('interleaving of %s and %s is not equivalent to any serial order' % (rpcs[0][0] + ' on study %d' % rpcs[0][2] if rpcs[0][0] != 'CheckEarlyStop' else rpcs[0][0], rpcs[1][0] + ' on study %d' % rpcs[1][2] if rpcs[1][0] != 'CheckEarlyStop' else rpcs[1][0])) if not ok else 'an operation is left unfinished solely because of the interleaving'
        if fid and fid in known:
          rep.known(fid, known[fid]['what'])
        else:
          concrete = True
          rep.violation(what, dict(obj, outcomes=[o[:2] for o in res['outcomes']]))
      if backend == 'ram':
        cases.append('(%s, %s, %s, %s, %s)' % (gl(prefix), gl(rpcs), C.glist(list(ex), C.gnat), C.glist(res['outcomes'], svc.g_outcome), svc.g_snapshot(res['snapshot'])))
        objs.append(obj)
  # ---- focused stage: every pair of trial-level calls on the SAME trial, and every schedule of the form "A takes j steps, then B
  # runs to completion, then A finishes" (and B / A swapped): a read-modify-write whose read happens outside the lock is exposed
  # by one of them
  RMW = ['CompleteTrial', 'AddTrialMeasurement', 'StopTrial', 'UpdateMetadata', 'DeleteTrial', 'CheckEarlyStop']
  fpairs = list(itertools.combinations_with_replacement(RMW, 2))
  if tier == 'quick':
    r.shuffle(fpairs)
    fpairs = fpairs[:14] + [p_ for p_ in fpairs[14:] if 'AddTrialMeasurement' in p_ or 'CompleteTrial' in p_][:4]
  for (ka, kb) in fpairs:
    prefix = [('CreateStudy', 1, 1, False, 'SS_ACTIVE', [(1, True)]), ('SuggestTrials', 1, 1, 1, 2, ('deliver', [10, 20], [], []))]
    if r.random() < 0.5:
      prefix.append(('AddTrialMeasurement', 1, 1, 1, [(1, 1)]))
    ctx = {'ids': [1], 'active': [1]}
    backend = 'ram' if r.random() < 0.7 else 'sqlmem'
    a, b = make_rpc(r, ka, ctx), make_rpc(r, kb, ctx)
    if a[0] == 'UpdateMetadata':
      a = ('UpdateMetadata', 1, 1, [], [(1, ('', 'k', 0, 'v'))])
    if b[0] == 'UpdateMetadata':
      b = ('UpdateMetadata', 1, 1, [], [(1, ('', 'k2', 0, 'w'))])
    rpcs = [a, b]
    serials = [conc.run_serial(backend, prefix, rpcs, o) for o in itertools.permutations(range(2))]
    seen_exec = set()
    for first in (0, 1):
      for j in range(0, 9):
        sched = [first] * j + [1 - first] * 40 + [first] * 40
        res = conc.run_concurrent(backend, prefix, rpcs, sched)
        ex = tuple(res['executed'])
        if ex in seen_exec:
          continue
        seen_exec.add(ex)
        obj = {'backend': backend, 'prefix': prefix, 'rpcs': rpcs, 'schedule': list(ex)}
        rep.case({'rpcs': [x[:5] for x in rpcs], 'schedule': list(ex), 'stage': 'same-trial'}, 0 < j)
        rep.count('same_trial_%s+%s' % (ka, kb))
        if res['deadlock']:
          concrete = True
          rep.violation('deadlock: no runnable thread although calls are unfinished', obj)
          continue
        if not any(conc.equivalent(res, s_, res['before']) for s_ in serials):
          fid = classify(rpcs, res, serials)
          if fid and fid in known:
            rep.known(fid, known[fid]['what'])
          else:
            concrete = True
            rep.violation('interleaving of %s and %s on the same trial is not equivalent to any serial order' % (a[0], b[0]),
                          dict(obj, outcomes=[o[:2] for o in res['outcomes']]))
        if backend == 'ram':
          cases.append('(%s, %s, %s, %s, %s)' % (gl(prefix), gl(rpcs), C.glist(list(ex), C.gnat), C.glist(res['outcomes'], svc.g_outcome), svc.g_snapshot(res['snapshot'])))
          objs.append(obj)

  # ---- focused stage: persisted algorithm state.  A hosted algorithm that keeps a counter in the study metadata (reads it from
  # the study it is handed, writes counter + 1 back through its metadata delta, as the state-persisting designer policies do with
  # their dumps).  Two workers' suggestion calls (and an early-stopping check) overlap in every way "A takes j steps, B completes,
  # A finishes": the stored counter must be the number of algorithm calls, as in every serial order - a call that starts from
  # a state read before it got the operation lock loses the other call's update.
  from vizier import pythia as _pythia
  from vizier import pyvizier as _vz
  from vizier._src.service import pythia_service as _ps
  NS_ = 'acc'

  class _Counter(_pythia.Policy):
    seen = []

    def _next(self, request):
      md = request.study_config.metadata.ns(NS_)
      cur = int(md.get('cnt', default='0'))
      _Counter.seen.append(cur)
      delta = _vz.MetadataDelta()
      delta.on_study.ns(NS_)['cnt'] = str(cur + 1)
      return delta

    def suggest(self, request):
      delta = self._next(request)
      return _pythia.SuggestDecision([_vz.TrialSuggestion({'x': 0.5}) for _ in range(request.count)], delta)

    def early_stop(self, request):
      return _pythia.EarlyStopDecisions([], self._next(request))

    @property
    def should_be_cached(self):
      return False

  class _CounterFactory(_pythia.PolicyFactory):
    def __call__(self, problem, algorithm, supporter, study_name):
      return _Counter()

  def counter_of(serv_):
    snap_ = svc.snapshot(serv_)
    node_ = svcmon.nodes_of(snap_).get((1, 1))
    vals = [kv[3] for kv in (node_['study']['md'] if node_ else []) if kv[0].lstrip(':') == NS_ and kv[1] == 'cnt']
    return int(vals[0]) if vals else 0

  acc_pairs = [(('SuggestTrials', 1, 1, 1, 1, ('deliver', [], [], [])), ('SuggestTrials', 1, 1, 2, 1, ('deliver', [], [], []))),
               (('SuggestTrials', 1, 1, 1, 2, ('deliver', [], [], [])), ('SuggestTrials', 1, 1, 3, 1, ('deliver', [], [], []))),
               (('SuggestTrials', 1, 1, 2, 1, ('deliver', [], [], [])), ('CheckEarlyStop', True, 1, 1, 1, ('decide', [], [], []))),
               # the SAME worker asks twice at once (a retried request): in every serial order each call gets its own finished operation
               (('SuggestTrials', 1, 1, 1, 1, ('deliver', [], [], [])), ('SuggestTrials', 1, 1, 1, 1, ('deliver', [], [], []))),
               (('SuggestTrials', 1, 1, 2, 2, ('deliver', [], [], [])), ('SuggestTrials', 1, 1, 2, 1, ('deliver', [], [], [])))]
  for (a, b) in acc_pairs:
    for backend in (('ram', 'sqlmem') if tier != 'quick' else ('ram',)):
      prefix = [('CreateStudy', 1, 1, False, 'SS_ACTIVE', [(1, True)])]
      if b[0] == 'CheckEarlyStop':
        prefix.append(('SuggestTrials', 1, 1, 1, 1, ('deliver', [], [], [])))
      seen_exec = set()
      for first in (0, 1):
        for j in range(0, 14):
          serv_, holder_, proxy_ = svc.make_servicer(backend, recycle=True)
          serv_.default_pythia_service = _ps.PythiaServicer(serv_, _CounterFactory())
          for rpc in prefix:
            svc.apply_rpc(serv_, holder_, rpc)
          base = counter_of(serv_)
          sched_ = conc.Sched()
          conc.instrument(serv_, proxy_, sched_)
          _Counter.seen = []
          results, deadlock, executed = sched_.run([(lambda rpc=rpc: svc.apply_rpc(serv_, holder_, rpc)) for rpc in (a, b)],
                                                   [first] * j + [1 - first] * 60 + [first] * 60)
          proxy_.hook = None
          ex = tuple(executed)
          if ex in seen_exec:
            continue
          seen_exec.add(ex)
          obj = {'backend': backend, 'prefix': prefix, 'rpcs': [a, b], 'schedule': list(ex), 'algorithm': 'counter kept in study metadata'}
          rep.case({'rpcs': [a[:5], b[:5]], 'schedule': list(ex), 'stage': 'algorithm-state'}, 0 < j)
          rep.count('algorithm_state_%s+%s' % (a[0], b[0]))
          if deadlock:
            concrete = True
            rep.violation('deadlock: no runnable thread although calls are unfinished', obj)
            continue
          ncalls = len(_Counter.seen)
          got = counter_of(serv_)
          if any(o_[0] != 'Done' for o_ in results):
            concrete = True
            rep.violation('a suggestion call / early-stopping check fails solely because of the interleaving', dict(obj, outcomes=[o_[:2] for o_ in results]))
          elif any(o_[1] == 'RpOp' and (not o_[2]['done'] or o_[2]['err'] or not o_[2]['trials']) for o_ in results) or \
              len({(o_[2]['client'], o_[2]['num']) for o_ in results if o_[1] == 'RpOp'}) != sum(1 for o_ in results if o_[1] == 'RpOp'):
            concrete = True
            rep.violation('overlapping suggestion calls: a call is answered with an unfinished / empty operation or with the operation of the other call '
                          '(in every serial order each call gets its own finished operation carrying trials)',
                          dict(obj, outcomes=[(o_[1], {k_: o_[2][k_] for k_ in ('client', 'num', 'done', 'err')}, [t_['id'] for t_ in o_[2]['trials']]) if o_[1] == 'RpOp' else o_[:2] for o_ in results]))
          elif got != base + ncalls or sorted(_Counter.seen) != list(range(base, base + ncalls)):
            concrete = True
            rep.violation('lost update of persisted algorithm state: %d overlapping algorithm calls started from the stored counters %r and left %d '
                          '(every serial order leaves %d)' % (ncalls, _Counter.seen, got, base + ncalls), dict(obj, outcomes=[o_[:2] for o_ in results]))

  # ---- focused stage: two studies of one owner served at the same time by hosted algorithms that READ their study through the
  # policy supporter (as the designer policies do: completed trials, then active trials).  Study 1 has one ACTIVE trial, study 2
  # has three; whatever the interleaving, every read a policy makes must show the trials of the study its request is for (as in
  # both serial orders) - per-request state kept on an object shared by the studies shows up here.
  class _Reader(_pythia.Policy):
    log = []

    def __init__(self, supporter):
      self._supporter = supporter

    def suggest(self, request):
      reads = []
      for st_ in (_vz.TrialStatus.COMPLETED, _vz.TrialStatus.ACTIVE, _vz.TrialStatus.ACTIVE):
        reads.append(len(self._supporter.GetTrials(status_matches=st_)))
      cfg_md = self._supporter.GetStudyConfig(request.study_guid).metadata.ns('which').get('study', default='?')
      _Reader.log.append((request.study_guid, tuple(reads), cfg_md))
      return _pythia.SuggestDecision([_vz.TrialSuggestion({'x': 0.5}) for _ in range(request.count)], _vz.MetadataDelta())

    def early_stop(self, request):
      return _pythia.EarlyStopDecisions([], _vz.MetadataDelta())

    @property
    def should_be_cached(self):
      return False

  class _ReaderFactory(_pythia.PolicyFactory):
    def __call__(self, problem, algorithm, supporter, study_name):
      return _Reader(supporter)

  for backend in (('ram', 'sqlmem') if tier != 'quick' else ('ram',)):
    seen_exec = set()
    for first in (0, 1):
      for j in range(0, 16):
        serv_, holder_, proxy_ = svc.make_servicer(backend, recycle=True)
        serv_.default_pythia_service = _ps.PythiaServicer(serv_, _ReaderFactory())
        prefix = [('CreateStudy', 1, 1, False, 'SS_ACTIVE', [(1, True)]), ('CreateStudy', 1, 2, False, 'SS_ACTIVE', [(1, True)]),
                  ('SuggestTrials', 1, 1, 1, 1, ('deliver', [], [], [])), ('SuggestTrials', 1, 2, 1, 3, ('deliver', [], [], []))]
        for rpc in prefix:
          svc.apply_rpc(serv_, holder_, rpc)
        a = ('SuggestTrials', 1, 1, 2, 1, ('deliver', [], [], []))
        b = ('SuggestTrials', 1, 2, 2, 1, ('deliver', [], [], []))
        sched_ = conc.Sched()
        conc.instrument(serv_, proxy_, sched_)
        _Reader.log = []
        results, deadlock, executed = sched_.run([(lambda rpc=rpc: svc.apply_rpc(serv_, holder_, rpc)) for rpc in (a, b)],
                                                 [first] * j + [1 - first] * 60 + [first] * 60)
        proxy_.hook = None
        ex = tuple(executed)
        if ex in seen_exec:
          continue
        seen_exec.add(ex)
        obj = {'backend': backend, 'prefix': prefix, 'rpcs': [a, b], 'schedule': list(ex), 'algorithm': 'reads its study through the policy supporter'}
        rep.case({'rpcs': [a[:5], b[:5]], 'schedule': list(ex), 'stage': 'two-studies-supporter-reads'}, 0 < j)
        rep.count('two_studies_supporter_reads')
        if deadlock:
          concrete = True
          rep.violation('deadlock: no runnable thread although calls are unfinished', obj)
          continue
        want_ = {svc.study_name(1, 1): (0, 1, 1), svc.study_name(1, 2): (0, 3, 3)}
        wrong_ = [(g_, rd_) for g_, rd_, _m in _Reader.log if want_.get(g_) != rd_]
        if any(o_[0] != 'Done' for o_ in results):
          concrete = True
          rep.violation('a suggestion call on one of two studies fails solely because of the interleaving', dict(obj, outcomes=[o_[:2] for o_ in results]))
        elif wrong_ or len(_Reader.log) != 2:
          concrete = True
          rep.violation('a hosted algorithm serving one study was shown the trials of another study of the same owner (numbers of COMPLETED / ACTIVE / '
                        'ACTIVE trials it read, per request) - in both serial orders each request sees its own study',
                        dict(obj, reads=[(g_, list(rd_)) for g_, rd_, _m in _Reader.log], expected={k_: list(v_) for k_, v_ in want_.items()}))

  # ---- focused stage: the study is stopped / completed / deleted while a suggestion call that needs the algorithm is under way:
  # whatever the call answers, it leaves no unfinished operation, and after the study is active again the worker is served
  for (other, tag_) in ((('SetStudyState', 1, 1, 'SS_INACTIVE'), 'inactive'), (('SetStudyState', 1, 1, 'SS_COMPLETED'), 'completed')):
    for backend in (('ram', 'sqlmem') if tier != 'quick' else ('ram',)):
      seen_exec = set()
      for j in range(0, 16):
        prefix = [('CreateStudy', 1, 1, False, 'SS_ACTIVE', [(1, True)])]
        a = ('SuggestTrials', 1, 1, 1, 2, ('deliver', [11, 12], [], []))
        res = conc.run_concurrent(backend, prefix, [a, other], [0] * j + [1] * 40 + [0] * 60)
        ex = tuple(res['executed'])
        if ex in seen_exec or res['deadlock']:
          continue
        seen_exec.add(ex)
        obj = {'backend': backend, 'prefix': prefix, 'rpcs': [a, other], 'schedule': list(ex)}
        rep.case({'rpcs': [a[:5], other], 'schedule': list(ex), 'stage': 'state-change-during-suggest'}, 0 < j)
        rep.count('state_change_during_suggest_' + tag_)
        unfinished = [x for k_, nn in svcmon.nodes_of(res['snapshot']).items() for x in nn['ops'] if not x['done']]
        if unfinished:
          concrete = True
          rep.violation('SuggestTrials overlapped by SetStudyState leaves an unfinished operation (the worker is answered from it for ever)',
                        dict(obj, outcomes=[o[:2] for o in res['outcomes']], unfinished=[(x['client'], x['num']) for x in unfinished]))

  bad = C.run_cases('C04', 'conc', svc.HDR + 'From VZ Require Import Model.Conc.\n', cases, 'conc_case_ok', shard=60)
  rep.disagreements += len(bad)
  for i in bad[:3]:
    broke = ((broke or '') + ' correspondence interleaving model vs code on %r;' % (objs[i],))
  C.settle_broken(rep, broke, concrete)
  return rep.finish()


def gl(seq):
  from harness import svc
  from harness.props.c05 import oracle_of
  return C.glist(seq, lambda rpc: '(%s, %s)' % (svc.g_rpc(rpc), oracle_of(rpc)))


def replay(path):
  print(json.dumps(json.load(open(path)), indent=1)[:4000])
  return 1
