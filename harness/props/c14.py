"""C14 — seeded algorithms and benchmark runs are reproducible."""
import json
import os
import subprocess
import sys

from harness import common as C
from harness.common import gN, gZ, gbool, glist, gopt, gpair, gstr, gnat

HDR = 'From VZ Require Import Base.Prelude Model.Seeded Gen.RngSites.\n'
DESIGNERS = ['random', 'quasi_random', 'grid', 'eagle', 'nsga2', 'cmaes']
SERIALIZABLE = ['quasi_random', 'grid', 'eagle', 'nsga2', 'cmaes']


def run(tier, seed):
  from harness import boot
  boot.boot()
  from harness import c14run
  from harness.translate import rngsites

  rep = C.Report('C14', tier, seed)
  rep.rule = ('designers random / quasi-random / shuffled grid / eagle / NSGA-II / CMA-ES x generated problems x seeds x batch sequences, run as a bare '
              'designer, inside InRamDesignerPolicy(seed), inside PartiallySerializableDesignerPolicy(seed) with a new policy per request (restore '
              'path), and as a seeded benchmark (BenchmarkStateFactory + runner subroutines on a BBOB function); each run is repeated after '
              'perturbing numpy / python global generators and moving the wall clock, after another study ran first, and in a fresh process '
              'with another PYTHONHASHSEED; results must be identical; a different seed must change the stream on problems with enough entropy; '
              'GP_UCB_PE / GAUSSIAN_PROCESS_BANDIT cannot run here and are covered by the static stream table only; non-trivial = a randomised '
              'designer with at least two batches')
  rep.trusted = ['Coq 8.16.1 kernel + vm_compute', 'harness/translate/rngsites.py (Python-ast data-flow of seed arguments, fail-closed; CMA-ES '
                 'load_state is taken to restore the PRNG key: hand-written)', 'numpy RandomState / Generator, scipy Halton, python Random and '
                 'jax PRNG keys are deterministic functions of their seed (the property is about how they are seeded)', 'equinox stand-in']
  known = {f['id']: f for f in C.load_known() if f['property'] == 'C14'}
  broke = None
  try:
    C.write_gen('Gen/RngSites.v', rngsites.translate(C.REPO))
  except Exception as e:  # pylint: disable=broad-except
    broke = 'translator harness/translate/rngsites.py refused the designer sources: %r' % (e,)
  C.standard_proof_step(rep, 'C14')
  broke = ((broke or '') + ' ' + (rep.proof_broken or '')).strip() or None
  concrete = False
  r = C.rng(seed, 'c14')
  quick = tier == 'quick'

  def viol(what, obj):
    nonlocal concrete
    concrete = True
    rep.violation(what, obj)

  def inproc(mode, name, sd, space_seed, steps, k, before=None):
    c14run.perturb(k)
    try:
      if before == 'gp_construct':
        c14run.construct_gp_designers()
      elif before:
        c14run.run_mode('designer', before, 1, 99, [2, 2])
        if mode == 'benchmark':
          c14run.run_mode('benchmark', before, sd + 1, space_seed, [2])      # another rotation seed, same dimension
      return c14run.run_mode(mode, name, sd, space_seed, steps)
    finally:
      c14run.unperturb()

  def child(mode, name, sd, space_seed, steps, k, before=None):
    env = dict(os.environ, PYTHONHASHSEED=str(r.randrange(1, 10000)), PYTHONPATH=C.VERIF)
    spec = json.dumps({'mode': mode, 'name': name, 'seed': sd, 'space_seed': space_seed, 'steps': steps, 'perturb': k, 'before': before})
    p = subprocess.run([sys.executable, '-m', 'harness.c14run', spec], cwd=C.VERIF, env=env, capture_output=True, text=True, timeout=600)
    for line in p.stdout.splitlines():
      if line.startswith('C14RESULT '):
        return json.loads(line[len('C14RESULT '):])
    raise RuntimeError('child failed: ' + (p.stderr or p.stdout)[-400:])

  canon = lambda x: json.loads(json.dumps(x, sort_keys=True))
  observed = {n: {'repro': True, 'seed_used': False, 'restore_repro': True} for n in DESIGNERS}
  nrounds = 2 if quick else 10
  import concurrent.futures
  pool = concurrent.futures.ThreadPoolExecutor(max_workers=12)
  pending = []
  for rd in range(nrounds):
    for name in DESIGNERS:
      sd, space_seed = (0 if rd == 0 else r.randrange(1, 100000)), r.randrange(10000)   # round 0: the boundary seed 0 (a seed, not 'no seed')
      space_seed = space_seed - space_seed % 9 + 3 * ((rd + DESIGNERS.index(name)) % 3) + space_seed % 3   # cycle the benchmark wrappers
      steps = [r.randrange(1, 4) for _ in range(r.choice([4, 7]))]
      modes = ['designer', 'inram'] + (['restore'] if name in SERIALIZABLE else []) + (['benchmark'] if name != 'cmaes' or True else [])
      if name in ('quasi_random', 'grid', 'eagle'):
        modes.append('benchmark_restore')
      for mode in modes:
        spec = {'mode': mode, 'designer': name, 'seed': sd, 'space_seed': space_seed, 'steps': steps}
        rep.case(spec, name != 'grid' or True)
        rep.count('%s_%s' % (mode, name))
        try:
          a = canon(inproc(mode, name, sd, space_seed, steps, 1))
        except Exception as e:  # pylint: disable=broad-except
          rep.count('refused_%s_%s_%s' % (mode, name, type(e).__name__))
          continue
        b = canon(inproc(mode, name, sd, space_seed, steps, 2, before=r.choice([None, 'random', 'eagle']) if name != 'cmaes' else 'gp_construct'))
        runs = [('same process, generators and clock perturbed, another study first', b)]
        if rd == 0 or not quick:
          pending.append((name, mode, spec, a, pool.submit(child, mode, name, sd, space_seed, steps, 3, 'quasi_random' if mode == 'benchmark' else r.choice([None, 'quasi_random']))))
        for how, other in runs:
          if other != a:
            first = [i for i in range(min(len(a), len(other))) if a[i] != other[i]]
            kf = 'C14-nsga2-restore-unseeded'
            if name == 'nsga2' and mode == 'restore' and kf in known:
              rep.known(kf, known[kf]['what'])
              observed[name]['restore_repro'] = False
              break
            if mode == 'restore':
              observed[name]['restore_repro'] = False
            else:
              observed[name]['repro'] = False
            viol('%s (%s): two runs with the same seed, problem and history differ (%s)' % (name, mode, how),
                 dict(spec, how=how, first_differing_batch=first[:1], run1=(a[first[0]] if first else a)[:3], run2=(other[first[0]] if first else other)[:3]))
            break
        if mode == 'designer':
          c = canon(inproc(mode, name, sd + 1, space_seed, steps, 1))
          if c != a:
            observed[name]['seed_used'] = True
  for name, mode, spec, a, fut in pending:
    how = 'fresh process, other PYTHONHASHSEED'
    try:
      other = canon(fut.result())
    except Exception as e:  # pylint: disable=broad-except
      viol('%s (%s): the run in a fresh process failed: %s' % (name, mode, str(e)[-200:]), dict(spec, how=how))
      continue
    if other != a:
      kf = 'C14-nsga2-restore-unseeded'
      if name == 'nsga2' and mode == 'restore' and kf in known:
        rep.known(kf, known[kf]['what'])
        observed[name]['restore_repro'] = False
        continue
      first = [i for i in range(min(len(a), len(other))) if a[i] != other[i]]
      observed[name]['restore_repro' if mode == 'restore' else 'repro'] = False
      viol('%s (%s): two runs with the same seed, problem and history differ (%s)' % (name, mode, how),
           dict(spec, how=how, first_differing_batch=first[:1], run1=(a[first[0]] if first else a)[:3], run2=(other[first[0]] if first else other)[:3]))
  pool.shutdown()
  for name in DESIGNERS:
    if not observed[name]['seed_used']:
      viol('%s: a different seed does not change the suggestions (the seed argument is not used)' % name, {'designer': name})

  # ---- a history of externally evaluated trials (no algorithm metadata), given as THE SAME OBJECTS to two designers built with
  # the same seed: the second run must see the history the first one saw, so update() must leave the trials it is given as they are
  import copy as _copy
  from vizier import pyvizier as _vz
  from vizier import algorithms as _vza
  from vizier._src.algorithms.designers import random as _rnd
  for name in DESIGNERS:
    for hi in range(2 if quick else 8):
      space_seed = r.randrange(10000)
      nh = r.choice([6, 20, 40])
      try:
        prob, _meta = c14run.problem(space_seed, name)
        pts = _rnd.RandomDesigner(prob.search_space, seed=space_seed).suggest(nh)
        hist = []
        for i, sg in enumerate(pts):
          t = sg.to_trial(i + 1)
          t.metadata.clear() if hasattr(t.metadata, 'clear') else None
          t = _vz.Trial(id=i + 1, parameters=t.parameters)
          t.complete(_vz.Measurement({m.name: c14run.objective(t.parameters) + 0.37 * k_ for k_, m in enumerate(prob.metric_information)}))
          hist.append(t)
        def _canon_hist(h):
          return [(t_.id, sorted((k_, repr(v_.value)) for k_, v_ in t_.parameters.items()), repr(t_.final_measurement), t_.status.name,
                   sorted((ns_.encode(), sorted(dict(t_.metadata.abs_ns(ns_)).items())) for ns_ in t_.metadata.namespaces())) for t_ in h]
        snapshot = _canon_hist(hist)
        batches = r.choice([1, 2])
        outs = []
        for run_ in range(2):
          d = c14run.factory(name)(prob, seed=5)
          n_ = len(hist) // batches
          o_ = []
          for b_ in range(batches):
            d.update(_vza.CompletedTrials(hist[b_ * n_:(b_ + 1) * n_]), _vza.ActiveTrials())
            o_.append([{k: v.value for k, v in s_.parameters.items()} for s_ in d.suggest(2)])
          outs.append(canon(o_))
          if run_ == 0 and snapshot != _canon_hist(hist):
            now_ = _canon_hist(hist)
            ch = [i for i in range(len(hist)) if snapshot[i] != now_[i]]
            viol('%s: update() modified the trials it was given (a caller that passes the same history to another run does not pass the same history)' % name,
                 {'designer': name, 'space_seed': space_seed, 'history_length': nh, 'modified_trials': ch[:5],
                  'metadata_after': [{ns_.encode(): dict(hist[i].metadata.abs_ns(ns_)) for ns_ in hist[i].metadata.namespaces()} for i in ch[:2]]})
        rep.case({'external_history': name, 'space_seed': space_seed, 'n': nh, 'batches': batches}, True)
        rep.count('external_history_%s' % name)
        if outs[0] != outs[1]:
          viol('%s: two designers with the same seed given the same list of completed trials suggest differently' % name,
               {'designer': name, 'space_seed': space_seed, 'history_length': nh, 'batches': batches, 'run1': outs[0][:1], 'run2': outs[1][:1]})
      except Exception as e:  # pylint: disable=broad-except
        rep.count('external_history_refused_%s_%s' % (name, type(e).__name__))

  # ---- the GP designers fit their hyper-parameters with sequential restarts under a wall-clock budget.  Same seed, same loss,
  # same starting points: the fitted optimum must not depend on whether one restart takes a millisecond or two minutes (the
  # designers themselves cannot run in this sandbox; the optimiser object they use by default can)
  try:
    import jax as _jax
    from jax import numpy as _jnp
    import numpy as _np
    from vizier._src.algorithms.designers import gp_ucb_pe as _gpu
    from vizier._src.jax.optimizers import jaxopt_wrappers as _jw

    class _Clock:
      def __init__(self, step):
        self.now, self.step = 1.7e9, step

      def time(self):
        self.now += self.step
        return self.now

    def _loss(params):
      a = params['a'][0]
      return (a * a - 1.0) ** 2 + 0.3 * a, dict()     # two wells; the better one (a = -1) is only reached by the last start

    def _fit(step, starts):
      real = _jw.time
      _jw.time = _Clock(step)
      try:
        best, metrics = _gpu.default_ard_optimizer()(init_params={'a': _jnp.array([[x] for x in starts])}, loss_fn=_loss,
                                                     rng=_jax.random.PRNGKey(0), best_n=1)
        return float(_np.asarray(best['a']).ravel()[0]), int(_np.asarray(metrics['loss']).shape[-1])
      finally:
        _jw.time = real
    for starts in ([0.8, 0.9, 1.1, 0.7, -0.8], [1.2, 0.6, -0.7, 0.9, 1.0]):
      fast, slow = _fit(0.001, starts), _fit(120.0, starts)
      rep.case({'ard_restarts_under_clock': starts, 'fast': fast, 'slow': slow}, True)
      rep.count('ard_clock_independence')
      if abs(fast[0] - slow[0]) > 1e-6 or fast[1] != slow[1]:
        viol('GP_UCB_PE hyper-parameter fit (default ARD optimiser): same seed, loss and starting points give another optimum when one '
             'restart takes two minutes instead of a millisecond (restarts are dropped by the wall-clock budget)',
             {'starting_points': starts, 'fast_clock': {'optimum': fast[0], 'restarts': fast[1]}, 'slow_clock': {'optimum': slow[0], 'restarts': slow[1]}})
  except ImportError as e:
    rep.count('ard_clock_stage_unavailable_%s' % type(e).__name__)

  # ---- agreement of the stream table with what was observed
  idx = {'random': 0, 'quasi_random': 1, 'grid': 2, 'eagle': 3, 'nsga2': 4, 'cmaes': 7}
  cases = ['(%s, %s, %s, %s)' % (gnat(idx[n]), gbool(observed[n]['repro']), gbool(observed[n]['seed_used']), gbool(observed[n]['restore_repro']))
           for n in DESIGNERS]
  hdr = HDR + ('Definition c14_case_ok (c : nat * bool * bool * bool) : bool :=\n'
               '  let \'(i, repro, used, restore) := c in\n'
               '  match nth_error rng_classes i with\n'
               '  | Some k => Bool.eqb (class_ok k) repro && Bool.eqb (class_uses_seed k) used &&\n'
               '              Bool.eqb (class_ok k && restore_ok k policy_restore_passes_seed) restore\n'
               '  | None => false end.\n')
  bad = C.run_cases('C14', 'tab', hdr, cases, 'c14_case_ok')
  rep.disagreements += len(bad)
  for i in bad:
    broke = (broke or '') + ' correspondence: the stream table of %s predicts otherwise than observed %r;' % (DESIGNERS[i], observed[DESIGNERS[i]])
  C.settle_broken(rep, broke, concrete)
  return rep.finish()


def replay(path):
  print(json.dumps(json.load(open(path)), indent=1)[:4000])
  return 1
