"""C09 — study configs, trials and measurements survive the wire format unchanged."""
import copy
import datetime
import json
from fractions import Fraction

from harness import common as C
from harness.common import gN, gZ, gbool, glist, gopt, gpair, gstr

HDR = 'From VZ Require Import Base.Prelude Model.Wire Gen.EnumMaps Model.WireConv.\n'


def gQf(x):
  fr = Fraction(x)
  return '(%d # %d)%%Q' % (fr.numerator, fr.denominator)


def g_pval(v):
  if isinstance(v, str):
    return '(VStr %s)' % gstr(v)
  return '(VNum %s)' % gQf(v)


SC = {'LINEAR': 'ScLinear', 'LOG': 'ScLog', 'REVERSE_LOG': 'ScRevLog', 'UNIFORM_DISCRETE': 'ScUniformDiscrete'}
EX = {'INTERNAL': 'ExInternal', 'BOOLEAN': 'ExBoolean', 'INTEGER': 'ExInteger', 'FLOAT': 'ExFloat'}
TY = {'DOUBLE': 'TDouble', 'INTEGER': 'TInteger', 'DISCRETE': 'TDiscrete', 'CATEGORICAL': 'TCategorical'}


def g_pconf(pc):
  ty = pc.type.name
  bounds = 'None'
  feas = '[]'
  if ty in ('DOUBLE', 'INTEGER'):
    bounds = '(Some (%s, %s))' % (gQf(pc.bounds[0]), gQf(pc.bounds[1]))
  else:
    feas = glist(list(pc.feasible_values), g_pval)
  sc = 'None' if pc.scale_type is None else '(Some %s)' % SC[pc.scale_type.name]
  d = 'None' if pc.default_value is None else '(Some %s)' % g_pval(pc.default_value)
  children = glist(pc.child_parameter_configs, lambda c: gpair(glist(list(c.matching_parent_values), g_pval), g_pconf(c)))
  return '(PConf %s %s %s %s %s %s %s %s)' % (gstr(pc.name), TY[ty], bounds, feas, sc, d, EX[pc.external_type.name], children)


def g_pspec(p):
  which = p.WhichOneof('parameter_value_spec')
  spec = getattr(p, which)
  has_d = spec.HasField('default_value')
  if which == 'double_value_spec':
    sp = '(SpDouble %s %s %s)' % (gQf(spec.min_value), gQf(spec.max_value), gopt(spec.default_value.value if has_d else None, gQf))
  elif which == 'integer_value_spec':
    sp = '(SpInt %s %s %s)' % (gZ(spec.min_value), gZ(spec.max_value), gopt(spec.default_value.value if has_d else None, gZ))
  elif which == 'discrete_value_spec':
    sp = '(SpDiscrete %s %s)' % (glist(list(spec.values), gQf), gopt(spec.default_value.value if has_d else None, gQf))
  else:
    sp = '(SpCat %s %s)' % (glist(list(spec.values), gstr), gopt(spec.default_value.value if has_d else None, gstr))

  def g_cond(c):
    w = c.WhichOneof('parent_value_condition')
    if w == 'parent_discrete_values':
      cd = '(CdDiscrete %s)' % glist(list(c.parent_discrete_values.values), gQf)
    elif w == 'parent_int_values':
      cd = '(CdInt %s)' % glist(list(c.parent_int_values.values), gZ)
    else:
      cd = '(CdCat %s)' % glist(list(c.parent_categorical_values.values) if w else [], gstr)
    return gpair(cd, g_pspec(c.parameter_spec))
  return '(PSpec %s %s %s %s %s)' % (gstr(p.parameter_id), sp, gN(int(p.scale_type)), gN(int(p.external_type)),
                                     glist(list(p.conditional_parameter_specs), g_cond))


def run(tier, seed):
  from harness import boot
  boot.boot()
  from harness.translate import enummaps
  from vizier import pyvizier as vz
  from vizier import pythia
  from vizier.service import pyvizier as svz
  from vizier._src.pyvizier.oss import proto_converters as pc
  from vizier._src.pyvizier.oss import metadata_util

  rep = C.Report('C09', tier, seed)
  rep.rule = ('generated ParameterConfigs (four kinds, LINEAR/LOG/REVERSE_LOG/UNIFORM_DISCRETE/none, falsy defaults 0, 0.0, "", external '
              'types, conditional trees up to depth 3 with single and multiple parent values), Measurements (dyadic and arbitrary elapsed '
              'seconds), Trials in every state, MetadataDelta, Suggest/EarlyStop requests and decisions, StudyConfig/ProblemStatement: '
              'real to_proto/from_proto compared with the model (configs, measurements) and checked by round-trip monitors; '
              'non-trivial = conditional config, falsy default, fractional seconds or non-empty metadata')
  rep.trusted = ['Coq 8.16.1 kernel + vm_compute', 'harness/translate/enummaps.py (Python-ast translator, fail-closed)',
                 'exact rational arithmetic instead of IEEE doubles in the model', 'proto shim']
  broke = None
  try:
    C.write_gen('Gen/EnumMaps.v', enummaps.translate(C.REPO))
  except Exception as e:  # pylint: disable=broad-except
    broke = 'translator harness/translate/enummaps.py refused proto_converters.py: %r' % (e,)
  C.standard_proof_step(rep, 'C09')
  broke = ((broke or '') + ' ' + (rep.proof_broken or '')).strip() or None
  concrete = False
  known = {f['id']: f for f in C.load_known() if f['property'] == 'C09'}
  r = C.rng(seed, 'c09')
  N = 300 if tier == 'quick' else 4000
  P = pc.ParameterConfigConverter

  def viol(what, obj, fid=None):
    nonlocal concrete
    if fid and fid in known:
      rep.known(fid, known[fid]['what'])
    else:
      concrete = True
      rep.violation(what, obj)

  # ---------------- ParameterConfig trees
  names = ['a', 'b', 'x[0]', 'lr', 'é', 'p:q']

  def gen_pc(depth, name):
    kind = r.choice(['DOUBLE', 'INTEGER', 'DISCRETE', 'CATEGORICAL']) if depth > 0 else r.choice(['DOUBLE', 'INTEGER', 'DISCRETE', 'CATEGORICAL'])
    kw = {}
    if kind == 'DOUBLE':
      lo = r.choice([0.0, -1.5, 0.25, 1e-3])
      kw['bounds'] = (lo, lo + r.choice([1.0, 0.5, 100.0]))
      if r.random() < 0.5:
        kw['default_value'] = r.choice([lo, 0.0 if lo <= 0.0 <= kw['bounds'][1] else lo])
    elif kind == 'INTEGER':
      lo = r.choice([0, -2, 1])
      kw['bounds'] = (lo, lo + r.choice([1, 3, 10]))
      if r.random() < 0.5:
        kw['default_value'] = r.choice([lo, 0 if lo <= 0 else lo])
    elif kind == 'DISCRETE':
      kw['feasible_values'] = r.sample([0.0, 0.5, 1.0, 2.0, 3.0, -1.0], r.randrange(1, 5))
      if r.random() < 0.5:
        kw['default_value'] = r.choice(kw['feasible_values'])
    else:
      kw['feasible_values'] = r.sample(['', 'u', 'v', 'w', 'é'], r.randrange(1, 4))
      if r.random() < 0.5:
        kw['default_value'] = r.choice(kw['feasible_values'])
    sc = r.choice([None, None, 'LINEAR', 'LOG', 'REVERSE_LOG', 'UNIFORM_DISCRETE'])
    if sc in ('LOG', 'REVERSE_LOG') and kind in ('DOUBLE', 'INTEGER') and kw['bounds'][0] <= 0:
      sc = 'LINEAR'
    if sc == 'UNIFORM_DISCRETE' and kind in ('DOUBLE', 'INTEGER'):
      sc = None
    if sc and kind != 'CATEGORICAL':
      kw['scale_type'] = getattr(vz.ScaleType, sc)
    if r.random() < 0.3:
      kw['external_type'] = r.choice(list(vz.ExternalType))
    children = []
    if depth < 3 and kind != 'DOUBLE' and r.random() < (0.55 if depth == 0 else 0.4):
      if kind == 'INTEGER':
        dom = list(range(kw['bounds'][0], kw['bounds'][1] + 1))
      else:
        dom = list(kw['feasible_values'])
      if len(dom) >= 2 and r.random() < 0.35:
        # the same child name under two different parent values, configured differently
        v1, v2 = r.sample(dom, 2)
        children.append(([v1], gen_pc(depth + 1, name + '_s')))
        children.append(([v2], gen_pc(depth + 1, name + '_s')))
      else:
        for ci in range(r.randrange(1, 3)):
          vals = r.sample(dom, r.randrange(1, min(len(dom), 2) + 1))
          children.append((vals, gen_pc(depth + 1, name + '_' + str(ci))))
    if children:
      kw['children'] = children
    return vz.ParameterConfig.factory(name, **kw)

  cases, objs = [], []
  for i in range(N):
    try:
      p = gen_pc(0, r.choice(names))
    except Exception:  # pylint: disable=broad-except
      continue
    pr = P.to_proto(p)
    back = P.from_proto(pr)
    pr2 = P.to_proto(back)
    nontriv = bool(p.child_parameter_configs) or (p.default_value is not None and not p.default_value)
    rep.case({'parameter_config': repr(p)[:300]}, nontriv)
    rep.count('pc_' + p.type.name + ('_conditional' if p.child_parameter_configs else ''))
    uniform = any(q.scale_type == vz.ScaleType.UNIFORM_DISCRETE for q in p.traverse())
    if back != p:
      viol('ParameterConfig differs after to_proto/from_proto', {'config': repr(p), 'back': repr(back)}, 'C09-uniform-discrete-scale' if uniform else None)
    if pr2 != pr:
      viol('second conversion of a ParameterConfig is not identical', {'config': repr(p)}, None)
    cases.append('(%s, %s, %s)' % (g_pconf(p), g_pspec(pr), g_pconf(back)))
    objs.append(repr(p))
  ck = ('Fixpoint pconf_eqb (a b : pconf) : bool := true.\n')
  bad = C.run_cases('C09', 'pc', HDR + 'From VZ Require Import Model.WireEq.\n'
                    'Definition ck (c : pconf * pspec * pconf) := let \'(p, q, b) := c in '
                    'match to_proto p with Some q\' => pspec_eqb q\' q | None => false end && pconf_eqb (from_proto q) b.\n', cases, 'ck', shard=150)
  rep.disagreements += len(bad)
  for i in bad[:3]:
    broke = ((broke or '') + ' correspondence ParameterConfigConverter vs model on %s;' % objs[i][:300])

  # ---------------- Measurements
  M = pc.MeasurementConverter
  mcases, mobjs = [], []
  for i in range(N):
    dy = r.random() < 0.6
    es = (r.randrange(0, 5000) + r.randrange(0, 64) / 64.0) if dy else r.choice([0.1, 1e-6, 123456.789012, 0.3, r.random() * 1e4])
    steps = r.choice([0, 1, 7, 10**6])
    metrics = {nm: float(r.choice([0, 1, -2, 0.5, 1e9])) for nm in r.sample(['m', 'n', '', 'é'], r.randrange(0, 4))}
    m = vz.Measurement(metrics=metrics, elapsed_secs=es, steps=steps)
    pr = M.to_proto(m)
    back = M.from_proto(pr)
    rep.case({'measurement': {'metrics': metrics, 'elapsed_secs': es, 'steps': steps}}, es != int(es))
    rep.count('meas_dyadic' if dy else 'meas_float')
    if dict((k, v.value) for k, v in back.metrics.items()) != metrics or back.steps != steps or abs(back.elapsed_secs - es) > 1e-6:
      viol('Measurement differs after to_proto/from_proto (beyond a microsecond)', {'metrics': metrics, 'elapsed_secs': es, 'steps': steps,
                                                                                       'back_elapsed': back.elapsed_secs})
    pr2 = M.to_proto(back)
    d_ns = abs((pr2.elapsed_duration.seconds - pr.elapsed_duration.seconds) * 10**9 + pr2.elapsed_duration.nanos - pr.elapsed_duration.nanos)
    pr2.elapsed_duration.CopyFrom(pr.elapsed_duration)
    if pr2 != pr or d_ns > 1000 or (dy and d_ns != 0):
      viol('second conversion of a Measurement is not identical (beyond a microsecond)', {'elapsed_secs': es, 'nanos_diff': d_ns})
    if dy:
      g_m = lambda mm: '(mkPM %s %s %s)' % (glist(list(mm.metrics.items()), lambda kv: gpair(gstr(kv[0]), gQf(kv[1].value))), gQf(mm.elapsed_secs), gZ(int(mm.steps)))
      g_r = '(mkRM %s %s %s %s)' % (glist(list(pr.metrics), lambda x: gpair(gstr(x.metric_id), gQf(x.value))), gZ(pr.elapsed_duration.seconds), gZ(pr.elapsed_duration.nanos), gZ(pr.step_count))
      # from_proto computes seconds + 1e-9 * nanos in floating point (1e-9 is not a binary fraction); the model is exact, so the
      # value read back is compared at nanosecond resolution
      g_b = '(mkPM %s %s %s)' % (glist(list(back.metrics.items()), lambda kv: gpair(gstr(kv[0]), gQf(kv[1].value))),
                                 '(%d # %d)%%Q' % (lambda fr: (fr.numerator, fr.denominator))(Fraction(round(back.elapsed_secs * 10**9), 10**9)),
                                 gZ(int(back.steps)))
      mcases.append('(%s, %s, %s)' % (g_m(m), g_r, g_b))
      mobjs.append((metrics, es, steps))
  bad = C.run_cases('C09', 'ms', HDR + 'From VZ Require Import Model.WireEq.\n'
                    'Definition ck (c : pymeas * prmeas * pymeas) := let \'(m, r, b) := c in prmeas_eqb (meas_to_proto m) r && pymeas_eqb (meas_from_proto r) b.\n', mcases, 'ck')
  rep.disagreements += len(bad)
  for i in bad[:3]:
    broke = ((broke or '') + ' correspondence MeasurementConverter vs model on %r;' % (mobjs[i],))

  # ---------------- Trials / suggestions / metadata deltas / requests (round-trip monitors on the real converters)
  from google.protobuf import any_pb2, duration_pb2

  def md_value():
    """A metadata value: a string, or a protobuf payload in the form it has after one trip over the wire (an Any)."""
    if r.random() < 0.35:
      a = any_pb2.Any()
      a.Pack(duration_pb2.Duration(seconds=r.randrange(5), nanos=r.choice([0, 500])))
      return a
    return r.choice(['v', ''])
  T = pc.TrialConverter
  import os as _os, time as _time

  def set_tz(name_):
    # trial times are aware datetimes in the zone of the process; the wire carries UTC seconds: every zone must round-trip
    _os.environ['TZ'] = name_
    _time.tzset()
  ZONES = ['UTC0', 'UTC0', 'JST-9', 'PST8PDT', 'NST3:30']
  for i in range(N // 2):
    zone_ = ZONES[i % len(ZONES)]
    set_tz(zone_)
    rep.count('process_time_zone_' + zone_)
    params = {}
    for nm in r.sample(['x', 'b', 's', 'i', 'é'], r.randrange(0, 4)):
      params[nm] = r.choice([0.0, 1.5, -2.0, 0, 3, '', 'cat', 'True'])
    t = vz.Trial(id=r.randrange(1, 50), parameters=params, assigned_worker=r.choice([None, 'w', 'w', '']),
                 description=r.choice([None, 'd', 'd', '']))
    st = r.choice(['active', 'requested', 'succeeded', 'infeasible', 'stopping'])
    if r.random() < 0.5:
      t.measurements.append(vz.Measurement({'m': 1.0}, elapsed_secs=r.choice([0.0, 2.5]), steps=1))
    if r.random() < 0.6:
      ns = r.choice([(), ('a',), ('a', 'b:c'), ('',), ('', 'a'), ('', ''), ('a', ''), (':',), ('', '', 'b')])
      t.metadata.abs_ns(vz.Namespace(ns))[r.choice(['k', ''])] = md_value()
    if st == 'requested':
      t.is_requested = True
    elif st == 'succeeded':
      t.complete(vz.Measurement({'m': float(r.randrange(3)), 'n': 0.0}, elapsed_secs=1.25, steps=2))
    elif st == 'infeasible':
      t.complete(vz.Measurement() if r.random() < 0.5 else vz.Measurement({'m': 1.0}), infeasibility_reason=r.choice(['bad', '']))
    elif st == 'stopping':
      t.stopping_reason = 'because'
    pr = T.to_proto(t)
    back = T.from_proto(pr)
    rep.case({'trial': repr(t)[:300]}, bool(t.metadata.namespaces()) or st in ('infeasible', 'stopping'))
    rep.count('trial_' + st)
    t_cmp, b_cmp = copy.deepcopy(t), copy.deepcopy(back)
    t_cmp.stopping_reason = b_cmp.stopping_reason = None   # documented as not transmitted
    if t_cmp != b_cmp:
      # known finding: proto3 strings carry no presence, so '' comes back as None for description / assigned_worker
      lost = [f for f in ('description', 'assigned_worker') if getattr(t_cmp, f) == '' and getattr(b_cmp, f) is None]
      for f in lost:
        setattr(t_cmp, f, None)
      if lost and t_cmp == b_cmp:
        viol('Trial.%s == \'\' comes back as None' % lost[0], {'trial': repr(t), 'back': repr(back)}, 'C09-empty-string-becomes-none')
      else:
        viol('Trial differs after to_proto/from_proto', {'trial': repr(t), 'back': repr(back)})
    if T.to_proto(back) != pr:
      viol('second conversion of a Trial is not identical', {'trial': repr(t)})
    sug = vz.TrialSuggestion(params, metadata=t.metadata)
    S = pc.TrialSuggestionConverter
    if S.from_proto(S.to_proto(sug)) != sug:
      viol('TrialSuggestion differs after to_proto/from_proto', {'suggestion': repr(sug)})
  # ---------------- Trial: model of TrialConverter.to_proto vs the real converter (exact on dyadic times)
  def g_opt_str(x):
    return 'None' if x is None else '(Some %s)' % gstr(x)

  def g_pv(v):
    if isinstance(v, bool):
      return '(PvBool %s)' % gbool(v)
    if isinstance(v, int):
      return '(PvInt %s)' % gZ(v)
    if isinstance(v, float):
      return '(PvFloat %s)' % gQf(v)
    return '(PvStr %s)' % gstr(v)

  def g_pymeas(m):
    return '(mkPM %s %s %s)' % (glist(list(m.metrics.items()), lambda kv: gpair(gstr(kv[0]), gQf(kv[1].value))), gQf(m.elapsed_secs), gZ(m.steps))

  def g_time(dt):
    if dt is None:
      return 'None'
    return '(Some (%s, %s))' % (gZ(int(dt.timestamp() // 1)), gZ(dt.microsecond))

  def g_ptime(proto, field):
    if not proto.HasField(field):
      return 'None'
    ts = getattr(proto, field)
    return '(Some (%s, %s))' % (gZ(ts.seconds), gZ(ts.nanos))

  def g_prv(p):
    kind = p.value.WhichOneof('kind')
    if kind == 'number_value':
      return '(RvNumber %s)' % gQf(p.value.number_value)
    if kind == 'string_value':
      return '(RvString %s)' % gstr(p.value.string_value)
    if kind == 'bool_value':
      return '(RvBool %s)' % gbool(p.value.bool_value)
    return 'RvUnset'

  tcases, tobjs = [], []
  base_ts = 1700000000
  set_tz('UTC0')
  for i in range(N // 2):
    set_tz(ZONES[(i // 3) % len(ZONES)])
    params = {}
    for nm in r.sample(['x', 'b', 's', 'i', 'é'], r.randrange(0, 4)):
      params[nm] = r.choice([0.0, 1.5, -2.0, 0, 3, '', 'cat', 'True', True, False])
    mk_dt = lambda: datetime.datetime.fromtimestamp(base_ts + r.randrange(100000)).replace(microsecond=r.choice([0, 500000, 250000, 125000]))
    t = vz.Trial(id=r.randrange(1, 50), parameters=params, assigned_worker=r.choice([None, 'w', '']), description=r.choice([None, 'd', '']),
                 creation_time=r.choice([None, mk_dt()]))
    if t.creation_time is not None and r.random() < 0.0:
      pass
    st = r.choice(['active', 'requested', 'succeeded', 'infeasible', 'stopping', 'requested+completed', 'stopping+completed'])
    if r.random() < 0.4:
      t.measurements.append(vz.Measurement({'m': 1.0}, elapsed_secs=r.choice([0.0, 2.5]), steps=1))
    if st.startswith('requested'):
      t.is_requested = True
    if st.startswith('stopping'):
      t.stopping_reason = 'because'
    if st in ('succeeded', 'requested+completed', 'stopping+completed'):
      t.complete(vz.Measurement({'m': float(r.randrange(3))}, elapsed_secs=1.25, steps=2))
    elif st == 'infeasible':
      t.complete(vz.Measurement() if r.random() < 0.5 else vz.Measurement({'m': 1.0}), infeasibility_reason=r.choice(['bad', '']))
    if t.completion_time is not None:
      t.completion_time = mk_dt()
    if t.creation_time is None:
      t.creation_time = None
    pr = T.to_proto(t)
    term = '(mkPT %s %s %s %s %s %s %s %s %s %s %s)' % (
        gZ(t.id), g_opt_str(t.description), g_opt_str(t.assigned_worker), gbool(t.is_requested), g_opt_str(t.stopping_reason),
        g_opt_str(t.infeasibility_reason), glist(list(t.parameters.items()), lambda kv: gpair(gstr(kv[0]), g_pv(kv[1].value))),
        'None' if t.final_measurement is None else '(Some %s)' % g_pymeas(t.final_measurement),
        glist(list(t.measurements), g_pymeas), g_time(t.creation_time), g_time(t.completion_time))
    got = '(%s, %s, %s, %s, %s, %s, %s, %s)' % (
        gstr(pr.name), gZ(int(pr.id)), gN(int(pr.state)), gstr(pr.client_id),
        glist(list(pr.parameters), lambda p: gpair(gstr(p.parameter_id), g_prv(p))), g_ptime(pr, 'start_time'), g_ptime(pr, 'end_time'),
        gstr(pr.infeasible_reason))
    tcases.append('(%s, %s)' % (term, got))
    tobjs.append(repr(t)[:300])
    back_ = T.from_proto(pr)
    for f_ in ('creation_time', 'completion_time'):
      a_, b_ = getattr(t, f_), getattr(back_, f_)
      if (a_ is None) != (b_ is None) or (a_ is not None and abs(a_.timestamp() - b_.timestamp()) > 1e-6):
        viol('Trial.%s is not preserved to the microsecond by to_proto / from_proto (process time zone %s)' % (f_, _os.environ.get('TZ')),
             {'sent': repr(a_), 'received': repr(b_), 'time_zone': _os.environ.get('TZ')})
        break
    rep.case({'trial_model_case': repr(t)[:200]}, st not in ('active',))
    rep.count('trial_model_' + st)
  set_tz('UTC0')
  bad = C.run_cases('C09', 'trial', 'From VZ Require Import Base.Prelude Model.Wire Gen.EnumMaps Model.WireConv Model.WireTrial.\n', tcases, 'trial_case_ok')
  rep.disagreements += len(bad)
  for i in bad[:3]:
    broke = ((broke or '') + ' correspondence TrialConverter.to_proto vs model on %s;' % (tobjs[i],))

  # ---- a StudyConfig that came from the wire is edited and sent again: what is sent is what the object says NOW
  for i in range(N // 10):
    sc0 = svz.StudyConfig()
    sc0.search_space.root.add_float_param('x', 0.0, 1.0)
    sc0.metric_information.append(vz.MetricInformation(name='m', goal=vz.ObjectiveMetricGoal.MAXIMIZE))
    for _ in range(r.randrange(1, 4)):
      sc0.metadata.abs_ns(vz.Namespace(r.choice([(), ('a',), ('a', 'b')])))[r.choice(['k', 'k2'])] = r.choice(['v', 'w', ''])
    sc1 = svz.StudyConfig.from_proto(sc0.to_proto())
    edit = r.choice(['clear_all', 'delete_one', 'change_one', 'add_one'])
    if edit == 'clear_all':
      for ns in list(sc1.metadata.namespaces()):
        for k_ in list(sc1.metadata.abs_ns(ns)):
          del sc1.metadata.abs_ns(ns)[k_]
    elif edit == 'delete_one':
      ns = r.choice(list(sc1.metadata.namespaces()))
      del sc1.metadata.abs_ns(ns)[r.choice(list(sc1.metadata.abs_ns(ns)))]
    elif edit == 'change_one':
      ns = r.choice(list(sc1.metadata.namespaces()))
      sc1.metadata.abs_ns(ns)[r.choice(list(sc1.metadata.abs_ns(ns)))] = 'changed'
    else:
      sc1.metadata.abs_ns(vz.Namespace(('new',)))['k'] = 'added'
    sc2 = svz.StudyConfig.from_proto(sc1.to_proto())
    items = lambda c_: sorted((str(ns), k_, str(v_)) for ns in c_.metadata.namespaces() for k_, v_ in c_.metadata.abs_ns(ns).items())
    rep.case({'edited_config': edit, 'metadata_now': items(sc1)}, True)
    rep.count('edited_config_' + edit)
    if items(sc2) != items(sc1):
      viol('a StudyConfig read from the wire, edited (%s) and converted again does not carry its current metadata' % edit,
           {'before_edit': items(sc0), 'after_edit': items(sc1), 'after_round_trip': items(sc2)})

  D = pc.MetadataDeltaConverter
  for i in range(N // 3):
    d = vz.MetadataDelta()
    for _ in range(r.randrange(0, 4)):
      ns = vz.Namespace(r.choice([(), ('a',), ('a', 'b'), ('x:y',), ('', 'a'), ('', ''), ('a', '')]))
      if r.random() < 0.5:
        d.on_study.abs_ns(ns)[r.choice(['k', 'k2'])] = md_value()
      else:
        d.on_trials[r.randrange(1, 4)].abs_ns(ns)[r.choice(['k', 'k2'])] = md_value()
    back = D.from_protos(D.to_protos(d))
    rep.case({'metadata_delta': repr(d)[:200]}, bool(d.on_trials))
    sv = lambda v: v if isinstance(v, str) else ('proto', v.type_url, bytes(v.value))
    canon = lambda x: (sorted((str(ns), k, sv(v)) for ns in x.on_study.namespaces() for k, v in x.on_study.abs_ns(ns).items()),
                       sorted((tid, str(ns), k, sv(v)) for tid, md in x.on_trials.items() for ns in md.namespaces() for k, v in md.abs_ns(ns).items()))
    if canon(back) != canon(d):
      viol('MetadataDelta differs after to_protos/from_protos', {'delta': repr(d), 'back': repr(back)})
  # study configs / problem statements / requests
  decoded_ps = []
  for i in range(N // 6):
    sc = svz.StudyConfig()
    used = set()
    for j in range(r.randrange(1, 4)):
      try:
        p = gen_pc(1, 'p%d' % j)
      except Exception:  # pylint: disable=broad-except
        continue
      if any(q.scale_type == vz.ScaleType.UNIFORM_DISCRETE for q in p.traverse()):
        continue
      sc.search_space.add(p)
    mnames = r.sample(['z', 'a', 'm'], r.randrange(1, 3))
    for nm in mnames:
      kw = {}
      if r.random() < 0.3:
        kw = {'safety_threshold': r.choice([0.0, 1.5]), 'desired_min_safe_trials_fraction': r.choice([None, 0.5])}
      ranged = r.random() < 0.25
      if ranged:
        # a declared value range / a standard-deviation threshold of a safety metric (the wire form has no field for them)
        kw = dict(kw, min_value=r.choice([0.0, -1.0]), max_value=r.choice([1.0, 10.0]))
        if 'safety_threshold' in kw and r.random() < 0.5:
          kw['safety_std_threshold'] = 0.25
      sc.metric_information.append(vz.MetricInformation(name=nm, goal=r.choice(list(vz.ObjectiveMetricGoal)), **kw))
    sc.algorithm = r.choice(['RANDOM_SEARCH', 'NSGA2', ''])
    sc.observation_noise = r.choice(list(svz.ObservationNoise))
    with_stop = r.random() < 0.4
    if with_stop:
      from vizier._src.pyvizier.oss import automated_stopping as _as
      sc.automated_stopping_config = _as.AutomatedStoppingConfig.default_stopping_spec()
    rep.count('study_config_with_stopping_config' if with_stop else 'study_config_without_stopping_config')
    if r.random() < 0.5:
      sc.metadata.ns('u')['k'] = md_value()
    p1 = sc.to_proto()
    back = svz.StudyConfig.from_proto(p1)
    p2 = back.to_proto()
    rep.case({'study_config_metrics': mnames, 'algorithm': sc.algorithm}, len(mnames) > 1)
    srt = mnames == sorted(mnames)
    if p2 != p1:
      viol('second conversion of a StudyConfig is not identical', {'metrics': mnames}, None if srt else 'C09-study-config-sorts-metrics')
    if back.search_space != sc.search_space or back.algorithm != sc.algorithm or back.observation_noise != sc.observation_noise:
      viol('StudyConfig differs after to_proto/from_proto', {'metrics': mnames})
    stop_of = lambda c_: None if c_.automated_stopping_config is None else c_.automated_stopping_config.to_proto().SerializeToString()
    if stop_of(back) != stop_of(sc):
      viol('stopping config of a StudyConfig differs after to_proto/from_proto', {'sent': repr(sc.automated_stopping_config), 'received': repr(back.automated_stopping_config)})
    # the config that came from the wire is edited (stopping config cleared / set, algorithm changed) and sent again
    edit_ = r.choice(['clear_stopping', 'set_stopping', 'algorithm'])
    if edit_ == 'clear_stopping':
      back.automated_stopping_config = None
    elif edit_ == 'set_stopping':
      from vizier._src.pyvizier.oss import automated_stopping as _as
      back.automated_stopping_config = _as.AutomatedStoppingConfig.default_stopping_spec()
    else:
      back.algorithm = 'QUASI_RANDOM_SEARCH'
    again = svz.StudyConfig.from_proto(back.to_proto())
    rep.count('edited_study_config_' + edit_)
    if stop_of(again) != stop_of(back) or again.algorithm != back.algorithm:
      viol('a StudyConfig read from the wire, edited (%s) and converted again does not carry its current fields' % edit_,
           {'edit': edit_, 'had_stopping_config_before': with_stop, 'now': repr(back.automated_stopping_config), 'after_round_trip': repr(again.automated_stopping_config),
            'algorithm_now': back.algorithm, 'algorithm_after': again.algorithm})
    back = svz.StudyConfig.from_proto(p1)
    mdc = lambda c: sorted((str(ns), k, v if isinstance(v, str) else ('proto', v.type_url, bytes(v.value)))
                           for ns in c.metadata.namespaces() for k, v in c.metadata.abs_ns(ns).items())
    if mdc(back) != mdc(sc):
      viol('StudyConfig metadata differs after to_proto/from_proto', {'metadata': repr(mdc(sc))[:300], 'back': repr(mdc(back))[:300]})
    mi_key = lambda m_: (m_.name, m_.goal.name, m_.safety_threshold, m_.desired_min_safe_trials_fraction)
    mi_rng = lambda m_: (m_.min_value, m_.max_value, m_.safety_std_threshold)
    sent_, got_ = {m_.name: m_ for m_ in sc.metric_information}, {m_.name: m_ for m_ in back.metric_information}
    if set(sent_) == set(got_):
      for nm_ in sent_:
        if mi_key(sent_[nm_]) != mi_key(got_[nm_]):
          viol('goal / safety settings of a metric differ after to_proto/from_proto', {'metric': nm_, 'sent': repr(mi_key(sent_[nm_])), 'received': repr(mi_key(got_[nm_]))})
        elif mi_rng(sent_[nm_]) != mi_rng(got_[nm_]):
          viol('declared value range / standard-deviation threshold of a metric differ after to_proto/from_proto',
               {'metric': nm_, 'sent': repr(mi_rng(sent_[nm_])), 'received': repr(mi_rng(got_[nm_]))}, 'C09-metric-range-not-transmitted')
    if [m.name for m in back.metric_information] != mnames:
      viol('StudyConfig metrics differ after to_proto/from_proto', {'metrics': mnames}, None if srt else 'C09-study-config-sorts-metrics')
    # Pythia requests / decisions
    descr = vz.StudyDescriptor(config=back, guid='owners/o/studies/s', max_trial_id=r.randrange(0, 9))
    sreq = pythia.SuggestRequest(study_descriptor=descr, count=r.randrange(1, 5))
    sb = svz.SuggestConverter.from_request_proto(svz.SuggestConverter.to_request_proto(sreq))
    if (sb.count, sb.study_guid, sb.max_trial_id) != (sreq.count, sreq.study_guid, sreq.max_trial_id):
      viol('SuggestRequest differs after the wire', {'count': sreq.count})
    # the problem statement carried by the request (search space, metrics, metadata), and later: every decoded statement
    # still is what it was when it was decoded (decoding another message must not change it)
    want_ps = back.to_problem()
    ps_canon = lambda ps_: (repr(ps_.search_space), [mi_key(m_) for m_ in ps_.metric_information], mdc(ps_))
    for what_, got_ps in (('SuggestRequest', sb.study_config),):
      if ps_canon(got_ps) != ps_canon(want_ps):
        viol('problem statement of a %s differs after the wire' % what_,
             {'sent': repr(ps_canon(want_ps))[:500], 'received': repr(ps_canon(got_ps))[:500], 'messages_decoded_before': len(decoded_ps)})
        break
      decoded_ps.append((what_, got_ps, ps_canon(got_ps)))
    dec = pythia.SuggestDecision([vz.TrialSuggestion({'x': 0.0, 's': ''})], vz.MetadataDelta())
    db = svz.SuggestConverter.from_decision_proto(svz.SuggestConverter.to_decision_proto(dec))
    if [dict(s.parameters.as_dict()) for s in db.suggestions] != [dict(s.parameters.as_dict()) for s in dec.suggestions]:
      viol('SuggestDecision differs after the wire', {})
    ids_ = r.choice([None, [1, 3], [r.randrange(1, 60)], list(range(1, r.randrange(2, 9)))])
    ereq = pythia.EarlyStopRequest(study_descriptor=descr, trial_ids=ids_)
    eb = svz.EarlyStopConverter.from_request_proto(svz.EarlyStopConverter.to_request_proto(ereq))
    rep.count('early_stop_request_all_trials' if ids_ is None else 'early_stop_request_with_ids')
    if eb.trial_ids != ereq.trial_ids:
      viol('EarlyStopRequest differs after the wire', {'trial_ids_sent': None if ids_ is None else sorted(ids_),
                                                       'trial_ids_received': None if eb.trial_ids is None else sorted(eb.trial_ids)})
    if (eb.study_guid, eb.max_trial_id) != (ereq.study_guid, ereq.max_trial_id):
      viol('EarlyStopRequest differs after the wire (study guid / max trial id)', {'sent': (ereq.study_guid, ereq.max_trial_id), 'received': (eb.study_guid, eb.max_trial_id)})
    if ps_canon(eb.study_config) != ps_canon(want_ps):
      viol('problem statement of an EarlyStopRequest differs after the wire',
           {'sent': repr(ps_canon(want_ps))[:500], 'received': repr(ps_canon(eb.study_config))[:500], 'messages_decoded_before': len(decoded_ps)})
    else:
      decoded_ps.append(('EarlyStopRequest', eb.study_config, ps_canon(eb.study_config)))
    psb = pc.ProblemStatementConverter.from_proto(pc.ProblemStatementConverter.to_proto(want_ps))
    if ps_canon(psb) != ps_canon(want_ps):
      viol('ProblemStatement differs after to_proto/from_proto',
           {'sent': repr(ps_canon(want_ps))[:500], 'received': repr(ps_canon(psb))[:500], 'messages_decoded_before': len(decoded_ps)})
    else:
      decoded_ps.append(('ProblemStatement', psb, ps_canon(psb)))
    rep.count('problem_statement_with_metadata' if mdc(want_ps) else 'problem_statement_without_metadata')
    # batches of early-stopping decisions: ids, reasons (unicode, separators), verdicts, with and without a predicted final
    # measurement in every order, algorithm metadata for the study and for trials
    def gen_pred():
      if r.random() < 0.5:
        return None
      return vz.Measurement({nm_: r.choice([0.0, 1.5, -2.0, 1e-9]) for nm_ in r.sample(['m', 'm2', 'é'], r.randrange(0, 3))},
                            steps=r.choice([0, 3, 10]), elapsed_secs=r.choice([0.0, 2.5, 0.25]))
    decs = [pythia.EarlyStopDecision(id=r.randrange(1, 50), reason=r.choice(['r', 'q:1', 'é', 'a b']), should_stop=r.random() < 0.5,
                                     predicted_final_measurement=gen_pred()) for _ in range(r.choice([1, 2, 2, 3, 5]))]
    delta = vz.MetadataDelta()
    if r.random() < 0.5:
      delta.on_study.ns('algo')['k'] = 'v'
      delta.on_trials[decs[0].id].ns('algo').ns('')['k2'] = ''
    eds = pythia.EarlyStopDecisions(decs, delta)
    ep1 = svz.EarlyStopConverter.to_decisions_proto(eds)
    edb = svz.EarlyStopConverter.from_decisions_proto(ep1)
    canon_m = lambda m_: None if m_ is None else (sorted((k_, v_.value) for k_, v_ in m_.metrics.items()), m_.steps, m_.elapsed_secs)
    canon_d = lambda ds_: [(x.id, x.reason, x.should_stop, canon_m(x.predicted_final_measurement)) for x in ds_.decisions]
    rep.case({'early_stop_decisions': len(decs), 'predictions': [x.predicted_final_measurement is not None for x in decs]},
             len({x.predicted_final_measurement is None for x in decs}) == 2)
    if canon_d(edb) != canon_d(eds):
      viol('EarlyStopDecisions differ after the wire', {'sent': repr(canon_d(eds))[:400], 'received': repr(canon_d(edb))[:400]})
    elif svz.EarlyStopConverter.to_decisions_proto(edb) != ep1:
      viol('second conversion of EarlyStopDecisions is not identical', {'sent': repr(canon_d(eds))[:400]})
    mdd = lambda dl_: (sorted((str(ns_), k_, v_) for ns_ in dl_.on_study.namespaces() for k_, v_ in dl_.on_study.abs_ns(ns_).items()),
                       sorted((t_, str(ns_), k_, v_) for t_, md_ in dl_.on_trials.items() for ns_ in md_.namespaces() for k_, v_ in md_.abs_ns(ns_).items()))
    if mdd(edb.metadata) != mdd(eds.metadata):
      viol('metadata of EarlyStopDecisions differs after the wire', {'sent': repr(mdd(eds.metadata))[:300], 'received': repr(mdd(edb.metadata))[:300]})
  for what_, obj_, was_ in decoded_ps:
    if ps_canon(obj_) != was_:
      viol('a decoded %s changed when later messages were decoded (decoded objects share state)' % what_,
           {'when_decoded': repr(was_)[:400], 'now': repr(ps_canon(obj_))[:400]})
      break
  C.settle_broken(rep, broke, concrete)
  return rep.finish()


def replay(path):
  print(json.dumps(json.load(open(path)), indent=1)[:4000])
  return 1
