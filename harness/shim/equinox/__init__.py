"""Minimal stand-in for equinox (0.11.7 cannot import under jax 0.11). On sys.path of the harness only."""
import abc
import dataclasses
import functools
import jax

__version__ = '0.0-standin'


def field(*, converter=None, static=False, **kwargs):
  md = dict(kwargs.pop('metadata', None) or {})
  md['eqx_static'] = static
  md['eqx_converter'] = converter
  return dataclasses.field(metadata=md, **kwargs)


class _ModuleMeta(abc.ABCMeta):

  def __new__(mcs, name, bases, ns, **kw):
    cls = super().__new__(mcs, name, bases, ns, **kw)
    if name == 'Module' and not bases:
      return cls
    user_init = '__init__' in ns
    cls = dataclasses.dataclass(cls, frozen=True, eq=False, init=not user_init, repr=True)
    fields = dataclasses.fields(cls)
    dyn = tuple(f.name for f in fields if not f.metadata.get('eqx_static', False))
    sta = tuple(f.name for f in fields if f.metadata.get('eqx_static', False))
    convs = {f.name: f.metadata['eqx_converter'] for f in fields if f.metadata.get('eqx_converter')}
    if convs and not user_init:
      orig_init = cls.__init__

      @functools.wraps(orig_init)
      def __init__(self, *a, **k):
        orig_init(self, *a, **k)
        for n, c in convs.items():
          object.__setattr__(self, n, c(getattr(self, n)))

      cls.__init__ = __init__

    def flatten(x):
      return tuple(getattr(x, n) for n in dyn), tuple(getattr(x, n) for n in sta)

    def unflatten(aux, children):
      obj = object.__new__(cls)
      for n, v in zip(dyn, children):
        object.__setattr__(obj, n, v)
      for n, v in zip(sta, aux):
        object.__setattr__(obj, n, v)
      return obj

    jax.tree_util.register_pytree_node(cls, flatten, unflatten)
    return cls


class Module(metaclass=_ModuleMeta):
  pass


def filter_jit(fn=None, **kw):
  if fn is None:
    return lambda f: f
  return fn  # no jit: semantics only


def filter_vmap(fn=None, **kw):
  if fn is None:
    return lambda f: jax.vmap(f, **{k: v for k, v in kw.items() if k in ('in_axes', 'out_axes')})
  return jax.vmap(fn)


def filter_value_and_grad(fn=None, **kw):
  return jax.value_and_grad(fn, **kw)


def tree_pformat(x, **kw):
  return repr(x)


Partial = functools.partial
