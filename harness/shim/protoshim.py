"""Proto shim: /repo has no generated *_pb2 modules and the image has no protoc.

Parses vizier's proto3 files from the repo on every run, builds descriptors,
installs vizier._src.service.*_pb2 and *_pb2_grpc modules via sys.modules
(in the harness process only; nothing is written into the repo).
"""
import importlib
import os
import re
import sys
import types

from google.protobuf import descriptor_pb2 as dpb
from google.protobuf import descriptor_pool
from google.protobuf import message_factory

PROTO_DIR = os.path.join(os.environ.get('VERIF_REPO', '/repo'), 'vizier/_src/service')
ORDER = ['key_value', 'study', 'vizier_service', 'vizier_oss', 'pythia_service']

TOK = re.compile(r'\s+|//[^\n]*|/\*.*?\*/|("(?:[^"\\]|\\.)*")|([A-Za-z_][\w.]*)|(-?\d+(?:\.\d+)?)|(.)', re.S)

def tokenize(text):
  out = []
  for m in TOK.finditer(text):
    s, ident, num, punct = m.groups()
    if s is not None: out.append(('str', s[1:-1]))
    elif ident is not None: out.append(('id', ident))
    elif num is not None: out.append(('num', num))
    elif punct is not None: out.append(('p', punct))
  return out

SCALARS = {n: getattr(dpb.FieldDescriptorProto, 'TYPE_' + n.upper()) for n in
           ['double', 'float', 'int64', 'uint64', 'int32', 'fixed64', 'fixed32', 'bool', 'string',
            'bytes', 'uint32', 'sfixed32', 'sfixed64', 'sint32', 'sint64']}

class P:
  def __init__(self, toks): self.t = toks; self.i = 0
  def peek(self): return self.t[self.i] if self.i < len(self.t) else (None, None)
  def next(self): x = self.t[self.i]; self.i += 1; return x
  def accept(self, v):
    if self.peek()[1] == v: self.i += 1; return True
    return False
  def expect(self, v):
    x = self.next()
    if x[1] != v: raise SyntaxError(f'expected {v} got {x} at {self.i}: {self.t[self.i-5:self.i+5]}')
  def skip_balanced(self, o, c):
    depth = 1
    while depth:
      x = self.next()[1]
      if x == o: depth += 1
      elif x == c: depth -= 1
  def skip_stmt(self):  # option ...;
    while True:
      x = self.next()[1]
      if x == '{': self.skip_balanced('{', '}')
      elif x == ';': return

def parse_file(name, text):
  p = P(tokenize(text))
  fd = dpb.FileDescriptorProto(name=name + '.proto', syntax='proto3')
  while p.peek()[0] is not None:
    k = p.next()[1]
    if k == 'syntax': p.skip_stmt()
    elif k == 'package': fd.package = p.next()[1]; p.expect(';')
    elif k == 'import':
      if p.peek()[1] in ('public', 'weak'): p.next()
      fd.dependency.append(p.next()[1]); p.expect(';')
    elif k == 'option': p.skip_stmt()
    elif k == 'message': parse_message(p, fd.message_type.add())
    elif k == 'enum': parse_enum(p, fd.enum_type.add())
    elif k == 'service': parse_service(p, fd.service.add())
    elif k == ';': pass
    else: raise SyntaxError(f'top-level {k}')
  return fd

def parse_enum(p, ed):
  ed.name = p.next()[1]; p.expect('{')
  while not p.accept('}'):
    k = p.next()[1]
    if k in ('option', 'reserved'): p.skip_stmt(); continue
    p.expect('='); num = int(p.next()[1])
    if p.accept('['): p.skip_balanced('[', ']')
    p.expect(';'); ed.value.add(name=k, number=num)

def parse_field(p, md, first, oneof_index=None):
  label = dpb.FieldDescriptorProto.LABEL_OPTIONAL; proto3_opt = False
  if first == 'repeated': label = dpb.FieldDescriptorProto.LABEL_REPEATED; first = p.next()[1]
  elif first == 'optional': proto3_opt = True; first = p.next()[1]
  if first == 'map': raise NotImplementedError('map')
  typ = first; name = p.next()[1]; p.expect('='); num = int(p.next()[1])
  if p.accept('['): p.skip_balanced('[', ']')
  p.expect(';')
  f = md.field.add(name=name, number=num, label=label)
  if typ in SCALARS: f.type = SCALARS[typ]
  else: f.type_name = typ  # resolved later
  if oneof_index is not None: f.oneof_index = oneof_index
  if proto3_opt: f.proto3_optional = True
  return f

def parse_message(p, md):
  md.name = p.next()[1]; p.expect('{')
  synth = []
  while not p.accept('}'):
    k = p.next()[1]
    if k in ('option', 'reserved', 'extensions'): p.skip_stmt()
    elif k == 'message': parse_message(p, md.nested_type.add())
    elif k == 'enum': parse_enum(p, md.enum_type.add())
    elif k == 'oneof':
      idx = len(md.oneof_decl); md.oneof_decl.add(name=p.next()[1]); p.expect('{')
      while not p.accept('}'):
        k2 = p.next()[1]
        if k2 == 'option': p.skip_stmt()
        else: parse_field(p, md, k2, idx)
    elif k == ';': pass
    else:
      f = parse_field(p, md, k)
      if f.proto3_optional: synth.append(f)
  for f in synth:  # synthetic oneofs must come after real ones
    f.oneof_index = len(md.oneof_decl); md.oneof_decl.add(name='_' + f.name)

def parse_service(p, sd):
  sd.name = p.next()[1]; p.expect('{')
  while not p.accept('}'):
    k = p.next()[1]
    if k == 'option': p.skip_stmt(); continue
    assert k == 'rpc', k
    m = sd.method.add(name=p.next()[1]); p.expect('(')
    if p.accept('stream'): m.client_streaming = True
    m.input_type = p.next()[1]; p.expect(')'); p.expect('returns'); p.expect('(')
    if p.accept('stream'): m.server_streaming = True
    m.output_type = p.next()[1]; p.expect(')')
    if p.accept('{'): p.skip_balanced('{', '}')
    else: p.expect(';')

def collect(prefix, msgs, enums, table):
  for e in enums: table[prefix + e.name] = 'enum'
  for m in msgs:
    table[prefix + m.name] = 'msg'
    collect(prefix + m.name + '.', m.nested_type, m.enum_type, table)

def resolve(fd, table, pool):
  pkg = fd.package
  def lookup(scope, name):
    if name.startswith('.'): return name
    parts = scope.split('.') if scope else []
    while True:
      cand = '.'.join(parts + [name])
      if cand in table: return '.' + cand, table[cand]
      first = name.split('.')[0]
      if not parts: break
      parts.pop()
    # external (google.*)
    for finder, kind in ((pool.FindMessageTypeByName, 'msg'), (pool.FindEnumTypeByName, 'enum')):
      try: finder(name); return '.' + name, kind
      except KeyError: pass
    raise KeyError(f'cannot resolve {name} in {scope}')
  def fix_msg(m, scope):
    me = scope + '.' + m.name if scope else m.name
    for f in m.field:
      if f.type_name:
        full, kind = lookup(me, f.type_name)
        f.type_name = full
        f.type = dpb.FieldDescriptorProto.TYPE_MESSAGE if kind == 'msg' else dpb.FieldDescriptorProto.TYPE_ENUM
    for n in m.nested_type: fix_msg(n, me)
  for m in fd.message_type: fix_msg(m, pkg)
  for s in fd.service:
    for me in s.method:
      me.input_type = lookup(pkg, me.input_type)[0]
      me.output_type = lookup(pkg, me.output_type)[0]

def install():
  pool = descriptor_pool.Default()
  # make sure google deps are loaded into the default pool
  for mod in ['google.protobuf.any_pb2', 'google.protobuf.duration_pb2', 'google.protobuf.struct_pb2',
              'google.protobuf.timestamp_pb2', 'google.protobuf.wrappers_pb2', 'google.protobuf.empty_pb2',
              'google.api.annotations_pb2', 'google.api.client_pb2', 'google.api.field_behavior_pb2',
              'google.api.resource_pb2', 'google.longrunning.operations_pb2', 'google.rpc.status_pb2']:
    importlib.import_module(mod)
  table = {}
  fds = {}
  for n in ORDER:
    fd = parse_file(n, open(os.path.join(PROTO_DIR, n + '.proto')).read())
    fds[n] = fd
    collect(fd.package + '.' if fd.package else '', fd.message_type, fd.enum_type, table)
  import grpc
  for n in ORDER:
    fd = fds[n]
    resolve(fd, table, pool)
    pool.Add(fd) if hasattr(pool, 'Add') and False else pool.AddSerializedFile(fd.SerializeToString())
    fdesc = pool.FindFileByName(fd.name)
    mod = types.ModuleType(f'vizier._src.service.{n}_pb2')
    mod.DESCRIPTOR = fdesc
    for mname, mdesc in fdesc.message_types_by_name.items():
      setattr(mod, mname, message_factory.GetMessageClass(mdesc))
    for ename, edesc in fdesc.enum_types_by_name.items():
      from google.protobuf.internal import enum_type_wrapper
      setattr(mod, ename, enum_type_wrapper.EnumTypeWrapper(edesc))
    sys.modules[mod.__name__] = mod
    gmod = types.ModuleType(f'vizier._src.service.{n}_pb2_grpc')
    for sname, sdesc in fdesc.services_by_name.items():
      methods = list(sdesc.methods)
      def make(sname=sname, sdesc=sdesc, methods=methods):
        def unimpl(name):
          def f(self, request, context):
            context.set_code(grpc.StatusCode.UNIMPLEMENTED); raise NotImplementedError(name)
          f.__name__ = name; return f
        servicer = type(sname + 'Servicer', (object,), {m.name: unimpl(m.name) for m in methods})
        def stub_init(self, channel):
          for m in methods:
            setattr(self, m.name, channel.unary_unary(
                f'/{sdesc.full_name}/{m.name}',
                request_serializer=message_factory.GetMessageClass(m.input_type).SerializeToString,
                response_deserializer=message_factory.GetMessageClass(m.output_type).FromString))
        stub = type(sname + 'Stub', (object,), {'__init__': stub_init})
        def add(servicer_obj, server):
          handlers = {m.name: grpc.unary_unary_rpc_method_handler(
              getattr(servicer_obj, m.name),
              request_deserializer=message_factory.GetMessageClass(m.input_type).FromString,
              response_serializer=message_factory.GetMessageClass(m.output_type).SerializeToString)
              for m in methods}
          server.add_generic_rpc_handlers((grpc.method_handlers_generic_handler(sdesc.full_name, handlers),))
        return servicer, stub, add
      servicer, stub, add = make()
      setattr(gmod, sname + 'Servicer', servicer)
      setattr(gmod, sname + 'Stub', stub)
      setattr(gmod, f'add_{sname}Servicer_to_server', add)
    sys.modules[gmod.__name__] = gmod
  # expose as attributes of the package so `from vizier._src.service import study_pb2` works
  import vizier._src.service as pkg
  for n in ORDER:
    setattr(pkg, n + '_pb2', sys.modules[f'vizier._src.service.{n}_pb2'])
    setattr(pkg, n + '_pb2_grpc', sys.modules[f'vizier._src.service.{n}_pb2_grpc'])

_INSTALLED = False
_raw_install = install
def install():
  global _INSTALLED
  if not _INSTALLED:
    _raw_install(); _INSTALLED = True

if __name__ == '__main__':
  install()
  from vizier._src.service import study_pb2
  t = study_pb2.Trial(id='3', state=study_pb2.Trial.State.ACTIVE)
  print('Trial ok', t.state, study_pb2.Trial.State.Name(t.state), study_pb2.Trial.ACTIVE)
  import time; t0 = time.time()
  from vizier import pyvizier as vz
  from vizier.service import pyvizier as svz
  print('pyvizier import ok', round(time.time() - t0, 1), 's')
