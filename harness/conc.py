"""Deterministic scheduler for real servicer threads: scheduling points = datastore primitive calls and servicer-lock
acquisitions.  One managed thread runs at a time; a schedule is a list of thread ids."""
import itertools
import threading

from harness import svc


class Sched:

  def __init__(self):
    self.cv = threading.Condition()
    self.state = []
    self.pending = []
    self.go = []
    self.holder = {}
    self.tid = {}
    self.active = False

  def yield_point(self, kind, info):
    tid = self.tid.get(threading.get_ident())
    if tid is None or not self.active:
      if kind == 'acq':
        self.holder[info] = -1
      return
    with self.cv:
      self.pending[tid] = (kind, info)
      self.state[tid] = 'parked'
      self.cv.notify_all()
    self.go[tid].wait()
    self.go[tid].clear()

  def release(self, name):
    self.holder.pop(name, None)

  def run(self, bodies, schedule, timeout=20.0):
    """bodies: list of callables. Returns (results, deadlock flag, executed schedule)."""
    n = len(bodies)
    self.state = ['new'] * n
    self.pending = [None] * n
    self.go = [threading.Event() for _ in range(n)]
    results = [None] * n
    self.active = True

    def wrap(i):
      self.tid[threading.get_ident()] = i
      # park before doing anything, so that all threads start from a common point
      try:
        results[i] = bodies[i]()
      finally:
        with self.cv:
          self.state[i] = 'done'
          self.cv.notify_all()

    ths = [threading.Thread(target=wrap, args=(i,), daemon=True) for i in range(n)]
    # start threads one at a time: each runs to its first scheduling point
    executed = []
    for i, t in enumerate(ths):
      self.state[i] = 'running'
      t.start()
      with self.cv:
        ok = self.cv.wait_for(lambda: self.state[i] in ('parked', 'done'), timeout)
      if not ok:
        raise RuntimeError('thread %d did not reach a scheduling point' % i)
    schedule = list(schedule)
    deadlock = False
    while True:
      with self.cv:
        ok = self.cv.wait_for(lambda: all(s in ('parked', 'done') for s in self.state), timeout)
      if not ok:
        raise RuntimeError('scheduler timeout, states=%r' % (self.state,))
      if all(s == 'done' for s in self.state):
        break
      enabled = [i for i in range(n) if self.state[i] == 'parked' and
                 (self.pending[i][0] == 'call' or self.holder.get(self.pending[i][1]) is None)]
      if not enabled:
        deadlock = True
        break
      pick = schedule.pop(0) if schedule else None
      if pick not in enabled:
        pick = enabled[0]
      if self.pending[pick][0] == 'acq':
        self.holder[self.pending[pick][1]] = pick
      executed.append(pick)
      self.state[pick] = 'running'
      self.go[pick].set()
    self.active = False
    return results, deadlock, executed


class SchedLock:

  def __init__(self, sched, name):
    self.sched, self.name = sched, name

  def __enter__(self):
    self.sched.yield_point('acq', self.name)
    return self

  def __exit__(self, *a):
    self.sched.release(self.name)
    return False


class LockTable(dict):

  def __init__(self, sched, prefix):
    super().__init__()
    self.sched, self.prefix = sched, prefix

  def __missing__(self, key):
    v = SchedLock(self.sched, (self.prefix, key))
    self[key] = v
    return v


def instrument(serv, proxy, sched):
  serv._owner_name_to_lock = LockTable(sched, 'owner')
  serv._study_name_to_lock = LockTable(sched, 'study')
  serv._operation_lock = LockTable(sched, 'op')
  proxy.hook = lambda name, phase: sched.yield_point('call', name)


def run_concurrent(backend, prefix, rpcs, schedule, recycle=True):
  """Returns dict(outcomes, snapshot, deadlock, executed)."""
  serv, holder, proxy = svc.make_servicer(backend, recycle=recycle)
  for rpc in prefix:
    svc.apply_rpc(serv, holder, rpc)
  before = svc.snapshot(serv)
  sched = Sched()
  instrument(serv, proxy, sched)
  bodies = [(lambda rpc=rpc: svc.apply_rpc(serv, holder, rpc)) for rpc in rpcs]
  results, deadlock, executed = sched.run(bodies, schedule)
  proxy.hook = None
  snap = None if deadlock else svc.snapshot(serv)
  return {'outcomes': results, 'snapshot': snap, 'deadlock': deadlock, 'executed': executed, 'before': before}


def run_serial(backend, prefix, rpcs, order, recycle=True):
  serv, holder, proxy = svc.make_servicer(backend, recycle=recycle)
  for rpc in prefix:
    svc.apply_rpc(serv, holder, rpc)
  outs = [None] * len(rpcs)
  for i in order:
    outs[i] = svc.apply_rpc(serv, holder, rpcs[i])
  return {'outcomes': outs, 'snapshot': svc.snapshot(serv)}


def rename(obj, m):
  if isinstance(obj, dict):
    return {k: (m.get(v, v) if k in ('id', 'trial') and isinstance(v, int) else rename(v, m)) for k, v in obj.items()}
  if isinstance(obj, (list, tuple)):
    return type(obj)(rename(x, m) for x in obj)
  return obj


def strip_advisory(outs):
  return [('Done', 'RpStop', None) if o and o[0] == 'Done' and o[1] == 'RpStop' else (o[:2] + ((o[2],) if o[0] == 'Done' else ())) if o else o for o in outs]


def new_ids(before, snap):
  from harness import svcmon
  nb = svcmon.nodes_of(before)
  out = {}
  for key, n in svcmon.nodes_of(snap).items():
    old = {t['id'] for t in nb.get(key, {'trials': []})['trials']}
    out[key] = sorted(t['id'] for t in n['trials'] if t['id'] not in old)
  return out


def sort_trials(snap):
  """Order of trial rows follows creation order, which renaming may permute: compare as id-sorted lists."""
  if snap is None:
    return None
  out = []
  for ov in snap:
    if ov is None:
      out.append(None)
      continue
    out.append([(k, dict(n, trials=sorted(n['trials'], key=lambda t: t['id']), es=sorted(n['es'], key=lambda e: e['trial']))) for k, n in ov])
  return out


def equivalent(conc, serial, before):
  """conc == serial up to a renumbering of the trials created during the run (per study)."""
  a_new, b_new = new_ids(before, conc['snapshot']), new_ids(before, serial['snapshot'])
  if {k: len(v) for k, v in a_new.items()} != {k: len(v) for k, v in b_new.items()}:
    return False
  keys = [k for k in a_new if a_new[k]]
  if len(keys) > 1:
    keys = keys[:1] if all(a_new[k] == b_new[k] for k in keys[1:]) else keys
  ca = (strip_advisory(conc['outcomes']), sort_trials(conc['snapshot']))
  if not keys:
    return ca == (strip_advisory(serial['outcomes']), sort_trials(serial['snapshot']))
  k = keys[0]
  if len(a_new[k]) > 6 or len(keys) > 1:
    return ca == (strip_advisory(serial['outcomes']), sort_trials(serial['snapshot']))
  for perm in itertools.permutations(a_new[k]):
    m = dict(zip(b_new[k], perm))
    cb = (strip_advisory(rename(serial['outcomes'], m)), sort_trials(rename(serial['snapshot'], m)))
    if ca == cb:
      return True
  return False
