(* SuggestTrials, block by block.  harness/translate/svcsuggest.py checks that the body of VizierServicer.SuggestTrials is, in
   this order and with exactly these statements (compared after parsing, so comments and layout do not matter), the sequence
   of blocks named by `ublock`, and writes that sequence to Gen/SuggestSrc.v.  `uinterp` gives every block the meaning the
   hand-written handler program gives it; Proofs/SuggestIRP.v proves that the program denoted by the regenerated sequence is the
   model's h_suggest node for node.  (Coarser than Model/HandlerIR.v: a block stands for several Python statements whose text is
   pinned in the translator; an edit inside a block is refused, a block that is moved, dropped or put under another lock changes
   the denoted program.) *)
From VZ Require Import Base.Prelude Base.XFloat Model.Metadata Model.Service.
Import ListNotations.

Inductive ublock :=
| USeq (a b : ublock) | USkip
| UGuardStudy                      (* if self._study_is_immutable(study_name): raise ImmutableStudyError *)
| UWithOpLock (body : ublock)      (* with self._operation_lock[request.parent]: *)
| UWithStudyLock (body : ublock)   (* with self._study_name_to_lock[study_name]: *)
| ULoadStudy                       (* study = self.datastore.load_study(request.parent) *)
| UFindActiveOps                   (* try: active_op_list = list_suggestion_operations(study, client, not done) except NotFoundError: [] *)
| UReturnFirstActiveOpIfAny        (* if active_op_list: return active_op_list[0] *)
| UNextOpNumber                    (* try: old = max_suggestion_operation_number(study, client) except NotFoundError: 0; new = old + 1 *)
| UCreateOp                        (* output_op = Operation(name=.., done=False); create_suggestion_operation(output_op) *)
| UListOwnActive                   (* all_trials = list_trials(study); active_trials = [ACTIVE and client_id == request.client_id] *)
| UIfEnoughOwnFinish               (* if len(active_trials) >= count: response = active_trials[:count]; done; update; return *)
| UOutputFromOwn                   (* output_trials = active_trials *)
| UListRequested                   (* requested_trials = [t for t in list_trials(study) if t.state == REQUESTED] *)
| UAssignLoop                      (* while requested_trials and count > len(output_trials): t = pop(); ACTIVE; client; update_trial; append *)
| UIfEnoughOutputFinish            (* if len(output_trials) == count: response; done; update; return *)
| UMaxTrialIdForRequest            (* StudyDescriptor(.., max_trial_id=self.datastore.max_trial_id(study)) *)
| UCallPythiaOrFinishWithError     (* try: Suggest(count - len(output_trials)) except Exception: error; done; update; return *)
| UUpdateMdOrFinishWithError       (* try: with study lock: update_metadata(study, on_study, on_trials) except KeyError: error; done; update; return *)
| UCreateLoop                      (* while new_trials and count > len(output_trials): pop(); id = max_trial_id + 1; ACTIVE; client; create_trial; append *)
| URemainLoop                      (* for remain_trial in new_trials: id = max_trial_id + 1; REQUESTED; create_trial *)
| UFinish.                         (* output_op.done = True; update_suggestion_operation(output_op); return output_op *)

Record uenv := mkU { u_ops : list sop; u_old : N; u_op : option sop; u_mine : list trial; u_out : list trial; u_pool : list trial;
                     u_sugs : list N; u_smd : list kv; u_tmd : list (N * kv) }.
Definition uenv0 : uenv := mkU [] 0 None [] [] [] [] [] [].

Section Sem.
Variables (k : skey) (c : N) (count : nat).

Definition with_op (e : uenv) (f : sop -> prog) : prog := match u_op e with Some o => f o | None => Throw EOther end.

Fixpoint uinterp (b : ublock) (e : uenv) (kont : uenv -> prog) {struct b} : prog :=
  match b with
  | USkip => kont e
  | USeq x y => uinterp x e (fun e' => uinterp y e' kont)
  | UGuardStudy => guard_study k (kont e)
  | UWithOpLock body => Acquire (LOp k) (uinterp body e (fun e' => Release (LOp k) (kont e')))
  | UWithStudyLock body => Acquire (LStudy k) (uinterp body e (fun e' => Release (LStudy k) (kont e')))
  | ULoadStudy => Call (CLoadStudy k) (fun r0 => match r0 with Err x => Throw x | Ok _ => kont e end)
  | UFindActiveOps =>
    Call (CListSops k c) (fun r1 => match r1 with
      | Err ENotFound | Ok (RSops _) =>
        kont (mkU (match r1 with Ok (RSops l) => filter (fun o => negb (o_done o)) l | _ => [] end)
                  (u_old e) (u_op e) (u_mine e) (u_out e) (u_pool e) (u_sugs e) (u_smd e) (u_tmd e))
      | Ok _ => Throw EOther
      | Err x => Throw x end)
  | UReturnFirstActiveOpIfAny =>
    match u_ops e with o :: _ => Release (LOp k) (Ret (RpOp o)) | [] => kont e end
  | UNextOpNumber =>
    Call (CMaxSopNum k c) (fun r2 => match r2 with
      | Err ENotFound | Ok (RNum _) =>
        kont (mkU (u_ops e) (match r2 with Ok (RNum n) => n | _ => 0%N end) (u_op e) (u_mine e) (u_out e) (u_pool e) (u_sugs e) (u_smd e) (u_tmd e))
      | Ok _ => Throw EOther
      | Err x => Throw x end)
  | UCreateOp =>
    let o := mkOp c (u_old e + 1) false false [] in
    Call (CCreateSop k o) (fun r3 => expect_unit r3
      (kont (mkU (u_ops e) (u_old e) (Some o) (u_mine e) (u_out e) (u_pool e) (u_sugs e) (u_smd e) (u_tmd e))))
  | UListOwnActive =>
    Call (CListTrials k) (fun r4 => match r4 with
      | Ok (RTrials all) =>
        kont (mkU (u_ops e) (u_old e) (u_op e) (filter (fun t => tstate_eqb (t_state t) ACTIVE && N.eqb (t_client t) c) all)
                  (u_out e) (u_pool e) (u_sugs e) (u_smd e) (u_tmd e))
      | Ok _ => Throw EOther | Err x => Throw x end)
  | UIfEnoughOwnFinish =>
    if Nat.leb count (length (u_mine e)) then with_op e (fun o => finish_op k o false (firstn count (u_mine e))) else kont e
  | UOutputFromOwn => kont (mkU (u_ops e) (u_old e) (u_op e) (u_mine e) (u_mine e) (u_pool e) (u_sugs e) (u_smd e) (u_tmd e))
  | UListRequested =>
    Call (CListTrials k) (fun r4' => match r4' with
      | Ok (RTrials all') =>
        kont (mkU (u_ops e) (u_old e) (u_op e) (u_mine e) (u_out e) (filter (fun t => tstate_eqb (t_state t) REQUESTED) all')
                  (u_sugs e) (u_smd e) (u_tmd e))
      | Ok _ => Throw EOther | Err x => Throw x end)
  | UAssignLoop =>
    assign_loop k c (rev (u_pool e)) (count - length (u_out e)) (u_out e)
      (fun out => kont (mkU (u_ops e) (u_old e) (u_op e) (u_mine e) out (u_pool e) (u_sugs e) (u_smd e) (u_tmd e)))
  | UIfEnoughOutputFinish =>
    if Nat.eqb (length (u_out e)) count then with_op e (fun o => finish_op k o false (u_out e)) else kont e
  | UMaxTrialIdForRequest => Call (CMaxTrialId k) (fun r5 => match r5 with Err x => Throw x | Ok _ => kont e end)
  | UCallPythiaOrFinishWithError =>
    Pythia (PSuggest k (count - length (u_out e))) (fun po => match po with
      | PDeliver sugs smd tmd => kont (mkU (u_ops e) (u_old e) (u_op e) (u_mine e) (u_out e) (u_pool e) sugs smd tmd)
      | PFail _ => with_op e (fun o => finish_op k o true [])
      | PDecide _ _ _ => Throw EOther end)
  | UUpdateMdOrFinishWithError =>
    Acquire (LStudy k) (Call (CUpdateMd k (u_smd e) (u_tmd e)) (fun r6 => match r6 with
      | Err ENotFound | Err EKey => Release (LStudy k) (with_op e (fun o => finish_op k o true []))
      | Err x => Throw x
      | Ok _ => Release (LStudy k) (kont e) end))
  | UCreateLoop =>
    create_loop k c (rev (u_sugs e)) (count - length (u_out e)) (u_out e)
      (fun left_rev out' => kont (mkU (u_ops e) (u_old e) (u_op e) (u_mine e) out' (u_pool e) (rev left_rev) (u_smd e) (u_tmd e)))
  | URemainLoop => remain_loop k (u_sugs e) (kont e)
  | UFinish => with_op e (fun o => finish_op k o false (u_out e))
  end.
End Sem.

(* the handler: falling off the end without `return` would answer None *)
Definition suggest_of (body : ublock) (k : skey) (c : N) (count : nat) : prog :=
  uinterp k c count body uenv0 (fun _ => Throw EOther).
