(* InRamPolicySupporter.GetBestTrials: which trials are candidates (the tests of its local is_candidate, regenerated from
   local_policy_supporters.py into Gen/BestTrialsSrc.v by harness/translate/besttrials.py), which attributes of the supporter
   the query reads and writes, and the set it reports: the candidates that no candidate dominates. *)
From VZ Require Import Base.Prelude Base.XFloat Model.Pareto.

(* a stored trial as the query sees it; the final measurement lists, per configured objective, the reported value
   (None = the metric is not reported), already oriented so that larger is better *)
Record btrial := { bt_id : nat; bt_completed : bool; bt_infeasible : bool; bt_final : option (list (option xf)) }.

Inductive ctest := CNotCompleted | CInfeasible | CNoFinal | CObjectiveMissing | CObjectiveNaN.
Inductive sattr := AStudyConfig | ATrials | AOther.
Record best_src := { bs_tests : list ctest; bs_reads : list sattr; bs_writes : list sattr }.

Definition ctest_refuses (c : ctest) (t : btrial) : bool :=
  match c with
  | CNotCompleted => negb (bt_completed t)
  | CInfeasible => bt_infeasible t
  | CNoFinal => match bt_final t with None => true | Some _ => false end
  | CObjectiveMissing => match bt_final t with Some ms => existsb (fun m => match m with None => true | Some _ => false end) ms | None => false end
  | CObjectiveNaN => match bt_final t with Some ms => existsb (fun m => match m with Some x => is_nan x | None => false end) ms | None => false end
  end.
Definition is_candidate_of (tests : list ctest) (t : btrial) : bool := negb (existsb (fun c => ctest_refuses c t) tests).

(* the property's wording: successfully completed, reports every configured objective, as a number *)
Definition eligible (t : btrial) : bool :=
  bt_completed t && negb (bt_infeasible t) &&
  match bt_final t with
  | Some ms => forallb (fun m => match m with Some x => negb (is_nan x) | None => false end) ms
  | None => false
  end.

Definition vec_of (t : btrial) : vec :=
  match bt_final t with Some ms => map (fun m => match m with Some x => x | None => NaN end) ms | None => [] end.

Definition best_of (tests : list ctest) (ts : list btrial) : list btrial :=
  let cs := filter (is_candidate_of tests) ts in
  filter (fun t => negb (existsb (fun q => dominates (vec_of q) (vec_of t)) cs)) cs.

Definition model_tests : list ctest := [CNotCompleted; CInfeasible; CNoFinal; CObjectiveMissing; CObjectiveNaN].
Definition sattr_eqb (a b : sattr) : bool :=
  match a, b with AStudyConfig, AStudyConfig | ATrials, ATrials | AOther, AOther => true | _, _ => false end.
(* the query is a function of the current trials and the study configuration: it reads nothing else and writes nothing *)
Definition stateless (s : best_src) : bool :=
  forallb (fun a => sattr_eqb a AStudyConfig || sattr_eqb a ATrials) (bs_reads s) &&
  existsb (sattr_eqb ATrials) (bs_reads s) &&
  match bs_writes s with [] => true | _ => false end.
