(* Deployments: what a client observes of a server-side outcome when it talks to the in-process servicer (Local) or to a
   gRPC server (Remote; also the split-Pythia deployment, which differs only in where the algorithm runs).
   Models the glue of vizier_client.py / clients.py / grpc_util.py.  Executable definitions only. *)
From VZ Require Export Base.Prelude.

Inductive status := StFailedPrecondition | StNotFound | StAlreadyExists | StUnknown | StInternal | StInvalidArgument.
Definition status_eqb (a b : status) : bool :=
  match a, b with
  | StFailedPrecondition, StFailedPrecondition | StNotFound, StNotFound | StAlreadyExists, StAlreadyExists
  | StUnknown, StUnknown | StInternal, StInternal | StInvalidArgument, StInvalidArgument => true
  | _, _ => false
  end.

Inductive deploy := Local | Remote.

(* how an error raised inside the servicer reaches the client:
   via_handle = it went through grpc_util.handle_exception (status from the table);
   otherwise it escaped the handler: locally the Python exception itself, remotely status UNKNOWN *)
Inductive cerr :=
| CStatus (s : status)        (* grpc.RpcError / LocalRpcError carrying this status code *)
| CRaw (e : errclass).        (* the original exception object (local deployment only) *)

Definition client_error (status_of : errclass -> status) (d : deploy) (via_handle : bool) (e : errclass) : cerr :=
  if via_handle then CStatus (status_of e)
  else match d with Local => CRaw e | Remote => CStatus StUnknown end.

(* which server errors are raised through handle_exception in vizier_service.py *)
Definition via_handle_exception (e : errclass) : bool :=
  match e with EImmutableStudy | EImmutableTrial | EValue => true | _ => false end.

(* client-level result of study.suggest: FAILED_PRECONDITION (a finished study) becomes the empty list *)
Inductive cres := CEmptyList | CError (c : cerr).
Definition suggest_view (empty_statuses : list status) (c : cerr) : cres :=
  match c with
  | CStatus s => if existsb (status_eqb s) empty_statuses then CEmptyList else CError c
  | CRaw _ => CError c
  end.

(* clients.Study.get_trial: except KeyError -> ResourceNotFoundError. NotFoundError is a KeyError. *)
Inductive gres := GResourceNotFound | GError (c : cerr).
Definition is_keyerror (e : errclass) : bool := match e with ENotFound | EKey => true | _ => false end.
Definition get_trial_view (c : cerr) : gres :=
  match c with
  | CRaw e => if is_keyerror e then GResourceNotFound else GError c
  | CStatus _ => GError c
  end.

Definition cerr_eqb (a b : cerr) : bool :=
  match a, b with
  | CStatus x, CStatus y => status_eqb x y
  | CRaw x, CRaw y => errclass_eqb x y
  | _, _ => false
  end.

(* what the remote client sees, given what the local client sees for the same server-side outcome *)
Definition predict_remote (c : cerr) : cerr := match c with CRaw _ => CStatus StUnknown | CStatus s => CStatus s end.
Definition deploy_case_ok (c : cerr * cerr) : bool := cerr_eqb (predict_remote (fst c)) (snd c).
