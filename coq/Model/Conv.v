(* Model of vizier/pyvizier/converters/core.py: DefaultModelInputConverter (index / continuous encoding, clipping,
   nearest-feasible snapping, one-hot embedding) and DefaultModelOutputConverter (sign flip).
   Exact rationals stand for float32/float64.  Executable definitions only. *)
From Coq Require Export Qabs.
From VZ Require Export Model.Space.

Record conv := mkCv { cv_pc : pcfg; cv_continuified : bool; cv_clip : bool; cv_converts : bool }.

Definition zrange (a b : Z) : list Z := map (fun i => (a + Z.of_nat i)%Z) (seq 0 (Z.to_nat (b - a + 1))).

(* parameter_config.feasible_values as parameter values *)
Definition feas_values (p : pcfg) : list rv :=
  match pc_type p with
  | TInteger => map RInt (zrange (Qfloor (pc_lo p)) (Qfloor (pc_hi p)))
  | TDiscrete => map (fun q => RFloat (XF q)) (pc_nums p)
  | TCategorical => map RStr (pc_cats p)
  | TDouble => []
  end.
Definition feas_nums (p : pcfg) : list Q :=
  match pc_type p with
  | TInteger => map inject_Z (zrange (Qfloor (pc_lo p)) (Qfloor (pc_hi p)))
  | TDiscrete => pc_nums p
  | _ => []
  end.

Definition qclip (lo hi q : Q) : Q := if Qle_bool q lo then lo else if Qle_bool hi q then hi else q.
Definition qabs_diff (a b : Q) : Q := Qabs (a - b).

(* np.argmin(np.abs(feasible - value)): first minimum *)
Fixpoint nearest_from (x best : Q) (l : list Q) : Q :=
  match l with
  | [] => best
  | f :: r => if Qlt_le_dec (qabs_diff f x) (qabs_diff best x) then nearest_from x f r else nearest_from x best r
  end.
Definition nearest (x : Q) (l : list Q) : option Q := match l with [] => None | f :: r => Some (nearest_from x f r) end.

Inductive dres := DNone | DSome (v : rv) | DIndexError.

(* closest_number.cast_as_internal(type) *)
Definition internal_value (ty : ptype) (q : Q) : rv :=
  match ty with TInteger => RInt (Qfloor q) | _ => RFloat (XF q) end.

(* DefaultModelInputConverter._to_parameter_value on the value obtained after undoing one-hot and scaling *)
Definition to_pvalue (c : conv) (x : xq) : dres :=
  let p := cv_pc c in
  if negb (cv_converts c) then DNone
  else match x with
  | XNaN => DNone
  | _ =>
    match pc_type p with
    | TDouble =>
      match x with
      | XF q => DSome (RFloat (XF (if cv_clip c then qclip (pc_lo p) (pc_hi p) q else q)))
      | XPInf => if cv_clip c then DSome (RFloat (XF (pc_hi p))) else DSome (RFloat XPInf)
      | XNInf => if cv_clip c then DSome (RFloat (XF (pc_lo p))) else DSome (RFloat XNInf)
      | XNaN => DNone
      end
    | ty =>
      if cv_continuified c then
        match x with
        | XF q => match nearest q (feas_nums p) with Some f => DSome (internal_value ty f) | None => DIndexError end
        | _ => match feas_nums p with f :: _ => DSome (internal_value ty f) | [] => DIndexError end  (* all diffs inf: argmin = 0 *)
        end
      else
        match x with
        | XF q =>
          if negb (Qeq_bool q (inject_Z (Qfloor q))) then DIndexError     (* a non-integral list index *)
          else
            let i := Qfloor q in
            let n := Z.of_nat (length (feas_values p)) in
            if Z.leb n i then DNone
            else if Z.leb 0 i then match nth_error (feas_values p) (Z.to_nat i) with Some v => DSome v | None => DIndexError end
            else if Z.leb (- n) i then match nth_error (feas_values p) (Z.to_nat (n + i)) with Some v => DSome v | None => DIndexError end
            else DIndexError
        | XPInf => DNone
        | _ => DIndexError
        end
    end
  end.

(* _convert_index: position in feasible_values, len(feasible_values) when absent *)
Fixpoint index_of (eqb : rv -> rv -> bool) (v : rv) (l : list rv) : nat :=
  match l with [] => O | h :: t => if eqb h v then O else S (index_of eqb v t) end.
Definition rv_same (a b : rv) : bool :=
  match a, b with
  | RStr s, RStr t => str_eqb s t
  | RStr _, _ | _, RStr _ => false
  | _, _ => rv_eqb a b
  end.
Definition encode_index (p : pcfg) (v : rv) : nat := index_of rv_same v (feas_values p).

(* one-hot: np.eye(n)[i]; unembed = argmax over the first n - num_oovs columns *)
Definition onehot (n i : nat) : list Q := map (fun j => if Nat.eqb j i then 1 else 0) (seq 0 n).
Fixpoint argmax_from (best_i : nat) (best : Q) (i : nat) (l : list Q) : nat :=
  match l with
  | [] => best_i
  | x :: r => if Qlt_le_dec best x then argmax_from i x (S i) r else argmax_from best_i best (S i) r
  end.
Definition argmax (l : list Q) : nat := match l with [] => O | x :: r => argmax_from O x 1%nat r end.
Definition unembed (n_real : nat) (row : list Q) : nat := argmax (firstn n_real row).

(* DefaultModelOutputConverter: labels of an objective metric, sign flipped for MINIMIZE when configured *)
Definition label_convert (flip : bool) (v : Q) : Q := if flip then - v else v.
Definition label_to_metric (flip : bool) (l : Q) : Q := if flip then - l else l.
