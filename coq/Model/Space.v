(* Model of search-space definitions and membership:
     vizier/_src/pyvizier/shared/parameter_config.py  (ParameterConfig.factory, contains/_assert_feasible,
                                                       SearchSpace.assert_contains / add)
     vizier/_src/pyvizier/shared/trial.py             (ParameterType.assert_correct_type, ParameterValue casts)
     vizier/_src/pyvizier/shared/parameter_iterators.py (SequentialParameterBuilder)
   Python values are modelled with their run-time kind (int / float / str / bool); floats are exact rationals or
   +-inf / nan.  Executable definitions only. *)
From Coq Require Export QArith Qround.
From VZ Require Export Base.Prelude.

Inductive xq := XF (q : Q) | XPInf | XNInf | XNaN.
Inductive rv := RInt (z : Z) | RFloat (x : xq) | RStr (s : str) | RBool (b : bool).

Definition xq_finite (x : xq) : bool := match x with XF _ => true | _ => false end.
Definition xq_eqb (a b : xq) : bool :=         (* Python == on floats: nan != nan *)
  match a, b with
  | XF p, XF q => Qeq_bool p q
  | XPInf, XPInf | XNInf, XNInf => true
  | _, _ => false
  end.
Definition xq_leb (a b : xq) : bool :=
  match a, b with
  | XNaN, _ | _, XNaN => false
  | XNInf, _ => true
  | _, XPInf => true
  | XF p, XF q => Qle_bool p q
  | _, _ => false
  end.

(* float(value) for numeric kinds; None for str (float("abc") raises ValueError, float("1.5") != "1.5": either way the
   value is refused) *)
Definition num_of (v : rv) : option xq :=
  match v with
  | RInt z => Some (XF (inject_Z z))
  | RFloat x => Some x
  | RBool b => Some (XF (if b then 1 else 0))
  | RStr _ => None
  end.
Definition is_integral (x : xq) : bool := match x with XF q => Qeq_bool q (inject_Z (Qfloor q)) | _ => false end.

Inductive ptype := TDouble | TInteger | TDiscrete | TCategorical.
Definition TRUE_STR : str := [84; 114; 117; 101]%N.      (* 'True' *)
Definition FALSE_STR : str := [70; 97; 108; 115; 101]%N. (* 'False' *)

(* ParameterValue(value).as_str for the kinds CATEGORICAL accepts *)
Definition as_str (v : rv) : option str :=
  match v with RStr s => Some s | RBool b => Some (if b then TRUE_STR else FALSE_STR) | _ => None end.

(* a validated flat parameter config *)
Record pcfg := mkPC { pc_name : str; pc_type : ptype; pc_lo : Q; pc_hi : Q; pc_nums : list Q; pc_cats : list str }.

Inductive verdict := Accept | Refuse.   (* contains() -> True / False *)

(* ParameterConfig.contains(value) = not raising in _assert_feasible, which runs assert_correct_type first:
   numeric types need float(v) == v (so nan is out), INTEGER needs int(v) == v (int(inf) raises OverflowError, which
   contains() turns into False), CATEGORICAL needs a str or a bool *)
Definition pc_contains (p : pcfg) (v : rv) : verdict :=
  match pc_type p with
  | TCategorical =>
    match as_str v with
    | Some s => if existsb (str_eqb s) (pc_cats p) then Accept else Refuse
    | None => Refuse
    end
  | ty =>
    match num_of v with
    | None => Refuse
    | Some XNaN => Refuse
    | Some x =>
      match ty with
      | TInteger =>
        if xq_finite x && is_integral x && xq_leb (XF (pc_lo p)) x && xq_leb x (XF (pc_hi p)) then Accept else Refuse
      | TDouble => if xq_leb (XF (pc_lo p)) x && xq_leb x (XF (pc_hi p)) then Accept else Refuse
      | _ => if existsb (fun q => xq_eqb x (XF q)) (pc_nums p) then Accept else Refuse
      end
    end
  end.

(* SearchSpace.assert_contains on a flat space; parameters = dict name -> value (keys unique, in insertion order) *)
Fixpoint lookup_param (n : str) (ps : list (str * rv)) : option rv :=
  match ps with [] => None | (k, v) :: r => if str_eqb k n then Some v else lookup_param n r end.
Definition space_contains (space : list pcfg) (ps : list (str * rv)) : verdict :=
  if negb (Nat.eqb (length ps) (length space)) then Refuse
  else
    (fix go (l : list pcfg) : verdict :=
       match l with
       | [] => Accept
       | p :: r => match lookup_param (pc_name p) ps with
                   | None => Refuse
                   | Some v => match pc_contains p v with Accept => go r | other => other end
                   end
       end) space.

(* ---- ParameterConfig.factory: validation and normalisation of one definition *)
Definition qleb (a b : Q) : bool := Qle_bool a b.
Fixpoint qinsert (x : Q) (l : list Q) : list Q :=
  match l with [] => [x] | h :: t => if qleb x h then x :: l else h :: qinsert x t end.
Definition qsort (l : list Q) : list Q := fold_right qinsert [] l.
Fixpoint sinsert (x : str) (l : list str) : list str :=
  match l with [] => [x] | h :: t => if str_leb x h then x :: l else h :: sinsert x t end.
Definition ssort (l : list str) : list str := fold_right sinsert [] l.

(* Python's len(set(values)) != len(values): numbers of all kinds compare by value (1 == 1.0 == True) *)
Definition rv_eqb (a b : rv) : bool :=
  match num_of a, num_of b with
  | Some x, Some y => xq_eqb x y || (match x, y with XNaN, XNaN => false | _, _ => false end)
  | None, None => match a, b with RStr s, RStr t => str_eqb s t | _, _ => false end
  | _, _ => false
  end.
Fixpoint has_dup (l : list rv) : bool :=
  match l with [] => false | x :: r => existsb (rv_eqb x) r || has_dup r end.

Definition is_num (v : rv) : bool := match v with RStr _ => false | _ => true end.
Definition is_str (v : rv) : bool := match v with RStr _ => true | _ => false end.
Definition is_int (v : rv) : bool := match v with RInt _ | RBool _ => true | _ => false end.   (* bool is an int *)
Definition is_float (v : rv) : bool := match v with RFloat _ => true | _ => false end.
Definition fin_q (v : rv) : option Q := match num_of v with Some (XF q) => Some q | _ => None end.

Definition factory (name : str) (bounds : option (rv * rv)) (feasible : list rv) : res pcfg :=
  if match name with [] => true | _ => false end then Err EValue
  else
    match feasible, bounds with
    | _ :: _, Some _ => Err EValue                       (* both given *)
    | _ :: _, None =>
      if has_dup feasible then Err EValue
      else if forallb is_num feasible then
        if forallb (fun v => match fin_q v with Some _ => true | None => false end) feasible then
          let qs := qsort (flat_map (fun v => match fin_q v with Some q => [q] | None => [] end) feasible) in
          Ok (mkPC name TDiscrete (hd 0 qs) (last qs 0) qs [])
        else Err EValue
      else if forallb is_str feasible then
        Ok (mkPC name TCategorical 0 0 [] (ssort (flat_map (fun v => match v with RStr s => [s] | _ => [] end) feasible)))
      else Err EValue
    | [], Some (lo, hi) =>
      if (is_int lo && is_int hi) || (is_float lo && is_float hi) then
        match fin_q lo, fin_q hi with
        | Some l, Some h =>
          if qleb l h then Ok (mkPC name (if is_int lo then TInteger else TDouble) l h [] [])
          else Err EValue
        | _, _ => Err EValue
        end
      else Err EValue
    | [], None => Err ENotImplemented                    (* CUSTOM parameters are not modelled *)
    end.

(* SearchSpace.add: duplicate names in one (sub)space are refused *)
Definition space_add (space : list pcfg) (p : pcfg) : res (list pcfg) :=
  if existsb (fun q => str_eqb (pc_name q) (pc_name p)) space then Err EValue else Ok (space ++ [p]).

(* ---- SequentialParameterBuilder over a conditional space: a tree of parameters, each child listed with the parent
        values under which it is active (values are abstract atoms) *)
Inductive ctree := CNode (name : str) (children : list (list N * ctree)).
Definition ct_children (t : ctree) : list (list N * ctree) := match t with CNode _ ch => ch end.
(* get_subspace_deepcopy(value).parameters: the children active under `value`, in declaration order *)
Definition subspace (t : ctree) (v : N) : list ctree :=
  map snd (filter (fun vc => existsb (N.eqb v) (fst vc)) (ct_children t)).

(* the coroutine: pop the first parameter, ask for its value, then continue with (dfs) its active children followed by
   the rest, or (bfs) the rest followed by its active children *)
Fixpoint build (fuel : nat) (bfs : bool) (choose : ctree -> N) (work : list ctree) : list ctree :=
  match fuel with
  | O => []
  | S fuel' =>
    match work with
    | [] => []
    | t :: rest =>
      let sub := subspace t (choose t) in
      t :: build fuel' bfs choose (if bfs then rest ++ sub else sub ++ rest)
    end
  end.

(* choose_value validates the chosen value against the parameter's domain for EVERY parameter type
   (ParameterConfig.get_subspace_deepcopy -> _assert_feasible, "get_subspace also validates the value"); the atom 0 stands
   for a value outside the domain.  The result records (parameter, value) in visiting order. *)
Fixpoint build_v (fuel : nat) (bfs : bool) (choose : ctree -> N) (work : list ctree) : res (list (ctree * N)) :=
  match fuel with
  | O => Ok []
  | S fuel' =>
    match work with
    | [] => Ok []
    | t :: rest =>
      let v := choose t in
      if N.eqb v 0 then Err EValue
      else match build_v fuel' bfs choose (if bfs then rest ++ subspace t v else subspace t v ++ rest) with
           | Ok l => Ok ((t, v) :: l)
           | Err e => Err e
           end
    end
  end.

Fixpoint ct_size (t : ctree) : nat :=
  match t with
  | CNode _ ch => S ((fix go (l : list (list N * ctree)) : nat :=
                        match l with [] => O | (_, c) :: r => (ct_size c + go r)%nat end) ch)
  end.
Definition work_size (l : list ctree) : nat := fold_right (fun t acc => (ct_size t + acc)%nat) O l.
