(* Boolean equalities on the wire types (used by the correspondence cases only). Rationals are compared as numbers. *)
From VZ Require Export Model.Wire Gen.EnumMaps Model.WireConv.

Definition q_eqb (a b : Q) : bool := Qeq_bool a b.
Definition pval_eqb (a b : pval) : bool :=
  match a, b with VNum x, VNum y => q_eqb x y | VStr x, VStr y => str_eqb x y | _, _ => false end.
Definition ptype_eqb (a b : ptype) : bool :=
  match a, b with TDouble, TDouble | TInteger, TInteger | TDiscrete, TDiscrete | TCategorical, TCategorical => true | _, _ => false end.
Definition scale_eqb (a b : scale) : bool :=
  match a, b with ScLinear, ScLinear | ScLog, ScLog | ScRevLog, ScRevLog | ScUniformDiscrete, ScUniformDiscrete => true | _, _ => false end.
Definition ext_eqb (a b : ext) : bool :=
  match a, b with ExInternal, ExInternal | ExBoolean, ExBoolean | ExInteger, ExInteger | ExFloat, ExFloat => true | _, _ => false end.
Definition qpair_eqb (a b : Q * Q) : bool := q_eqb (fst a) (fst b) && q_eqb (snd a) (snd b).

Fixpoint pconf_eqb (a b : pconf) : bool :=
  match a, b with
  | PConf n1 t1 b1 f1 s1 d1 e1 c1, PConf n2 t2 b2 f2 s2 d2 e2 c2 =>
    str_eqb n1 n2 && ptype_eqb t1 t2 && opt_eqb qpair_eqb b1 b2 && list_eqb pval_eqb f1 f2 && opt_eqb scale_eqb s1 s2 &&
    opt_eqb pval_eqb d1 d2 && ext_eqb e1 e2 &&
    (fix go (l1 l2 : list (list pval * pconf)) : bool :=
       match l1, l2 with
       | [], [] => true
       | (v1, x1) :: r1, (v2, x2) :: r2 => list_eqb pval_eqb v1 v2 && pconf_eqb x1 x2 && go r1 r2
       | _, _ => false
       end) c1 c2
  end.

Definition vspec_eqb (a b : vspec) : bool :=
  match a, b with
  | SpDouble l1 h1 d1, SpDouble l2 h2 d2 => q_eqb l1 l2 && q_eqb h1 h2 && opt_eqb q_eqb d1 d2
  | SpInt l1 h1 d1, SpInt l2 h2 d2 => Z.eqb l1 l2 && Z.eqb h1 h2 && opt_eqb Z.eqb d1 d2
  | SpDiscrete v1 d1, SpDiscrete v2 d2 => list_eqb q_eqb v1 v2 && opt_eqb q_eqb d1 d2
  | SpCat v1 d1, SpCat v2 d2 => list_eqb str_eqb v1 v2 && opt_eqb str_eqb d1 d2
  | _, _ => false
  end.
Definition cond_eqb (a b : cond) : bool :=
  match a, b with
  | CdDiscrete x, CdDiscrete y => list_eqb q_eqb x y
  | CdInt x, CdInt y => list_eqb Z.eqb x y
  | CdCat x, CdCat y => list_eqb str_eqb x y
  | _, _ => false
  end.
Fixpoint pspec_eqb (a b : pspec) : bool :=
  match a, b with
  | PSpec i1 s1 sc1 e1 c1, PSpec i2 s2 sc2 e2 c2 =>
    str_eqb i1 i2 && vspec_eqb s1 s2 && N.eqb sc1 sc2 && N.eqb e1 e2 &&
    (fix go (l1 l2 : list (cond * pspec)) : bool :=
       match l1, l2 with
       | [], [] => true
       | (k1, x1) :: r1, (k2, x2) :: r2 => cond_eqb k1 k2 && pspec_eqb x1 x2 && go r1 r2
       | _, _ => false
       end) c1 c2
  end.
Definition metrics_eqb := list_eqb (fun (a b : str * Q) => str_eqb (fst a) (fst b) && q_eqb (snd a) (snd b)).
Definition pymeas_eqb (a b : pymeas) : bool :=
  metrics_eqb (pm_metrics a) (pm_metrics b) && q_eqb (pm_elapsed a) (pm_elapsed b) && Z.eqb (pm_steps a) (pm_steps b).
Definition prmeas_eqb (a b : prmeas) : bool :=
  metrics_eqb (rm_metrics a) (rm_metrics b) && Z.eqb (rm_seconds a) (rm_seconds b) && Z.eqb (rm_nanos a) (rm_nanos b) &&
  Z.eqb (rm_steps a) (rm_steps b).
