(* Interleaving semantics of the service model: several RPC handler programs run as threads over one datastore.
   Scheduling points = datastore primitive calls and service-lock acquisitions (each datastore primitive is atomic:
   both datastores take their own lock around every method).  Executable definitions only. *)
From VZ Require Export Model.Service Model.ServiceEq.

Definition lock_eqb (a b : lockid) : bool :=
  match a, b with
  | LOwner x, LOwner y => N.eqb x y
  | LStudy x, LStudy y => skey_eqb x y
  | LOp x, LOp y => skey_eqb x y
  | _, _ => false
  end.

Record thread := mkTh { th_prog : prog; th_oracle : pythia_out; th_held : list lockid; th_result : option outcome }.
Record cfg := mkCfg { c_state : state; c_threads : list thread }.

(* run a thread up to its next scheduling point (Call / Acquire) or to its end; Release and the Pythia oracle are not
   scheduling points *)
Fixpoint park (p : prog) (oracle : pythia_out) (held : list lockid) : thread :=
  match p with
  | Ret r => mkTh p oracle [] (Some (Done r))
  | Throw e => mkTh p oracle [] (Some (Failed e))          (* `with` blocks release on unwinding *)
  | Release l k => park k oracle (filter (fun x => negb (lock_eqb x l)) held)
  | Pythia _ k => park (k oracle) oracle held
  | Call _ _ | Acquire _ _ => mkTh p oracle held None
  end.

Definition held_by_any (ths : list thread) (l : lockid) : bool :=
  existsb (fun t => existsb (lock_eqb l) (th_held t)) ths.

Definition enabled (ths : list thread) (t : thread) : bool :=
  match th_result t with
  | Some _ => false
  | None => match th_prog t with
            | Acquire l _ => negb (held_by_any ths l)
            | Call _ _ => true
            | _ => false
            end
  end.

Fixpoint set_nth {A} (n : nat) (x : A) (l : list A) : list A :=
  match l, n with
  | [], _ => []
  | _ :: t, O => x :: t
  | h :: t, S n' => h :: set_nth n' x t
  end.

(* one scheduling step of thread tid (must be enabled) *)
Definition cstep (c : cfg) (tid : nat) : option cfg :=
  match nth_error (c_threads c) tid with
  | None => None
  | Some t =>
    if enabled (c_threads c) t then
      match th_prog t with
      | Call cl k =>
        let '(s', r) := exec cl (c_state c) in
        Some (mkCfg s' (set_nth tid (park (k r) (th_oracle t) (th_held t)) (c_threads c)))
      | Acquire l k =>
        Some (mkCfg (c_state c) (set_nth tid (park k (th_oracle t) (l :: th_held t)) (c_threads c)))
      | _ => None
      end
    else None
  end.

Definition first_enabled (c : cfg) : option nat :=
  (fix go (i : nat) (l : list thread) : option nat :=
     match l with
     | [] => None
     | t :: r => if enabled (c_threads c) t then Some i else go (S i) r
     end) 0 (c_threads c).

(* follow a schedule (list of thread ids); a disabled or finished choice falls back to the first enabled thread;
   when the schedule is used up continue with the first enabled thread; stop when nobody is enabled *)
Fixpoint run_sched (fuel : nat) (sched : list nat) (c : cfg) : cfg :=
  match fuel with
  | O => c
  | S fuel' =>
    let pick := match sched with
                | tid :: _ => match cstep c tid with Some _ => Some tid | None => first_enabled c end
                | [] => first_enabled c
                end in
    match pick with
    | None => c
    | Some tid => match cstep c tid with
                  | Some c' => run_sched fuel' (tl sched) c'
                  | None => c
                  end
    end
  end.

Definition start (s : state) (rpcs : list (rpc * pythia_out)) : cfg :=
  mkCfg s (map (fun ro => park (handler (fst ro)) (snd ro) []) rpcs).

Definition all_finished (c : cfg) : bool := forallb (fun t => match th_result t with Some _ => true | None => false end) (c_threads c).
Definition deadlocked (c : cfg) : bool := negb (all_finished c) && match first_enabled c with None => true | Some _ => false end.
Definition results (c : cfg) : list (option outcome) := map th_result (c_threads c).

(* correspondence case: prefix (sequential), concurrent RPCs, schedule, observed per-thread outcomes, final snapshot *)
Definition conc_case := (list (rpc * pythia_out) * list (rpc * pythia_out) * list nat *
                         list outcome * list (option (list (skey * node))))%type.
Definition conc_case_ok (c : conc_case) : bool :=
  let '(prefix, rpcs, sched, outs, snap) := c in
  let s := run_all prefix init_state in
  let fin := run_sched 400 sched (start s rpcs) in
  all_finished fin &&
  list_eqb (opt_eqb outcome_eqb) (results fin) (map Some outs) &&
  snapshot_eqb (snapshot CLIENTS OWNERS (c_state fin)) snap.
