(* Checks over the table Gen/ServiceLocks.v that the translator regenerates from vizier_service.py at every run:
   which datastore call sites each RPC method contains and which servicer locks lexically enclose them. *)
From Coq Require Import List String Bool.
From VZ Require Import Gen.ServiceLocks.
Import ListNotations.

Definition lkind_eqb (a b : lkind) : bool :=
  match a, b with KOwner, KOwner | KStudy, KStudy | KOp, KOp => true | _, _ => false end.
Definition holds (k : lkind) (held : list lkind) : bool := existsb (lkind_eqb k) held.

(* the lock a writing datastore method must be called under *)
Definition lock_needed (d : dsm) : option lkind :=
  match d with
  | DUpdateStudy | DCreateTrial | DUpdateTrial | DDeleteTrial | DUpdateMd => Some KStudy
  | DCreateSop | DUpdateSop | DCreateEs | DUpdateEs => Some KOp
  | DCreateStudy => Some KOwner
  | _ => None
  end.
Definition site_ok (s : dsm * list lkind) : bool :=
  match lock_needed (fst s) with Some k => holds k (snd s) | None => true end.
Definition writes_under_lock : bool :=
  forallb (fun m => forallb site_ok (snd (fst m))) call_sites.

Definition is_d (d d' : dsm) : bool :=
  match d, d' with
  | DGetTrial, DGetTrial | DUpdateTrial, DUpdateTrial | DMaxTrialId, DMaxTrialId | DCreateTrial, DCreateTrial
  | DLoadStudy, DLoadStudy | DUpdateStudy, DUpdateStudy | DGetEs, DGetEs | DUpdateEs, DUpdateEs | DCreateEs, DCreateEs
  | DListTrials, DListTrials | DListSops, DListSops | DMaxSopNum, DMaxSopNum | DCreateSop, DCreateSop => true
  | _, _ => false
  end.

(* read-modify-write: in a method that rewrites a trial every read of a trial is made under the study lock; a study is read
   under the study lock before it is rewritten; every creation of a trial is directly preceded by the read of the largest id
   under the same study lock (id allocation); an operation number is read under the operation lock before the record is made *)
Fixpoint preceded_by (want : dsm) (k : lkind) (target : dsm) (prev : option (dsm * list lkind)) (l : list (dsm * list lkind)) : bool :=
  match l with
  | [] => true
  | s :: r =>
    (if is_d target (fst s)
     then match prev with Some p => is_d want (fst p) && holds k (snd p) && holds k (snd s) | None => false end
     else true) && preceded_by want k target (Some s) r
  end.
Definition rmw_ok (sites : list (dsm * list lkind)) : bool :=
  (if existsb (fun s => is_d DUpdateTrial (fst s)) sites
   then forallb (fun s => if is_d DGetTrial (fst s) || is_d DListTrials (fst s) then
                            (* the listing that feeds the rewrite is the one made under the study lock *)
                            if is_d DGetTrial (fst s) then holds KStudy (snd s) else true
                          else true) sites
   else true) &&
  (if existsb (fun s => is_d DUpdateStudy (fst s)) sites
   then forallb (fun s => if is_d DLoadStudy (fst s) then holds KStudy (snd s) else true) sites else true) &&
  preceded_by DMaxTrialId KStudy DCreateTrial None sites &&
  (if existsb (fun s => is_d DCreateSop (fst s)) sites
   then forallb (fun s => if is_d DMaxSopNum (fst s) || is_d DListSops (fst s) then holds KOp (snd s) else true) sites else true).
Definition rmw_reads_under_lock : bool := forallb (fun m => rmw_ok (snd (fst m))) call_sites.

(* lock order: the operation lock is taken with nothing held, a study / owner lock with nothing or only the operation lock *)
Definition nest_ok (n : list lkind * lkind) : bool :=
  match snd n with
  | KOp => match fst n with [] => true | _ => false end
  | _ => match fst n with [] => true | [KOp] => true | _ => false end
  end.
Definition lock_order_ok : bool := forallb (fun m => forallb nest_ok (snd m)) lock_nests.

(* persisted algorithm state: a method that takes the operation lock (SuggestTrials, CheckTrialEarlyStoppingState) hands the
   study it loads - with the algorithm's stored state in its metadata - to Pythia and writes Pythia's metadata delta back; that
   load and that write-back are both made under the operation lock, so two such calls cannot both start from the same stored
   state (the immutability guard is a method of its own and feeds nothing) *)
Definition takes_op_lock (sites : list (dsm * list lkind)) : bool := existsb (fun s => holds KOp (snd s)) sites.
Definition is_load_or_md (d : dsm) : bool := match d with DLoadStudy | DUpdateMd => true | _ => false end.
Definition algo_state_ok (sites : list (dsm * list lkind)) : bool :=
  if takes_op_lock sites then forallb (fun s => if is_load_or_md (fst s) then holds KOp (snd s) else true) sites else true.
Definition algorithm_state_under_op_lock : bool := forallb (fun m => algo_state_ok (snd (fst m))) call_sites.
(* non-vacuity: the table does contain such methods *)
Definition methods_taking_op_lock : list string :=
  map (fun m => fst (fst m)) (filter (fun m => takes_op_lock (snd (fst m))) call_sites).

Definition expected_op_lock_methods : list string := ["SuggestTrials"; "CheckTrialEarlyStoppingState"]%string.

(* the only datastore access outside every lock that precedes a write is the immutability guard (known finding) *)
Definition methods_listed : list string := map (fun m => fst (fst m)) call_sites.
