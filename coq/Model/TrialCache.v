(* Model of vizier/_src/algorithms/policies/trial_caches.py (IdDeduplicatingTrialLoader) and of the three policy
   wrappers of designer_policy.py as far as trial delivery is concerned. Executable definitions only. *)
From VZ Require Export Base.Prelude.

Record tinfo := mkTI { ti_id : nat; ti_completed : bool; ti_active : bool }.

Definition mem (i : nat) (l : list nat) : bool := existsb (Nat.eqb i) l.

(* get_newly_completed_trials(max_trial_id): returns (delivered ids in storage order, new incorporated set) *)
Definition newly (inc : list nat) (maxid : nat) (trials : list tinfo) : list nat * list nat :=
  if Nat.eqb (length inc) maxid then ([], inc)
  else
    let load := filter (fun i => negb (mem i inc)) (seq 1 maxid) in
    let new := filter (fun t => ti_completed t && mem (ti_id t) load) trials in
    (map ti_id new, inc ++ map ti_id new).

Definition actives (trials : list tinfo) : list nat := map ti_id (filter ti_active trials).
Definition completeds (trials : list tinfo) : list nat := map ti_id (filter ti_completed trials).

(* one request seen by a stateful policy (_SerializableDesignerPolicyBase.suggest): what Designer.update receives *)
Definition request := (nat * list tinfo)%type.     (* max_trial_id, stored trials *)
Definition serve (inc : list nat) (rq : request) : (list nat * list nat) * list nat :=
  let '(d, inc') := newly inc (fst rq) (snd rq) in ((d, actives (snd rq)), inc').

(* a history of requests; `lost` = the policy state could not be decoded before this request (cache cleared, fresh designer) *)
Fixpoint serve_all (inc : list nat) (rqs : list (bool * request)) : list (list nat * list nat) :=
  match rqs with
  | [] => []
  | (lost, rq) :: rest =>
    let '(upd, inc') := serve (if lost then [] else inc) rq in upd :: serve_all inc' rest
  end.

(* DesignerPolicy: a fresh designer per request gets everything *)
Definition serve_fresh (rq : request) : list nat * list nat := (completeds (snd rq), actives (snd rq)).

Definition natlist_eqb := list_eqb Nat.eqb.
Definition upd_eqb (a b : list nat * list nat) : bool := natlist_eqb (fst a) (fst b) && natlist_eqb (snd a) (snd b).
