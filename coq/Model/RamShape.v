(* What harness/translate/ramshape.py reads off vizier/_src/service/ram_datastore.py (Gen/RamShapes.v), and the comparison
   with the datastore primitives of the service model (`exec` of Model/Service.v):
   - the error class of every primitive when the addressed container (owner / study / client) does not exist: NotFoundError
     where the source wraps its dict lookups in `except KeyError: raise NotFoundError`, a bare KeyError where it does not;
   - AlreadyExistsError exactly for the primitives whose source guards the insertion with a membership test;
   - update_trial refuses a missing trial by an explicit test, update_metadata checks every trial before it writes anything;
   - every method works under the datastore lock, returns copies and stores copies (so `exec`, a pure function of the
     stored state, can be its model: nothing a caller holds aliases the store). *)
From VZ Require Import Base.Prelude Base.XFloat Model.Metadata Model.Service.
Import ListNotations.

Inductive rmeth := MCreateStudy | MLoadStudy | MUpdateStudy | MDeleteStudy | MListStudies | MCreateTrial | MGetTrial | MUpdateTrial
| MListTrials | MDeleteTrial | MMaxTrialId | MCreateSuggestionOperation | MGetSuggestionOperation | MUpdateSuggestionOperation
| MListSuggestionOperations | MMaxSuggestionOperationNumber | MCreateEarlyStoppingOperation | MGetEarlyStoppingOperation
| MUpdateEarlyStoppingOperation | MUpdateMetadata.
Inductive nfwrap := NfAll | NfNone | NfPartial.
Record rshape := mkRS { rs_locked : bool; rs_notfound : nfwrap; rs_exists_check : bool; rs_missing_check : bool;
                        rs_reads_copied : bool; rs_writes_copied : bool; rs_writes : bool; rs_checks_first : bool }.

Definition k11 : skey := (1, 1)%N.
Definition tr1 : trial := mkT 1 ACTIVE 1 0 [] [] [].
Definition st1 : study := mkS SS_ACTIVE [] [].
Definition op1 : sop := mkOp 1 1 true false [].
Definition es1 : esop := mkEs 1 false false.
(* the call of each kind addressed to study (1,1), trial 1, client 1, operation 1 *)
Definition sample_call (m : rmeth) : call :=
  match m with
  | MCreateStudy => CCreateStudy k11 st1 | MLoadStudy => CLoadStudy k11 | MUpdateStudy => CUpdateStudy k11 st1
  | MDeleteStudy => CDeleteStudy k11 | MListStudies => CListStudies 1 | MCreateTrial => CCreateTrial k11 tr1
  | MGetTrial => CGetTrial k11 1 | MUpdateTrial => CUpdateTrial k11 tr1 | MListTrials => CListTrials k11
  | MDeleteTrial => CDeleteTrial k11 1 | MMaxTrialId => CMaxTrialId k11
  | MCreateSuggestionOperation => CCreateSop k11 op1 | MGetSuggestionOperation => CGetSop k11 1 1
  | MUpdateSuggestionOperation => CUpdateSop k11 op1 | MListSuggestionOperations => CListSops k11 1
  | MMaxSuggestionOperationNumber => CMaxSopNum k11 1
  | MCreateEarlyStoppingOperation => CCreateEs k11 es1 | MGetEarlyStoppingOperation => CGetEs k11 1
  | MUpdateEarlyStoppingOperation => CUpdateEs k11 es1
  | MUpdateMetadata => CUpdateMd k11 [] [(1%N, (([], []), (0%N, [])))]
  end.
Definition err_of (r : state * res rsp) : option errclass := match snd r with Err e => Some e | Ok _ => None end.
(* nothing stored at all / the study exists but is empty / everything addressed exists *)
Definition st_void : state := init_state.
Definition st_empty_study : state := mkSt [1%N] [(k11, mkN st1 [] [] [])].
Definition st_full : state := mkSt [1%N] [(k11, mkN st1 [tr1] [op1] [es1])].
Definition errclass_eqb (a b : option errclass) : bool :=
  match a, b with
  | None, None => true
  | Some ENotFound, Some ENotFound | Some EKey, Some EKey | Some EAlreadyExists, Some EAlreadyExists => true
  | _, _ => false
  end.

Definition row_ok (p : rmeth * rshape) : bool :=
  let '(m, sh) := p in
  rs_locked sh && rs_reads_copied sh && rs_writes_copied sh &&
  (* container missing *)
  errclass_eqb (err_of (exec (sample_call m) st_void))
               (match m with
                | MCreateStudy => None                                   (* creates the owner on demand *)
                | _ => match rs_notfound sh with NfAll | NfPartial => Some ENotFound | NfNone => Some EKey end
                end) &&
  (* object already there *)
  errclass_eqb (err_of (exec (sample_call m) st_full)) (if rs_exists_check sh then Some EAlreadyExists else None) &&
  (* study there, object missing: the updates of trials (explicit test) and the reads / deletes / updates through the
     KeyError wrapper refuse; creations and listings of trials go through *)
  errclass_eqb (err_of (exec (sample_call m) st_empty_study))
               (match m with
                | MCreateStudy => Some EAlreadyExists
                | MLoadStudy | MUpdateStudy | MDeleteStudy | MListStudies | MListTrials | MMaxTrialId
                | MCreateTrial | MCreateSuggestionOperation | MCreateEarlyStoppingOperation => None
                | MUpdateTrial | MUpdateMetadata => if rs_missing_check sh then Some ENotFound else None
                | _ => match rs_notfound sh with NfAll => Some ENotFound | _ => None end
                end) &&
  (* writers write, readers do not *)
  Bool.eqb (rs_writes sh)
           (match m with MCreateStudy | MUpdateStudy | MDeleteStudy | MCreateTrial | MUpdateTrial | MDeleteTrial
                       | MCreateSuggestionOperation | MUpdateSuggestionOperation | MCreateEarlyStoppingOperation
                       | MUpdateEarlyStoppingOperation | MUpdateMetadata => true | _ => false end) &&
  match m with MUpdateMetadata => rs_checks_first sh | _ => true end.

Definition rmeth_tag (m : rmeth) : nat :=
  match m with MCreateStudy => 0 | MLoadStudy => 1 | MUpdateStudy => 2 | MDeleteStudy => 3 | MListStudies => 4 | MCreateTrial => 5
  | MGetTrial => 6 | MUpdateTrial => 7 | MListTrials => 8 | MDeleteTrial => 9 | MMaxTrialId => 10
  | MCreateSuggestionOperation => 11 | MGetSuggestionOperation => 12 | MUpdateSuggestionOperation => 13
  | MListSuggestionOperations => 14 | MMaxSuggestionOperationNumber => 15 | MCreateEarlyStoppingOperation => 16
  | MGetEarlyStoppingOperation => 17 | MUpdateEarlyStoppingOperation => 18 | MUpdateMetadata => 19 end.
Definition all_methods_once (l : list (rmeth * rshape)) : bool := list_eqb Nat.eqb (map (fun p => rmeth_tag (fst p)) l) (seq 0 20).
Definition ram_table_ok (l : list (rmeth * rshape)) : bool := all_methods_once l && forallb row_ok l.
