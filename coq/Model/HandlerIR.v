(* A small statement language for the straight-line RPC handlers of vizier/_src/service/vizier_service.py and its
   meaning as a handler program (`prog` of Model/Service.v).

   harness/translate/svchandlers.py regenerates coq/Gen/Handlers.v from the SOURCE of the servicer at every run: one `stmt`
   per Python statement of GetStudy, ListStudies, DeleteStudy, SetStudyState, GetOperation, CreateTrial, GetTrial,
   ListTrials, AddTrialMeasurement, CompleteTrial, DeleteTrial, StopTrial and UpdateMetadata (each statement form the
   translator accepts is listed beside its constructor; anything else is refused).  `interp` below gives such a statement list
   the same meaning the hand-written handler programs have: datastore calls as `Call`, `with self._study_name_to_lock[..]`
   as Acquire / Release, `grpc_util.handle_exception(e, context)` as Throw (it raises: fix 3b740c5), an exception escaping a
   datastore call as Throw of its class.  Proofs/HandlerIRP.v proves that the programs obtained from the source are the
   hand-written ones, node for node. *)
From VZ Require Import Base.Prelude Base.XFloat Model.Metadata Model.Service.
Import ListNotations.

Inductive cond :=
| CStudyImmutable                          (* self._study_is_immutable(<the study the request addresses>) *)
| CTrialStateEq (s : tstate)               (* trial.state == study_pb2.Trial[.State].S *)
| CTrialStateNe (s : tstate)               (* trial.state != ... *)
| CTrialStateIn (l : list tstate)          (* trial.state in (..)   /   in self._TRIAL_MUTABLE_STATES *)
| CTrialStateNotIn (l : list tstate)       (* trial.state not in .. *)
| CReqFinalHasMetrics                      (* request.final_measurement.metrics *)
| CReqInfeasible                           (* request.trial_infeasible *)
| CTrialHasMeasurements                    (* trial.measurements *)
| CReqStudyNamed                           (* request.study.name *)
| CReqDisplayName                          (* request.study.display_name *)
| CTooManyStudies                          (* len(possible_candidate_studies) >= constants.MAX_STUDY_ID: never, see interp *)
| CNot (c : cond).

Inductive stmt :=
| SSkip                                    (* docstring, logging.*, assignments of names / timestamps that are not modelled *)
| SSeq (a b : stmt)
| SIf (c : cond) (th el : stmt)
| SRaise (e : errclass)                    (* e = <Error>(..); grpc_util.handle_exception(e, context) *)
| SWithStudyLock (body : stmt)             (* with self._study_name_to_lock[<study>]: *)
| SGetTrial                                (* trial = self.datastore.get_trial(<trial>) *)
| SUpdateTrial                             (* self.datastore.update_trial(trial) *)
| SDeleteTrial                             (* self.datastore.delete_trial(<trial>) *)
| SSetTrialState (s : tstate)              (* trial.state = study_pb2.Trial[.State].S *)
| SAppendMeasurement                       (* trial.measurements.extend([request.measurement]) *)
| SFinalFromRequest                        (* trial.final_measurement.CopyFrom(request.final_measurement) *)
| SFinalFromLast                           (* trial.final_measurement.CopyFrom(trial.measurements[-1]) *)
| SSetInfeasibleReason                     (* trial.infeasible_reason = request.infeasible_reason   (text, not modelled) *)
| SReturnTrial                             (* return trial *)
| SReturnEmpty                             (* return empty_pb2.Empty() *)
| SLoadStudy                               (* study = self.datastore.load_study(<study>) *)
| SSetStudyState                           (* study.state = request.state *)
| SUpdateStudy                             (* self.datastore.update_study(study) *)
| SReturnStudy                             (* return study *)
| SReturnLoadStudy                         (* return self.datastore.load_study(<study>) *)
| SReturnListStudies                       (* studies = self.datastore.list_studies(<owner>); return ListStudiesResponse(studies=studies) *)
| SDeleteStudy                             (* self.datastore.delete_study(<study>) *)
| SReturnGetTrial                          (* return self.datastore.get_trial(<trial>) *)
| SReturnListTrials                        (* l = self.datastore.list_trials(<study>); return ListTrialsResponse(trials=l) *)
| SReturnGetOperation                      (* return self.datastore.get_suggestion_operation(<operation>) *)
| STrialFromRequest                        (* trial = request.trial *)
| SAssignNextId                            (* trial.id = str(self.datastore.max_trial_id(<study>) + 1) *)
| SClearClient                             (* trial.ClearField('client_id') *)
| SCreateTrial                             (* self.datastore.create_trial(trial) *)
| SUpdateMetadataTry                       (* try: with lock: self.datastore.update_metadata(<study>, study part, trial part)
                                              except KeyError as e: return UpdateMetadataResponse(error_details=..) *)
| SReturnMdOk                              (* return UpdateMetadataResponse() *)
| SStudyFromRequest                        (* study = request.study *)
| SWithOwnerLock (body : stmt)             (* with self._owner_name_to_lock[request.parent]: *)
| SListStudiesOrEmpty                      (* try: c = self.datastore.list_studies(request.parent) except NotFoundError: c = [] *)
| SReturnCandidateByDisplayName            (* for s in c: if s.display_name == request.study.display_name: return s *)
| SCreateStudy.                            (* self.datastore.create_study(study)   (study.name = StudyResource(owner, display_name).name) *)

(* what the request carries (fields that a given RPC does not have are never read by its statements) *)
Record req := mkReq { q_key : skey; q_id : N; q_owner : N; q_client : N; q_num : N; q_meas : meas; q_final : meas;
                      q_infeasible : bool; q_sstate : sstate; q_trial : trial; q_smd : list kv; q_tmd : list (N * kv);
                      q_study : study; q_named : bool }.
(* local variables of the handler *)
Record env := mkEnv { v_trial : option trial; v_study : option study; v_held : list lockid; v_cands : list (skey * study) }.
Definition env0 : env := mkEnv None None [] [].

Definition set_final (t : trial) (f : meas) : trial :=
  mkT (t_id t) (t_state t) (t_client t) (t_params t) (t_meas t) f (t_md t).
Definition add_meas (t : trial) (m : meas) : trial :=
  mkT (t_id t) (t_state t) (t_client t) (t_params t) (t_meas t ++ [m]) (t_final t) (t_md t).
Definition set_id (t : trial) (i : N) : trial :=
  mkT i (t_state t) (t_client t) (t_params t) (t_meas t) (t_final t) (t_md t).
Definition clear_client (t : trial) : trial :=
  mkT (t_id t) (t_state t) 0 (t_params t) (t_meas t) (t_final t) (t_md t).
Definition state_in (s : tstate) (l : list tstate) : bool := existsb (tstate_eqb s) l.

(* leaving the handler by `return` releases the locks of the enclosing with-statements, innermost first *)
Fixpoint release_all (held : list lockid) (p : prog) : prog :=
  match held with [] => p | l :: r => Release l (release_all r p) end.
Definition ret (e : env) (r : reply) : prog := release_all (v_held e) (Ret r).

(* a condition that reads a variable which is not bound yet cannot be evaluated: the translator refuses such handlers, the
   interpreter answers with EOther so that the theorem below could not hold for one *)
Fixpoint eval_pure (q : req) (e : env) (c : cond) : option bool :=
  match c with
  | CStudyImmutable => None
  | CTrialStateEq s => option_map (fun t => tstate_eqb (t_state t) s) (v_trial e)
  | CTrialStateNe s => option_map (fun t => negb (tstate_eqb (t_state t) s)) (v_trial e)
  | CTrialStateIn l => option_map (fun t => state_in (t_state t) l) (v_trial e)
  | CTrialStateNotIn l => option_map (fun t => negb (state_in (t_state t) l)) (v_trial e)
  | CReqFinalHasMetrics => Some (match q_final q with [] => false | _ :: _ => true end)
  | CReqInfeasible => Some (q_infeasible q)
  | CTrialHasMeasurements => option_map (fun t => match t_meas t with [] => false | _ :: _ => true end) (v_trial e)
  | CReqStudyNamed => Some (q_named q)
  | CReqDisplayName => Some (negb (N.eqb (snd (q_key q)) 0))      (* the empty display name is the atom 0 *)
  (* constants.MAX_STUDY_ID = 2^31 - 1 studies of one owner are out of the model's reach (trusted, see svchandlers.py) *)
  | CTooManyStudies => Some false
  | CNot c' => option_map negb (eval_pure q e c')
  end.

Definition with_var {A} (o : option A) (f : A -> prog) : prog := match o with Some a => f a | None => Throw EOther end.
Definition upd_trial (e : env) (t : trial) : env := mkEnv (Some t) (v_study e) (v_held e) (v_cands e).

Fixpoint interp (q : req) (s : stmt) (e : env) (k : env -> prog) {struct s} : prog :=
  match s with
  | SSkip => k e
  | SSeq a b => interp q a e (fun e' => interp q b e' k)
  | SIf CStudyImmutable th el =>
    Call (CLoadStudy (q_key q)) (fun r => match r with
      | Ok (RStudy st) => if immutable st then interp q th e k else interp q el e k
      | Ok _ => Throw EOther | Err x => Throw x end)
  | SIf c th el =>
    match eval_pure q e c with
    | Some true => interp q th e k
    | Some false => interp q el e k
    | None => Throw EOther
    end
  | SRaise x => Throw x
  | SWithStudyLock body =>
    Acquire (LStudy (q_key q))
      (interp q body (mkEnv (v_trial e) (v_study e) (LStudy (q_key q) :: v_held e) (v_cands e))
         (fun e' => Release (LStudy (q_key q)) (k (mkEnv (v_trial e') (v_study e') (v_held e) (v_cands e')))))
  | SGetTrial =>
    Call (CGetTrial (q_key q) (q_id q)) (fun r => match r with
      | Ok (RTrial t) => k (upd_trial e t) | Ok _ => Throw EOther | Err x => Throw x end)
  | SUpdateTrial =>
    with_var (v_trial e) (fun t => Call (CUpdateTrial (q_key q) t) (fun r => match r with Ok _ => k e | Err x => Throw x end))
  | SDeleteTrial =>
    Call (CDeleteTrial (q_key q) (q_id q)) (fun r => match r with Ok _ => k e | Err x => Throw x end)
  | SSetTrialState st => with_var (v_trial e) (fun t => k (upd_trial e (set_state t st)))
  | SAppendMeasurement => with_var (v_trial e) (fun t => k (upd_trial e (add_meas t (q_meas q))))
  | SFinalFromRequest => with_var (v_trial e) (fun t => k (upd_trial e (set_final t (q_final q))))
  | SFinalFromLast => with_var (v_trial e) (fun t => k (upd_trial e (set_final t (last (t_meas t) []))))
  | SSetInfeasibleReason => k e
  | SReturnTrial => with_var (v_trial e) (fun t => ret e (RpTrial t))
  | SReturnEmpty => ret e RpEmpty
  | SLoadStudy =>
    Call (CLoadStudy (q_key q)) (fun r => match r with
      | Ok (RStudy st) => k (mkEnv (v_trial e) (Some st) (v_held e) (v_cands e)) | Ok _ => Throw EOther | Err x => Throw x end)
  | SSetStudyState =>
    with_var (v_study e) (fun st => k (mkEnv (v_trial e) (Some (mkS (q_sstate q) (s_metrics st) (s_md st))) (v_held e) (v_cands e)))
  | SUpdateStudy =>
    with_var (v_study e) (fun st => Call (CUpdateStudy (q_key q) st) (fun r => match r with Ok _ => k e | Err x => Throw x end))
  | SReturnStudy => with_var (v_study e) (fun st => ret e (RpStudy (q_key q) st))
  | SReturnLoadStudy =>
    Call (CLoadStudy (q_key q)) (fun r => match r with
      | Ok (RStudy st) => ret e (RpStudy (q_key q) st) | Ok _ => Throw EOther | Err x => Throw x end)
  | SReturnListStudies =>
    Call (CListStudies (q_owner q)) (fun r => match r with
      | Ok (RStudies l) => ret e (RpStudies l) | Ok _ => Throw EOther | Err x => Throw x end)
  | SDeleteStudy => Call (CDeleteStudy (q_key q)) (fun r => match r with Ok _ => k e | Err x => Throw x end)
  | SReturnGetTrial =>
    Call (CGetTrial (q_key q) (q_id q)) (fun r => match r with
      | Ok (RTrial t) => ret e (RpTrial t) | Ok _ => Throw EOther | Err x => Throw x end)
  | SReturnListTrials =>
    Call (CListTrials (q_key q)) (fun r => match r with
      | Ok (RTrials l) => ret e (RpTrials l) | Ok _ => Throw EOther | Err x => Throw x end)
  | SReturnGetOperation =>
    Call (CGetSop (q_key q) (q_client q) (q_num q)) (fun r => match r with
      | Ok (RSop o) => ret e (RpOp o) | Ok _ => Throw EOther | Err x => Throw x end)
  | STrialFromRequest => k (upd_trial e (q_trial q))
  | SAssignNextId =>
    with_var (v_trial e) (fun t => Call (CMaxTrialId (q_key q)) (fun r => match r with
      | Ok (RNum m) => k (upd_trial e (set_id t (m + 1))) | Ok _ => Throw EOther | Err x => Throw x end))
  | SClearClient => with_var (v_trial e) (fun t => k (upd_trial e (clear_client t)))
  | SCreateTrial =>
    with_var (v_trial e) (fun t => Call (CCreateTrial (q_key q) t) (fun r => match r with Ok _ => k e | Err x => Throw x end))
  | SUpdateMetadataTry =>
    Acquire (LStudy (q_key q))
      (Call (CUpdateMd (q_key q) (q_smd q) (q_tmd q)) (fun r => match r with
        | Ok _ => Release (LStudy (q_key q)) (k e)
        (* NotFoundError is a KeyError (custom_errors.py): both are caught by `except KeyError` *)
        | Err ENotFound | Err EKey => Release (LStudy (q_key q)) (ret e RpMdError)
        | Err x => Throw x end))
  | SReturnMdOk => ret e RpEmpty
  | SStudyFromRequest => k (mkEnv (v_trial e) (Some (q_study q)) (v_held e) (v_cands e))
  | SWithOwnerLock body =>
    Acquire (LOwner (q_owner q))
      (interp q body (mkEnv (v_trial e) (v_study e) (LOwner (q_owner q) :: v_held e) (v_cands e))
         (fun e' => Release (LOwner (q_owner q)) (k (mkEnv (v_trial e') (v_study e') (v_held e) (v_cands e')))))
  | SListStudiesOrEmpty =>
    Call (CListStudies (q_owner q)) (fun r => match r with
      | Ok (RStudies l) => k (mkEnv (v_trial e) (v_study e) (v_held e) l)
      | Err ENotFound => k (mkEnv (v_trial e) (v_study e) (v_held e) [])
      | Ok _ => Throw EOther | Err x => Throw x end)
  | SReturnCandidateByDisplayName =>
    match find (fun ks => N.eqb (snd (fst ks)) (snd (q_key q))) (v_cands e) with
    | Some (k', s') => ret e (RpStudy k' s')
    | None => k e
    end
  | SCreateStudy =>
    with_var (v_study e) (fun st => Call (CCreateStudy (q_key q) st) (fun r => match r with Ok _ => k e | Err x => Throw x end))
  end.

(* a handler whose statements end without `return` would answer None: no handler does, the translator checks it *)
Definition handler_of (q : req) (body : stmt) : prog := interp q body env0 (fun _ => Throw EOther).

(* same tree of datastore calls, lock operations, replies and errors *)
Inductive peq : prog -> prog -> Prop :=
| peq_ret r : peq (Ret r) (Ret r)
| peq_throw x : peq (Throw x) (Throw x)
| peq_call c k k' : (forall r, peq (k r) (k' r)) -> peq (Call c k) (Call c k')
| peq_acq l p p' : peq p p' -> peq (Acquire l p) (Acquire l p')
| peq_rel l p p' : peq p p' -> peq (Release l p) (Release l p')
| peq_pythia y k k' : (forall o, peq (k o) (k' o)) -> peq (Pythia y k) (Pythia y k').
