(* Crash view of the service model: an RPC is a sequence of datastore primitives; with the SQL backend every primitive
   is crash-atomic (Model/SqlShape.v + Gen/SqlShapes.v), so the durable state after a crash is the state after some
   prefix of the primitives the RPC issues. *)
From VZ Require Export Model.Service Model.ServiceEq.

(* run at most m datastore calls of the program, then stop (the process died) *)
Fixpoint run_upto (m : nat) (p : prog) (s : state) (oracle : pythia_out) {struct p} : state :=
  match p with
  | Ret _ | Throw _ => s
  | Call c k => match m with
                | O => s
                | S m' => let '(s', r) := exec c s in run_upto m' (k r) s' oracle
                end
  | Acquire _ k | Release _ k => run_upto m k s oracle
  | Pythia _ k => run_upto m (k oracle) s oracle
  end.

Definition mut_call (c : call) : bool :=
  match c with
  | CCreateStudy _ _ | CUpdateStudy _ _ | CDeleteStudy _ | CCreateTrial _ _ | CUpdateTrial _ _ | CDeleteTrial _ _
  | CCreateSop _ _ | CUpdateSop _ _ | CCreateEs _ _ | CUpdateEs _ _ | CUpdateMd _ _ _ => true
  | _ => false
  end.
(* calls that changed something: mutating primitives that returned without error *)
Definition count_mut (tr : list (call * option errclass)) : nat :=
  length (filter (fun ce => mut_call (fst ce) && match snd ce with None => true | Some _ => false end) tr).

Definition single_resource (r : rpc) : bool :=
  match r with
  | CreateStudy _ _ _ _ | DeleteStudy _ | SetStudyState _ _ | CreateTrial _ _ | AddTrialMeasurement _ _ _
  | CompleteTrial _ _ _ _ | StopTrial _ _ | DeleteTrial _ _ | UpdateMetadata _ _ _ => true
  | _ => false
  end.

(* correspondence case for crash recovery: after `prefix`, the RPC r is interrupted; the recovered snapshot must be the
   snapshot after some number j <= bound of its datastore calls *)
Definition crash_case := (list (rpc * pythia_out) * (rpc * pythia_out) * list (option (list (skey * node))))%type.
Definition crash_case_ok (c : crash_case) : bool :=
  let '(prefix, (r, po), snap) := c in
  let s := run_all prefix init_state in
  existsb (fun j => snapshot_eqb (snapshot CLIENTS OWNERS (run_upto j (handler r) s po)) snap) (seq 0 40).
