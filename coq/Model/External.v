(* Model of vizier/_src/pyvizier/oss/study_config.py: StudyConfig._trial_to_external_values / _pytrial_parameters,
   vizier/_src/pyvizier/shared/trial.py: ParameterValue.cast / as_bool / as_int / as_float, and
   SearchSpaceSelector.parse_multi_dimensional_parameter_name.  Executable definitions only. *)
From Coq Require Export QArith Qround.
From VZ Require Export Base.Prelude.

Inductive ext := ExInternal | ExBoolean | ExInteger | ExFloat.
Inductive pyv := YInt (z : Z) | YFloat (q : Q) | YStr (s : str) | YBool (b : bool) | YNone.

Definition TRUE_STR : str := [84; 114; 117; 101]%N.
Definition FALSE_STR : str := [70; 97; 108; 115; 101]%N.

(* Python == between parameter values *)
Definition pyv_eqb (a b : pyv) : bool :=
  match a, b with
  | YStr s, YStr t => str_eqb s t
  | YNone, YNone => true
  | YStr _, _ | _, YStr _ | YNone, _ | _, YNone => false
  | _, _ =>
    let num v := match v with YInt z => inject_Z z | YFloat q => q | YBool b => if b then 1 else 0 | _ => 0 end in
    Qeq_bool (num a) (num b)
  end.

(* int(x) truncates toward zero *)
Definition qtrunc (q : Q) : Z := if Qle_bool 0 q then Qfloor q else Qceiling q.

Definition as_bool (v : pyv) : pyv :=
  match v with
  | YStr s => if str_eqb s TRUE_STR then YBool true else if str_eqb s FALSE_STR then YBool false else YNone
  | YNone => YNone
  | _ => if pyv_eqb v (YFloat 1) then YBool true else if pyv_eqb v (YFloat 0) then YBool false else YNone
  end.
(* numeric strings other than 'True'/'False' (float("3") exists "for benchmark use") are outside the model: YNone *)
Definition as_int (v : pyv) : pyv :=
  match v with
  | YStr s => if str_eqb s TRUE_STR then YInt 1 else if str_eqb s FALSE_STR then YInt 0 else YNone
  | YInt z => YInt z
  | YFloat q => YInt (qtrunc q)
  | YBool b => YInt (if b then 1 else 0)
  | YNone => YNone
  end.
Definition as_float (v : pyv) : pyv :=
  match v with
  | YStr s => if str_eqb s TRUE_STR then YFloat 1 else if str_eqb s FALSE_STR then YFloat 0 else YNone
  | YInt z => YFloat (inject_Z z)
  | YFloat q => YFloat q
  | YBool b => YFloat (if b then 1 else 0)
  | YNone => YNone
  end.
Definition cast (e : ext) (v : pyv) : pyv :=
  match e with ExInternal => v | ExBoolean => as_bool v | ExInteger => as_int v | ExFloat => as_float v end.

(* ---- name[index] *)
Definition is_digit (c : N) : bool := N.leb 48 c && N.leb c 57.
Fixpoint take_digits (s : str) : str * str :=      (* leading digits, rest *)
  match s with
  | c :: r => if is_digit c then let '(d, rest) := take_digits r in (c :: d, rest) else ([], s)
  | [] => ([], [])
  end.
Definition digits_value (ds : str) : N := fold_left (fun acc c => (acc * 10 + (c - 48))%N) ds 0%N.
(* the regular expression of parse_multi_dimensional_parameter_name: a prefix without parentheses, then an opening
   bracket, one or more digits and a closing bracket at the end; matched from the start of the string *)
Definition parse_md (s : str) : option (str * N) :=
  match rev s with
  | c :: r =>
    if N.eqb c 93 then
      let '(rd, rest) := take_digits r in
      match rd, rest with
      | _ :: _, c2 :: rbase =>
        if N.eqb c2 91 && forallb (fun c => negb (N.eqb c 40 || N.eqb c 41)) rbase
        then Some (rev rbase, digits_value (rev rd)) else None
      | _, _ => None
      end
    else None
  | [] => None
  end.

(* ---- conditional tree of parameter configs as the BFS sees it *)
Inductive xtree := XNode (name : str) (e : ext) (matching : list pyv) (children : list xtree).
Definition xt_name (t : xtree) : str := match t with XNode n _ _ _ => n end.
Definition xt_ext (t : xtree) : ext := match t with XNode _ e _ _ => e end.
Definition xt_matching (t : xtree) : list pyv := match t with XNode _ _ m _ => m end.
Definition xt_children (t : xtree) : list xtree := match t with XNode _ _ _ c => c end.

Fixpoint alookup {A} (n : str) (l : list (str * A)) : option A :=
  match l with [] => None | (k, v) :: r => if str_eqb k n then Some v else alookup n r end.
Fixpoint aremove {A} (n : str) (l : list (str * A)) : list (str * A) :=
  match l with [] => [] | (k, v) :: r => if str_eqb k n then r else (k, v) :: aremove n r end.

(* while parameter_configs and remaining_parameters: ... (queue of (parent name, config)) *)
Fixpoint to_external (fuel : nat) (queue : list (option str * xtree)) (remaining : list (str * pyv))
         (values external : list (str * pyv)) : list (str * pyv) :=
  match fuel with
  | O => external
  | S fuel' =>
    match queue, remaining with
    | [], _ | _, [] => external
    | (parent, pc) :: rest, _ =>
      (* the children of a config are queued only once the config itself has been found active *)
      let queue' := rest ++ map (fun c => (Some (xt_name pc), c)) (xt_children pc) in
      match alookup (xt_name pc) remaining with
      | None => to_external fuel' rest remaining values external
      | Some v =>
        let active := match parent with
                      | None => true
                      | Some pn => match alookup pn values with
                                   | None => false
                                   | Some pv => existsb (pyv_eqb pv) (xt_matching pc)
                                   end
                      end in
        if active then
          to_external fuel' queue' (aremove (xt_name pc) remaining) (values ++ [(xt_name pc, v)])
                      (external ++ [(xt_name pc, cast (xt_ext pc) v)])
        else to_external fuel' rest remaining values external
      end
    end
  end.

(* _pytrial_parameters: length check, then grouping of name[i] in index order (list.sort is stable) *)
Fixpoint insert_idx (x : N * pyv) (l : list (N * pyv)) : list (N * pyv) :=
  match l with [] => [x] | h :: t => if N.ltb (fst x) (fst h) then x :: l else h :: insert_idx x t end.
Definition sort_idx (l : list (N * pyv)) : list (N * pyv) := fold_left (fun acc x => insert_idx x acc) l [].

Inductive presented := PScalar (v : pyv) | PList (l : list pyv).

Fixpoint dict_set {A} (k : str) (v : A) (d : list (str * A)) : list (str * A) :=
  match d with
  | [] => [(k, v)]
  | (k', v') :: r => if str_eqb k' k then (k', v) :: r else (k', v') :: dict_set k v r
  end.

Definition group (external : list (str * pyv)) : list (str * presented) :=
  let scalars := fold_left (fun d kv => match parse_md (fst kv) with
                                        | None => dict_set (fst kv) (PScalar (snd kv)) d
                                        | Some _ => d end) external [] in
  let multi := fold_left (fun d kv => match parse_md (fst kv) with
                                      | Some (base, idx) =>
                                        dict_set base (match alookup base d with Some l => l | None => [] end ++ [(idx, snd kv)]) d
                                      | None => d end) external [] in
  fold_left (fun d bl => dict_set (fst bl) (PList (map snd (sort_idx (snd bl)))) d) multi scalars.

Definition trial_parameters (roots : list xtree) (params : list (str * pyv)) : res (list (str * presented)) :=
  let external := to_external 1000 (map (fun t => (None, t)) roots) params [] [] in
  if Nat.eqb (length external) (length params) then Ok (group external) else Err EValue.

(* typed equality for the correspondence: same run-time kind and same value *)
Definition pyv_same (a b : pyv) : bool :=
  match a, b with
  | YInt x, YInt y => Z.eqb x y
  | YFloat x, YFloat y => Qeq_bool x y
  | YStr x, YStr y => str_eqb x y
  | YBool x, YBool y => Bool.eqb x y
  | YNone, YNone => true
  | _, _ => false
  end.
