(* The trial ids of an EarlyStopRequest on the wire (EarlyStopConverter.to_request_proto / from_request_proto): the request
   carries a set of ids or None ("all Trials"); a repeated proto field cannot tell an empty list from an unset one.  Which
   decoder the source uses is regenerated into Gen/EnumMaps.v (src_ids_decoder). *)
From VZ Require Import Base.Prelude.

Inductive ids_decoder := IdsOrNone | IdsAsIs.          (* `proto.trial_ids or None` / `proto.trial_ids` *)
Definition enc_ids (o : option (list N)) : list N := match o with None => [] | Some l => l end.
Definition dec_ids (d : ids_decoder) (l : list N) : option (list N) :=
  match d, l with IdsOrNone, [] => None | _, _ => Some l end.

Lemma ids_roundtrip : forall o, o <> Some [] -> dec_ids IdsOrNone (enc_ids o) = o.
Proof. intros [[|x l]|] H; try reflexivity. congruence. Qed.

(* reading the field as it is turns "all Trials" into "no Trial" *)
Lemma ids_as_is_loses_all_trials : dec_ids IdsAsIs (enc_ids None) = Some [].
Proof. reflexivity. Qed.

(* no decoder can keep both None and the empty set apart: they have the same encoding *)
Lemma ids_none_and_empty_share_encoding : enc_ids None = enc_ids (Some []).
Proof. reflexivity. Qed.
