(* Checkers for the C18 correspondence (floating-point observations against the exact model, with a tolerance). *)
From VZ Require Import Base.Prelude Model.Warp.
From Coq Require Import Qabs.
Open Scope Q_scope.

Definition close (tol a b : Q) : bool := Qle_bool (Qabs (a - b)) (tol * (1 + Qabs a)).

(* InfeasibleWarperComponent: (labels, observed output, tolerance) *)
Definition infeasible_case_ok (c : list lab * list Q * Q) : bool :=
  let '(l, obs, tol) := c in
  let m := infeasible_warp l in
  Nat.eqb (length m) (length obs) && forallb (fun p => close tol (fst p) (snd p)) (combine m obs).

(* HalfRankComponent: observed per entry 0 = unchanged, 1 = moved (with the quantile recovered from the output), 2 = NaN;
   observed variance (square of the std estimate the code used) *)
Definition hr_obs_ok (tol : Q) (m : hr_out) (o : nat * Q) : bool :=
  match m, fst o with
  | Keep _, O => true
  | Rank q, S O => close tol q (snd o)
  | Missing, S (S O) => true
  | _, _ => false
  end.
Definition halfrank_case_ok (c : list lab * list (nat * Q) * Q * Q) : bool :=
  let '(l, obs, var_obs, tol) := c in
  let m := halfrank_sym l in
  let u := unique_q (finite_vals l) in
  Nat.eqb (length m) (length obs) && forallb (fun p => hr_obs_ok tol (fst p) (snd p)) (combine m obs) &&
  (negb (existsb (fun x => match x with Rank _ => true | _ => false end) m) || close tol (var_used u (median_q (finite_vals l))) var_obs).

(* pipeline short cuts: 0 = zeros returned, 1 = minus ones returned, 2 = warpers ran *)
Definition shortcut_case_ok (c : list lab * nat) : bool :=
  match pipeline_shortcut (fst c), snd c with
  | AllEqualFinite, O => true | AllMissing, S O => true | RunWarpers, S (S O) => true | _, _ => false
  end.
