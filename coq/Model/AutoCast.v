(* SearchSpaceSelector.add_discrete_param: the external type declared for a DISCRETE parameter (auto_cast), as a term
   regenerated from parameter_config.py (Gen/AutoCastSrc.v, harness/translate/autocast.py). *)
From VZ Require Import Base.Prelude Model.External.

Inductive intpred := IExactRound.                 (* v == round(v) *)
Inductive quant := QAll | QAny.
Record autocast_src := {
  ac_default : ext;            (* external_type before the auto-cast step *)
  ac_needs_flag : bool;        (* the step is under `if auto_cast:` *)
  ac_quant : quant;
  ac_pred : intpred;
  ac_then : ext
}.

Definition q_integral (q : Q) : bool := Qeq_bool q (inject_Z (Qfloor q)).
Definition intpred_holds (p : intpred) (q : Q) : bool := match p with IExactRound => q_integral q end.

Definition interp_autocast (a : autocast_src) (auto_cast : bool) (feasible : list Q) : ext :=
  let hit := match ac_quant a with
             | QAll => forallb (intpred_holds (ac_pred a)) feasible
             | QAny => existsb (intpred_holds (ac_pred a)) feasible
             end in
  if (negb (ac_needs_flag a) || auto_cast) && hit then ac_then a else ac_default a.

(* the documented rule: INTEGER exactly when every feasible value is an integer, FLOAT otherwise *)
Definition declared_ext (auto_cast : bool) (feasible : list Q) : ext :=
  if auto_cast && forallb q_integral feasible then ExInteger else ExFloat.

Definition pyv_num (v : pyv) : option Q :=
  match v with YInt z => Some (inject_Z z) | YFloat q => Some q | YBool b => Some (if b then 1 else 0) | _ => None end.
