(* ListOptimalTrials, block by block (scheme of Model/SuggestIR.v) *)
From VZ Require Import Base.Prelude Base.XFloat Model.Metadata Model.Service.
Import ListNotations.

Inductive wblock :=
| WListTrials                          (* raw_trial_list = self.datastore.list_trials(request.parent) *)
| WReturnEmptyIfNoTrials               (* if not raw_trial_list: return [] *)
| WLoadStudy                           (* study_spec = self.datastore.load_study(request.parent).study_spec *)
| WConsiderSucceededWithAllMetrics     (* SUCCEEDED trials reporting every configured metric, with their sign-adjusted objective vectors *)
| WReturnEmptyIfNoneConsidered         (* if not considered_trials: return [] *)
| WDominanceMatrix                     (* optimal_booleans = not any_j (all(y_i <= y_j) & any(y_j > y_i)) *)
| WReturnOptimal.                      (* the considered trials whose flag is set, in order *)

Record wenv := mkW { w_trials : list trial; w_metrics : list (N * bool); w_considered : list (trial * list xf); w_flags : list bool }.
Definition wenv0 : wenv := mkW [] [] [] [].
Fixpoint select_flagged {A} (l : list A) (flags : list bool) : list A :=
  match l, flags with x :: r, b :: bs => if b then x :: select_flagged r bs else select_flagged r bs | _, _ => [] end.

Section Sem.
Variable k : skey.
Fixpoint winterp (bs : list wblock) (e : wenv) : prog :=
  match bs with
  | [] => Throw EOther
  | b :: rest =>
    match b with
    | WListTrials =>
      Call (CListTrials k) (fun r => match r with
        | Ok (RTrials l) => winterp rest (mkW l (w_metrics e) (w_considered e) (w_flags e))
        | Ok _ => Throw EOther | Err x => Throw x end)
    | WReturnEmptyIfNoTrials => match w_trials e with [] => Ret (RpTrials []) | _ :: _ => winterp rest e end
    | WLoadStudy =>
      Call (CLoadStudy k) (fun r2 => match r2 with
        | Ok (RStudy st) => winterp rest (mkW (w_trials e) (s_metrics st) (w_considered e) (w_flags e))
        | Ok _ => Throw EOther | Err x => Throw x end)
    | WConsiderSucceededWithAllMetrics =>
      winterp rest (mkW (w_trials e) (w_metrics e)
                        (flat_map (fun t => match objective_vector (w_metrics e) t with Some v => [(t, v)] | None => [] end) (w_trials e))
                        (w_flags e))
    | WReturnEmptyIfNoneConsidered => match w_considered e with [] => Ret (RpTrials []) | _ :: _ => winterp rest e end
    | WDominanceMatrix =>
      winterp rest (mkW (w_trials e) (w_metrics e) (w_considered e)
                        (map (fun tv => negb (existsb (fun tv' => dominated_by' (snd tv) (snd tv')) (w_considered e))) (w_considered e)))
    | WReturnOptimal => Ret (RpTrials (map fst (select_flagged (w_considered e) (w_flags e))))
    end
  end.
End Sem.
Definition list_optimal_of (body : list wblock) (k : skey) : prog := winterp k body wenv0.
