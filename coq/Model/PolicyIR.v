(* What the designer policies hand to Designer.update, as harness/translate/policysteps.py reads it off designer_policy.py. *)
From VZ Require Import Base.Prelude Model.TrialCache.
Import ListNotations.

Inductive pstep :=
| PFreshDesigner      (* designer = self._designer_factory(request.study_config) *)
| PInitialise         (* self._initialize_designer(request.study_config) *)
| PAllCompleted       (* completed = self._supporter.GetTrials(status_matches=COMPLETED) *)
| PNewlyCompleted     (* new = self._cache.get_newly_completed_trials(request.max_trial_id) *)
| PAllActive          (* active = GetTrials(status_matches=ACTIVE)  /  self._cache.get_active_trials() *)
| PUpdate             (* designer.update(CompletedTrials(<completed>), ActiveTrials(<active>)) *)
| PSuggest | PSuggestNoState
| PDumpState.         (* metadata_delta.on_study.ns(self._ns_root).attach(self.dump()) *)
(* _initialize_designer: a live designer is kept; otherwise the state is loaded; a DecodeError gives a fresh designer and clears the cache *)
Record init_desc := mkInit { keeps_live_designer : bool; loads_state : bool; decode_error_clears_cache : bool }.

(* local variables of suggest(): completed, active; what update received; the id cache *)
Record penv := mkP { p_completed : option (list nat); p_active : option (list nat); p_update : option (list nat * list nat); p_inc : list nat }.

(* one request: `lost` = the stored state could not be decoded (only then does PInitialise change the cache) *)
Definition pstep_sem (ini : init_desc) (lost : bool) (rq : request) (s : pstep) (e : penv) : penv :=
  match s with
  | PFreshDesigner => mkP (p_completed e) (p_active e) (p_update e) []
  | PInitialise => if lost && decode_error_clears_cache ini then mkP (p_completed e) (p_active e) (p_update e) [] else e
  | PAllCompleted => mkP (Some (completeds (snd rq))) (p_active e) (p_update e) (p_inc e)
  | PNewlyCompleted => let '(d, inc') := newly (p_inc e) (fst rq) (snd rq) in mkP (Some d) (p_active e) (p_update e) inc'
  | PAllActive => mkP (p_completed e) (Some (actives (snd rq))) (p_update e) (p_inc e)
  | PUpdate => match p_completed e, p_active e with
               | Some c, Some a => mkP (p_completed e) (p_active e) (Some (c, a)) (p_inc e)
               | _, _ => e end
  | PSuggest | PSuggestNoState | PDumpState => e
  end.
(* (what Designer.update received, the id cache afterwards) *)
Definition run_policy (ini : init_desc) (steps : list pstep) (inc : list nat) (lost : bool) (rq : request)
  : option (list nat * list nat) * list nat :=
  let e := fold_left (fun e s => pstep_sem ini lost rq s e) steps (mkP None None None inc) in (p_update e, p_inc e).
(* the state survives to the next request only if it is dumped after the update *)
Fixpoint dumps_after_update (steps : list pstep) (seen_update : bool) : bool :=
  match steps with
  | [] => false
  | PUpdate :: r => dumps_after_update r true
  | PDumpState :: r => seen_update || dumps_after_update r seen_update
  | _ :: r => dumps_after_update r seen_update
  end.
