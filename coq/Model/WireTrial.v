(* TrialConverter.to_proto / from_proto (vizier/_src/pyvizier/oss/proto_converters.py) over Gallina mirrors of vz.Trial and
   study_pb2.Trial.  Modelled: id, description, assigned worker, the three flags behind `status`, parameters (typed values),
   final / intermediate measurements, creation / completion time (seconds, microseconds).  Not modelled here: metadata (its
   namespace codec and merge are C10's model), str(int) / int(str) of the id, IEEE rounding of the time arithmetic.
   Executable definitions only. *)
From VZ Require Export Model.Wire Gen.EnumMaps Model.WireConv.

Inductive pv := PvFloat (q : Q) | PvInt (z : Z) | PvBool (b : bool) | PvStr (s : str).      (* ParameterValue.value *)
Inductive prv := RvNumber (q : Q) | RvString (s : str) | RvBool (b : bool) | RvUnset.          (* struct_pb2.Value kinds used *)

(* ParameterValueConverter.to_proto: `isinstance(value, int)` comes first, and a Python bool is an int *)
Definition pv_to_proto (v : pv) : prv :=
  match v with
  | PvInt z => RvNumber (inject_Z z)
  | PvBool b => RvNumber (if b then 1 else 0)
  | PvFloat q => RvNumber q
  | PvStr s => RvString s
  end.
Definition pv_from_proto (v : prv) : option pv :=
  match v with RvNumber q => Some (PvFloat q) | RvString s => Some (PvStr s) | RvBool b => Some (PvBool b) | RvUnset => None end.

(* Python's == on the values: numbers by value (True == 1 == 1.0), strings by content *)
Definition pv_num (v : pv) : option Q :=
  match v with PvFloat q => Some q | PvInt z => Some (inject_Z z) | PvBool b => Some (if b then 1 else 0) | PvStr _ => None end.
Definition pv_eqv (a b : pv) : Prop :=
  match pv_num a, pv_num b with
  | Some x, Some y => (x == y)%Q
  | None, None => match a, b with PvStr s, PvStr s' => s = s' | _, _ => False end
  | _, _ => False
  end.

Record pytrial := mkPT {
  pt_id : Z; pt_desc : option str; pt_worker : option str;
  pt_requested : bool; pt_stopping : option str; pt_infeasible : option str;
  pt_params : list (str * pv); pt_final : option pymeas; pt_meas : list pymeas;
  pt_created : option (Z * Z); pt_completed : option (Z * Z) }.          (* (seconds, microseconds) *)

Record prtrial := mkRT {
  rt_name : str; rt_id : Z; rt_state : N; rt_client : str; rt_params : list (str * prv);
  rt_final : option prmeas; rt_meas : list prmeas;
  rt_start : option (Z * Z); rt_end : option (Z * Z);                      (* Timestamp (seconds, nanos) *)
  rt_reason : str }.

Definition is_some {A} (o : option A) : bool := match o with Some _ => true | None => false end.
Definition or_empty (o : option str) : str := match o with Some s => s | None => [] end.
Definition none_if_empty (s : str) : option str := match s with [] => None | _ => Some s end.

(* Trial.status *)
Definition pt_status (t : pytrial) : pytstatus :=
  if is_some (pt_final t) || is_some (pt_infeasible t) then PyTCompleted
  else if is_some (pt_stopping t) then PyStopping
  else if pt_requested t then PyRequested else PyTActive.

Definition time_to_proto (t : Z * Z) : Z * Z := (fst t, snd t * 1000)%Z.
Definition time_from_proto (t : Z * Z) : Z * Z := (fst t, snd t / 1000)%Z.

Definition trial_to_proto (t : pytrial) : prtrial :=
  mkRT (or_empty (pt_desc t)) (pt_id t)
       (tstatus_to_proto (pt_status t) (is_some (pt_infeasible t)))
       (or_empty (pt_worker t))
       (map (fun nv => (fst nv, pv_to_proto (snd nv))) (pt_params t))
       (option_map meas_to_proto (pt_final t)) (map meas_to_proto (pt_meas t))
       (option_map time_to_proto (pt_created t)) (option_map time_to_proto (pt_completed t))
       (or_empty (pt_infeasible t)).

Fixpoint has_dup (l : list str) : bool :=
  match l with [] => false | x :: r => existsb (str_eqb x) r || has_dup r end.

Definition ST_REQUESTED : N := tstatus_to_proto PyRequested false.
Definition ST_STOPPING : N := tstatus_to_proto PyStopping false.
Definition ST_SUCCEEDED : N := tstatus_to_proto PyTCompleted false.
Definition ST_INFEASIBLE : N := tstatus_to_proto PyTCompleted true.
Definition STOPPING_TEXT : str := [115; 116; 111; 112]%N.     (* stands for 'stopping reason not supported yet' *)

(* None = ValueError (duplicate parameter) *)
Definition trial_from_proto (p : prtrial) : option pytrial :=
  let params := flat_map (fun nv => match pv_from_proto (snd nv) with Some v => [(fst nv, v)] | None => [] end) (rt_params p) in
  if has_dup (map fst params) then None else
  let done := N.eqb (rt_state p) ST_SUCCEEDED || N.eqb (rt_state p) ST_INFEASIBLE in
  Some (mkPT (rt_id p) (none_if_empty (rt_name p)) (none_if_empty (rt_client p))
             (N.eqb (rt_state p) ST_REQUESTED)
             (if N.eqb (rt_state p) ST_STOPPING then Some STOPPING_TEXT else None)
             (if N.eqb (rt_state p) ST_INFEASIBLE then Some (rt_reason p) else None)
             params (option_map meas_from_proto (rt_final p)) (map meas_from_proto (rt_meas p))
             (option_map time_from_proto (rt_start p))
             (if done then option_map time_from_proto (rt_end p) else None)).

(* what "an equal object" means for the modelled fields (stopping-reason text is documented as not transmitted) *)
Definition meas_eqv (m m' : pymeas) : Prop :=
  pm_metrics m' = pm_metrics m /\ pm_steps m' = pm_steps m /\
  (pm_elapsed m' <= pm_elapsed m)%Q /\ (pm_elapsed m < pm_elapsed m' + 1 / 1000000000)%Q.
Definition omeas_eqv (a b : option pymeas) : Prop :=
  match a, b with Some m, Some m' => meas_eqv m m' | None, None => True | _, _ => False end.
Definition trial_eqv (t t' : pytrial) : Prop :=
  pt_id t' = pt_id t /\ pt_desc t' = pt_desc t /\ pt_worker t' = pt_worker t /\ pt_requested t' = pt_requested t /\
  pt_infeasible t' = pt_infeasible t /\ pt_status t' = pt_status t /\
  Forall2 (fun a b => fst b = fst a /\ pv_eqv (snd a) (snd b)) (pt_params t) (pt_params t') /\
  omeas_eqv (pt_final t) (pt_final t') /\ Forall2 meas_eqv (pt_meas t) (pt_meas t') /\
  pt_created t' = pt_created t /\ pt_completed t' = pt_completed t.

(* the trials for which the round trip is claimed *)
Definition wf_trial (t : pytrial) : Prop :=
  pt_desc t <> Some [] /\ pt_worker t <> Some [] /\                       (* '' has no wire form: known finding *)
  NoDup (map fst (pt_params t)) /\                                          (* a dict *)
  (pt_requested t = true -> pt_status t = PyRequested) /\                  (* a queued trial is not stopping / completed *)
  (pt_completed t <> None -> pt_status t = PyTCompleted) /\                (* only completed trials carry a completion time *)
  (forall m, pt_final t = Some m -> (0 <= pm_elapsed m)%Q) /\ Forall (fun m => (0 <= pm_elapsed m)%Q) (pt_meas t).

(* correspondence case: a trial and the proto the real converter produced *)
Definition prv_eqb (a b : prv) : bool :=
  match a, b with
  | RvNumber x, RvNumber y => Qeq_bool x y | RvString s, RvString s' => str_eqb s s'
  | RvBool x, RvBool y => Bool.eqb x y | RvUnset, RvUnset => true | _, _ => false end.
Definition time_eqb (a b : option (Z * Z)) : bool :=
  match a, b with Some (s, n), Some (s', n') => Z.eqb s s' && Z.eqb n n' | None, None => true | _, _ => false end.
Definition trial_case_ok (c : pytrial * (str * Z * N * str * list (str * prv) * option (Z * Z) * option (Z * Z) * str)) : bool :=
  let '(t, (name, id, st, client, params, start, fin, reason)) := c in
  let p := trial_to_proto t in
  str_eqb (rt_name p) name && Z.eqb (rt_id p) id && N.eqb (rt_state p) st && str_eqb (rt_client p) client &&
  list_eqb (fun a b => str_eqb (fst a) (fst b) && prv_eqb (snd a) (snd b)) (rt_params p) params &&
  time_eqb (rt_start p) start && time_eqb (rt_end p) fin && str_eqb (rt_reason p) reason.
