(* GridSearchDesigner.dump / load as the source writes them: which metadata keys carry which field in which encoding, and
   which fields load() sets - including the grid ORDERING, which is a function of the shuffle seed and must be re-derived from
   the RESTORED seed (the fresh instance a host builds was given another seed, or none).  Regenerated from
   vizier/_src/algorithms/designers/grid.py (Gen/GridSrc.v, harness/translate/gridstate.py). *)
From VZ Require Import Base.Prelude Model.Restart.

(* the whole state of a designer instance: position, seed, and the seed its current ordering was derived from *)
Record grid_full := { gf_index : N; gf_seed : option Z; gf_order : option Z }.

Inductive gfield := FIndex | FSeed.
Inductive genc := EStrInt | EStrOptInt.          (* str(int) / str(None or int) *)
Inductive gdec := DInt | DNoneOrInt.             (* int(s) / None if s == 'None' else int(s) *)
Inductive order_src := OrderFromRestoredSeed | OrderKept.
Record grid_src := {
  gs_dump : list (str * gfield * genc);
  gs_load : list (str * gfield * gdec);
  gs_sets_index : bool;
  gs_sets_seed : bool;
  gs_order : order_src
}.

Definition enc_field (s : grid_full) (f : gfield) (e : genc) : option str :=
  match f, e with
  | FIndex, EStrInt => Some (py_str_int (Z.of_N (gf_index s)))
  | FSeed, EStrOptInt => Some (py_str_optint (gf_seed s))
  | FSeed, EStrInt => match gf_seed s with Some z => Some (py_str_int z) | None => Some s_None end
  | FIndex, EStrOptInt => Some (py_str_int (Z.of_N (gf_index s)))
  end.

Fixpoint interp_dump (d : list (str * gfield * genc)) (s : grid_full) : list (str * str) :=
  match d with
  | [] => []
  | (k, f, e) :: rest => match enc_field s f e with Some v => (k, v) :: interp_dump rest s | None => interp_dump rest s end
  end.

Fixpoint md_get (k : str) (md : list (str * str)) : option str :=
  match md with [] => None | (k', v) :: r => if str_eqb k' k then Some v else md_get k r end.

(* the values load() reads: None = KeyError / ValueError -> HarmlessDecodeError *)
Record grid_read := { gr_index : option Z; gr_seed : option (option Z) }.
Fixpoint interp_reads (l : list (str * gfield * gdec)) (md : list (str * str)) (acc : grid_read) : option grid_read :=
  match l with
  | [] => Some acc
  | (k, f, d) :: rest =>
    match md_get k md with
    | None => None
    | Some v =>
      match f, d with
      | FIndex, DInt => match py_int v with Some i => interp_reads rest md {| gr_index := Some i; gr_seed := gr_seed acc |} | None => None end
      | FSeed, DNoneOrInt => match py_optint v with Some o => interp_reads rest md {| gr_index := gr_index acc; gr_seed := Some o |} | None => None end
      | FSeed, DInt => match py_int v with Some i => interp_reads rest md {| gr_index := gr_index acc; gr_seed := Some (Some i) |} | None => None end
      | FIndex, DNoneOrInt => None
      end
    end
  end.

Definition interp_load (g : grid_src) (fresh : grid_full) (md : list (str * str)) : option grid_full :=
  match interp_reads (gs_load g) md {| gr_index := None; gr_seed := None |} with
  | None => None
  | Some r =>
    match gr_index r, gr_seed r with
    | Some i, Some sd =>
      if Z.ltb i 0 then None else
      let idx := if gs_sets_index g then Z.to_N i else gf_index fresh in
      let seed := if gs_sets_seed g then sd else gf_seed fresh in
      Some {| gf_index := idx; gf_seed := seed;
              gf_order := match gs_order g with OrderFromRestoredSeed => seed | OrderKept => gf_order fresh end |}
    | _, _ => None
    end
  end.

(* a live instance orders its grid by its own seed *)
Definition consistent (s : grid_full) : Prop := gf_order s = gf_seed s.
