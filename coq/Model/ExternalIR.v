(* The body of the breadth-first loop of StudyConfig._trial_to_external_values as harness/translate/extbfs.py reads it off
   the source (Gen/ExternalSrc.v), and its meaning.  One iteration starts with `parent_name, pc = parameter_configs.pop(0)`;
   `continue` ends the iteration with nothing changed. *)
From VZ Require Import Base.Prelude Model.External.
Import ListNotations.

Inductive bstmt :=
| BContinueIfNameNotRemaining          (* if pc.name not in remaining_parameters: continue *)
| BIfChild (body : list bstmt)         (* if parent_name is not None: *)
| BContinueIfParentNotSeen             (* if parent_name not in parameter_values: continue *)
| BLoadParentValue                     (* parent_value = parameter_values[parent_name] *)
| BContinueIfParentValueNotMatching    (* if parent_value not in pc.matching_parent_values: continue *)
| BRecordValue                         (* parameter_values[pc.name] = remaining_parameters[pc.name].value *)
| BCastExternal                        (* external_value = value if pc.external_type is None else value.cast(pc.external_type) *)
| BStoreExternal                       (* external_values[pc.name] = external_value *)
| BRemoveFromRemaining                 (* remaining_parameters.pop(pc.name) *)
| BQueueChildren.                      (* parameter_configs.extend((pc.name, child) for child in pc.child_parameter_configs) *)

Record bst := mkB { b_queue : list (option str * xtree); b_remaining : list (str * pyv); b_values : list (str * pyv);
                    b_external : list (str * pyv); b_parent_value : option pyv; b_ext_value : option pyv }.
(* Continue: `continue` was executed; Stuck: Python would raise (a name read before it is bound, a missing key) *)
Inductive bres := Go (s : bst) | Continue | Stuck.

Section Iter.
Variables (parent : option str) (pc : xtree).
Fixpoint exec1 (fuel : nat) (b : bstmt) (s : bst) {struct fuel} : bres :=
  match fuel with O => Stuck | S fuel' =>
  match b with
  | BContinueIfNameNotRemaining =>
    match alookup (xt_name pc) (b_remaining s) with None => Continue | Some _ => Go s end
  | BIfChild body =>
    match parent with
    | None => Go s
    | Some _ => (fix run (l : list bstmt) (s : bst) : bres :=
                   match l with [] => Go s | x :: r => match exec1 fuel' x s with Go s' => run r s' | o => o end end) body s
    end
  | BContinueIfParentNotSeen =>
    match parent with
    | None => Stuck
    | Some pn => match alookup pn (b_values s) with None => Continue | Some _ => Go s end
    end
  | BLoadParentValue =>
    match parent with
    | None => Stuck
    | Some pn => match alookup pn (b_values s) with
                 | None => Stuck
                 | Some pv => Go (mkB (b_queue s) (b_remaining s) (b_values s) (b_external s) (Some pv) (b_ext_value s))
                 end
    end
  | BContinueIfParentValueNotMatching =>
    match b_parent_value s with
    | None => Stuck
    | Some pv => if existsb (pyv_eqb pv) (xt_matching pc) then Go s else Continue
    end
  | BRecordValue =>
    match alookup (xt_name pc) (b_remaining s) with
    | None => Stuck
    (* the name is removed from remaining_parameters in the same iteration, so it is recorded once: the assignment appends *)
    | Some v => Go (mkB (b_queue s) (b_remaining s) (b_values s ++ [(xt_name pc, v)]) (b_external s) (b_parent_value s) (b_ext_value s))
    end
  | BCastExternal =>
    match alookup (xt_name pc) (b_remaining s) with
    | None => Stuck
    | Some v => Go (mkB (b_queue s) (b_remaining s) (b_values s) (b_external s) (b_parent_value s) (Some (cast (xt_ext pc) v)))
    end
  | BStoreExternal =>
    match b_ext_value s with
    | None => Stuck
    | Some x => Go (mkB (b_queue s) (b_remaining s) (b_values s) (b_external s ++ [(xt_name pc, x)]) (b_parent_value s) (b_ext_value s))
    end
  | BRemoveFromRemaining =>
    Go (mkB (b_queue s) (aremove (xt_name pc) (b_remaining s)) (b_values s) (b_external s) (b_parent_value s) (b_ext_value s))
  | BQueueChildren =>
    Go (mkB (b_queue s ++ map (fun c => (Some (xt_name pc), c)) (xt_children pc)) (b_remaining s) (b_values s) (b_external s)
            (b_parent_value s) (b_ext_value s))
  end end.
Fixpoint exec_body (l : list bstmt) (s : bst) : bres :=
  match l with [] => Go s | x :: r => match exec1 10 x s with Go s' => exec_body r s' | o => o end end.
End Iter.

(* the while loop: `while parameter_configs and remaining_parameters` *)
Fixpoint to_external_of (body : list bstmt) (fuel : nat) (queue : list (option str * xtree)) (remaining : list (str * pyv))
         (values external : list (str * pyv)) : list (str * pyv) :=
  match fuel with
  | O => external
  | S fuel' =>
    match queue, remaining with
    | [], _ | _, [] => external
    | (parent, pc) :: rest, _ =>
      match exec_body parent pc body (mkB rest remaining values external None None) with
      | Go s => to_external_of body fuel' (b_queue s) (b_remaining s) (b_values s) (b_external s)
      | Continue => to_external_of body fuel' rest remaining values external
      | Stuck => external
      end
    end
  end.
