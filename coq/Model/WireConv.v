(* Conversions of proto_converters.py over the types of Model/Wire.v, using the enum tables the translator generates
   (Gen/EnumMaps.v).  Executable definitions only. *)
From Coq Require Export Qround.
From VZ Require Export Model.Wire Gen.EnumMaps.

Definition Qleb (a b : Q) : bool := Qle_bool a b.
Fixpoint qinsert (x : Q) (l : list Q) : list Q :=
  match l with [] => [x] | h :: t => if Qleb x h then x :: l else h :: qinsert x t end.
Definition qsort (l : list Q) : list Q := fold_right qinsert [] l.
Fixpoint zinsert (x : Z) (l : list Z) : list Z :=
  match l with [] => [x] | h :: t => if Z.leb x h then x :: l else h :: zinsert x t end.
Definition zsort (l : list Z) : list Z := fold_right zinsert [] l.
Fixpoint sinsert (x : str) (l : list str) : list str :=
  match l with [] => [x] | h :: t => if str_leb x h then x :: l else h :: sinsert x t end.
Definition ssort (l : list str) : list str := fold_right sinsert [] l.

Definition nums (l : list pval) : list Q := flat_map (fun v => match v with VNum q => [q] | VStr _ => [] end) l.
Definition strs (l : list pval) : list str := flat_map (fun v => match v with VStr s => [s] | VNum _ => [] end) l.
Definition q_of_Z (z : Z) : Q := inject_Z z.
Definition Z_of_q (q : Q) : Z := Qnum q.       (* int(): only applied to integral values (denominator 1) *)

(* ParameterConfigConverter.to_proto *)
Definition to_vspec (ty : ptype) (bounds : option (Q * Q)) (feas : list pval) (dflt : option pval) : option vspec :=
  match ty, bounds with
  | TDouble, Some (lo, hi) => Some (SpDouble lo hi (match dflt with Some (VNum q) => Some q | _ => None end))
  | TInteger, Some (lo, hi) => Some (SpInt (Z_of_q lo) (Z_of_q hi) (match dflt with Some (VNum q) => Some (Z_of_q q) | _ => None end))
  | TDiscrete, _ => Some (SpDiscrete (qsort (nums feas)) (match dflt with Some (VNum q) => Some q | _ => None end))
  | TCategorical, _ => Some (SpCat (strs feas) (match dflt with Some (VStr s) => Some s | _ => None end))
  | _, None => None
  end.

Definition to_cond (parent : vspec) (vals : list pval) : cond :=
  match parent with
  | SpDiscrete _ _ => CdDiscrete (qsort (nums vals))
  | SpCat _ _ => CdCat (ssort (strs vals))
  | SpInt _ _ _ => CdInt (zsort (map Z_of_q (nums vals)))
  | SpDouble _ _ _ => CdDiscrete []      (* to_proto raises ValueError: excluded by well-formedness *)
  end.

Fixpoint to_proto (p : pconf) : option pspec :=
  match p with
  | PConf name ty bounds feas sc dflt ex children =>
    match to_vspec ty bounds feas dflt with
    | None => None
    | Some sp =>
      let scn := match sc with Some s => match scale_to_proto s with Some n => n | None => 0%N end | None => 0%N end in
      let exn := match ext_to_proto ex with Some n => n | None => 0%N end in
      let conds := (fix go (l : list (list pval * pconf)) : option (list (cond * pspec)) :=
                      match l with
                      | [] => Some []
                      | (vals, c) :: r =>
                        match to_proto c, go r with
                        | Some cp, Some rest => Some ((to_cond sp vals, cp) :: rest)
                        | _, _ => None
                        end
                      end) children in
      match conds with Some cs => Some (PSpec name sp scn exn cs) | None => None end
    end
  end.

(* ParameterConfigConverter.from_proto (+ the normalisation of ParameterConfig.factory that matters here) *)
Definition of_cond (c : cond) : list pval :=
  match c with
  | CdDiscrete l => map VNum l
  | CdInt l => map (fun z => VNum (q_of_Z z)) l
  | CdCat l => map VStr l
  end.

Fixpoint from_proto (p : pspec) : pconf :=
  match p with
  | PSpec id sp scn exn conds =>
    let children := map (fun cp => (of_cond (fst cp), from_proto (snd cp))) conds in
    let sc := if N.eqb scn 0 then None else scale_from_proto scn in
    let ex := if N.eqb exn 0 then ExInternal else match ext_from_proto exn with Some e => e | None => ExInternal end in
    match sp with
    | SpDouble lo hi d => PConf id TDouble (Some (lo, hi)) [] sc (option_map VNum d) ex children
    | SpInt lo hi d => PConf id TInteger (Some (q_of_Z lo, q_of_Z hi)) [] sc (option_map (fun z => VNum (q_of_Z z)) d) ex children
    | SpDiscrete vals d => PConf id TDiscrete None (map VNum (qsort vals)) sc (option_map VNum d) ex children
    | SpCat vals d => PConf id TCategorical None (map VStr (ssort vals)) sc (option_map VStr d) ex children
    end
  end.

(* MeasurementConverter; exact arithmetic (float rounding is not modelled) *)
Definition meas_to_proto (m : pymeas) : prmeas :=
  let secs := Qfloor (pm_elapsed m) in
  mkRM (pm_metrics m) secs (Qfloor ((pm_elapsed m - inject_Z secs) * 1000000000)) (pm_steps m).
Definition meas_from_proto (m : prmeas) : pymeas :=
  mkPM (rm_metrics m) (inject_Z (rm_seconds m) + inject_Z (rm_nanos m) / 1000000000) (rm_steps m).
