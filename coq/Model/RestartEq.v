(* Checkers for the C13 correspondence: the model follows what the translator read from the source today. *)
From VZ Require Import Base.Prelude Model.Restart Gen.Serial.

Definition with_obs {St In Out Obs} (step : St -> In -> St * Out) (obs : St -> Obs) (s : St) (i : In) : St * Obs :=
  let (s2, _) := step s i in (s2, obs s2).

Definition str_case_ok (c : Z * str) : bool :=
  list_eqb N.eqb (py_str_int (fst c)) (snd c) &&
  match py_int (snd c) with Some z => Z.eqb z (fst c) | None => false end.

(* strings int() must refuse / 'None' handling of the grid designer: (string, accepted as optional int?, value) *)
Definition optint_case_ok (c : str * option (option Z)) : bool :=
  match py_optint (fst c), snd c with
  | None, None => true
  | Some None, Some None => true
  | Some (Some a), Some (Some b) => Z.eqb a b
  | _, _ => false
  end.

Definition grid_case_ok (c : list N * option Z * list (bool * nat) * list (list (list N)) * N) : bool :=
  let '(dims, seed, ins, outs, final) := c in
  match run_restarts (grid_step dims) grid_dump grid_load {| g_index := 0; g_seed := seed |} ins with
  | Some (o, sf) => list_eqb (list_eqb (list_eqb N.eqb)) o outs && N.eqb (g_index sf) final
  | None => false
  end.

Definition pool_case_ok (c : list N * list N) : bool :=
  match pool_load (pool_dump eagle_pool_sort_keys (map (fun k => (k, tt)) (fst c))) with
  | Some p => list_eqb N.eqb (map fst p) (snd c)
  | None => false
  end.

Definition evo_dumps_counter : bool := mem_str [95;110;117;109;95;116;114;105;97;108;115;95;115;101;101;110]%N (sc_dump_attrs ser_evolution).
Definition cma_dumps_queue : bool :=
  mem_str [95;116;114;105;97;108;95;112;111;112;117;108;97;116;105;111;110]%N (sc_dump_attrs ser_cmaes).

(* (first_survival_after, [(restart?, number of trials completed after the suggestion)], observed [(sampling?, seen before)]) *)
Definition evo_case_ok (c : N * list (bool * nat) * list (bool * N)) : bool :=
  let '(fsa, ins, obs) := c in
  let ins' := map (fun x => (fst x, repeat tt (snd x))) ins in
  match run_restarts (evo_step (fun (p : unit) (_ : list unit) => p) fsa) (evo_dump evo_dumps_counter) evo_load
                     {| e_pop := tt; e_seen := 0 |} ins' with
  | Some (o, _) =>
    list_eqb (fun a b => Bool.eqb (fst a) (fst b) && N.eqb (snd a) (snd b))
             (map (fun a : phase * unit * N => (match fst (fst a) with Sampling => true | Evolving => false end, snd a)) o) obs
  | None => false
  end.

(* (pop_size, [(restart?, (count, completed))], observed after each step [(number of tells so far, queue length)]) *)
Definition cma_case_ok (c : nat * list (bool * (nat * nat)) * list (nat * nat)) : bool :=
  let '(pop, ins, obs) := c in
  let ins' := map (fun x => (fst x, (fst (snd x), repeat tt (snd (snd x))))) ins in
  let step := with_obs (cma_step (fun (o : nat) (_ : list unit) => S o) (fun (o : nat) (_ : nat) => (o, @nil unit)) pop)
                       (fun s => (c_opt s, length (c_queue s))) in
  match run_restarts step (cma_dump cma_dumps_queue) cma_load {| c_opt := O; c_queue := [] |} ins' with
  | Some (o, _) => list_eqb (fun a b => Nat.eqb (fst a) (fst b) && Nat.eqb (snd a) (snd b)) o obs
  | None => false
  end.
