(* Transaction shape of the SQLDataStore methods (vizier/_src/service/sql_datastore.py): a single shared connection,
   a statement is durable only after the following commit().  Gen/SqlShapes.v (translator output) gives each method's
   skeleton as a `blk`; this file gives skeletons a trace semantics, an abstract checker, and the meaning of a trace
   for durability.  Executable definitions and inductive semantics only. *)
From VZ Require Export Base.Prelude.

Inductive sh :=
| SRead                      (* connection.execute(select ...) *)
| SWrite                     (* connection.execute(insert/update/delete) without rollback-on-error *)
| STryWrite                  (* self._write_or_rollback(q): on a database error rollback() and re-raise *)
| SCommit | SRollback
| SRaise | SReturn
| SIf (a b : blk)
| SLoop (body : blk)
| STry (body handler : blk)  (* try: body  except IntegrityError: handler *)
with blk := bnil | bcons (x : sh) (r : blk).

Notation "'B[' ']'" := bnil.
Notation "'B[' x ']'" := (bcons x bnil).
Notation "'B[' x ; .. ; y ']'" := (bcons x .. (bcons y bnil) ..).

(* events that matter for durability *)
Inductive ev := EW | EC | ER.
(* how a block stops; DbError = a database error propagating (an IntegrityError may be caught by STry) *)
Inductive stop := Falls | Returns | Raises | DbError.

(* ---- trace semantics *)
Inductive exec : sh -> list ev -> stop -> Prop :=
| x_read : exec SRead [] Falls
| x_write_ok : exec SWrite [EW] Falls
| x_write_err : exec SWrite [] DbError
| x_trywrite_ok : exec STryWrite [EW] Falls
| x_trywrite_err : exec STryWrite [ER] DbError
| x_commit : exec SCommit [EC] Falls
| x_rollback : exec SRollback [ER] Falls
| x_raise : exec SRaise [] Raises
| x_return : exec SReturn [] Returns
| x_if_a a b t s : execs a t s -> exec (SIf a b) t s
| x_if_b a b t s : execs b t s -> exec (SIf a b) t s
| x_loop_0 body : exec (SLoop body) [] Falls
| x_loop_s body t1 t2 s : execs body t1 Falls -> exec (SLoop body) t2 s -> exec (SLoop body) (t1 ++ t2) s
| x_loop_stop body t s : execs body t s -> s <> Falls -> exec (SLoop body) t s
| x_try_through body h t s : execs body t s -> exec (STry body h) t s
| x_try_caught body h t1 t2 s : execs body t1 DbError -> execs h t2 s -> exec (STry body h) (t1 ++ t2) s
with execs : blk -> list ev -> stop -> Prop :=
| xs_nil : execs bnil [] Falls
| xs_cons_fall x l t1 t2 s : exec x t1 Falls -> execs l t2 s -> execs (bcons x l) (t1 ++ t2) s
| xs_cons_stop x l t s : exec x t s -> s <> Falls -> execs (bcons x l) t s.

(* ---- the transaction automaton: Cl = nothing pending, nothing committed; Di = pending writes;
        Co = committed by one effective commit, nothing pending; Bd = a write after the commit (a second transaction) *)
Inductive ast := Cl | Di | Co | Bd.
Definition ast_eqb (a b : ast) : bool :=
  match a, b with Cl, Cl | Di, Di | Co, Co | Bd, Bd => true | _, _ => false end.
Definition step_ev (a : ast) (e : ev) : ast :=
  match e, a with
  | EW, Cl | EW, Di => Di
  | EW, _ => Bd
  | EC, Di => Co
  | EC, a => a
  | ER, Di => Cl
  | ER, a => a
  end.
Definition run_evs (t : list ev) (a : ast) : ast := fold_left step_ev t a.

(* a finished call is fine when it raised with nothing pending and nothing committed, or returned / fell off the end
   with nothing pending (read-only, or everything committed by the one commit) *)
Definition ok_end (s : stop) (a : ast) : bool :=
  match s, a with
  | (Raises | DbError), Cl => true
  | (Returns | Falls), (Cl | Co) => true
  | _, _ => false
  end.

(* ---- abstract checker: possible (stop, state) pairs of a block started in a given state; None = gave up *)
Definition res := (stop * ast)%type.
Definition stop_eqb (x y : stop) : bool :=
  match x, y with Falls, Falls | Returns, Returns | Raises, Raises | DbError, DbError => true | _, _ => false end.
Definition res_eqb (x y : res) : bool := stop_eqb (fst x) (fst y) && ast_eqb (snd x) (snd y).
Definition memr (x : res) (l : list res) : bool := existsb (res_eqb x) l.
Definition subset (a b : list res) : bool := forallb (fun x => memr x b) a.
Definition is_falls (r : res) : bool := stop_eqb (fst r) Falls.
Definition is_dberr (r : res) : bool := stop_eqb (fst r) DbError.

(* results of continuing with f from every Falls state of l, joined with the non-Falls results of l *)
Fixpoint bind_falls (l : list res) (f : ast -> option (list res)) : option (list res) :=
  match l with
  | [] => Some []
  | r :: t =>
    match bind_falls t f with
    | None => None
    | Some rest => if is_falls r then match f (snd r) with Some x => Some (x ++ rest) | None => None end
                   else Some (r :: rest)
    end
  end.
Fixpoint bind_dberr (l : list res) (f : ast -> option (list res)) : option (list res) :=
  match l with
  | [] => Some []
  | r :: t =>
    match bind_dberr t f with
    | None => None
    | Some rest => if is_dberr r then match f (snd r) with Some x => Some (x ++ rest) | None => None end
                   else Some rest
    end
  end.

(* zero or more iterations of f: grow acc until one more round adds nothing *)
Fixpoint loop_iter (f : ast -> option (list res)) (fuel : nat) (acc : list res) : option (list res) :=
  match fuel with
  | O => None
  | S fuel' =>
    match bind_falls acc f with
    | None => None
    | Some nxt => if subset nxt acc then Some acc else loop_iter f fuel' (nxt ++ acc)
    end
  end.

Fixpoint post (x : sh) (a : ast) : option (list res) :=
  match x with
  | SRead => Some [(Falls, a)]
  | SWrite => Some [(Falls, step_ev a EW); (DbError, a)]
  | STryWrite => Some [(Falls, step_ev a EW); (DbError, step_ev a ER)]
  | SCommit => Some [(Falls, step_ev a EC)]
  | SRollback => Some [(Falls, step_ev a ER)]
  | SRaise => Some [(Raises, a)]
  | SReturn => Some [(Returns, a)]
  | SIf p q => match posts p a, posts q a with Some x, Some y => Some (x ++ y) | _, _ => None end
  | SLoop body => loop_iter (posts body) 8 [(Falls, a)]
  | STry body h =>
    match posts body a with
    | None => None
    | Some rb => match bind_dberr rb (posts h) with Some c => Some (rb ++ c) | None => None end
    end
  end
with posts (l : blk) (a : ast) : option (list res) :=
  match l with
  | bnil => Some [(Falls, a)]
  | bcons y r => match post y a with None => None | Some ry => bind_falls ry (posts r) end
  end.

(* the check evaluated on every generated skeleton *)
Definition shape_ok (l : blk) : bool :=
  match posts l Cl with Some rs => forallb (fun r => ok_end (fst r) (snd r)) rs | None => false end.

(* ---- durability of a trace: (committed writes, pending writes) *)
Definition dstep (c : nat * nat) (e : ev) : nat * nat :=
  match e with EW => (fst c, S (snd c)) | EC => (fst c + snd c, 0) | ER => (fst c, 0) end.
Definition dstate (t : list ev) : nat * nat := fold_left dstep t (0, 0).
Definition durable (t : list ev) : nat := fst (dstate t).
