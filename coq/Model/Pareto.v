(* Models of the Pareto routines:
     vizier/_src/pyvizier/multimetric/pareto_optimal.py  (Naive and Fast algorithms)
     vizier/_src/jax/xla_pareto.py                       (_is_pareto_optimal_against, is_frontier, pareto_rank)
     vizier/_src/algorithms/evolution/nsga2.py           (_pareto_rank)
     vizier/_src/service/vizier_service.py               (ListOptimalTrials dominance matrix)
   Executable definitions only. *)
From VZ Require Export Base.Prelude Base.XFloat.

(* ---- specification: q dominates p (all >=, some >) *)
Definition dominates (q p : vec) : bool := all2 xge q p && any2 xgt q p.
Definition weakly_dominates (q p : vec) : bool := all2 xge q p.
Definition spec_optimal_among (ps : list vec) (p : vec) : bool := negb (existsb (fun q => dominates q p) ps).
Definition spec_optimal (ps : list vec) : list bool := map (spec_optimal_among ps) ps.

(* ---- NaiveParetoOptimalAlgorithm.is_pareto_optimal_against *)
Definition naive_point_against (strict : bool) (against : list vec) (p : vec) : bool :=
  let sd := map (fun a => any2 xgt p a) against in               (* np.any(point > against, axis=1) *)
  if forallb (fun b => b) sd then true
  else if strict then forallb (fun a => any2 xgt p a || all2 xeq p a) against
  else false.
Definition naive_against (strict : bool) (points against : list vec) : list bool :=
  map (naive_point_against strict against) points.

(* ---- NaiveParetoOptimalAlgorithm.is_pareto_optimal : the in-place revision loop *)
Fixpoint revise (p : vec) (points : list vec) (is_opt : list bool) : list bool :=
  match points, is_opt with
  | q :: ps, b :: bs => (if b then any2 xgt q p || all2 xeq q p else false) :: revise p ps bs
  | _, _ => []
  end.
Fixpoint naive_loop (todo : list vec) (i : nat) (points : list vec) (is_opt : list bool) : list bool :=
  match todo with
  | [] => is_opt
  | p :: rest =>
    let is_opt' := if nth i is_opt false then revise p points is_opt else is_opt in
    naive_loop rest (S i) points is_opt'
  end.
Definition naive_opt (points : list vec) : list bool :=
  naive_loop points 0 points (map (fun _ => true) points).

(* ---- service / nsga2 / jax:  "i is dominated by j" = all(y_i <= y_j) & any(y_j > y_i) *)
Definition dominated_by (yi yj : vec) : bool := all2 xle yi yj && any2 xgt yj yi.
Definition svc_optimal (ys : list vec) : list bool :=
  map (fun yi => negb (existsb (fun yj => dominated_by yi yj) ys)) ys.
Definition pareto_rank (ys : list vec) : list nat :=
  map (fun y => length (filter (fun r => dominated_by y r) ys)) ys.
Definition jax_is_dominated (strict : bool) (y1 y2 : vec) : bool :=
  if strict then all2 xle y1 y2 && any2 xgt y2 y1 else all2 xle y1 y2.
Definition jax_against (strict : bool) (yy baseline : list vec) : list bool :=
  map (fun y => negb (existsb (fun b => jax_is_dominated strict y b) baseline)) yy.

(* is_frontier: cuts = reversed(linspace(0,B,num_shards).astype(int32)); zip(idx[1:], idx[:-1]) *)
Fixpoint mask_update (frontier : list bool) (tt : list bool) : list bool :=   (* frontier[frontier] = tt *)
  match frontier with
  | [] => []
  | true :: fs => match tt with t :: ts => t :: mask_update fs ts | [] => true :: mask_update fs [] end
  | false :: fs => false :: mask_update fs tt
  end.
Fixpoint select {A} (mask : list bool) (xs : list A) : list A :=
  match mask, xs with
  | b :: ms, x :: t => if b then x :: select ms t else select ms t
  | _, _ => []
  end.
Definition slice {A} (b e : nat) (xs : list A) : list A := firstn (e - b) (skipn b xs).
Fixpoint frontier_loop (ys : list vec) (pairs : list (nat * nat)) (frontier : list bool) : list bool :=
  match pairs with
  | [] => frontier
  | (b, e) :: rest =>
    let cands := select frontier ys in
    frontier_loop ys rest (mask_update frontier (jax_against true cands (slice b e ys)))
  end.
Definition is_frontier (idx_rev : list nat) (ys : list vec) : list bool :=
  frontier_loop ys (combine (tl idx_rev) (removelast idx_rev)) (map (fun _ => true) ys).

(* ---- FastParetoOptimalAlgorithm *)
Definition first (p : vec) : xf := hd NaN p.
(* stable insertion sort of (index, point) on the first coordinate (numpy sorts <16 elements by insertion sort) *)
Fixpoint ins_first (e : nat * vec) (l : list (nat * vec)) : list (nat * vec) :=
  match l with
  | [] => [e]
  | h :: t => if xgt (first (snd e)) (first (snd h)) then h :: ins_first e t else e :: l
  end.
Fixpoint sort_first_rev (l : list (nat * vec)) : list (nat * vec) :=
  match l with [] => [] | h :: t => ins_first h (sort_first_rev t) end.
Definition argsort_first (points : list vec) : list (nat * vec) :=
  (* stable: fold from the right so that equal keys keep their order *)
  sort_first_rev (combine (seq 0 (length points)) points).
Definition round_half_even_div2 (n : nat) : nat :=
  if Nat.even n then Nat.div2 n else let k := Nat.div2 n in if Nat.even k then k else S k.
Definition scatter (n : nat) (idx : list nat) (vals : list bool) : list bool :=
  map (fun i => match find (fun iv => Nat.eqb (fst iv) i) (combine idx vals) with
                | Some (_, v) => v | None => false end) (seq 0 n).
Fixpoint vmax (l : list xf) (acc : xf) : xf :=
  match l with [] => acc | x :: t => vmax t (if xgt x acc then x else acc) end.

Inductive fres := FOk (r : list bool) | FOutOfFuel | FRaise.

Definition fand (a b : list bool) : list bool := map (fun p => andb (fst p) (snd p)) (combine a b).

Fixpoint fast_against (fuel : nat) (thr : nat) (strict : bool) (points against : list vec) : fres :=
  match fuel with
  | O => FOutOfFuel
  | S fuel' =>
    let np := length points in let na := length against in
    if Nat.eqb np 0 then FOk []
    else if Nat.eqb na 0 then FOk (map (fun _ => true) points)
    else if Nat.ltb na thr || Nat.ltb np thr then FOk (naive_against strict points against)
    else if Nat.leb (length (hd [] against)) 1 then
      match against with
      | [] => FRaise
      | a0 :: _ =>
        match a0 with
        | [] => FRaise    (* np.max of an empty array *)
        | _ =>
          let mx := vmax (map first (tl against)) (first a0) in
          FOk (map (fun p => if strict then xge (first p) mx else xgt (first p) mx) points)
        end
      end
    else
      let srt := argsort_first points in
      let split0 := round_half_even_div2 np in
      let sv := first (snd (nth split0 srt (0, []))) in
      (* while sorted_points[split_index][0] == split_value: split_index += 1 *)
      let fix walk (k : nat) (rest : list (nat * vec)) : option nat :=
        match rest with
        | [] => None
        | h :: t => if xeq (first (snd h)) sv then walk (S k) t else Some k
        end in
      match walk split0 (skipn split0 srt) with
      | None => FOk (naive_against strict points against)
      | Some split =>
        let sdom := map snd (argsort_first against) in
        (* searchsorted(side='right'): number of entries <= split_value *)
        let dsplit := length (filter (fun a => xle (first a) sv) sdom) in
        let lower := map snd (firstn split srt) in
        let upper := map snd (skipn split srt) in
        let ldom := firstn dsplit sdom in
        let udom := skipn dsplit sdom in
        match fast_against fuel' thr strict upper udom,
              fast_against fuel' thr strict lower ldom,
              fast_against fuel' thr false (map (@tl xf) lower) (map (@tl xf) udom) with
        | FOk uo, FOk lo, FOk co =>
          FOk (scatter np (map fst srt) (fand lo co ++ uo))
        | FRaise, _, _ | _, FRaise, _ | _, _, FRaise => FRaise
        | _, _, _ => FOutOfFuel
        end
      end
  end.

Fixpoint fast_opt (fuel : nat) (thr : nat) (points : list vec) : fres :=
  match fuel with
  | O => FOutOfFuel
  | S fuel' =>
    let np := length points in
    if Nat.leb np thr then FOk (naive_opt points)
    else
      let srt := argsort_first points in
      let split := round_half_even_div2 np in
      let lower := map snd (firstn split srt) in
      let higher := map snd (skipn split srt) in
      match fast_opt fuel' thr higher, fast_opt fuel' thr lower, fast_against (S (S np)) thr true lower higher with
      | FOk hp, FOk lp, FOk cc => FOk (scatter np (map fst srt) (fand lp cc ++ hp))
      | FRaise, _, _ | _, FRaise, _ | _, _, FRaise => FRaise
      | _, _, _ => FOutOfFuel
      end
  end.

(* ---- correspondence checkers *)
Definition bools_eqb := list_eqb Bool.eqb.
Definition fres_eqb (a : fres) (b : option (list bool)) : bool :=
  match a, b with
  | FOk r, Some r' => bools_eqb r r'
  | FRaise, None => true
  | FOutOfFuel, None => true   (* Python: RecursionError *)
  | _, _ => false
  end.
