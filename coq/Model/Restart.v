(* Restart of stateful designers (PartiallySerializable.dump / load through study metadata).
   - a generic machine: step / dump / load, a run in which a restart (dump -> fresh instance -> load) may be inserted
     before any step;
   - Python's str(int) / int(str) on the strings that dumps contain;
   - grid search: index -> grid point by mixed-radix decomposition (GridSearchDesigner.suggest), state = current index
     and shuffle seed, both dumped as decimal strings;
   - quasi-random search: state = (skip_points, seed);
   - eagle: the firefly pool is an insertion-ordered dict dumped as a JSON object whose keys are the decimal fly ids;
   - evolutionary template (NSGA-II): state = population + number of trials seen, phase = sampling until
     first_survival_after trials have been seen;
   - CMA-ES: state = optimiser state + the queue of the partially evaluated population.
   Executable definitions only. *)
From VZ Require Export Base.Prelude.
From Coq Require Import Decimal DecimalZ DecimalN.

(* ---------- generic machine *)
Section Machine.
  Variables St Md In Out : Type.
  Variable step : St -> In -> St * Out.
  Variable dump : St -> Md.
  Variable load : Md -> option St.       (* fresh instance built the same way, then load *)

  (* each input carries a flag: restart before this step? *)
  Fixpoint run_restarts (s : St) (ins : list (bool * In)) : option (list Out * St) :=
    match ins with
    | [] => Some ([], s)
    | (rs, i) :: rest =>
      match (if rs then load (dump s) else Some s) with
      | None => None
      | Some s1 =>
        let (s2, o) := step s1 i in
        match run_restarts s2 rest with
        | None => None
        | Some (os, sf) => Some (o :: os, sf)
        end
      end
    end.

  Fixpoint run_live (s : St) (ins : list In) : list Out * St :=
    match ins with
    | [] => ([], s)
    | i :: rest => let (s2, o) := step s i in let (os, sf) := run_live s2 rest in (o :: os, sf)
    end.
End Machine.
Arguments run_restarts {St Md In Out}.
Arguments run_live {St In Out}.

(* ---------- str(int), int(str) *)
Fixpoint digs (u : uint) : str :=
  match u with
  | Nil => []
  | D0 r => 48%N :: digs r | D1 r => 49%N :: digs r | D2 r => 50%N :: digs r | D3 r => 51%N :: digs r
  | D4 r => 52%N :: digs r | D5 r => 53%N :: digs r | D6 r => 54%N :: digs r | D7 r => 55%N :: digs r
  | D8 r => 56%N :: digs r | D9 r => 57%N :: digs r
  end.

Fixpoint undigs (s : str) : option uint :=
  match s with
  | [] => Some Nil
  | c :: r =>
    match undigs r with
    | None => None
    | Some u =>
      if N.eqb c 48 then Some (D0 u) else if N.eqb c 49 then Some (D1 u) else if N.eqb c 50 then Some (D2 u)
      else if N.eqb c 51 then Some (D3 u) else if N.eqb c 52 then Some (D4 u) else if N.eqb c 53 then Some (D5 u)
      else if N.eqb c 54 then Some (D6 u) else if N.eqb c 55 then Some (D7 u) else if N.eqb c 56 then Some (D8 u)
      else if N.eqb c 57 then Some (D9 u) else None
    end
  end.

Definition py_str_int (z : Z) : str :=
  match Z.to_int z with Pos u => digs u | Neg u => 45%N :: digs u end.

(* int() on the strings the dumps contain: an optional minus sign and at least one decimal digit.  (Python accepts more:
   surrounding blanks, '+', underscores; the model refuses those, they never occur in a dump.) *)
Definition py_int (s : str) : option Z :=
  match s with
  | [] => None
  | c :: r =>
    if N.eqb c 45 then match r with [] => None | _ => option_map (fun u => Z.of_int (Neg u)) (undigs r) end
    else option_map (fun u => Z.of_int (Pos u)) (undigs s)
  end.

Definition s_None : str := [78; 111; 110; 101]%N.
(* str(None) / "None or int" used by the grid designer for its shuffle seed *)
Definition py_str_optint (o : option Z) : str := match o with None => s_None | Some z => py_str_int z end.
Definition py_optint (s : str) : option (option Z) :=
  if str_eqb s s_None then Some None else option_map Some (py_int s).

(* ---------- grid search *)
(* temp_index = index; for each axis: p_index = temp_index % len; temp_index //= len *)
Fixpoint digits (dims : list N) (i : N) : list N :=
  match dims with
  | [] => []
  | d :: ds => (i mod d)%N :: digits ds (i / d)%N
  end.
Fixpoint undigits (dims xs : list N) : N :=
  match dims, xs with
  | d :: ds, x :: r => (x + d * undigits ds r)%N
  | _, _ => 0%N
  end.
Definition volume (dims : list N) : N := fold_right N.mul 1%N dims.
Fixpoint digits_ok (dims xs : list N) : bool :=
  match dims, xs with
  | [], [] => true
  | d :: ds, x :: r => N.ltb x d && digits_ok ds r
  | _, _ => false
  end.

Record grid_st := { g_index : N; g_seed : option Z }.
Definition grid_md := (str * str)%type.                      (* current_index, shuffle_seed *)
Definition grid_dump (s : grid_st) : grid_md := (py_str_int (Z.of_N (g_index s)), py_str_optint (g_seed s)).
Definition grid_load (m : grid_md) : option grid_st :=
  match py_int (fst m), py_optint (snd m) with
  | Some i, Some sd => if Z.ltb i 0 then None else Some {| g_index := Z.to_N i; g_seed := sd |}
  | _, _ => None
  end.
Fixpoint nseq (start : N) (len : nat) : list N :=
  match len with O => [] | S l => start :: nseq (N.succ start) l end.
(* one suggest(count): the points at current_index .. current_index+count-1 *)
Definition grid_step (dims : list N) (s : grid_st) (count : nat) : grid_st * list (list N) :=
  ({| g_index := g_index s + N.of_nat count; g_seed := g_seed s |}, map (digits dims) (nseq (g_index s) count)).

(* ---------- quasi-random search *)
Record qr_st := { q_skip : N; q_seed : Z }.
Definition qr_dump (s : qr_st) : grid_md := (py_str_int (Z.of_N (q_skip s)), py_str_int (q_seed s)).
Definition qr_load (m : grid_md) : option qr_st :=
  match py_int (fst m), py_int (snd m) with
  | Some k, Some sd => if Z.ltb k 0 then None else Some {| q_skip := Z.to_N k; q_seed := sd |}
  | _, _ => None
  end.
Section QR.
  Variable Pt : Type.
  Variable halton : Z -> N -> Pt.      (* the point at a position of the sequence with a given seed *)
  Definition qr_step (s : qr_st) (count : nat) : qr_st * list Pt :=
    ({| q_skip := q_skip s + N.of_nat count; q_seed := q_seed s |}, map (halton (q_seed s)) (nseq (q_skip s) count)).
End QR.

(* ---------- eagle: insertion-ordered pool as a JSON object *)
Section Pool.
  Variable Fly : Type.
  Definition pool := list (N * Fly).                (* dict in insertion order *)
  Definition jobj := list (str * Fly).              (* JSON object in document order *)
  Fixpoint insert_sorted (kv : N * Fly) (l : pool) : pool :=
    match l with
    | [] => [kv]
    | h :: t => if N.leb (fst kv) (fst h) then kv :: l else h :: insert_sorted kv t
    end.
  Definition sort_pool (l : pool) : pool := fold_right insert_sorted [] l.
  (* json.dumps(pool [, sort_keys=True]) *)
  Definition pool_dump (sort_keys : bool) (p : pool) : jobj :=
    map (fun kv => (py_str_int (Z.of_N (fst kv)), snd kv)) (if sort_keys then sort_pool p else p).
  (* for id_, fly in obj['_pool'].items(): restored[int(id_)] = fly *)
  Fixpoint pool_load (j : jobj) : option pool :=
    match j with
    | [] => Some []
    | (k, f) :: r =>
      match py_int k, pool_load r with
      | Some z, Some p => if Z.ltb z 0 then None else Some ((Z.to_N z, f) :: p)
      | _, _ => None
      end
    end.
End Pool.
Arguments pool_dump {Fly}.
Arguments pool_load {Fly}.
Arguments sort_pool {Fly}.

(* ---------- evolutionary template *)
Section Evo.
  Variable Pop Trial : Type.
  Variable select : Pop -> list Trial -> Pop.         (* survival.select(population + to_population(completed)) *)
  Record evo_st := { e_pop : Pop; e_seen : N }.
  Inductive phase := Sampling | Evolving.
  Definition evo_phase (first_survival_after : N) (s : evo_st) : phase :=
    if N.ltb (e_seen s) first_survival_after then Sampling else Evolving.
  (* one round: suggest (observed: phase, population, counter), then update with the completed trials *)
  Definition evo_step (fsa : N) (s : evo_st) (completed : list Trial) : evo_st * (phase * Pop * N) :=
    ({| e_pop := select (e_pop s) completed; e_seen := e_seen s + N.of_nat (length completed) |},
     (evo_phase fsa s, e_pop s, e_seen s)).
  (* dump with / without the counter (without = the code before the repair) *)
  Definition evo_dump (with_counter : bool) (s : evo_st) : Pop * option str :=
    (e_pop s, if with_counter then Some (py_str_int (Z.of_N (e_seen s))) else None).
  Definition evo_load (m : Pop * option str) : option evo_st :=
    match snd m with
    | None => Some {| e_pop := fst m; e_seen := 0 |}          (* fresh instance keeps its own counter: 0 *)
    | Some c => match py_int c with
                | Some z => if Z.ltb z 0 then None else Some {| e_pop := fst m; e_seen := Z.to_N z |}
                | None => None
                end
    end.
End Evo.
Arguments e_pop {Pop}.
Arguments e_seen {Pop}.
Arguments evo_step {Pop Trial}.
Arguments evo_dump {Pop}.
Arguments evo_load {Pop}.
Arguments evo_phase {Pop}.

(* ---------- CMA-ES: optimiser state + queue of rows of the partially evaluated population *)
Section Cma.
  Variable Opt Row : Type.
  Variable tell : Opt -> list Row -> Opt.
  Variable ask : Opt -> nat -> Opt * list Row.
  Record cma_st := { c_opt : Opt; c_queue : list Row }.
  (* update: rows are queued one by one; a full queue is told and cleared *)
  Fixpoint cma_update (pop_size : nat) (o : Opt) (q : list Row) (rows : list Row) : cma_st :=
    match rows with
    | [] => {| c_opt := o; c_queue := q |}
    | r :: rest =>
      let q' := q ++ [r] in
      if Nat.leb pop_size (length q') then cma_update pop_size (tell o q') [] rest
      else cma_update pop_size o q' rest
    end.
  Definition cma_step (pop_size : nat) (s : cma_st) (i : nat * list Row) : cma_st * list Row :=
    let (o1, sugg) := ask (c_opt s) (fst i) in
    (cma_update pop_size o1 (c_queue s) (snd i), sugg).
  Definition cma_dump (with_queue : bool) (s : cma_st) : Opt * option (list Row) :=
    (c_opt s, if with_queue then Some (c_queue s) else None).
  Definition cma_load (m : Opt * option (list Row)) : option cma_st :=
    Some {| c_opt := fst m; c_queue := match snd m with Some q => q | None => [] end |}.
End Cma.
Arguments c_opt {Opt Row}.
Arguments c_queue {Opt Row}.
Arguments cma_step {Opt Row}.
Arguments cma_dump {Opt Row}.
Arguments cma_load {Opt Row}.

(* ---------- nested-list form of arrays in the JSON dumps (NumpyEncoder: value = tolist(), shape) *)
Section Arrays.
  Variable A : Type.
  Fixpoint chunks (w : nat) (rows : nat) (l : list A) : list (list A) :=
    match rows with O => [] | S r => firstn w l :: chunks w r (skipn w l) end.
  (* np.array(value).reshape(shape) of a 2-d array = concatenation of the rows *)
  Definition unchunks (ll : list (list A)) : list A := concat ll.
End Arrays.
Arguments chunks {A}.
Arguments unchunks {A}.

(* ---------- comparing the attribute / key lists produced by the translator *)
Definition mem_str (x : str) (l : list str) : bool := existsb (str_eqb x) l.
Definition subset_str (a b : list str) : bool := forallb (fun x => mem_str x b) a.
