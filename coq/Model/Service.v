(* Model of the Vizier service:
     vizier/_src/service/vizier_service.py   (VizierServicer handlers, as `prog` trees)
     vizier/_src/service/ram_datastore.py / sql_datastore.py  (the DataStore primitives, `exec`)
     vizier/_src/service/grpc_util.py        (handle_exception: abort with the mapped status)
   Executable definitions only.  Names (owners, studies, clients, metrics, parameters) are atoms (N);
   timestamps, messages and resource-name strings are not modelled. *)
From VZ Require Export Base.Prelude Base.XFloat Model.Metadata.

Inductive tstate := REQUESTED | ACTIVE | STOPPING | SUCCEEDED | INFEASIBLE.
Inductive sstate := SS_UNSPEC | SS_ACTIVE | SS_INACTIVE | SS_COMPLETED.
Definition meas := list (N * xf).

Record trial := mkT { t_id : N; t_state : tstate; t_client : N; t_params : N;
                      t_meas : list meas; t_final : meas; t_md : list kv }.
Record study := mkS { s_state : sstate; s_metrics : list (N * bool); s_md : list kv }.
Record sop := mkOp { o_client : N; o_num : N; o_done : bool; o_err : bool; o_trials : list trial }.
Record esop := mkEs { e_trial : N; e_active : bool; e_stop : bool }.
Record node := mkN { n_study : study; n_trials : list trial; n_ops : list sop; n_es : list esop }.
Definition skey := (N * N)%type.          (* owner, study id (= display name) *)
Record state := mkSt { owners : list N; nodes : list (skey * node) }.
Definition init_state : state := mkSt [] [].

Definition tstate_eqb (a b : tstate) : bool :=
  match a, b with
  | REQUESTED, REQUESTED | ACTIVE, ACTIVE | STOPPING, STOPPING | SUCCEEDED, SUCCEEDED | INFEASIBLE, INFEASIBLE => true
  | _, _ => false
  end.
Definition sstate_eqb (a b : sstate) : bool :=
  match a, b with
  | SS_UNSPEC, SS_UNSPEC | SS_ACTIVE, SS_ACTIVE | SS_INACTIVE, SS_INACTIVE | SS_COMPLETED, SS_COMPLETED => true
  | _, _ => false
  end.
Definition skey_eqb (a b : skey) : bool := N.eqb (fst a) (fst b) && N.eqb (snd a) (snd b).

(* ------------------------------------------------------------------ datastore state access *)
Fixpoint get_node (k : skey) (l : list (skey * node)) : option node :=
  match l with
  | [] => None
  | (k', n) :: t => if skey_eqb k' k then Some n else get_node k t
  end.
Fixpoint set_node (k : skey) (n : node) (l : list (skey * node)) : list (skey * node) :=
  match l with
  | [] => []
  | (k', n') :: t => if skey_eqb k' k then (k', n) :: t else (k', n') :: set_node k n t
  end.
Fixpoint del_node (k : skey) (l : list (skey * node)) : list (skey * node) :=
  match l with
  | [] => []
  | (k', n') :: t => if skey_eqb k' k then t else (k', n') :: del_node k t
  end.
Fixpoint get_trial (id : N) (l : list trial) : option trial :=
  match l with
  | [] => None
  | t :: r => if N.eqb (t_id t) id then Some t else get_trial id r
  end.
Fixpoint set_trial (t : trial) (l : list trial) : list trial :=
  match l with
  | [] => []
  | t' :: r => if N.eqb (t_id t') (t_id t) then t :: r else t' :: set_trial t r
  end.
Fixpoint del_trial (id : N) (l : list trial) : list trial :=
  match l with
  | [] => []
  | t' :: r => if N.eqb (t_id t') id then r else t' :: del_trial id r
  end.
Definition max_id (l : list trial) : N := fold_left (fun m t => N.max m (t_id t)) l 0%N.
Definition op_is (c n : N) (o : sop) : bool := N.eqb (o_client o) c && N.eqb (o_num o) n.
Fixpoint set_op (o : sop) (l : list sop) : list sop :=
  match l with
  | [] => []
  | o' :: r => if op_is (o_client o) (o_num o) o' then o :: r else o' :: set_op o r
  end.
Fixpoint set_es (e : esop) (l : list esop) : list esop :=
  match l with
  | [] => []
  | e' :: r => if N.eqb (e_trial e') (e_trial e) then e :: r else e' :: set_es e r
  end.
Definition mem_N (x : N) (l : list N) : bool := existsb (N.eqb x) l.

(* ------------------------------------------------------------------ datastore primitives *)
Inductive call :=
| CLoadStudy (k : skey) | CCreateStudy (k : skey) (s : study) | CUpdateStudy (k : skey) (s : study)
| CDeleteStudy (k : skey) | CListStudies (o : N)
| CCreateTrial (k : skey) (t : trial) | CGetTrial (k : skey) (id : N) | CUpdateTrial (k : skey) (t : trial)
| CListTrials (k : skey) | CDeleteTrial (k : skey) (id : N) | CMaxTrialId (k : skey)
| CCreateSop (k : skey) (o : sop) | CGetSop (k : skey) (c n : N) | CUpdateSop (k : skey) (o : sop)
| CListSops (k : skey) (c : N) | CMaxSopNum (k : skey) (c : N)
| CCreateEs (k : skey) (e : esop) | CGetEs (k : skey) (id : N) | CUpdateEs (k : skey) (e : esop)
| CUpdateMd (k : skey) (smd : list kv) (tmd : list (N * kv)).

Inductive rsp :=
| RUnit | RStudy (s : study) | RStudies (l : list (skey * study)) | RTrial (t : trial) | RTrials (l : list trial)
| RNum (n : N) | RSop (o : sop) | RSops (l : list sop) | REs (e : esop).

Definition upd (s : state) (k : skey) (n : node) : state := mkSt (owners s) (set_node k n (nodes s)).

Definition exec (c : call) (s : state) : state * res rsp :=
  match c with
  | CLoadStudy k =>
    match get_node k (nodes s) with Some n => (s, Ok (RStudy (n_study n))) | None => (s, Err ENotFound) end
  | CCreateStudy k st =>
    match get_node k (nodes s) with
    | Some _ => (s, Err EAlreadyExists)
    | None => (mkSt (if mem_N (fst k) (owners s) then owners s else owners s ++ [fst k])
                    (nodes s ++ [(k, mkN st [] [] [])]), Ok RUnit)
    end
  | CUpdateStudy k st =>
    match get_node k (nodes s) with
    | Some n => (upd s k (mkN st (n_trials n) (n_ops n) (n_es n)), Ok RUnit)
    | None => (s, Err ENotFound)
    end
  | CDeleteStudy k =>
    match get_node k (nodes s) with
    | Some _ => (mkSt (owners s) (del_node k (nodes s)), Ok RUnit)
    | None => (s, Err ENotFound)
    end
  | CListStudies o =>
    if mem_N o (owners s)
    then (s, Ok (RStudies (map (fun kn => (fst kn, n_study (snd kn))) (filter (fun kn => N.eqb (fst (fst kn)) o) (nodes s)))))
    else (s, Err ENotFound)
  | CCreateTrial k t =>
    match get_node k (nodes s) with
    | None => (s, Err EKey)
    | Some n =>
      match get_trial (t_id t) (n_trials n) with
      | Some _ => (s, Err EAlreadyExists)
      | None => (upd s k (mkN (n_study n) (n_trials n ++ [t]) (n_ops n) (n_es n)), Ok RUnit)
      end
    end
  | CGetTrial k id =>
    match get_node k (nodes s) with
    | None => (s, Err ENotFound)
    | Some n => match get_trial id (n_trials n) with Some t => (s, Ok (RTrial t)) | None => (s, Err ENotFound) end
    end
  | CUpdateTrial k t =>
    match get_node k (nodes s) with
    | None => (s, Err ENotFound)
    | Some n =>
      match get_trial (t_id t) (n_trials n) with
      | None => (s, Err ENotFound)
      | Some _ => (upd s k (mkN (n_study n) (set_trial t (n_trials n)) (n_ops n) (n_es n)), Ok RUnit)
      end
    end
  | CListTrials k =>
    match get_node k (nodes s) with Some n => (s, Ok (RTrials (n_trials n))) | None => (s, Err ENotFound) end
  | CDeleteTrial k id =>
    match get_node k (nodes s) with
    | None => (s, Err ENotFound)
    | Some n =>
      match get_trial id (n_trials n) with
      | None => (s, Err ENotFound)
      | Some _ => (upd s k (mkN (n_study n) (del_trial id (n_trials n)) (n_ops n) (n_es n)), Ok RUnit)
      end
    end
  | CMaxTrialId k =>
    match get_node k (nodes s) with Some n => (s, Ok (RNum (max_id (n_trials n)))) | None => (s, Err ENotFound) end
  | CCreateSop k o =>
    match get_node k (nodes s) with
    | None => (s, Err EKey)
    | Some n =>
      if existsb (op_is (o_client o) (o_num o)) (n_ops n) then (s, Err EAlreadyExists)
      else (upd s k (mkN (n_study n) (n_trials n) (n_ops n ++ [o]) (n_es n)), Ok RUnit)
    end
  | CGetSop k c num =>
    match get_node k (nodes s) with
    | None => (s, Err ENotFound)
    | Some n => match find (op_is c num) (n_ops n) with Some o => (s, Ok (RSop o)) | None => (s, Err ENotFound) end
    end
  | CUpdateSop k o =>
    match get_node k (nodes s) with
    | None => (s, Err ENotFound)
    | Some n =>
      if existsb (op_is (o_client o) (o_num o)) (n_ops n)
      then (upd s k (mkN (n_study n) (n_trials n) (set_op o (n_ops n)) (n_es n)), Ok RUnit)
      else (s, Err ENotFound)
    end
  | CListSops k c =>
    match get_node k (nodes s) with
    | None => (s, Err ENotFound)
    | Some n =>
      match filter (fun o => N.eqb (o_client o) c) (n_ops n) with
      | [] => (s, Err ENotFound)
      | l => (s, Ok (RSops l))
      end
    end
  | CMaxSopNum k c =>
    match get_node k (nodes s) with
    | None => (s, Err ENotFound)
    | Some n =>
      match filter (fun o => N.eqb (o_client o) c) (n_ops n) with
      | [] => (s, Err ENotFound)
      | l => (s, Ok (RNum (N.of_nat (length l))))
      end
    end
  | CCreateEs k e =>
    match get_node k (nodes s) with
    | None => (s, Err EKey)
    | Some n =>
      if existsb (fun e' => N.eqb (e_trial e') (e_trial e)) (n_es n) then (s, Err EAlreadyExists)
      else (upd s k (mkN (n_study n) (n_trials n) (n_ops n) (n_es n ++ [e])), Ok RUnit)
    end
  | CGetEs k id =>
    match get_node k (nodes s) with
    | None => (s, Err ENotFound)
    | Some n => match find (fun e => N.eqb (e_trial e) id) (n_es n) with Some e => (s, Ok (REs e)) | None => (s, Err ENotFound) end
    end
  | CUpdateEs k e =>
    match get_node k (nodes s) with
    | None => (s, Err ENotFound)
    | Some n =>
      if existsb (fun e' => N.eqb (e_trial e') (e_trial e)) (n_es n)
      then (upd s k (mkN (n_study n) (n_trials n) (n_ops n) (set_es e (n_es n))), Ok RUnit)
      else (s, Err ENotFound)
    end
  | CUpdateMd k smd tmd =>
    match get_node k (nodes s) with
    | None => (s, Err ENotFound)
    | Some n =>
      if forallb (fun u => match get_trial (fst u) (n_trials n) with Some _ => true | None => false end) tmd
      then
        let st := n_study n in
        let st' := mkS (s_state st) (s_metrics st) (merge (s_md st) smd) in
        let touched := map fst tmd in
        let trials' := map (fun t => if mem_N (t_id t) touched
                                     then mkT (t_id t) (t_state t) (t_client t) (t_params t) (t_meas t) (t_final t)
                                              (merge_trial (t_id t) (t_md t) tmd)
                                     else t) (n_trials n) in
        (upd s k (mkN st' trials' (n_ops n) (n_es n)), Ok RUnit)
      else (s, Err ENotFound)
    end
  end.

(* ------------------------------------------------------------------ handler programs *)
Inductive lockid := LOwner (o : N) | LStudy (k : skey) | LOp (k : skey).

Inductive pythia_req := PSuggest (k : skey) (count : nat) | PEarlyStop (k : skey) (id : N).
Inductive pythia_out :=
| PDeliver (params : list N) (smd : list kv) (tmd : list (N * kv))
| PDecide (decisions : list (N * bool)) (smd : list kv) (tmd : list (N * kv))
| PFail (e : errclass).

Inductive reply :=
| RpStudy (k : skey) (s : study) | RpStudies (l : list (skey * study)) | RpTrial (t : trial) | RpTrials (l : list trial)
| RpOp (o : sop) | RpEmpty | RpStop (b : bool) | RpMdError.

Inductive prog :=
| Ret (r : reply)
| Throw (e : errclass)
| Call (c : call) (k : res rsp -> prog)
| Acquire (l : lockid) (k : prog)
| Release (l : lockid) (k : prog)
| Pythia (q : pythia_req) (k : pythia_out -> prog).

(* _study_is_immutable(study) followed by handle_exception(ImmutableStudyError) *)
Definition immutable (st : study) : bool :=
  negb (sstate_eqb (s_state st) SS_ACTIVE || sstate_eqb (s_state st) SS_UNSPEC).
Definition guard_study (k : skey) (body : prog) : prog :=
  Call (CLoadStudy k) (fun r => match r with
    | Ok (RStudy st) => if immutable st then Throw EImmutableStudy else body
    | Ok _ => Throw EOther | Err e => Throw e end).
Definition trial_mutable (t : trial) : bool := tstate_eqb (t_state t) ACTIVE || tstate_eqb (t_state t) STOPPING.

Definition with_trial (k : skey) (id : N) (body : trial -> prog) : prog :=
  Call (CGetTrial k id) (fun r => match r with
    | Ok (RTrial t) => body t | Ok _ => Throw EOther | Err e => Throw e end).
Definition expect_unit (r : res rsp) (body : prog) : prog :=
  match r with Ok _ => body | Err e => Throw e end.

Definition set_state (t : trial) (st : tstate) : trial :=
  mkT (t_id t) st (t_client t) (t_params t) (t_meas t) (t_final t) (t_md t).

Definition h_create_study (o sid : N) (named : bool) (st : study) : prog :=
  if named then Throw EValue
  else if N.eqb sid 0 then Throw EValue
  else Acquire (LOwner o)
    (Call (CListStudies o) (fun r =>
      match r with
      | Err ENotFound | Ok (RStudies _) =>
        let cands := match r with Ok (RStudies l) => l | _ => [] end in
        match find (fun ks => N.eqb (snd (fst ks)) sid) cands with
        | Some (k, s) => Release (LOwner o) (Ret (RpStudy k s))
        | None => Call (CCreateStudy (o, sid) st) (fun r2 =>
                    expect_unit r2 (Release (LOwner o) (Ret (RpStudy (o, sid) st))))
        end
      | Ok _ => Throw EOther
      | Err e => Throw e
      end)).

Definition h_get_study (k : skey) : prog :=
  Call (CLoadStudy k) (fun r => match r with Ok (RStudy s) => Ret (RpStudy k s) | Ok _ => Throw EOther | Err e => Throw e end).
Definition h_list_studies (o : N) : prog :=
  Call (CListStudies o) (fun r => match r with Ok (RStudies l) => Ret (RpStudies l) | Ok _ => Throw EOther | Err e => Throw e end).
Definition h_delete_study (k : skey) : prog :=
  Call (CDeleteStudy k) (fun r => expect_unit r (Ret RpEmpty)).
Definition h_set_study_state (k : skey) (ns : sstate) : prog :=
  Acquire (LStudy k)
    (Call (CLoadStudy k) (fun r => match r with
      | Ok (RStudy st) =>
        let st' := mkS ns (s_metrics st) (s_md st) in
        Call (CUpdateStudy k st') (fun r2 => expect_unit r2 (Release (LStudy k) (Ret (RpStudy k st'))))
      | Ok _ => Throw EOther | Err e => Throw e end)).

Definition h_create_trial (k : skey) (t : trial) : prog :=
  guard_study k
    (Acquire (LStudy k)
      (Call (CMaxTrialId k) (fun r => match r with
        | Ok (RNum m) =>
          let st := if tstate_eqb (t_state t) SUCCEEDED then SUCCEEDED else REQUESTED in
          let t' := mkT (m + 1) st 0 (t_params t) (t_meas t) (t_final t) (t_md t) in
          Call (CCreateTrial k t') (fun r2 => expect_unit r2 (Release (LStudy k) (Ret (RpTrial t'))))
        | Ok _ => Throw EOther | Err e => Throw e end))).

Definition h_get_trial (k : skey) (id : N) : prog := with_trial k id (fun t => Ret (RpTrial t)).
Definition h_list_trials (k : skey) : prog :=
  Call (CListTrials k) (fun r => match r with Ok (RTrials l) => Ret (RpTrials l) | Ok _ => Throw EOther | Err e => Throw e end).

Definition h_add_measurement (k : skey) (id : N) (m : meas) : prog :=
  guard_study k
    (Acquire (LStudy k)
      (with_trial k id (fun t =>
        if tstate_eqb (t_state t) INFEASIBLE then Release (LStudy k) (Ret (RpTrial t))
        else if negb (trial_mutable t) then Throw EImmutableTrial
        else
          let t' := mkT (t_id t) (t_state t) (t_client t) (t_params t) (t_meas t ++ [m]) (t_final t) (t_md t) in
          Call (CUpdateTrial k t') (fun r => expect_unit r (Release (LStudy k) (Ret (RpTrial t'))))))).

Definition h_complete_trial (k : skey) (id : N) (final : meas) (infeasible : bool) : prog :=
  guard_study k
    (Acquire (LStudy k)
      (with_trial k id (fun t =>
        if negb (trial_mutable t) then Throw EImmutableTrial
        else
          match final, infeasible, t_meas t with
          | [], false, [] => Throw EValue
          | _, _, _ =>
            let fin := match final with
                       | _ :: _ => final
                       | [] => if infeasible then t_final t else last (t_meas t) [] end in
            let st := if infeasible then INFEASIBLE else SUCCEEDED in
            let t' := mkT (t_id t) st (t_client t) (t_params t) (t_meas t) fin (t_md t) in
            Call (CUpdateTrial k t') (fun r => expect_unit r (Release (LStudy k) (Ret (RpTrial t'))))
          end))).

Definition h_stop_trial (k : skey) (id : N) : prog :=
  guard_study k
    (Acquire (LStudy k)
      (with_trial k id (fun t =>
        match t_state t with
        | ACTIVE => let t' := set_state t STOPPING in
                    Call (CUpdateTrial k t') (fun r => expect_unit r (Release (LStudy k) (Ret (RpTrial t'))))
        | STOPPING | SUCCEEDED => Release (LStudy k) (Ret (RpTrial t))
        | _ => Throw EImmutableTrial
        end))).

Definition h_delete_trial (k : skey) (id : N) : prog :=
  guard_study k (Acquire (LStudy k) (Call (CDeleteTrial k id) (fun r => expect_unit r (Release (LStudy k) (Ret RpEmpty))))).

Definition h_update_metadata (k : skey) (smd : list kv) (tmd : list (N * kv)) : prog :=
  guard_study k
    (Acquire (LStudy k)
      (Call (CUpdateMd k smd tmd) (fun r => match r with
        | Ok _ => Release (LStudy k) (Ret RpEmpty)
        | Err ENotFound | Err EKey => Release (LStudy k) (Ret RpMdError)     (* except KeyError: error_details *)
        | Err e => Throw e end))).

Definition h_get_operation (k : skey) (c n : N) : prog :=
  Call (CGetSop k c n) (fun r => match r with Ok (RSop o) => Ret (RpOp o) | Ok _ => Throw EOther | Err e => Throw e end).

(* ListOptimalTrials *)
Definition metric_value (m : meas) (id : N) : option xf :=
  option_map snd (find (fun p => N.eqb (fst p) id) (rev m)).   (* dict built left to right: last wins *)
(* a trial is considered when it SUCCEEDED, reports every configured metric, and none of them is NaN (a NaN objective is
   incomparable: it would never be dominated) *)
Definition objective_vector (metrics : list (N * bool)) (t : trial) : option (list xf) :=
  if tstate_eqb (t_state t) SUCCEEDED then
    match fold_right (fun (mg : N * bool) (acc : option (list xf)) =>
                  match acc, metric_value (t_final t) (fst mg) with
                  | Some l, Some v => Some ((if snd mg then v else xneg v) :: l)
                  | _, _ => None end) (Some []) metrics with
    | Some l => if existsb is_nan l then None else Some l
    | None => None
    end
  else None.
Definition dominated_by' (yi yj : list xf) : bool := all2 xle yi yj && any2 xgt yj yi.
Definition optimal_trials (metrics : list (N * bool)) (trials : list trial) : list trial :=
  let considered := flat_map (fun t => match objective_vector metrics t with Some v => [(t, v)] | None => [] end) trials in
  map fst (filter (fun tv => negb (existsb (fun tv' => dominated_by' (snd tv) (snd tv')) considered)) considered).
Definition h_list_optimal (k : skey) : prog :=
  Call (CListTrials k) (fun r => match r with
    | Ok (RTrials []) => Ret (RpTrials [])
    | Ok (RTrials l) =>
      Call (CLoadStudy k) (fun r2 => match r2 with
        | Ok (RStudy st) => Ret (RpTrials (optimal_trials (s_metrics st) l))
        | Ok _ => Throw EOther | Err e => Throw e end)
    | Ok _ => Throw EOther | Err e => Throw e end).

(* SuggestTrials *)
Definition finish_op (k : skey) (o : sop) (err : bool) (out : list trial) : prog :=
  let o' := mkOp (o_client o) (o_num o) true err out in
  Call (CUpdateSop k o') (fun r => expect_unit r (Release (LOp k) (Ret (RpOp o')))).

(* while requested_trials and count > len(output): pop from the END of the pool *)
Fixpoint assign_loop (k : skey) (c : N) (pool_rev : list trial) (need : nat) (out : list trial)
         (cont : list trial -> prog) : prog :=
  match need, pool_rev with
  | S need', t :: rest =>
    let t' := mkT (t_id t) ACTIVE c (t_params t) (t_meas t) (t_final t) (t_md t) in
    Call (CUpdateTrial k t') (fun r => expect_unit r (assign_loop k c rest need' (out ++ [t']) cont))
  | _, _ => cont out
  end.

(* while count > len(output) [and new_trials]: new_trial = new_trials.pop() ...   (sugs_rev = reversed suggestions) *)
Fixpoint create_loop (k : skey) (c : N) (sugs_rev : list N) (need : nat) (out : list trial)
         (cont : list N -> list trial -> prog) : prog :=
  match need, sugs_rev with
  | S need', p :: rest =>
    Call (CMaxTrialId k) (fun r => match r with
      | Ok (RNum m) =>
        let t := mkT (m + 1) ACTIVE c p [] [] [] in
        Call (CCreateTrial k t) (fun r2 => expect_unit r2 (create_loop k c rest need' (out ++ [t]) cont))
      | Ok _ => Throw EOther | Err e => Throw e end)
  | _, _ => cont sugs_rev out
  end.

(* for remain_trial in new_trials: stored REQUESTED (front to back of what is left) *)
Fixpoint remain_loop (k : skey) (remaining : list N) (cont : prog) : prog :=
  match remaining with
  | [] => cont
  | p :: rest =>
    Call (CMaxTrialId k) (fun r => match r with
      | Ok (RNum m) =>
        let t := mkT (m + 1) REQUESTED 0 p [] [] [] in
        Call (CCreateTrial k t) (fun r2 => expect_unit r2 (remain_loop k rest cont))
      | Ok _ => Throw EOther | Err e => Throw e end)
  end.

Definition h_suggest (k : skey) (c : N) (count : nat) : prog :=
  guard_study k
   (Acquire (LOp k)
    (Call (CLoadStudy k) (fun r0 => match r0 with
     | Err e => Throw e
     | Ok _ =>
      Call (CListSops k c) (fun r1 =>
       match r1 with
       | Err ENotFound | Ok (RSops _) =>
        let active := match r1 with Ok (RSops l) => filter (fun o => negb (o_done o)) l | _ => [] end in
        match active with
        | o :: _ => Release (LOp k) (Ret (RpOp o))
        | [] =>
         Call (CMaxSopNum k c) (fun r2 =>
          match r2 with
          | Err ENotFound | Ok (RNum _) =>
           let old := match r2 with Ok (RNum n) => n | _ => 0%N end in
           let o := mkOp c (old + 1) false false [] in
           Call (CCreateSop k o) (fun r3 => expect_unit r3
            (Call (CListTrials k) (fun r4 => match r4 with
             | Ok (RTrials all) =>
               let mine := filter (fun t => tstate_eqb (t_state t) ACTIVE && N.eqb (t_client t) c) all in
               if Nat.leb count (length mine) then finish_op k o false (firstn count mine)
               else
                Acquire (LStudy k) (Call (CListTrials k) (fun r4' => match r4' with
                | Ok (RTrials all') =>
                 let pool := filter (fun t => tstate_eqb (t_state t) REQUESTED) all' in
                 assign_loop k c (rev pool) (count - length mine) mine (fun out => Release (LStudy k) (
                   if Nat.eqb (length out) count then finish_op k o false out
                   else
                     Call (CMaxTrialId k) (fun r5 => match r5 with
                      | Err e => Throw e
                      | Ok _ =>
                        Pythia (PSuggest k (count - length out)) (fun po =>
                          match po with
                          | PDeliver sugs smd tmd =>
                            Acquire (LStudy k) (Call (CUpdateMd k smd tmd) (fun r6 => match r6 with
                              | Err ENotFound | Err EKey => Release (LStudy k) (finish_op k o true [])  (* the exception left the with block *)
                              | Err e => Throw e
                              | Ok _ => Release (LStudy k) (Acquire (LStudy k) (
                                create_loop k c (rev sugs) (count - length out) out (fun left_rev out' =>
                                  remain_loop k (rev left_rev) (Release (LStudy k) (finish_op k o false out')))))
                              end))
                          | PFail _ => finish_op k o true []
                          | PDecide _ _ _ => Throw EOther
                          end)
                      end)))
                | Ok _ => Throw EOther | Err e => Throw e end))
             | Ok _ => Throw EOther | Err e => Throw e end)))
          | Ok _ => Throw EOther
          | Err e => Throw e
          end)
        end
       | Ok _ => Throw EOther
       | Err e => Throw e
       end)
     end))).

(* CheckTrialEarlyStoppingState; recycle = (utcnow - completion_time >= early_stop_recycle_period) *)
Fixpoint decisions_loop (k : skey) (ds : list (N * bool)) (cont : prog) : prog :=
  match ds with
  | [] => cont
  | (id, stop) :: rest =>
    Call (CGetEs k id) (fun r => match r with
      | Ok (REs _) =>
        Call (CUpdateEs k (mkEs id false stop)) (fun r2 => expect_unit r2 (decisions_loop k rest cont))
      | Err ENotFound | Err EKey =>
        Call (CCreateEs k (mkEs id true false)) (fun r1 => expect_unit r1
          (Call (CUpdateEs k (mkEs id false stop)) (fun r2 => expect_unit r2 (decisions_loop k rest cont))))
      | Ok _ => Throw EOther
      | Err e => Throw e end)
  end.

Definition es_compute (k : skey) (id : N) : prog :=
  Call (CLoadStudy k) (fun r => match r with
   | Err e => Throw e
   | Ok _ =>
    Call (CMaxTrialId k) (fun r1 => match r1 with
     | Err e => Throw e
     | Ok _ =>
      Pythia (PEarlyStop k id) (fun po => match po with
        | PDecide ds smd tmd =>
          Acquire (LStudy k) (Call (CUpdateMd k smd tmd) (fun r2 => match r2 with
            | Err ENotFound | Err EKey =>        (* metadata that cannot be stored: finish the operation, report the error *)
              Release (LStudy k) (Call (CUpdateEs k (mkEs id false false)) (fun r4 => expect_unit r4
                (Throw (match r2 with Err e => e | Ok _ => EOther end))))
            | Err e => Throw e
            | Ok _ => Release (LStudy k) (
              decisions_loop k ds
                (Call (CGetEs k id) (fun r3 => match r3 with
                   | Ok (REs e) =>
                     if e_active e
                     then Call (CUpdateEs k (mkEs id false (e_stop e))) (fun r4 => expect_unit r4
                            (Release (LOp k) (Ret (RpStop (e_stop e)))))
                     else Release (LOp k) (Ret (RpStop (e_stop e)))
                   | Ok _ => Throw EOther | Err e => Throw e end)))
            end))
        | PFail e => Call (CUpdateEs k (mkEs id false false)) (fun r2 => expect_unit r2 (Throw e))
        | PDeliver _ _ _ => Throw EOther
        end)
     end)
   end).

Definition h_check_early_stop (recycle : bool) (k : skey) (id : N) : prog :=
  guard_study k
   (Acquire (LStudy k)
    (with_trial k id (fun t =>
      if negb (trial_mutable t) then Throw EImmutableTrial
      else Release (LStudy k)
       (Acquire (LOp k)
        (Call (CGetEs k id) (fun r => match r with
          | Err ENotFound | Err EKey =>
            Call (CCreateEs k (mkEs id true false)) (fun r1 => expect_unit r1 (es_compute k id))
          | Ok (REs e) =>
            if e_active e || negb recycle then Release (LOp k) (Ret (RpStop (e_stop e)))
            else Call (CUpdateEs k (mkEs id true false)) (fun r1 => expect_unit r1 (es_compute k id))
          | Ok _ => Throw EOther
          | Err e => Throw e
          end)))))).

(* ------------------------------------------------------------------ RPCs and the sequential interpreter *)
Inductive rpc :=
| CreateStudy (o sid : N) (named : bool) (st : study)
| GetStudy (k : skey) | ListStudies (o : N) | DeleteStudy (k : skey) | SetStudyState (k : skey) (s : sstate)
| CreateTrial (k : skey) (t : trial) | SuggestTrials (k : skey) (c : N) (count : nat)
| GetTrial (k : skey) (id : N) | ListTrials (k : skey)
| AddTrialMeasurement (k : skey) (id : N) (m : meas)
| CompleteTrial (k : skey) (id : N) (final : meas) (infeasible : bool)
| StopTrial (k : skey) (id : N) | DeleteTrial (k : skey) (id : N)
| CheckEarlyStop (recycle : bool) (k : skey) (id : N)
| UpdateMetadata (k : skey) (smd : list kv) (tmd : list (N * kv))
| ListOptimalTrials (k : skey) | GetOperation (k : skey) (c n : N).

Definition handler (r : rpc) : prog :=
  match r with
  | CreateStudy o sid named st => h_create_study o sid named st
  | GetStudy k => h_get_study k
  | ListStudies o => h_list_studies o
  | DeleteStudy k => h_delete_study k
  | SetStudyState k s => h_set_study_state k s
  | CreateTrial k t => h_create_trial k t
  | SuggestTrials k c n => h_suggest k c n
  | GetTrial k id => h_get_trial k id
  | ListTrials k => h_list_trials k
  | AddTrialMeasurement k id m => h_add_measurement k id m
  | CompleteTrial k id f i => h_complete_trial k id f i
  | StopTrial k id => h_stop_trial k id
  | DeleteTrial k id => h_delete_trial k id
  | CheckEarlyStop rc k id => h_check_early_stop rc k id
  | UpdateMetadata k smd tmd => h_update_metadata k smd tmd
  | ListOptimalTrials k => h_list_optimal k
  | GetOperation k c n => h_get_operation k c n
  end.

Inductive outcome := Done (r : reply) | Failed (e : errclass).

(* trace of datastore calls: (call, was the result an error?) *)
Fixpoint run (p : prog) (s : state) (oracle : pythia_out) (tr : list (call * option errclass))
  : state * outcome * list (call * option errclass) :=
  match p with
  | Ret r => (s, Done r, rev tr)
  | Throw e => (s, Failed e, rev tr)
  | Call c k => let '(s', r) := exec c s in
                run (k r) s' oracle ((c, match r with Ok _ => None | Err e => Some e end) :: tr)
  | Acquire _ k | Release _ k => run k s oracle tr
  | Pythia _ k => run (k oracle) s oracle tr
  end.

Definition step (s : state) (ro : rpc * pythia_out) : state * outcome :=
  let '(s', o, _) := run (handler (fst ro)) s (snd ro) [] in (s', o).
Definition step_state (s : state) (ro : rpc * pythia_out) : state := fst (step s ro).
Definition run_all (ops : list (rpc * pythia_out)) (s : state) : state := fold_left step_state ops s.
Fixpoint run_outcomes (ops : list (rpc * pythia_out)) (s : state) : list outcome :=
  match ops with
  | [] => []
  | ro :: rest => let '(s', o) := step s ro in o :: run_outcomes rest s'
  end.
