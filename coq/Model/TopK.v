(* The best-results bookkeeping of VectorizedOptimizer (vizier/_src/algorithms/optimizers/vectorized_base.py).
   Every step scores a batch and keeps the `count` best of (batch ++ best so far); rewards enter only through their order, so
   a reward is represented by an integer key (the harness maps observed rewards to their dense ranks, -inf / NaN lowest).
   jnp.argpartition leaves the order among the kept items and the choice among equal rewards unspecified; the model keeps
   them sorted and stable, and the correspondence compares multisets of rewards.  Executable definitions only. *)
From VZ Require Export Base.Prelude.

Definition item := (list Z * Z)%type.          (* feature row, reward key *)

Fixpoint insert_k (x : Z) (l : list Z) : list Z :=
  match l with [] => [x] | y :: r => if Z.leb y x then x :: l else y :: insert_k x r end.
Definition sort_k (l : list Z) : list Z := fold_right insert_k [] l.

Fixpoint insert_i (x : item) (l : list item) : list item :=
  match l with [] => [x] | y :: r => if Z.leb (snd y) (snd x) then x :: l else y :: insert_i x r end.
Definition sort_i (l : list item) : list item := fold_right insert_i [] l.

(* _update_best_results *)
Definition step_k (k : nat) (best batch : list Z) : list Z := firstn k (sort_k (batch ++ best)).
Definition step_i (k : nat) (best batch : list item) : list item := firstn k (sort_i (batch ++ best)).
Definition run_k (k : nat) (init : list Z) (batches : list (list Z)) : list Z := fold_left (step_k k) batches init.
Definition run_i (k : nat) (init : list item) (batches : list (list item)) : list item := fold_left (step_i k) batches init.

(* init_best_results: count rows of zeros with reward -inf (key `lowest`) *)
Definition init_best (k width : nat) (lowest : Z) : list item := repeat (repeat 0%Z width, lowest) k.

(* masking of padded feature columns: jnp.where(arange(padded) >= n_real, 0, feat) *)
Definition mask_row (n_real : nat) (row : list Z) : list Z := firstn n_real row ++ repeat 0%Z (length row - n_real).
Definition padded_zero (n_real : nat) (row : list Z) : Prop := forall j, (n_real <= j)%nat -> nth j row 0%Z = 0%Z.
Definition padded_zero_b (n_real : nat) (row : list Z) : bool := forallb (Z.eqb 0) (skipn n_real row).

(* one optimisation: batches of raw rows from the strategy, scored by `score` after masking *)
Definition optimise (k width n_real : nat) (lowest : Z) (score : list Z -> Z) (raw_batches : list (list (list Z))) : list item :=
  run_i k (init_best k width lowest) (map (map (fun row => let m := mask_row n_real row in (m, score m))) raw_batches).
