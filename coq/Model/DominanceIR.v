(* Dominance tests as harness/translate/dominance.py reads them off the source (Gen/Dominance.v): all / any of a coordinatewise
   comparison between the judged point P and the other point Q, combined by & and |. *)
From VZ Require Import Base.Prelude Base.XFloat Model.Pareto.
Import ListNotations.

Inductive dop := OLe | OGt | OGe | OLt | OEq.
Inductive who := P | Q.
Inductive dexpr := DAll (o : dop) (a b : who) | DAny (o : dop) (a b : who) | DAnd (x y : dexpr) | DOr (x y : dexpr).

Definition cmp (o : dop) : xf -> xf -> bool :=
  match o with OLe => xle | OGt => xgt | OGe => xge | OLt => xlt | OEq => xeq end.
Definition pick (w : who) (p q : vec) : vec := match w with P => p | Q => q end.
Fixpoint deval (e : dexpr) (p q : vec) : bool :=
  match e with
  | DAll o a b => all2 (cmp o) (pick a p q) (pick b p q)
  | DAny o a b => any2 (cmp o) (pick a p q) (pick b p q)
  | DAnd x y => deval x p q && deval y p q
  | DOr x y => deval x p q || deval y p q
  end.
(* a point is optimal iff the entry "P is dominated by Q" holds for no Q of the list; its rank is the number of such Q *)
Definition optimal_of (e : dexpr) (judged others : list vec) : list bool :=
  map (fun p => negb (existsb (fun q => deval e p q) others)) judged.
Definition rank_of (e : dexpr) (ys : list vec) : list nat :=
  map (fun p => length (filter (fun q => deval e p q) ys)) ys.
