(* Where randomised designers get their random streams from, and what that implies for reproducibility.
   A designer is modelled as a function of the seeds of its streams and of the trial history; a stream seed is one of the
   sources below.  Gen/RngSites.v (translator output) lists the sources found in the code today. *)
From VZ Require Export Base.Prelude.

Inductive src :=
| SSeed             (* the seed / rng argument *)
| SSeedElseClock    (* the seed argument; wall clock when it is None *)
| SSeedElseGlobal   (* the seed argument; python's global random state when it is None *)
| SDerived          (* drawn from another stream of the same designer *)
| SDump             (* read from the metadata being loaded *)
| SKwargs           (* forwarded keyword arguments containing the seed *)
| SEntropy          (* None: operating-system entropy *)
| SClock | SGlobal
| SFixed
| SStale.           (* an attribute of the fresh instance, read by load() before load() assigns it *)

Inductive whr := WInit | WLoad | WOther.

Record rng_class := { rc_name : str; rc_sites : list (str * whr * src); rc_ambient_reads : list str;
                      rc_has_load : bool; rc_load_restores_streams : bool }.

(* everything a run can see besides its arguments *)
Record ambient := { a_clock : Z; a_global : Z; a_entropy : Z; a_stale : Z }.

Definition site_seed (derive : Z -> Z) (s : src) (seed : option Z) (dumped : Z) (a : ambient) : Z :=
  match s with
  | SSeed | SKwargs => match seed with Some z => z | None => a_entropy a end
  | SSeedElseClock => match seed with Some z => z | None => a_clock a end
  | SSeedElseGlobal => match seed with Some z => z | None => a_global a end
  | SDerived => match seed with Some z => derive z | None => derive (a_entropy a) end
  | SDump => dumped
  | SEntropy => a_entropy a
  | SClock => a_clock a
  | SGlobal => a_global a
  | SFixed => 0%Z
  | SStale => a_stale a
  end.

Definition src_seeded (s : src) : bool :=
  match s with SSeed | SSeedElseClock | SSeedElseGlobal | SDerived | SKwargs | SFixed => true | _ => false end.
Definition src_restored (s : src) : bool := match s with SDump | SFixed => true | _ => false end.
Definition src_inner (s : src) : bool := match s with SDerived | SFixed => true | _ => false end.

Definition site_ok (x : str * whr * src) : bool :=
  match snd (fst x) with
  | WInit => src_seeded (snd x)
  | WLoad => src_restored (snd x)
  | WOther => src_inner (snd x)
  end.

Definition class_ok (c : rng_class) : bool :=
  forallb site_ok (rc_sites c) && match rc_ambient_reads c with [] => true | _ => false end.

Definition src_takes_seed (s : src) : bool :=
  match s with SSeed | SSeedElseClock | SSeedElseGlobal | SKwargs => true | _ => false end.
Definition class_uses_seed (c : rng_class) : bool :=
  existsb (fun x => match snd (fst x) with WInit => src_takes_seed (snd x) | _ => false end) (rc_sites c).

(* seeds of the streams of a freshly constructed designer / of a designer restored from a dump *)
Definition init_seeds (derive : Z -> Z) (c : rng_class) (seed : option Z) (a : ambient) : list Z :=
  map (fun x => site_seed derive (snd x) seed 0 a)
      (filter (fun x => match snd (fst x) with WInit => true | _ => false end) (rc_sites c)).
Definition load_seeds (derive : Z -> Z) (c : rng_class) (dumped : Z) (a : ambient) : list Z :=
  map (fun x => site_seed derive (snd x) None dumped a)
      (filter (fun x => match snd (fst x) with WLoad => true | _ => false end) (rc_sites c)).

(* The restore path of PartiallySerializableDesignerPolicy: a fresh designer from the factory (given the policy's seed or
   not), then load().  Streams that load() does not rebuild keep the fresh designer's seeds. *)
Definition restored_seeds (derive : Z -> Z) (c : rng_class) (passes_seed : bool) (seed : option Z) (dumped : Z) (a : ambient) : list Z :=
  if rc_load_restores_streams c then load_seeds derive c dumped a
  else init_seeds derive c (if passes_seed then seed else None) a ++ load_seeds derive c dumped a.

Definition restore_ok (c : rng_class) (passes_seed : bool) : bool :=
  negb (rc_has_load c) || rc_load_restores_streams c || passes_seed.
