(* ParameterConfig.contains as the source writes it: the tests of ParameterType.assert_correct_type in their order, the
   per-type dispatch of ParameterConfig._assert_feasible (which cast, then bounds or feasible-value membership) and the
   exceptions contains() turns into False.  The term is regenerated from trial.py / parameter_config.py
   (Gen/MembershipSrc.v, harness/translate/membership.py); Proofs/MembershipSrcP.v proves that its meaning is pc_contains. *)
From VZ Require Import Base.Prelude Model.Space.

Inductive tguard := GNumeric | GCategorical | GInteger.          (* self.is_numeric() / self == CATEGORICAL / self == INTEGER *)
Inductive tpred := PFloatNe | PNotStrBool | PIntNe.              (* float(v) != v / not isinstance(v, (str, bool)) / int(v) != v *)
Inductive vcast := CFloat | CInt | CStr.                          (* ParameterValue.as_float / as_int / as_str *)
Inductive fcheck := FBounds (c : vcast) | FIn (c : vcast).       (* _assert_bounds / _assert_in_feasible_values *)
Record member_src := {
  ms_type_checks : list (tguard * tpred);
  ms_dispatch : list (ptype * fcheck);
  ms_catches_all : bool     (* contains() catches TypeError, ValueError and OverflowError *)
}.

Definition tguard_holds (g : tguard) (ty : ptype) : bool :=
  match g, ty with
  | GNumeric, (TDouble | TInteger | TDiscrete) => true
  | GCategorical, TCategorical => true
  | GInteger, TInteger => true
  | _, _ => false
  end.

(* true = the test raises (TypeError from the test itself, or ValueError / OverflowError while evaluating it) *)
Definition tpred_raises (p : tpred) (v : rv) : bool :=
  match p with
  | PFloatNe => match num_of v with None => true | Some XNaN => true | Some _ => false end
  | PNotStrBool => match as_str v with None => true | Some _ => false end
  | PIntNe => match num_of v with Some x => negb (xq_finite x && is_integral x) | None => true end
  end.

Definition type_ok (cs : list (tguard * tpred)) (ty : ptype) (v : rv) : bool :=
  forallb (fun gp => negb (tguard_holds (fst gp) ty && tpred_raises (snd gp) v)) cs.

(* int() truncates towards zero *)
Definition qtrunc (q : Q) : Z := if Qle_bool 0 q then Qfloor q else (- Qfloor (- q))%Z.

(* a numeric cast: None = the cast raises or yields None (then the comparison raises) *)
Definition cast_num (c : vcast) (v : rv) : option xq :=
  match c with
  | CFloat => num_of v
  | CInt => match num_of v with Some (XF q) => Some (XF (inject_Z (qtrunc q))) | _ => None end
  | CStr => None
  end.

Definition fcheck_ok (f : fcheck) (p : pcfg) (v : rv) : bool :=
  match f with
  | FBounds c => match cast_num c v with
                 | Some x => xq_leb (XF (pc_lo p)) x && xq_leb x (XF (pc_hi p))
                 | None => false
                 end
  | FIn CStr => match as_str v with Some s => existsb (str_eqb s) (pc_cats p) | None => false end
  | FIn c => match cast_num c v with Some x => existsb (fun q => xq_eqb x (XF q)) (pc_nums p) | None => false end
  end.

Definition ptype_eqb (a b : ptype) : bool :=
  match a, b with
  | TDouble, TDouble | TInteger, TInteger | TDiscrete, TDiscrete | TCategorical, TCategorical => true
  | _, _ => false
  end.

Fixpoint find_check (d : list (ptype * fcheck)) (ty : ptype) : option fcheck :=
  match d with
  | [] => None
  | (t, f) :: rest => if ptype_eqb t ty then Some f else find_check rest ty
  end.

(* None: an exception leaves contains() (RuntimeError for an unknown type, or an exception that is not caught) *)
Definition interp_member (m : member_src) (p : pcfg) (v : rv) : option verdict :=
  if negb (ms_catches_all m) then None else
  if negb (type_ok (ms_type_checks m) (pc_type p) v) then Some Refuse else
  match find_check (ms_dispatch m) (pc_type p) with
  | None => None
  | Some f => Some (if fcheck_ok f p v then Accept else Refuse)
  end.
