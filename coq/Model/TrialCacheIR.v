(* The set expressions of IdDeduplicatingTrialLoader (vizier/_src/algorithms/policies/trial_caches.py) as the translator
   harness/translate/trialcache.py finds them in the source, and their meaning over the model of Model/TrialCache.v.
   Sets of ids are modelled as duplicate-free lists; `a | b` is modelled as append, which is a set union whenever b is
   disjoint from a (here b = ids of trials loaded from `all - a`; the theorems of C12 prove NoDup). *)
From VZ Require Import Base.Prelude Model.TrialCache.
Import ListNotations.

Inductive sexpr :=
| SInc                          (* self._incorporated_completed_trial_ids *)
| SRange (start stop_off : nat) (* set(range(start, max_trial_id + stop_off)) *)
| SDiff (a b : sexpr)           (* a - b *)
| SUnion (a b : sexpr)          (* a | b    (a |= b) *)
| SNewIds.                      (* set(t.id for t in new_trials) *)
Inductive status := StCompleted | StActive.
Inductive guard := GNone | GLenIncEqMax.     (* if len(self._incorporated_completed_trial_ids) == max_trial_id: return [] *)
Record newly_desc := mkND { nd_guard : guard; nd_ids : sexpr; nd_status : status; nd_inc : sexpr }.
(* dump: json.dumps(list(<set>)) under one key; load: set(json.loads(md[key])), a missing key or a JSON error is a
   HarmlessDecodeError (the policy then starts over with a cleared cache); clear: the empty set *)
Inductive dump_desc := DumpListOfInc.
Inductive load_desc := LoadSetOfList (missing_key_is_harmless json_error_is_harmless : bool).
Inductive clear_desc := ClearToEmptySet.

Fixpoint seval (e : sexpr) (inc : list nat) (maxid : nat) (new : list nat) : list nat :=
  match e with
  | SInc => inc
  | SRange a off => seq a (maxid + off - a)
  | SDiff a b => let lb := seval b inc maxid new in filter (fun i => negb (mem i lb)) (seval a inc maxid new)
  | SUnion a b => seval a inc maxid new ++ seval b inc maxid new
  | SNewIds => new
  end.
Definition has_status (st : status) (t : tinfo) : bool := match st with StCompleted => ti_completed t | StActive => ti_active t end.

(* get_newly_completed_trials as described: (ids of the returned trials in storage order, the new incorporated set) *)
Definition newly_of (d : newly_desc) (inc : list nat) (maxid : nat) (trials : list tinfo) : list nat * list nat :=
  let run :=
    let load := seval (nd_ids d) inc maxid [] in
    let new := filter (fun t => has_status (nd_status d) t && mem (ti_id t) load) trials in
    (map ti_id new, seval (nd_inc d) inc maxid (map ti_id new)) in
  match nd_guard d with
  | GLenIncEqMax => if Nat.eqb (length inc) maxid then ([], inc) else run
  | GNone => run
  end.

(* what a restart keeps of the cache: dump then load *)
Definition reload (d : dump_desc) (l : load_desc) (inc : list nat) : list nat :=
  match d, l with DumpListOfInc, LoadSetOfList _ _ => inc end.
