(* Boolean equalities, snapshots and correspondence checkers for the service model. *)
From VZ Require Export Model.Service.

Definition meas_eqb (a b : meas) : bool := list_eqb (fun p q => N.eqb (fst p) (fst q) && xf_same (snd p) (snd q)) a b.
Definition trial_eqb (a b : trial) : bool :=
  N.eqb (t_id a) (t_id b) && tstate_eqb (t_state a) (t_state b) && N.eqb (t_client a) (t_client b) &&
  N.eqb (t_params a) (t_params b) && list_eqb meas_eqb (t_meas a) (t_meas b) && meas_eqb (t_final a) (t_final b) &&
  kvs_eqb (t_md a) (t_md b).
Definition study_eqb (a b : study) : bool :=
  sstate_eqb (s_state a) (s_state b) &&
  list_eqb (fun p q => N.eqb (fst p) (fst q) && Bool.eqb (snd p) (snd q)) (s_metrics a) (s_metrics b) &&
  kvs_eqb (s_md a) (s_md b).
Definition sop_eqb (a b : sop) : bool :=
  N.eqb (o_client a) (o_client b) && N.eqb (o_num a) (o_num b) && Bool.eqb (o_done a) (o_done b) &&
  Bool.eqb (o_err a) (o_err b) && list_eqb trial_eqb (o_trials a) (o_trials b).
Definition esop_eqb (a b : esop) : bool :=
  N.eqb (e_trial a) (e_trial b) && Bool.eqb (e_active a) (e_active b) && Bool.eqb (e_stop a) (e_stop b).
Definition node_eqb (a b : node) : bool :=
  study_eqb (n_study a) (n_study b) && list_eqb trial_eqb (n_trials a) (n_trials b) &&
  list_eqb sop_eqb (n_ops a) (n_ops b) && list_eqb esop_eqb (n_es a) (n_es b).
Definition kstudy_eqb (a b : skey * study) : bool := skey_eqb (fst a) (fst b) && study_eqb (snd a) (snd b).

Definition reply_eqb (a b : reply) : bool :=
  match a, b with
  | RpStudy k s, RpStudy k' s' => skey_eqb k k' && study_eqb s s'
  | RpStudies l, RpStudies l' => list_eqb kstudy_eqb l l'
  | RpTrial t, RpTrial t' => trial_eqb t t'
  | RpTrials l, RpTrials l' => list_eqb trial_eqb l l'
  | RpOp o, RpOp o' => sop_eqb o o'
  | RpEmpty, RpEmpty => true
  | RpStop b, RpStop b' => Bool.eqb b b'
  | RpMdError, RpMdError => true
  | _, _ => false
  end.
Definition outcome_eqb (a b : outcome) : bool :=
  match a, b with
  | Done r, Done r' => reply_eqb r r'
  | Failed e, Failed e' => errclass_eqb e e'
  | _, _ => false
  end.

(* observable snapshot: per owner, None if the owner is unknown, else its studies in listing order.
   Operation order: per client in creation order; the harness lists clients in a fixed order. *)
Definition owner_view (s : state) (o : N) : option (list (skey * node)) :=
  if mem_N o (owners s) then Some (filter (fun kn => N.eqb (fst (fst kn)) o) (nodes s)) else None.
Definition canon_node (clients : list N) (n : node) : node :=
  mkN (n_study n) (n_trials n)
      (flat_map (fun c => filter (fun o => N.eqb (o_client o) c) (n_ops n)) clients)
      (n_es n).
Definition es_sorted_insert (e : esop) (l : list esop) : list esop :=
  (fix ins (l : list esop) := match l with
     | [] => [e]
     | h :: t => if N.leb (e_trial e) (e_trial h) then e :: l else h :: ins t end) l.
Definition canon_es (l : list esop) : list esop := fold_right es_sorted_insert [] l.
Definition snapshot (clients owners_ : list N) (s : state) : list (option (list (skey * node))) :=
  map (fun o => option_map (map (fun kn => (fst kn,
          let n := canon_node clients (snd kn) in mkN (n_study n) (n_trials n) (n_ops n) (canon_es (n_es n)))))
        (owner_view s o)) owners_.
Definition knode_eqb (a b : skey * node) : bool := skey_eqb (fst a) (fst b) && node_eqb (snd a) (snd b).
Definition snapshot_eqb (a b : list (option (list (skey * node)))) : bool :=
  list_eqb (opt_eqb (list_eqb knode_eqb)) a b.

(* signature of a datastore call for trace conformance: constructor tag + key arguments *)
Definition call_sig (c : call) : N * list N :=
  match c with
  | CLoadStudy k => (1, [fst k; snd k]) | CCreateStudy k _ => (2, [fst k; snd k]) | CUpdateStudy k _ => (3, [fst k; snd k])
  | CDeleteStudy k => (4, [fst k; snd k]) | CListStudies o => (5, [o])
  | CCreateTrial k t => (6, [fst k; snd k; t_id t]) | CGetTrial k id => (7, [fst k; snd k; id])
  | CUpdateTrial k t => (8, [fst k; snd k; t_id t]) | CListTrials k => (9, [fst k; snd k])
  | CDeleteTrial k id => (10, [fst k; snd k; id]) | CMaxTrialId k => (11, [fst k; snd k])
  | CCreateSop k o => (12, [fst k; snd k; o_client o; o_num o]) | CGetSop k c n => (13, [fst k; snd k; c; n])
  | CUpdateSop k o => (14, [fst k; snd k; o_client o; o_num o]) | CListSops k c => (15, [fst k; snd k; c])
  | CMaxSopNum k c => (16, [fst k; snd k; c])
  | CCreateEs k e => (17, [fst k; snd k; e_trial e]) | CGetEs k id => (18, [fst k; snd k; id])
  | CUpdateEs k e => (19, [fst k; snd k; e_trial e]) | CUpdateMd k _ _ => (20, [fst k; snd k])
  end%N.
Definition trace_sig (tr : list (call * option errclass)) : list (N * list N * bool) :=
  map (fun ce => (call_sig (fst ce), match snd ce with None => false | Some _ => true end)) tr.
Definition sig_eqb (a b : N * list N * bool) : bool :=
  N.eqb (fst (fst a)) (fst (fst b)) && list_eqb N.eqb (snd (fst a)) (snd (fst b)) && Bool.eqb (snd a) (snd b).

(* one correspondence case: a sequence of (rpc, oracle, observed outcome, observed trace) and the final snapshot *)
Definition svc_step := (rpc * pythia_out * outcome * list (N * list N * bool))%type.
Fixpoint seq_ok (steps : list svc_step) (s : state) : bool * state :=
  match steps with
  | [] => (true, s)
  | (r, po, want, wtr) :: rest =>
    let '(s', o, tr) := run (handler r) s po [] in
    if outcome_eqb o want && list_eqb sig_eqb (trace_sig tr) wtr then seq_ok rest s' else (false, s')
  end.
(* index of the first step that disagrees (for diagnostics), or the length if none *)
Fixpoint first_bad (steps : list svc_step) (s : state) (i : nat) : nat :=
  match steps with
  | [] => i
  | (r, po, want, wtr) :: rest =>
    let '(s', o, tr) := run (handler r) s po [] in
    if outcome_eqb o want && list_eqb sig_eqb (trace_sig tr) wtr then first_bad rest s' (S i) else i
  end.
Definition svc_case := (list svc_step * list (option (list (skey * node))))%type.
Definition CLIENTS : list N := [1; 2; 3]%N.
Definition OWNERS : list N := [1; 2]%N.
Definition svc_case_ok (c : svc_case) : bool :=
  let '(ok, s) := seq_ok (fst c) init_state in
  ok && snapshot_eqb (snapshot CLIENTS OWNERS s) (snd c).
