(* Output warpers (vizier/_src/algorithms/designers/gp/output_warpers.py) over exact rationals.
   A label is Some q (an observed finite value) or None (NaN; _validate_labels maps -inf to NaN and rejects +inf).
   HalfRankComponent is modelled up to the two real-valued functions it calls: the normal quantile function `ppf` and the
   square root inside the standard-deviation estimate (parameters of the model).  LogWarperComponent is treated over the
   reals in Proofs/WarpR.v.  Executable definitions only. *)
From VZ Require Export Base.Prelude.
From Coq Require Export QArith Qminmax.
Open Scope Q_scope.

Definition lab := option Q.

Fixpoint finite_vals (l : list lab) : list Q :=
  match l with [] => [] | Some q :: r => q :: finite_vals r | None :: r => finite_vals r end.

Fixpoint qmin_l (d : Q) (l : list Q) : Q := match l with [] => d | x :: r => Qmin x (qmin_l d r) end.
Fixpoint qmax_l (d : Q) (l : list Q) : Q := match l with [] => d | x :: r => Qmax x (qmax_l d r) end.
Definition qmin (l : list Q) : Q := match l with [] => 0 | x :: r => qmin_l x r end.
Definition qmax (l : list Q) : Q := match l with [] => 0 | x :: r => qmax_l x r end.
Fixpoint qsum (l : list Q) : Q := match l with [] => 0 | x :: r => x + qsum r end.
Definition qlen (l : list Q) : Q := inject_Z (Z.of_nat (length l)).

(* ---------- InfeasibleWarperComponent *)
Record infeasible_params := { ip_bad : Q; ip_shift : Q }.
Definition infeasible_fit (l : list lab) : infeasible_params :=
  let f := finite_vals l in
  let mn := qmin f in let mx := qmax f in
  let bad := mn - ((1 # 2) * (mx - mn) + 1) in
  let p := ((1 # 2) + qlen f) / (1 + inject_Z (Z.of_nat (length l))) in
  let mean := qsum f / qlen f in
  {| ip_bad := bad; ip_shift := - mean * p - bad * (1 - p) |}.
Definition infeasible_warp (l : list lab) : list Q :=
  match finite_vals l with
  | [] => map (fun _ => 0) l
  | _ => let ps := infeasible_fit l in
         map (fun x => match x with Some q => q + ip_shift ps | None => ip_bad ps + ip_shift ps end) l
  end.
Definition infeasible_unwarp (l : list lab) (w : list Q) : list Q := map (fun q => q - ip_shift (infeasible_fit l)) w.

(* ---------- sorting / unique / median *)
Fixpoint insert_q (x : Q) (l : list Q) : list Q :=
  match l with [] => [x] | y :: r => if Qle_bool x y then x :: l else y :: insert_q x r end.
Definition sort_q (l : list Q) : list Q := fold_right insert_q [] l.
Fixpoint dedup_sorted (l : list Q) : list Q :=
  match l with
  | [] => []
  | x :: r => match r with [] => [x] | y :: _ => if Qeq_bool x y then dedup_sorted r else x :: dedup_sorted r end
  end.
Definition unique_q (l : list Q) : list Q := dedup_sorted (sort_q l).
(* np.nanmedian of the finite values *)
Definition median_q (f : list Q) : Q :=
  let s := sort_q f in let n := length s in
  if Nat.even n then (nth (n / 2 - 1) s 0 + nth (n / 2) s 0) / 2 else nth (n / 2) s 0.
(* number of unique values strictly below x  = unique.searchsorted(x, 'left') *)
Definition count_below (u : list Q) (x : Q) : nat := length (filter (fun y => negb (Qle_bool x y)) u).
Definition qmem (x : Q) (u : list Q) : bool := existsb (Qeq_bool x) u.

(* ---------- HalfRankComponent *)
(* radicands of the three estimates in _estimate_std_of_good_half (the third is a mean absolute deviation, not a radicand) *)
Definition var_good_half (u : list Q) (thr : Q) : Q :=
  let g := filter (fun y => Qle_bool thr y) u in qsum (map (fun y => (y - thr) * (y - thr)) g) / qlen g.
Definition var_all (u : list Q) (thr : Q) : Q := qsum (map (fun y => (y - thr) * (y - thr)) u) / qlen u.
(* the variance whose root is used (overflow to the third estimate does not exist over Q) *)
Definition var_used (u : list Q) (thr : Q) : Q :=
  if Qle_bool (var_good_half u thr) 0 then var_all u thr else var_good_half u thr.

(* per entry: unchanged, or replaced by ppf(quantile) * std + median *)
Inductive hr_out := Keep (q : Q) | Rank (quantile : Q) | Missing.
Definition halfrank_sym (l : list lab) : list hr_out :=
  let f := finite_vals l in
  let med := median_q f in
  let u := unique_q f in
  let k := count_below u med in
  let denom := inject_Z (Z.of_nat k) + (if qmem med u then 1 # 2 else 0) in
  map (fun x => match x with
                | None => Missing
                | Some y => if Qle_bool med y then Keep y
                            else Rank ((1 # 2) * (inject_Z (Z.of_nat (S (count_below u y))) - (1 # 2)) / denom)
                end) l.
Section HalfRankNum.
  Variable ppf : Q -> Q.
  Variable root : Q -> Q.
  Definition halfrank_num (l : list lab) : list lab :=
    match l with
    | [_] => l                                  (* labels_arr.size == 1: returned as is *)
    | _ =>
      let f := finite_vals l in
      let med := median_q f in
      let std := root (var_used (unique_q f) med) in
      map (fun o => match o with Keep y => Some y | Rank q => Some (ppf q * std + med) | Missing => None end) (halfrank_sym l)
    end.
End HalfRankNum.

(* ---------- NormalizeLabels / ZScoreLabels: affine maps of the finite entries *)
Definition affine (a b : Q) (l : list lab) : list lab := map (option_map (fun y => a * y + b)) l.
Definition normalize_warp (lo hi : Q) (l : list lab) : list lab :=
  let f := finite_vals l in let mn := qmin f in let mx := qmax f in
  if Qeq_bool mn mx then map (option_map (fun _ => (lo + hi) / 2)) l
  else affine ((hi - lo) / (mx - mn)) (lo - mn * ((hi - lo) / (mx - mn))) l.

(* ---------- pipeline short cuts *)
Inductive shortcut := AllEqualFinite | AllMissing | RunWarpers.
Definition pipeline_shortcut (l : list lab) : shortcut :=
  if forallb (fun x => match x with Some _ => true | None => false end) l && Nat.eqb (length (unique_q (finite_vals l))) 1 then AllEqualFinite
  else if forallb (fun x => match x with None => true | _ => false end) l then AllMissing
  else RunWarpers.
