(* Model of vizier/_src/pythia/suggest_default.py: get_default_parameters on one parameter (the walk over a conditional
   space is Model/Space.v build_v) and the seed_with_default wrapper.  The value formulas and the branch order come from
   Gen/SuggestDefault.v, regenerated from the source on every run.  Executable definitions only. *)
From VZ Require Export Model.Conv Gen.SuggestDefault.

Definition dp_of (t : ptype) : dptype :=
  match t with TDouble => PDouble | TInteger => PInteger | TDiscrete => PDiscrete | TCategorical => PCategorical end.
Definition dptype_eqb (a b : dptype) : bool :=
  match a, b with PDouble, PDouble | PInteger, PInteger | PCategorical, PCategorical | PDiscrete, PDiscrete => true | _, _ => false end.

(* ParameterConfig.num_feasible_values: float('inf') (None) for DOUBLE *)
Definition num_feasible (p : pcfg) : option nat :=
  match pc_type p with TDouble => None | _ => Some (length (feas_values p)) end.

(* the value handed to builder.choose_value for parameter p whose declared default_value is `declared` *)
Definition default_choice (p : pcfg) (declared : option rv) : option rv :=
  match declared with
  | Some v => if declared_default_first then Some v else None
  | None =>
    if existsb (dptype_eqb (dp_of (pc_type p))) indexed_types
    then nth_error (feas_values p) (default_index (length (feas_values p)))      (* IndexError when out of range *)
    else match pc_type p with
         | TDouble => Some (RFloat (XF (match num_feasible p with
                                         | Some 1%nat => double_single (pc_lo p) (pc_hi p)
                                         | _ => double_mid (pc_lo p) (pc_hi p)
                                         end)))
         | _ => None                                                             (* no branch chooses a value *)
         end
  end.

(* choose_value validates the value against the parameter (get_subspace_deepcopy -> _assert_feasible) *)
Definition default_checked (p : pcfg) (declared : option rv) : res rv :=
  match default_choice p declared with
  | Some v => match pc_contains p v with Accept => Ok v | Refuse => Err EValue end
  | None => Err EValue
  end.

(* seed_with_default around a policy `inner : count -> list A`: an empty study gets the default first *)
Definition seeded {A} (dflt : A) (inner : nat -> list A) (max_trial_id count : nat) : list A :=
  if seeds_only_empty_study && Nat.ltb 0 max_trial_id then inner count
  else dflt :: (if Nat.ltb 1 count then inner (rest_count count) else []).
