(* ParameterConfig.factory as the decision tree harness/translate/pcfactory.py reads off the source (Gen/FactorySrc.v) *)
From VZ Require Import Base.Prelude Model.Space.
Import ListNotations.

Inductive fguard := GNameEmpty | GBothGiven | GFeasibleGiven | GHasDuplicates | GAllNumeric | GAllStrings | GBoundsGiven | GBothInt | GBothFloat.
Inductive ftree := FIf (g : fguard) (th el : ftree) | FRaise | FDiscrete | FCategorical | FBounds (ty : ptype) | FCustom | FEnd.
(* what the helpers check / compute: _validate_bounds (finite, ordered), _get_feasible_points_and_bounds (finite, sorted,
   bounds = first / last), _get_categories (sorted) *)
Record fhelpers := mkFH { vb_finite : bool; vb_ordered : bool; fp_finite : bool; fp_sorted : bool; fp_bounds_first_last : bool; cat_sorted : bool }.

Section Sem.
Variables (h : fhelpers) (name : str) (bounds : option (rv * rv)) (feasible : list rv).
Definition geval (g : fguard) : bool :=
  match g with
  | GNameEmpty => match name with [] => true | _ => false end
  | GBothGiven => match feasible, bounds with _ :: _, Some _ => true | _, _ => false end
  | GFeasibleGiven => match feasible with _ :: _ => true | [] => false end
  | GHasDuplicates => has_dup feasible
  | GAllNumeric => forallb is_num feasible
  | GAllStrings => forallb is_str feasible
  | GBoundsGiven => match bounds with Some _ => true | None => false end
  | GBothInt => match bounds with Some (lo, hi) => is_int lo && is_int hi | None => false end
  | GBothFloat => match bounds with Some (lo, hi) => is_float lo && is_float hi | None => false end
  end.
Definition nums : list Q := flat_map (fun v => match fin_q v with Some q => [q] | None => [] end) feasible.
Fixpoint feval (t : ftree) : res pcfg :=
  match t with
  | FIf g th el => if geval g then feval th else feval el
  | FRaise => Err EValue
  | FDiscrete =>
    if negb (fp_finite h) || forallb (fun v => match fin_q v with Some _ => true | None => false end) feasible then
      let qs := if fp_sorted h then qsort nums else nums in
      Ok (mkPC name TDiscrete (if fp_bounds_first_last h then hd 0 qs else 0) (if fp_bounds_first_last h then last qs 0 else 0) qs [])
    else Err EValue
  | FCategorical =>
    let cs := flat_map (fun v => match v with RStr s => [s] | _ => [] end) feasible in
    Ok (mkPC name TCategorical 0 0 [] (if cat_sorted h then ssort cs else cs))
  | FBounds ty =>
    match bounds with
    | Some (lo, hi) =>
      match fin_q lo, fin_q hi with
      | Some l, Some hq => if negb (vb_ordered h) || qleb l hq then Ok (mkPC name ty l hq [] []) else Err EValue
      | _, _ => if vb_finite h then Err EValue else Err EOther
      end
    | None => Err EOther
    end
  | FCustom => Err ENotImplemented          (* CUSTOM parameters are not modelled *)
  | FEnd => Err EOther
  end.
End Sem.
Definition factory_of (t : ftree) (h : fhelpers) name bounds feasible : res pcfg := feval h name bounds feasible t.
