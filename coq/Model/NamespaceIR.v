(* What harness/translate/nsparse.py reads off vizier/_src/pyvizier/shared/common.py (Gen/NamespaceSrc.v) and its meaning:
   the escape table of Namespace.encode, and the prologue and the if / elif chain of the loop of _parse. *)
From VZ Require Import Base.Prelude Model.Namespace.
Import ListNotations.

Inductive ptest := TJoinAndEsc | TJoin | TEsc | TAlways.      (* join and frag and frag[-1]==ESC / join / frag and frag[-1]==ESC / else *)
(* output[-1] += SEP + frag[...] (join) or output.append(frag[...]) (append); drop the last character?; next value of `join` *)
Inductive paction := AJoin (strip next_join : bool) | AAppend (strip next_join : bool).
Record prologue := mkPro { pro_empty_is_empty_tuple : bool; pro_strip_one_leading_sep : bool }.

Section Sem.
Variables (sep esc : N) (table : list (N * str)).

Definition ends_with (f : str) : bool := match rev f with x :: _ => N.eqb x esc | [] => false end.
Definition test_holds (t : ptest) (join : bool) (f : str) : bool :=
  match t with TJoinAndEsc => join && ends_with f | TJoin => join | TEsc => ends_with f | TAlways => true end.
Fixpoint first_branch (bs : list (ptest * paction)) (join : bool) (f : str) : option paction :=
  match bs with [] => None | (t, a) :: r => if test_holds t join f then Some a else first_branch r join f end.

(* the loop; `out` is the output list reversed.  Joining to an empty output is Python's IndexError: the model stops. *)
Fixpoint loop (bs : list (ptest * paction)) (join : bool) (out : list str) (frags : list str) : list str :=
  match frags with
  | [] => rev out
  | f :: fs =>
    match first_branch bs join f with
    | None => rev out
    | Some (AJoin strip nj) =>
      match out with
      | o :: os => loop bs nj ((o ++ sep :: (if strip then removelast f else f)) :: os) fs
      | [] => rev out
      end
    | Some (AAppend strip nj) => loop bs nj ((if strip then removelast f else f) :: out) fs
    end
  end.
Fixpoint split_on (cur : str) (s : str) : list str :=
  match s with
  | [] => [rev cur]
  | x :: t => if N.eqb x sep then rev cur :: split_on [] t else split_on (x :: cur) t
  end.
Definition parse_of (p : prologue) (bs : list (ptest * paction)) (arg : str) : list str :=
  match arg with
  | [] => if pro_empty_is_empty_tuple p then [] else loop bs false [] (split_on [] [])
  | x :: t =>
    let arg' := if pro_strip_one_leading_sep p && N.eqb x sep then t else arg in
    loop bs false [] (split_on [] arg')
  end.

(* c.translate(table) *)
Fixpoint lookup (x : N) (tb : list (N * str)) : option str :=
  match tb with [] => None | (k, v) :: r => if N.eqb x k then Some v else lookup x r end.
Fixpoint translate (c : str) : str :=
  match c with [] => [] | x :: t => match lookup x table with Some v => v ++ translate t | None => x :: translate t end end.
(* ''.join([SEP + c.translate(table) for c in ns]) *)
Fixpoint encode_of (ns : list str) : str :=
  match ns with [] => [] | c :: t => sep :: translate c ++ encode_of t end.
End Sem.
