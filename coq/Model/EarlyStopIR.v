(* CheckTrialEarlyStoppingState, block by block (same scheme as Model/SuggestIR.v): harness/translate/svcearlystop.py checks that the
   method consists, in order, of exactly the statements the model was written from and writes the sequence of blocks to
   Gen/EarlyStopSrc.v; Proofs/EarlyStopIRP.v proves that the program this sequence denotes is the model's h_check_early_stop.
   `recycle` is the truth value of `utcnow() - completion_time >= early_stop_recycle_period` for the stored operation (time is not
   modelled). *)
From VZ Require Import Base.Prelude Base.XFloat Model.Metadata Model.Service.
Import ListNotations.

Inductive vblock :=
| VSeq (a b : vblock) | VSkip
| VGuardStudy                      (* if self._study_is_immutable(study_name): raise ImmutableStudyError *)
| VWithStudyLock (body : vblock) | VWithOpLock (body : vblock)
| VGetTrial                        (* trial = self.datastore.get_trial(request.trial_name) *)
| VRequireMutable                  (* if trial.state not in self._TRIAL_MUTABLE_STATES: raise ImmutableTrialError *)
| VFindOperation                   (* try: output_operation = get_early_stopping_operation(name) except KeyError: None *)
| VCreateOrAnswerOrRecycle         (* None: create ACTIVE; ACTIVE or recent: return its should_stop; else: set ACTIVE, update *)
| VLoadStudy | VMaxTrialIdForRequest
| VCallPythiaOrFinishAndRaise      (* try: EarlyStop(request) except Exception: operation DONE, update, raise *)
| VUpdateMdOrFinishAndRaise        (* try: with study lock: update_metadata except KeyError: operation DONE, update, raise *)
| VDecisionsLoop                   (* for d in decisions: get (or create ACTIVE) its operation; should_stop = d; DONE; update *)
| VReloadOperation                 (* output_operation = get_early_stopping_operation(output_operation.name) *)
| VFinishIfStillActive             (* if output_operation.status == ACTIVE: DONE; update *)
| VReturnShouldStop.               (* return Response(should_stop=output_operation.should_stop) *)

Record venv := mkV { v_found : option esop; v_es : option esop; v_ds : list (N * bool); v_smd : list kv; v_tmd : list (N * kv);
                     v_t : option trial }.
Definition venv0 : venv := mkV None None [] [] [] None.

Section Sem.
Variables (recycle : bool) (k : skey) (id : N).

Fixpoint vinterp (b : vblock) (e : venv) (kont : venv -> prog) {struct b} : prog :=
  match b with
  | VSkip => kont e
  | VSeq x y => vinterp x e (fun e' => vinterp y e' kont)
  | VGuardStudy => guard_study k (kont e)
  | VWithStudyLock body => Acquire (LStudy k) (vinterp body e (fun e' => Release (LStudy k) (kont e')))
  | VWithOpLock body => Acquire (LOp k) (vinterp body e (fun e' => Release (LOp k) (kont e')))
  | VGetTrial => with_trial k id (fun t => kont (mkV (v_found e) (v_es e) (v_ds e) (v_smd e) (v_tmd e) (Some t)))
  | VRequireMutable =>
    match v_t e with
    | Some t => if negb (trial_mutable t) then Throw EImmutableTrial else kont e
    | None => Throw EOther
    end
  | VFindOperation =>
    Call (CGetEs k id) (fun r => match r with
      | Err ENotFound | Err EKey => kont (mkV None (v_es e) (v_ds e) (v_smd e) (v_tmd e) (v_t e))
      | Ok (REs x) => kont (mkV (Some x) (v_es e) (v_ds e) (v_smd e) (v_tmd e) (v_t e))
      | Ok _ => Throw EOther
      | Err x => Throw x end)
  | VCreateOrAnswerOrRecycle =>
    match v_found e with
    | None => Call (CCreateEs k (mkEs id true false)) (fun r1 => expect_unit r1 (kont e))
    | Some x =>
      if e_active x || negb recycle then Release (LOp k) (Ret (RpStop (e_stop x)))
      else Call (CUpdateEs k (mkEs id true false)) (fun r1 => expect_unit r1 (kont e))
    end
  | VLoadStudy => Call (CLoadStudy k) (fun r => match r with Err x => Throw x | Ok _ => kont e end)
  | VMaxTrialIdForRequest => Call (CMaxTrialId k) (fun r1 => match r1 with Err x => Throw x | Ok _ => kont e end)
  | VCallPythiaOrFinishAndRaise =>
    Pythia (PEarlyStop k id) (fun po => match po with
      | PDecide ds smd tmd => kont (mkV (v_found e) (v_es e) ds smd tmd (v_t e))
      | PFail x => Call (CUpdateEs k (mkEs id false false)) (fun r2 => expect_unit r2 (Throw x))
      | PDeliver _ _ _ => Throw EOther end)
  | VUpdateMdOrFinishAndRaise =>
    Acquire (LStudy k) (Call (CUpdateMd k (v_smd e) (v_tmd e)) (fun r2 => match r2 with
      | Err ENotFound | Err EKey =>
        Release (LStudy k) (Call (CUpdateEs k (mkEs id false false)) (fun r4 => expect_unit r4
          (Throw (match r2 with Err x => x | Ok _ => EOther end))))
      | Err x => Throw x
      | Ok _ => Release (LStudy k) (kont e) end))
  | VDecisionsLoop => decisions_loop k (v_ds e) (kont e)
  | VReloadOperation =>
    Call (CGetEs k id) (fun r3 => match r3 with
      | Ok (REs x) => kont (mkV (v_found e) (Some x) (v_ds e) (v_smd e) (v_tmd e) (v_t e))
      | Ok _ => Throw EOther | Err x => Throw x end)
  | VFinishIfStillActive =>
    match v_es e with
    | Some x => if e_active x
                then Call (CUpdateEs k (mkEs id false (e_stop x))) (fun r4 => expect_unit r4 (kont e))
                else kont e
    | None => Throw EOther
    end
  | VReturnShouldStop =>
    match v_es e with Some x => Release (LOp k) (Ret (RpStop (e_stop x))) | None => Throw EOther end
  end.
End Sem.

Definition early_stop_of (body : vblock) (recycle : bool) (k : skey) (id : N) : prog :=
  vinterp recycle k id body venv0 (fun _ => Throw EOther).
