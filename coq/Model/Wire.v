(* Gallina mirrors of the pyvizier objects and of the proto messages that vizier/_src/pyvizier/oss/proto_converters.py
   converts between (only the fields the converters touch).  Types only; conversions are in Model/WireConv.v. *)
From Coq Require Export QArith.
From VZ Require Export Base.Prelude.

Inductive scale := ScLinear | ScLog | ScRevLog | ScUniformDiscrete.
Inductive ext := ExInternal | ExBoolean | ExInteger | ExFloat.
Inductive pystudystate := PyActive | PyAborted | PyCompleted.
Inductive pytstatus := PyRequested | PyTActive | PyStopping | PyTCompleted | PyUnknown.
Inductive ptype := TDouble | TInteger | TDiscrete | TCategorical.

(* numbers are exact rationals: the converters only move them, sort them, or cast integers *)
Inductive pval := VNum (q : Q) | VStr (s : str).

(* pyvizier ParameterConfig: children as child_parameter_configs enumerates them, each with its matching parent values *)
Inductive pconf :=
| PConf (name : str) (ty : ptype) (bounds : option (Q * Q)) (feas : list pval)
        (sc : option scale) (dflt : option pval) (ex : ext) (children : list (list pval * pconf)).

(* study.proto StudySpec.ParameterSpec *)
Inductive vspec :=
| SpDouble (lo hi : Q) (d : option Q) | SpInt (lo hi : Z) (d : option Z)
| SpDiscrete (vals : list Q) (d : option Q) | SpCat (vals : list str) (d : option str).
Inductive cond := CdDiscrete (l : list Q) | CdInt (l : list Z) | CdCat (l : list str).
Inductive pspec :=
| PSpec (id : str) (sp : vspec) (scale_type : N) (external_type : N) (conds : list (cond * pspec)).

(* Measurement: metrics in dict order; times in exact seconds *)
Record pymeas := mkPM { pm_metrics : list (str * Q); pm_elapsed : Q; pm_steps : Z }.
Record prmeas := mkRM { rm_metrics : list (str * Q); rm_seconds : Z; rm_nanos : Z; rm_steps : Z }.
