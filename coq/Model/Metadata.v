(* Model of vizier/_src/pyvizier/oss/metadata_util.py : merge_study_metadata / merge_trial_metadata.
   A KeyValue is (ns, key, value); value = (tag, payload), tag 0 = string, 1 = packed proto. *)
From VZ Require Export Base.Prelude.

Definition mdkey := (str * str)%type.
Definition mdval := (N * str)%type.
Definition kv := (mdkey * mdval)%type.

Definition key_eqb (a b : mdkey) : bool := str_eqb (fst a) (fst b) && str_eqb (snd a) (snd b).
(* Python tuple comparison (kv.ns, kv.key) *)
Definition key_ltb (a b : mdkey) : bool :=
  str_ltb (fst a) (fst b) || (str_eqb (fst a) (fst b) && str_ltb (snd a) (snd b)).
Definition key_leb (a b : mdkey) : bool := negb (key_ltb b a).
Definition val_eqb (a b : mdval) : bool := N.eqb (fst a) (fst b) && str_eqb (snd a) (snd b).
Definition kv_eqb (a b : kv) : bool := key_eqb (fst a) (fst b) && val_eqb (snd a) (snd b).

(* Python dict assignment d[k] = v : replace in place, else append (insertion order) *)
Fixpoint upsert (k : mdkey) (v : mdval) (d : list kv) : list kv :=
  match d with
  | [] => [(k, v)]
  | (k', v') :: t => if key_eqb k' k then (k', v) :: t else (k', v') :: upsert k v t
  end.

Definition dict_of (kvs : list kv) (d : list kv) : list kv :=
  fold_left (fun d e => upsert (fst e) (snd e) d) kvs d.

Fixpoint insert (e : kv) (l : list kv) : list kv :=
  match l with
  | [] => [e]
  | h :: t => if key_leb (fst e) (fst h) then e :: l else h :: insert e t
  end.
Fixpoint isort (l : list kv) : list kv :=
  match l with [] => [] | h :: t => insert h (isort t) end.

(* merge_study_metadata(spec, new): dict over old then new, then sorted(values, key=(ns,key)) *)
Definition merge (old new : list kv) : list kv := isort (dict_of new (dict_of old [])).

(* merge_trial_metadata(trial, updates): only updates whose trial_id matches are applied *)
Definition merge_trial (tid : N) (old : list kv) (ups : list (N * kv)) : list kv :=
  merge old (map snd (filter (fun u => N.eqb (fst u) tid) ups)).

Fixpoint lookup (k : mdkey) (l : list kv) : option mdval :=
  match l with
  | [] => None
  | (k', v) :: t => if key_eqb k' k then Some v else lookup k t
  end.

(* value of the last entry of l that has key k *)
Fixpoint lookup_last (k : mdkey) (l : list kv) : option mdval :=
  match l with
  | [] => None
  | (k', v) :: t => match lookup_last k t with Some w => Some w | None => if key_eqb k' k then Some v else None end
  end.

Definition kvs_eqb := list_eqb kv_eqb.
Definition merge_case_ok (c : list kv * list kv * list kv) : bool :=
  let '(old, new, res) := c in kvs_eqb (merge old new) res.
Definition merge_trial_case_ok (c : N * list kv * list (N * kv) * list kv) : bool :=
  let '(tid, old, ups, res) := c in kvs_eqb (merge_trial tid old ups) res.
