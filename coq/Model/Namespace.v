(* Model of vizier/_src/pyvizier/shared/common.py : Namespace.encode / _parse (decode).
   Strings are code-point lists; ':' = 58, '\' = 92.  Executable definitions only. *)
From VZ Require Export Base.Prelude.

Definition COLON : N := 58.
Definition BSLASH : N := 92.

(* c.translate({':': r'\:'}) *)
Fixpoint escape (c : str) : str :=
  match c with
  | [] => []
  | x :: t => if N.eqb x COLON then BSLASH :: COLON :: escape t else x :: escape t
  end.

(* ''.join(':' + escape(c) for c in ns) *)
Fixpoint encode (ns : list str) : str :=
  match ns with
  | [] => []
  | c :: t => COLON :: escape c ++ encode t
  end.

(* arg.split(':') ; cur is the current fragment, reversed *)
Fixpoint split_aux (cur : str) (s : str) : list str :=
  match s with
  | [] => [rev cur]
  | x :: t => if N.eqb x COLON then rev cur :: split_aux [] t else split_aux (x :: cur) t
  end.
Definition split_colon (s : str) : list str := split_aux [] s.

(* frag and frag[-1] == '\\' *)
Definition ends_bs (f : str) : bool :=
  match rev f with
  | x :: _ => N.eqb x BSLASH
  | [] => false
  end.

(* the for-loop of _parse; `out` is the output list reversed (head = output[-1]).
   join = true with out = [] cannot happen (join is only set after an append);
   Python would raise IndexError there, the model stops. *)
Fixpoint pgo (join : bool) (out : list str) (frags : list str) : list str :=
  match frags with
  | [] => rev out
  | f :: fs =>
    if join then
      match out with
      | o :: os =>
        if ends_bs f then pgo true ((o ++ COLON :: removelast f) :: os) fs
        else pgo false ((o ++ COLON :: f) :: os) fs
      | [] => rev out
      end
    else
      if ends_bs f then pgo true (removelast f :: out) fs
      else pgo false (f :: out) fs
  end.

Definition parse (arg : str) : list str :=
  match arg with
  | [] => []
  | x :: t =>
    let arg' := if N.eqb x COLON then t else arg in
    pgo false [] (split_colon arg')
  end.

Definition decode := parse.

(* guard of the partial round-trip theorem *)
Definition comp_ok (c : str) : bool := negb (ends_bs c).
Definition ns_ok (ns : list str) : bool := forallb comp_ok ns.

Definition ns_eqb := list_eqb str_eqb.

(* correspondence case: (namespace tuple, observed encode(), observed decode(encode())) *)
Definition ns_case_ok (c : list str * (str * list str)) : bool :=
  let '(ns, (enc, dec)) := c in
  str_eqb (encode ns) enc && ns_eqb (parse enc) dec.

(* correspondence case for decode on arbitrary strings *)
Definition parse_case_ok (c : str * list str) : bool :=
  let '(s, dec) := c in ns_eqb (parse s) dec.
