(* Benchmark experimenters as functions from points to metric values, and the wrapper experimenters as operators on them
   (vizier/_src/benchmarks/experimenters/*.py).  A point is a list of rationals (one per parameter, categorical values
   by index); an evaluation returns the metric values by name, or None for an infeasible trial. *)
From VZ Require Export Base.Prelude.
From Coq Require Export QArith.

Inductive goal := GMax | GMin.
Definition goal_eqb (a b : goal) : bool := match a, b with GMax, GMax | GMin, GMin => true | _, _ => false end.

Definition point := list Q.
Definition metrics := list (str * Q).
Record exptr := { ex_eval : point -> option metrics; ex_goals : list (str * goal) }.

(* SignFlipExperimenter: the goal table is what problem_statement() does to one goal (regenerated from the source) *)
Definition apply_goal_table (t : list (goal * goal)) (g : goal) : goal :=
  match find (fun p => goal_eqb (fst p) g) t with Some p => snd p | None => g end.
Definition is_objective (e : exptr) (n : str) : bool := existsb (fun p => str_eqb (fst p) n) (ex_goals e).
Definition flip_metrics (e : exptr) (objectives_only : bool) (m : metrics) : metrics :=
  map (fun p => if negb objectives_only || is_objective e (fst p) then (fst p, Qopp (snd p)) else p) m.
Definition flip (t : list (goal * goal)) (objectives_only : bool) (e : exptr) : exptr :=
  {| ex_eval := fun x => option_map (flip_metrics e objectives_only) (ex_eval e x);
     ex_goals := map (fun p => (fst p, apply_goal_table t (snd p))) (ex_goals e) |}.

(* ShiftingExperimenter: evaluate the base at x - shift *)
Fixpoint psub (x s : point) : point :=
  match x, s with a :: x', b :: s' => (a - b)%Q :: psub x' s' | _, _ => [] end.
Definition shift (s : point) (e : exptr) : exptr :=
  {| ex_eval := fun x => ex_eval e (psub x s); ex_goals := ex_goals e |}.

(* PermutingExperimenter: per coordinate a finite map on the feasible values (identity where no entry) *)
Definition perm := list (Q * Q).
Definition apply_perm (p : perm) (v : Q) : Q :=
  match find (fun kv => Qeq_bool (fst kv) v) p with Some kv => snd kv | None => v end.
Fixpoint pmap (ps : list perm) (x : point) : point :=
  match ps, x with p :: ps', a :: x' => apply_perm p a :: pmap ps' x' | _, _ => x end.
Definition permute (ps : list perm) (e : exptr) : exptr :=
  {| ex_eval := fun x => ex_eval e (pmap ps x); ex_goals := ex_goals e |}.
(* a dictionary built as zip(values, permuted values) is a bijection when both sides have the same, duplicate-free elements *)
Definition perm_keys (p : perm) : list Q := map fst p.
Definition perm_vals (p : perm) : list Q := map snd p.
Definition qmemb (x : Q) (l : list Q) : bool := existsb (Qeq_bool x) l.
Fixpoint qnodup (l : list Q) : bool := match l with [] => true | x :: r => negb (qmemb x r) && qnodup r end.
Definition perm_is_bijection (p : perm) : bool :=
  qnodup (perm_keys p) && qnodup (perm_vals p) && forallb (fun v => qmemb v (perm_keys p)) (perm_vals p).

(* NormalizingExperimenter: (v - mean) / std per metric *)
Definition normalize_value (mean std v : Q) : Q := ((v - mean) / std)%Q.

(* NoisyExperimenter with a seeded generator: the noise is a function of the seed and of the number of draws so far *)
Section Noise.
  Variable noise : Z -> nat -> Q -> Q.
  Fixpoint noisy_run (seed : Z) (n : nat) (vals : list Q) : list Q :=
    match vals with [] => [] | v :: r => noise seed n v :: noisy_run seed (S n) r end.
End Noise.
