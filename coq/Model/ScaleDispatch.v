(* Which scaling formula ModelInputArrayBijector.scaler_from_spec applies to which parameter: the order of its tests
   (not a continuous feature; width not finite; zero width; the scale-type chain) and what ParameterConfig.continuify does to
   the scale type of an INTEGER / DISCRETE parameter that becomes a DOUBLE one.  The step list is regenerated from the source
   (Gen/ScaleDispatchSrc.v, harness/translate/scaledispatch.py); the formulas themselves are Gen/Scalers.v. *)
From Coq Require Import QArith List Bool.
Import ListNotations.

Inductive scale_ty := SNone | SLinear | SLog | SReverseLog | SUniformDiscrete.
Inductive fkind := FLin | FLog | FRLog.
Inductive outcome := OIdentity | ORefuse | OShiftHalf | OScale (k : fkind).

Inductive sguard := GNotContinuous | GWidthNotFinite | GZeroWidth.
Inductive sleaf := LIdentity | LRefuse | LShiftHalf.
Record scase := { sc_scale : scale_ty; sc_refuses_nonpositive : bool; sc_kind : fkind }.
Record dispatch_src := {
  ds_steps : list (sguard * sleaf);
  ds_cases : list scase;
  ds_default : fkind;
  ds_unit_shortcut : bool   (* the LINEAR branch answers the identity for the range (0, 1) *)
}.

Definition scale_eqb (a b : scale_ty) : bool :=
  match a, b with
  | SNone, SNone | SLinear, SLinear | SLog, SLog | SReverseLog, SReverseLog | SUniformDiscrete, SUniformDiscrete => true
  | _, _ => false
  end.

Definition guard_holds (g : sguard) (continuous finite_width : bool) (lo hi : Q) : bool :=
  match g with
  | GNotContinuous => negb continuous
  | GWidthNotFinite => negb finite_width
  | GZeroWidth => Qeq_bool lo hi
  end.

Definition leaf_outcome (l : sleaf) : outcome :=
  match l with LIdentity => OIdentity | LRefuse => ORefuse | LShiftHalf => OShiftHalf end.

Fixpoint first_step (steps : list (sguard * sleaf)) (continuous finite_width : bool) (lo hi : Q) : option outcome :=
  match steps with
  | [] => None
  | (g, l) :: rest => if guard_holds g continuous finite_width lo hi then Some (leaf_outcome l)
                      else first_step rest continuous finite_width lo hi
  end.

Fixpoint find_case (cs : list scase) (s : scale_ty) : option scase :=
  match cs with
  | [] => None
  | c :: rest => if scale_eqb (sc_scale c) s then Some c else find_case rest s
  end.

Definition nonpositive (lo hi : Q) : bool := Qle_bool lo 0 || Qle_bool hi 0.

Definition dispatch (d : dispatch_src) (continuous finite_width : bool) (lo hi : Q) (s : scale_ty) : outcome :=
  match first_step (ds_steps d) continuous finite_width lo hi with
  | Some o => o
  | None =>
    match find_case (ds_cases d) s with
    | Some c => if sc_refuses_nonpositive c && nonpositive lo hi then ORefuse else OScale (sc_kind c)
    | None => if ds_unit_shortcut d && Qeq_bool (hi - lo) 1 && Qeq_bool lo 0 then OIdentity else OScale (ds_default d)
    end
  end.

(* the documented behaviour *)
Definition model_dispatch : dispatch_src :=
  {| ds_steps := [(GNotContinuous, LIdentity); (GWidthNotFinite, LRefuse); (GZeroWidth, LShiftHalf)];
     ds_cases := [ {| sc_scale := SLog; sc_refuses_nonpositive := true; sc_kind := FLog |};
                   {| sc_scale := SReverseLog; sc_refuses_nonpositive := true; sc_kind := FRLog |} ];
     ds_default := FLin;
     ds_unit_shortcut := true |}.

Definition model_continuify_scale (s : scale_ty) : scale_ty :=
  match s with SUniformDiscrete => SNone | _ => s end.

Definition kind_of_scale (s : scale_ty) : fkind :=
  match s with SLog => FLog | SReverseLog => FRLog | _ => FLin end.

Definition all_scales : list scale_ty := [SNone; SLinear; SLog; SReverseLog; SUniformDiscrete].
