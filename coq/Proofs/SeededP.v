(* Proofs about Model/Seeded.v *)
From VZ Require Import Base.Prelude Model.Seeded.

Lemma seeded_ambient_free d s z dumped a1 a2 :
  src_seeded s = true -> site_seed d s (Some z) dumped a1 = site_seed d s (Some z) dumped a2.
Proof. destruct s; simpl; intros H; try discriminate; reflexivity. Qed.

Lemma restored_ambient_free d s sd dumped a1 a2 :
  src_restored s = true -> site_seed d s sd dumped a1 = site_seed d s sd dumped a2.
Proof. destruct s; simpl; intros H; try discriminate; reflexivity. Qed.

Lemma class_ok_sites c : class_ok c = true -> forallb site_ok (rc_sites c) = true.
Proof. unfold class_ok. intros H. apply andb_true_iff in H. tauto. Qed.

Theorem init_reproducible d c z a1 a2 : class_ok c = true -> init_seeds d c (Some z) a1 = init_seeds d c (Some z) a2.
Proof.
  intros H. apply class_ok_sites in H. unfold init_seeds.
  induction (rc_sites c) as [|[[nm w] s] l IH]; simpl in *; [reflexivity|].
  apply andb_true_iff in H. destruct H as [H1 H2]. specialize (IH H2).
  destruct w; simpl; try exact IH. unfold site_ok in H1. simpl in H1.
  rewrite (seeded_ambient_free d s z 0 a1 a2 H1), IH. reflexivity.
Qed.

Theorem load_reproducible d c dumped a1 a2 : class_ok c = true -> load_seeds d c dumped a1 = load_seeds d c dumped a2.
Proof.
  intros H. apply class_ok_sites in H. unfold load_seeds.
  induction (rc_sites c) as [|[[nm w] s] l IH]; simpl in *; [reflexivity|].
  apply andb_true_iff in H. destruct H as [H1 H2]. specialize (IH H2).
  destruct w; simpl; try exact IH. unfold site_ok in H1. simpl in H1.
  rewrite (restored_ambient_free d s None dumped a1 a2 H1), IH. reflexivity.
Qed.

Theorem restore_reproducible d c passes z dumped a1 a2 :
  class_ok c = true -> rc_load_restores_streams c = true \/ passes = true ->
  restored_seeds d c passes (Some z) dumped a1 = restored_seeds d c passes (Some z) dumped a2.
Proof.
  intros Hok H. unfold restored_seeds. destruct (rc_load_restores_streams c).
  - apply load_reproducible; assumption.
  - destruct H as [H|H]; [discriminate|]. subst passes.
    rewrite (init_reproducible d c z a1 a2 Hok), (load_reproducible d c dumped a1 a2 Hok). reflexivity.
Qed.

(* a designer whose behaviour depends on the ambient only through the seeds of its streams *)
Section Behaviour.
  Variables Hist Out : Type.
  Variable behave : list Z -> Hist -> Out.
  Variable derive : Z -> Z.

  Theorem run_reproducible c z h a1 a2 : class_ok c = true ->
    behave (init_seeds derive c (Some z) a1) h = behave (init_seeds derive c (Some z) a2) h.
  Proof. intros H. rewrite (init_reproducible derive c z a1 a2 H). reflexivity. Qed.

  Theorem restored_run_reproducible c passes z dumped h a1 a2 : class_ok c = true ->
    rc_load_restores_streams c = true \/ passes = true ->
    behave (restored_seeds derive c passes (Some z) dumped a1) h = behave (restored_seeds derive c passes (Some z) dumped a2) h.
  Proof. intros H1 H2. rewrite (restore_reproducible derive c passes z dumped a1 a2 H1 H2). reflexivity. Qed.
End Behaviour.

(* the seed argument reaches at least one stream *)
Lemma takes_seed_value d s z a : src_takes_seed s = true -> site_seed d s (Some z) 0 a = z.
Proof. destruct s; simpl; intros H; try discriminate; reflexivity. Qed.

Theorem seed_is_used d c z1 z2 a : class_uses_seed c = true -> z1 <> z2 ->
  init_seeds d c (Some z1) a <> init_seeds d c (Some z2) a.
Proof.
  unfold class_uses_seed, init_seeds. intros H Hz.
  induction (rc_sites c) as [|[[nm w] s] l IH]; simpl in *; [discriminate|].
  destruct w; simpl in *.
  - destruct (src_takes_seed s) eqn:E; simpl in H.
    + rewrite !(takes_seed_value d s _ a E). intros Heq. inversion Heq. contradiction.
    + intros Heq. inversion Heq. apply IH; assumption.
  - apply IH; assumption.
  - apply IH; assumption.
Qed.

(* sources that are not acceptable make two runs with the same seed differ *)
Theorem unseeded_sources_refuted d z dumped :
  forall s, In s [SEntropy; SClock; SGlobal; SStale] ->
  exists a1 a2, site_seed d s (Some z) dumped a1 <> site_seed d s (Some z) dumped a2.
Proof.
  intros s Hs. exists {| a_clock := 0; a_global := 0; a_entropy := 0; a_stale := 0 |},
                      {| a_clock := 1; a_global := 1; a_entropy := 1; a_stale := 1 |}.
  simpl in Hs. destruct Hs as [<-|[<-|[<-|[<-|[]]]]]; simpl; discriminate.
Qed.

(* a designer whose load() leaves streams alone, restored by a factory call without the seed (NSGA-II today) *)
Definition evo_like : rng_class :=
  {| rc_name := []; rc_sites := [([], WInit, SSeed); ([], WInit, SSeed)]; rc_ambient_reads := [];
     rc_has_load := true; rc_load_restores_streams := false |}.
Theorem restore_without_seed_refuted : class_ok evo_like = true /\ restore_ok evo_like false = false /\
  exists a1 a2, restored_seeds (fun z => z) evo_like false (Some 5%Z) 0 a1 <> restored_seeds (fun z => z) evo_like false (Some 5%Z) 0 a2.
Proof.
  split; [reflexivity|]. split; [reflexivity|].
  exists {| a_clock := 0; a_global := 0; a_entropy := 0; a_stale := 0 |},
         {| a_clock := 1; a_global := 1; a_entropy := 1; a_stale := 1 |}.
  vm_compute. discriminate.
Qed.
