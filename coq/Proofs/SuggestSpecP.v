(* C02: what SuggestTrials returns and stores, for every state, worker, count and Pythia answer.
   Layer 1: characterising lemmas for the three loops.  Layer 2: the whole handler is the function sg_spec of the
   stored trials.  Layer 3: the clauses of the property as consequences of sg_spec (pure list reasoning). *)
From VZ Require Import Base.Prelude Base.XFloat Model.Metadata Model.Service Proofs.ServiceP Proofs.WedgeP Proofs.StickyP
  Proofs.NumberedP Proofs.FrameP.
From Coq Require Import Lia Permutation Sorted.

Definition is_mine (c : N) (t : trial) : bool := tstate_eqb (t_state t) ACTIVE && N.eqb (t_client t) c.
Definition is_req (t : trial) : bool := tstate_eqb (t_state t) REQUESTED.
Definition mine_of (c : N) (ts : list trial) : list trial := filter (is_mine c) ts.
Definition pool_of (ts : list trial) : list trial := filter is_req ts.
Definition assign_all (c : N) (taken ts : list trial) : list trial :=
  fold_left (fun l t => set_trial (activate c t) l) taken ts.
Fixpoint mk_new (st : tstate) (c : N) (m : N) (ps : list N) : list trial :=
  match ps with [] => [] | p :: r => mkT (m + 1) st c p [] [] [] :: mk_new st c (m + 1) r end.
Definition md_ok (ts : list trial) (tmd : list (N * kv)) : bool :=
  forallb (fun u => match get_trial (fst u) ts with Some _ => true | None => false end) tmd.
Definition md_apply (ts : list trial) (tmd : list (N * kv)) : list trial :=
  map (fun t => if mem_N (t_id t) (map fst tmd)
                then mkT (t_id t) (t_state t) (t_client t) (t_params t) (t_meas t) (t_final t) (merge_trial (t_id t) (t_md t) tmd)
                else t) ts.

(* (returned trials, stored trials, error flag) *)
Definition sg_spec (ts : list trial) (c : N) (count : nat) (po : pythia_out) : list trial * list trial * bool :=
  let mine := mine_of c ts in
  if Nat.leb count (length mine) then (firstn count mine, ts, false) else
  let taken := firstn (count - length mine) (rev (pool_of ts)) in
  let ts1 := assign_all c taken ts in
  let out1 := mine ++ map (activate c) taken in
  if Nat.eqb (length out1) count then (out1, ts1, false) else
  match po with
  | PDeliver sugs smd tmd =>
    if md_ok ts1 tmd then
      let ts2 := md_apply ts1 tmd in
      let need := (count - length out1)%nat in
      let news := mk_new ACTIVE c (max_id ts2) (firstn need (rev sugs)) in
      let rems := mk_new REQUESTED 0 (max_id (ts2 ++ news)) (rev (skipn need (rev sugs))) in
      (out1 ++ news, (ts2 ++ news) ++ rems, false)
    else ([], ts1, true)
  | _ => ([], ts1, true)
  end.

(* ------------------------------------------------------------------ small facts *)
Lemma node_eta n : mkN (n_study n) (n_trials n) (n_ops n) (n_es n) = n.
Proof. destruct n; reflexivity. Qed.

Lemma present_ids id l : get_trial id l <> None <-> In id (map t_id l).
Proof.
  induction l as [|t r IH]; simpl; [split; [congruence|tauto]|].
  destruct (N.eqb (t_id t) id) eqn:E.
  - apply N.eqb_eq in E. split; [intros _; left; exact E|intros _; discriminate].
  - apply N.eqb_neq in E. rewrite IH. split; [tauto|intros [H|H]; [contradiction|exact H]].
Qed.

Lemma present_set_trial id t l : get_trial id l <> None -> get_trial id (set_trial t l) <> None.
Proof. rewrite !present_ids, set_trial_ids. tauto. Qed.

Lemma max_id_ids l l' : map t_id l = map t_id l' -> max_id l = max_id l'.
Proof.
  unfold max_id. generalize 0%N. revert l'. induction l as [|t r IH]; intros [|t' r'] m H; simpl in *; try discriminate; [reflexivity|].
  injection H as H1 H2. rewrite H1. apply IH. exact H2.
Qed.

Lemma assign_all_ids c taken : forall ts, map t_id (assign_all c taken ts) = map t_id ts.
Proof.
  unfold assign_all. induction taken as [|t r IH]; intros ts; simpl; [reflexivity|]. rewrite IH. apply set_trial_ids.
Qed.

Lemma md_apply_ids ts tmd : map t_id (md_apply ts tmd) = map t_id ts.
Proof.
  unfold md_apply. rewrite map_map. apply map_ext. intros t. destruct (mem_N _ _); reflexivity.
Qed.

(* ------------------------------------------------------------------ layer 1: the loops *)
Lemma assign_spec k c po : forall pl need out cont s tr n,
  get_node k (nodes s) = Some n ->
  (forall t, In t pl -> get_trial (t_id t) (n_trials n) <> None) ->
  exists s1 tr1,
    run (assign_loop k c pl need out cont) s po tr = run (cont (out ++ map (activate c) (firstn need pl))) s1 po tr1 /\
    get_node k (nodes s1) = Some (mkN (n_study n) (assign_all c (firstn need pl) (n_trials n)) (n_ops n) (n_es n)).
Proof.
  induction pl as [|t rest IH]; intros need out cont s tr n Hg Hp.
  - exists s, tr. destruct need; cbn [assign_loop firstn map]; rewrite app_nil_r; unfold assign_all; cbn [fold_left];
      rewrite node_eta; auto.
  - destruct need as [|need'].
    + exists s, tr. cbn [assign_loop firstn map]. rewrite app_nil_r. unfold assign_all. cbn [fold_left]. rewrite node_eta. auto.
    + cbn [assign_loop]. fold (activate c t). cbn [run exec]. rewrite Hg.
      change (t_id (activate c t)) with (t_id t).
      destruct (get_trial (t_id t) (n_trials n)) as [cur|] eqn:Ec; [|exfalso; apply (Hp t (or_introl eq_refl)); exact Ec].
      cbn [expect_unit].
      set (n1 := mkN (n_study n) (set_trial (activate c t) (n_trials n)) (n_ops n) (n_es n)).
      assert (Hg1 : get_node k (nodes (upd s k n1)) = Some n1) by (apply (get_node_upd s k n n1 Hg)).
      destruct (IH need' (out ++ [activate c t]) cont (upd s k n1) ((CUpdateTrial k (activate c t), None) :: tr) n1 Hg1)
        as [s1 [tr1 [Hr Hn]]].
      { intros x Hx. cbn [n_trials n1]. apply present_set_trial. apply Hp. right. exact Hx. }
      exists s1, tr1. split.
      * rewrite Hr. cbn [firstn map]. rewrite <- app_assoc. reflexivity.
      * rewrite Hn. cbn [n_study n_trials n_ops n_es n1 firstn]. unfold assign_all. cbn [fold_left]. reflexivity.
Qed.

Lemma mk_new_app st c : forall ps m qs, mk_new st c m (ps ++ qs) = mk_new st c m ps ++ mk_new st c (m + N.of_nat (length ps)) qs.
Proof.
  induction ps as [|p r IH]; intros m qs; cbn [mk_new app length].
  - rewrite N.add_0_r. reflexivity.
  - rewrite IH. f_equal. f_equal. f_equal. lia.
Qed.

Lemma max_id_snoc l t : max_id (l ++ [t]) = N.max (max_id l) (t_id t).
Proof. apply max_id_app. Qed.

Lemma create_spec k c po : forall sr need out cont s tr n,
  get_node k (nodes s) = Some n ->
  exists s1 tr1,
    run (create_loop k c sr need out cont) s po tr =
      run (cont (skipn need sr) (out ++ mk_new ACTIVE c (max_id (n_trials n)) (firstn need sr))) s1 po tr1 /\
    get_node k (nodes s1) =
      Some (mkN (n_study n) (n_trials n ++ mk_new ACTIVE c (max_id (n_trials n)) (firstn need sr)) (n_ops n) (n_es n)).
Proof.
  induction sr as [|p rest IH]; intros need out cont s tr n Hg.
  - exists s, tr. destruct need; cbn [create_loop firstn skipn mk_new]; rewrite !app_nil_r, node_eta; auto.
  - destruct need as [|need'].
    + exists s, tr. cbn [create_loop firstn skipn mk_new]. rewrite !app_nil_r, node_eta. auto.
    + cbn [create_loop]. cbn [run exec]. rewrite Hg. cbn [run exec]. rewrite Hg. cbn [t_id].
      rewrite fresh_id_absent. cbn [expect_unit].
      set (t := mkT (max_id (n_trials n) + 1) ACTIVE c p [] [] []).
      set (n1 := mkN (n_study n) (n_trials n ++ [t]) (n_ops n) (n_es n)).
      assert (Hg1 : get_node k (nodes (upd s k n1)) = Some n1) by (apply (get_node_upd s k n n1 Hg)).
      destruct (IH need' (out ++ [t]) cont (upd s k n1)
                   ((CCreateTrial k t, None) :: (CMaxTrialId k, None) :: tr) n1 Hg1) as [s1 [tr1 [Hr Hn]]].
      assert (Hm : max_id (n_trials n1) = (max_id (n_trials n) + 1)%N).
      { cbn [n_trials n1]. rewrite max_id_snoc. cbn [t_id t]. lia. }
      exists s1, tr1. split.
      * rewrite Hr. cbn [firstn skipn mk_new]. rewrite Hm. fold t. rewrite <- app_assoc. reflexivity.
      * rewrite Hn, Hm. cbn [n_study n_trials n_ops n_es n1 firstn mk_new]. fold t.
        rewrite <- app_assoc. reflexivity.
Qed.

Lemma remain_spec k po : forall rem cont s tr n,
  get_node k (nodes s) = Some n ->
  exists s1 tr1,
    run (remain_loop k rem cont) s po tr = run cont s1 po tr1 /\
    get_node k (nodes s1) =
      Some (mkN (n_study n) (n_trials n ++ mk_new REQUESTED 0 (max_id (n_trials n)) rem) (n_ops n) (n_es n)).
Proof.
  induction rem as [|p rest IH]; intros cont s tr n Hg.
  - exists s, tr. cbn [remain_loop mk_new]. rewrite app_nil_r, node_eta. auto.
  - cbn [remain_loop]. cbn [run exec]. rewrite Hg. cbn [run exec]. rewrite Hg. cbn [t_id].
    rewrite fresh_id_absent. cbn [expect_unit].
    set (t := mkT (max_id (n_trials n) + 1) REQUESTED 0 p [] [] []).
    set (n1 := mkN (n_study n) (n_trials n ++ [t]) (n_ops n) (n_es n)).
    assert (Hg1 : get_node k (nodes (upd s k n1)) = Some n1) by (apply (get_node_upd s k n n1 Hg)).
    destruct (IH cont (upd s k n1) ((CCreateTrial k t, None) :: (CMaxTrialId k, None) :: tr) n1 Hg1) as [s1 [tr1 [Hr Hn]]].
    assert (Hm : max_id (n_trials n1) = (max_id (n_trials n) + 1)%N).
    { cbn [n_trials n1]. rewrite max_id_snoc. cbn [t_id t]. lia. }
    exists s1, tr1. split; [exact Hr|].
    rewrite Hn, Hm. cbn [n_study n_trials n_ops n_es n1 mk_new]. fold t.
    rewrite <- app_assoc. reflexivity.
Qed.

(* ------------------------------------------------------------------ layer 2: the handler *)
Definition not_decide (po : pythia_out) : Prop := match po with PDecide _ _ _ => False | _ => True end.

(* what runs once the operation record o exists (s: state with the record stored) *)
Lemma suggest_tail_spec k c count o s po tr n :
  get_node k (nodes s) = Some n -> existsb (op_is (o_client o) (o_num o)) (n_ops n) = true -> not_decide po ->
  let '(out, ts', err) := sg_spec (n_trials n) c count po in
  let o' := mkOp (o_client o) (o_num o) true err out in
  exists s' tr', run (suggest_tail k c count o) s po tr = (s', Done (RpOp o'), tr') /\
    exists n', get_node k (nodes s') = Some n' /\ find (op_is (o_client o) (o_num o)) (n_ops n') = Some o' /\ n_trials n' = ts'.
Proof.
  intros Hg Hex Hpo. unfold sg_spec. fold (mine_of c (n_trials n)).
  unfold suggest_tail. cbn [run exec]. rewrite Hg. cbv beta iota zeta.
  fold (is_mine c). fold (mine_of c (n_trials n)).
  destruct (Nat.leb count (length (mine_of c (n_trials n)))) eqn:Hle.
  - destruct (finish_op_done s k n o false (firstn count (mine_of c (n_trials n))) po ((CListTrials k, None) :: tr) Hg Hex)
      as [s' [tr' [Hr [n' [Hn' [Hf [Ht _]]]]]]].
    exists s', tr'. split; [exact Hr|]. exists n'. auto.
  - cbn [run exec]. rewrite Hg. cbv beta iota zeta. fold is_req. fold (pool_of (n_trials n)).
    set (mine := mine_of c (n_trials n)) in *. set (pool := pool_of (n_trials n)).
    set (need := (count - length mine)%nat).
    match goal with |- context [assign_loop k c (rev pool) need mine ?K] => set (cont := K) end.
    destruct (assign_spec k c po (rev pool) need mine cont s ((CListTrials k, None) :: (CListTrials k, None) :: tr) n Hg)
      as [s1 [tr1 [Hr1 Hn1]]].
    { intros t Ht. apply present_ids. apply in_map. apply in_rev in Ht. unfold pool, pool_of in Ht. apply filter_In in Ht. tauto. }
    rewrite Hr1. clear Hr1. set (taken := firstn need (rev pool)) in *. set (out1 := mine ++ map (activate c) taken).
    set (ts1 := assign_all c taken (n_trials n)) in *. set (n1 := mkN (n_study n) ts1 (n_ops n) (n_es n)) in *.
    assert (Hex1 : existsb (op_is (o_client o) (o_num o)) (n_ops n1) = true) by exact Hex.
    unfold cont. cbn [run].
    destruct (Nat.eqb (length out1) count) eqn:Heq.
    + destruct (finish_op_done s1 k n1 o false out1 po tr1 Hn1 Hex1) as [s' [tr' [Hr [n' [Hn' [Hf [Ht _]]]]]]].
      exists s', tr'. split; [exact Hr|]. exists n'. auto.
    + cbn [run exec]. rewrite Hn1. cbn [run].
      destruct po as [sugs smd tmd|ds smd tmd|e]; [|destruct Hpo|].
      * cbn [run exec]. rewrite Hn1. cbn [n_trials n1]. fold (md_ok ts1 tmd).
        destruct (md_ok ts1 tmd) eqn:Hmd.
        -- cbn [run]. fold (md_apply ts1 tmd). set (ts2 := md_apply ts1 tmd).
           set (n2 := mkN (mkS (s_state (n_study n1)) (s_metrics (n_study n1)) (merge (s_md (n_study n1)) smd)) ts2 (n_ops n1) (n_es n1)).
           assert (Hg2 : get_node k (nodes (upd s1 k n2)) = Some n2) by (apply (get_node_upd s1 k n1 n2 Hn1)).
           set (need2 := (count - length out1)%nat).
           match goal with |- context [create_loop k c (rev sugs) need2 out1 ?K] => set (cont2 := K) end.
           match goal with |- context [run _ (upd s1 k n2) _ ?T] => set (tr2 := T) end.
           destruct (create_spec k c (PDeliver sugs smd tmd) (rev sugs) need2 out1 cont2 (upd s1 k n2) tr2 n2 Hg2)
             as [s3 [tr3 [Hr3 Hn3]]].
           rewrite Hr3. clear Hr3. unfold cont2.
           set (news := mk_new ACTIVE c (max_id (n_trials n2)) (firstn need2 (rev sugs))) in *.
           set (n3 := mkN (n_study n2) (n_trials n2 ++ news) (n_ops n2) (n_es n2)) in *.
           match goal with |- context [remain_loop k ?R ?K] => set (rem := R); set (cont3 := K) end.
           destruct (remain_spec k (PDeliver sugs smd tmd) rem cont3 s3 tr3 n3 Hn3) as [s4 [tr4 [Hr4 Hn4]]].
           rewrite Hr4. clear Hr4. unfold cont3. cbn [run].
           set (n4 := mkN (n_study n3) (n_trials n3 ++ mk_new REQUESTED 0 (max_id (n_trials n3)) rem) (n_ops n3) (n_es n3)) in *.
           assert (Hex4 : existsb (op_is (o_client o) (o_num o)) (n_ops n4) = true) by exact Hex.
           destruct (finish_op_done s4 k n4 o false (out1 ++ news) (PDeliver sugs smd tmd) tr4 Hn4 Hex4)
             as [s' [tr' [Hr [n' [Hn' [Hf [Ht _]]]]]]].
           exists s', tr'. split; [exact Hr|]. exists n'. split; [exact Hn'|]. split; [exact Hf|]. rewrite Ht. reflexivity.
        -- cbn [run].
           destruct (finish_op_done s1 k n1 o true [] (PDeliver sugs smd tmd) ((CUpdateMd k smd tmd, Some ENotFound) :: (CMaxTrialId k, None) :: tr1) Hn1 Hex1)
             as [s' [tr' [Hr [n' [Hn' [Hf [Ht _]]]]]]].
           exists s', tr'. split; [exact Hr|]. exists n'. auto.
      * destruct (finish_op_done s1 k n1 o true [] (PFail e) ((CMaxTrialId k, None) :: tr1) Hn1 Hex1)
          as [s' [tr' [Hr [n' [Hn' [Hf [Ht _]]]]]]].
        exists s', tr'. split; [exact Hr|]. exists n'. auto.
Qed.

Theorem suggest_char s k n c count po :
  get_node k (nodes s) = Some n -> immutable (n_study n) = false ->
  (forall o, In o (filter (fun o => N.eqb (o_client o) c) (n_ops n)) -> o_done o = true) ->
  numbered_from' 1 (filter (fun o => N.eqb (o_client o) c) (n_ops n)) ->
  not_decide po ->
  let '(out, ts', err) := sg_spec (n_trials n) c count po in
  let num := (N.of_nat (length (filter (fun o => N.eqb (o_client o) c) (n_ops n))) + 1)%N in
  let o' := mkOp c num true err out in
  exists s', step s (SuggestTrials k c count, po) = (s', Done (RpOp o')) /\
    exists n', get_node k (nodes s') = Some n' /\ find (op_is c num) (n_ops n') = Some o' /\ n_trials n' = ts'.
Proof.
  intros Hg Him Hdone Hnum Hpo.
  set (mine := filter (fun o => N.eqb (o_client o) c) (n_ops n)) in *.
  set (old := match mine with [] => 0%N | _ => N.of_nat (length mine) end).
  assert (Hold : old = N.of_nat (length mine)) by (unfold old; destruct mine; reflexivity).
  set (o := mkOp c (old + 1) false false []).
  set (n1 := mkN (n_study n) (n_trials n) (n_ops n ++ [o]) (n_es n)).
  assert (Hfree : existsb (op_is c (old + 1)) (n_ops n) = false) by (rewrite Hold; apply next_op_free; exact Hnum).
  assert (Hg1 : get_node k (nodes (upd s k n1)) = Some n1) by (apply (get_node_upd s k n n1 Hg)).
  assert (Hex1 : existsb (op_is (o_client o) (o_num o)) (n_ops n1) = true).
  { cbn [n_ops n1 o_client o_num o]. apply existsb_app_last. unfold op_is, o; simpl; rewrite !N.eqb_refl; reflexivity. }
  pose proof (fun tr => suggest_tail_spec k c count o (upd s k n1) po tr n1 Hg1 Hex1 Hpo) as Htail.
  cbn [n_trials n1] in Htail.
  destruct (sg_spec (n_trials n) c count po) as [[out ts'] err].
  cbn [o_client o_num o] in Htail. rewrite <- Hold. cbv zeta.
  assert (Hcreate : forall tr, exists s' tr',
     run (Call (CCreateSop k o) (fun r3 => expect_unit r3 (suggest_tail k c count o))) s po tr =
       (s', Done (RpOp (mkOp c (old + 1) true err out)), tr') /\
     exists n', get_node k (nodes s') = Some n' /\ find (op_is c (old + 1)) (n_ops n') = Some (mkOp c (old + 1) true err out) /\
                n_trials n' = ts').
  { intros tr. cbn [run exec]. rewrite Hg. cbn [o_client o_num o]. rewrite Hfree. cbn [expect_unit]. fold n1.
    destruct (Htail ((CCreateSop k o, None) :: tr)) as [s' [tr' [Hr Hn']]]. exists s', tr'. split; [exact Hr|exact Hn']. }
  unfold step. cbn [fst snd handler]. rewrite h_suggest_shape. unfold guard_study. cbn [run exec]. rewrite Hg, Him.
  cbn [run exec]. rewrite Hg. cbn [run exec]. rewrite Hg. fold mine.
  destruct mine as [|m0 mrest] eqn:Em.
  - cbn [run exec]. rewrite Hg. fold mine. rewrite Em.
    match goal with |- context [run ?P s po ?T] => destruct (Hcreate T) as [s' [tr' [Hr Hn']]]; exists s'; split; [|exact Hn'];
      change (run P s po T) with (run (Call (CCreateSop k o) (fun r3 => expect_unit r3 (suggest_tail k c count o))) s po T);
      rewrite Hr; reflexivity end.
  - cbn zeta. rewrite (filter_undone_nil (m0 :: mrest) Hdone). cbn [run exec]. rewrite Hg. fold mine. rewrite Em.
    match goal with |- context [run ?P s po ?T] => destruct (Hcreate T) as [s' [tr' [Hr Hn']]]; exists s'; split; [|exact Hn'];
      change (run P s po T) with (run (Call (CCreateSop k o) (fun r3 => expect_unit r3 (suggest_tail k c count o))) s po T);
      rewrite Hr; reflexivity end.
Qed.

(* ------------------------------------------------------------------ layer 3: the clauses of the property *)
Definition sugs_of (po : pythia_out) : list N := match po with PDeliver sugs _ _ => sugs | _ => [] end.

Lemma mk_new_length st c : forall ps m, length (mk_new st c m ps) = length ps.
Proof. induction ps as [|p r IH]; intros m; cbn [mk_new length]; [reflexivity|rewrite IH; reflexivity]. Qed.

Lemma mk_new_firstn st c : forall ps m i, firstn i (mk_new st c m ps) = mk_new st c m (firstn i ps).
Proof. induction ps as [|p r IH]; intros m [|i]; cbn [mk_new firstn]; try reflexivity. rewrite IH. reflexivity. Qed.

Lemma mk_new_shape st c : forall ps m, Forall (fun t => t_state t = st /\ t_client t = c) (mk_new st c m ps).
Proof. induction ps as [|p r IH]; intros m; cbn [mk_new]; constructor; [split; reflexivity|apply IH]. Qed.

Lemma mk_new_params st c : forall ps m, map t_params (mk_new st c m ps) = ps.
Proof. induction ps as [|p r IH]; intros m; cbn [mk_new map t_params]; [reflexivity|rewrite IH; reflexivity]. Qed.

Lemma firstn_In {A} : forall n (l : list A) x, In x (firstn n l) -> In x l.
Proof. induction n as [|n IH]; intros [|a l] x H; cbn [firstn] in H; try destruct H; [left; assumption|right; apply IH; assumption]. Qed.

(* exactly N trials, fewer only if the algorithm delivers fewer *)
Lemma sg_count ts c count po out ts' : sg_spec ts c count po = (out, ts', false) ->
  length out = Nat.min count (length (mine_of c ts) + length (pool_of ts) + length (sugs_of po)).
Proof.
  unfold sg_spec. destruct (Nat.leb count (length (mine_of c ts))) eqn:Hle.
  - intros H. injection H as <- _. apply Nat.leb_le in Hle. rewrite firstn_length. lia.
  - apply Nat.leb_gt in Hle.
    set (taken := firstn (count - length (mine_of c ts)) (rev (pool_of ts))).
    assert (Ht : length taken = Nat.min (count - length (mine_of c ts)) (length (pool_of ts))).
    { unfold taken. rewrite firstn_length, rev_length. reflexivity. }
    destruct (Nat.eqb (length (mine_of c ts ++ map (activate c) taken)) count) eqn:Heq.
    + intros H. injection H as <- _. apply Nat.eqb_eq in Heq. rewrite Heq. rewrite app_length, map_length in Heq. lia.
    + apply Nat.eqb_neq in Heq. rewrite app_length, map_length in Heq.
      destruct po as [sugs smd tmd|ds smd tmd|e]; try (intros H; discriminate H).
      destruct (md_ok _ tmd); [|intros H; discriminate H]. intros H. injection H as <- _.
      rewrite !app_length, map_length, mk_new_length, firstn_length, rev_length. cbn [sugs_of]. lia.
Qed.

(* all ACTIVE and assigned to the asking worker *)
Lemma sg_all_mine ts c count po out ts' err : sg_spec ts c count po = (out, ts', err) ->
  Forall (fun t => t_state t = ACTIVE /\ t_client t = c) out.
Proof.
  assert (Hm : Forall (fun t => t_state t = ACTIVE /\ t_client t = c) (mine_of c ts)).
  { apply Forall_forall. intros t Ht. apply filter_In in Ht. destruct Ht as [_ Ht]. unfold is_mine in Ht.
    apply andb_true_iff in Ht. destruct Ht as [Hs Hc]. apply N.eqb_eq in Hc. split; [|exact Hc].
    destruct (t_state t); simpl in Hs; congruence. }
  assert (Ha : forall l, Forall (fun t => t_state t = ACTIVE /\ t_client t = c) (map (activate c) l)).
  { intros l. apply Forall_forall. intros t Ht. apply in_map_iff in Ht. destruct Ht as [x [<- _]]. split; reflexivity. }
  unfold sg_spec. destruct (Nat.leb count (length (mine_of c ts))).
  - intros H. injection H as <- _ _. apply Forall_forall. intros t Ht. apply firstn_In in Ht.
    exact (proj1 (Forall_forall _ _) Hm t Ht).
  - destruct (Nat.eqb _ count).
    + intros H. injection H as <- _ _. apply Forall_app. split; [exact Hm|apply Ha].
    + destruct po as [sugs smd tmd|ds smd tmd|e]; try (intros H; injection H as <- _ _; constructor).
      destruct (md_ok _ tmd); intros H; injection H as <- _ _; [|constructor].
      apply Forall_app. split; [apply Forall_app; split; [exact Hm|apply Ha]|apply mk_new_shape].
Qed.

(* first the worker's own ACTIVE trials, then the queued REQUESTED ones (last queued first), then new ones *)
Lemma sg_order ts c count po out ts' : sg_spec ts c count po = (out, ts', false) ->
  out = firstn count (mine_of c ts ++ map (activate c) (rev (pool_of ts)) ++ mk_new ACTIVE c (max_id ts) (rev (sugs_of po))).
Proof.
  unfold sg_spec. set (mine := mine_of c ts). set (pool := pool_of ts).
  destruct (Nat.leb count (length mine)) eqn:Hle.
  - intros H. injection H as <- _. apply Nat.leb_le in Hle. rewrite firstn_app.
    replace (count - length mine)%nat with 0%nat by lia. cbn [firstn]. rewrite app_nil_r. reflexivity.
  - apply Nat.leb_gt in Hle. set (need := (count - length mine)%nat).
    set (P := map (activate c) (rev pool)).
    assert (HP : map (activate c) (firstn need (rev pool)) = firstn need P) by (unfold P; rewrite firstn_map; reflexivity).
    assert (HlP : length P = length pool) by (unfold P; rewrite map_length, rev_length; reflexivity).
    rewrite HP.
    assert (Hsplit : forall W, firstn count (mine ++ P ++ W) = mine ++ firstn need P ++ firstn (need - length P) W).
    { intros W. rewrite firstn_app. rewrite (firstn_all2 (n := count) mine) by lia. fold need. rewrite firstn_app. reflexivity. }
    destruct (Nat.eqb (length (mine ++ firstn need P)) count) eqn:Heq.
    + intros H. injection H as <- _. apply Nat.eqb_eq in Heq. rewrite app_length, firstn_length in Heq.
      rewrite Hsplit. replace (need - length P)%nat with 0%nat by lia. cbn [firstn]. rewrite app_nil_r. reflexivity.
    + apply Nat.eqb_neq in Heq. rewrite app_length, firstn_length in Heq.
      destruct po as [sugs smd tmd|ds smd tmd|e]; try (intros H; discriminate H).
      destruct (md_ok _ tmd); [|intros H; discriminate H]. intros H. injection H as <- _.
      rewrite Hsplit. cbn [sugs_of]. rewrite (firstn_all2 (n := need) P) by lia.
      rewrite mk_new_firstn. rewrite <- app_assoc. f_equal. f_equal.
      rewrite (max_id_ids (md_apply _ tmd) ts) by (rewrite md_apply_ids, assign_all_ids; reflexivity).
      f_equal. f_equal. rewrite app_length. unfold need. lia.
Qed.

(* ---- the stored trials: ids, surplus, untouched trials *)
Fixpoint ids_from (m : N) (n : nat) : list N := match n with O => [] | S n' => (m + 1)%N :: ids_from (m + 1) n' end.

Lemma mk_new_ids st c : forall ps m, map t_id (mk_new st c m ps) = ids_from m (length ps).
Proof. induction ps as [|p r IH]; intros m; cbn [mk_new map length ids_from t_id]; [reflexivity|rewrite IH; reflexivity]. Qed.

Lemma ids_from_app : forall a m b, ids_from m (a + b) = ids_from m a ++ ids_from (m + N.of_nat a) b.
Proof.
  induction a as [|a IH]; intros m b; cbn [ids_from plus app].
  - rewrite N.add_0_r. reflexivity.
  - rewrite IH. f_equal. f_equal. f_equal. lia.
Qed.

Lemma ids_from_gt : forall n m id, In id (ids_from m n) -> (m < id)%N.
Proof. induction n as [|n IH]; intros m id H; cbn [ids_from] in H; [destruct H|]. destruct H as [<-|H]; [lia|]. specialize (IH _ _ H). lia. Qed.

Lemma ids_from_sorted : forall n m, StronglySorted N.lt (ids_from m n).
Proof.
  induction n as [|n IH]; intros m; cbn [ids_from]; constructor; [apply IH|].
  apply Forall_forall. intros id H. apply ids_from_gt in H. exact H.
Qed.

Lemma max_id_new st c ts ps : max_id (ts ++ mk_new st c (max_id ts) ps) = (max_id ts + N.of_nat (length ps))%N.
Proof.
  revert ts. induction ps as [|p r IH]; intros ts; cbn [mk_new length].
  - rewrite app_nil_r. lia.
  - change (ts ++ ?x :: ?l) with (ts ++ [x] ++ l). rewrite app_assoc.
    assert (Hm : max_id (ts ++ [mkT (max_id ts + 1) st c p [] [] []]) = (max_id ts + 1)%N) by (rewrite max_id_snoc; cbn [t_id]; lia).
    rewrite <- Hm at 2. rewrite IH. rewrite Hm. lia.
Qed.

(* When the algorithm is reached and its answer is accepted: the stored trials are the old ones (same ids, same order)
   followed by one new trial per suggestion - none dropped -, numbered max+1, max+2, ... in creation order; the ones not
   handed out are stored REQUESTED and unowned. *)
Lemma sg_surplus ts c count sugs smd tmd out ts' :
  sg_spec ts c count (PDeliver sugs smd tmd) = (out, ts', false) ->
  (length (mine_of c ts) + length (pool_of ts) < count)%nat ->
  exists base news rems,
    ts' = (base ++ news) ++ rems /\ map t_id base = map t_id ts /\
    out = (mine_of c ts ++ map (activate c) (rev (pool_of ts))) ++ news /\
    Forall (fun t => t_state t = REQUESTED /\ t_client t = 0%N) rems /\
    map t_params news ++ rev (map t_params rems) = rev sugs /\
    map t_id (news ++ rems) = ids_from (max_id ts) (length sugs).
Proof.
  unfold sg_spec. set (mine := mine_of c ts). set (pool := pool_of ts). intros H Hlt.
  assert (Hle : Nat.leb count (length mine) = false) by (apply Nat.leb_gt; lia). rewrite Hle in H.
  assert (Htk : firstn (count - length mine) (rev pool) = rev pool) by (apply firstn_all2; rewrite rev_length; lia).
  rewrite Htk in H.
  assert (Hne : Nat.eqb (length (mine ++ map (activate c) (rev pool))) count = false).
  { apply Nat.eqb_neq. rewrite app_length, map_length, rev_length. lia. }
  rewrite Hne in H. destruct (md_ok _ tmd); [|discriminate H]. injection H as Hout Hts.
  set (ts2 := md_apply (assign_all c (rev pool) ts) tmd) in *.
  set (need2 := (count - length (mine ++ map (activate c) (rev pool)))%nat) in *.
  assert (Hm2 : max_id ts2 = max_id ts) by (apply max_id_ids; unfold ts2; rewrite md_apply_ids, assign_all_ids; reflexivity).
  set (news := mk_new ACTIVE c (max_id ts2) (firstn need2 (rev sugs))) in *.
  set (rems := mk_new REQUESTED 0 (max_id (ts2 ++ news)) (rev (skipn need2 (rev sugs)))) in *.
  exists ts2, news, rems. repeat split.
  - symmetry. exact Hts.
  - unfold ts2. rewrite md_apply_ids, assign_all_ids. reflexivity.
  - symmetry. exact Hout.
  - apply mk_new_shape.
  - unfold news, rems. rewrite !mk_new_params, rev_involutive. apply firstn_skipn.
  - rewrite map_app. unfold news at 1, rems. rewrite !mk_new_ids. unfold news. rewrite max_id_new, Hm2.
    rewrite <- ids_from_app. f_equal. rewrite rev_length, <- app_length, firstn_skipn, rev_length. reflexivity.
Qed.

(* every new id is larger than every id the study had, and ids increase with creation order *)
Lemma fresh_ids_above ts n id old : In id (ids_from (max_id ts) n) -> In old ts -> (t_id old < id)%N.
Proof. intros Hi Ho. apply ids_from_gt in Hi. pose proof (max_id_bound ts old Ho). lia. Qed.

(* ---- no trial changes hands: what SuggestTrials does to the trials that were already stored *)
Definition same_core (t t' : trial) : Prop :=
  t_id t' = t_id t /\ t_state t' = t_state t /\ t_client t' = t_client t /\ t_params t' = t_params t /\
  t_meas t' = t_meas t /\ t_final t' = t_final t.

Lemma get_set_trial id t' l : get_trial id (set_trial t' l) =
  if N.eqb (t_id t') id then match get_trial id l with Some _ => Some t' | None => None end else get_trial id l.
Proof.
  induction l as [|x r IH]; cbn [set_trial get_trial].
  - destruct (N.eqb (t_id t') id); reflexivity.
  - destruct (N.eqb (t_id x) (t_id t')) eqn:E1; cbn [get_trial].
    + apply N.eqb_eq in E1. rewrite E1. destruct (N.eqb (t_id t') id); reflexivity.
    + destruct (N.eqb (t_id x) id) eqn:E2.
      * apply N.eqb_eq in E2. apply N.eqb_neq in E1. destruct (N.eqb (t_id t') id) eqn:E3; [|reflexivity].
        apply N.eqb_eq in E3. congruence.
      * exact IH.
Qed.

Lemma get_trial_none_ids id l : ~ In id (map t_id l) -> get_trial id l = None.
Proof. intros H. destruct (get_trial id l) eqn:E; [|reflexivity]. exfalso. apply H. apply present_ids. congruence. Qed.

Lemma get_assign_all c : forall taken ts id,
  (forall t, In t taken -> get_trial (t_id t) ts <> None) -> NoDup (map t_id taken) ->
  get_trial id (assign_all c taken ts) =
    match get_trial id taken with Some t => Some (activate c t) | None => get_trial id ts end.
Proof.
  unfold assign_all. induction taken as [|t r IH]; intros ts id Hp Hnd; cbn [fold_left get_trial]; [reflexivity|].
  inversion Hnd as [|? ? Hnotin Hnd']; subst.
  rewrite IH; [|intros x Hx; apply present_set_trial; apply Hp; right; exact Hx|exact Hnd'].
  destruct (N.eqb (t_id t) id) eqn:E.
  - apply N.eqb_eq in E. subst id. rewrite (get_trial_none_ids (t_id t) r Hnotin).
    rewrite get_set_trial. change (t_id (activate c t)) with (t_id t). rewrite N.eqb_refl.
    destruct (get_trial (t_id t) ts) eqn:E2; [reflexivity|]. exfalso. apply (Hp t (or_introl eq_refl)). exact E2.
  - destruct (get_trial id r); [reflexivity|]. rewrite get_set_trial. change (t_id (activate c t)) with (t_id t). rewrite E. reflexivity.
Qed.

Lemma get_trial_app_l id l l' t : get_trial id l = Some t -> get_trial id (l ++ l') = Some t.
Proof. induction l as [|x r IH]; cbn [get_trial app]; [discriminate|]. destruct (N.eqb (t_id x) id); auto. Qed.

Lemma NoDup_map_sub {A B} (f : A -> B) (l l' : list A) : NoDup (map f l) -> NoDup l' -> incl l' l -> NoDup (map f l').
Proof.
  intros Hl Hl' Hi. induction l' as [|x r IH]; cbn [map]; [constructor|].
  inversion Hl' as [|? ? Hx Hr]; subst. constructor.
  - intros Hin. apply in_map_iff in Hin. destruct Hin as [y [Hy Hyr]].
    assert (x = y); [|subst; contradiction].
    assert (Hxl : In x l) by (apply Hi; left; reflexivity). assert (Hyl : In y l) by (apply Hi; right; exact Hyr).
    clear -Hl Hxl Hyl Hy. induction l as [|z l IH]; [destruct Hxl|]. cbn [map] in Hl. inversion Hl as [|? ? Hz Hl0]; subst.
    destruct Hxl as [->|Hxl], Hyl as [->|Hyl]; auto.
    + exfalso. apply Hz. rewrite <- Hy. apply in_map. exact Hyl.
    + exfalso. apply Hz. rewrite Hy. apply in_map. exact Hxl.
  - apply IH; [exact Hr|]. intros y Hy. apply Hi. right. exact Hy.
Qed.

Lemma NoDup_filter {A} (f : A -> bool) l : NoDup l -> NoDup (filter f l).
Proof.
  induction l as [|x r IH]; intros H; cbn [filter]; [constructor|]. inversion H; subst. destruct (f x); [constructor|]; auto.
  intros Hin. apply filter_In in Hin. tauto.
Qed.

Lemma NoDup_of_map {A B} (f : A -> B) l : NoDup (map f l) -> NoDup l.
Proof.
  induction l as [|x r IH]; intros H; [constructor|]. cbn [map] in H. inversion H; subst. constructor; auto.
  intros Hin. apply H2. apply in_map. exact Hin.
Qed.

Lemma NoDup_firstn {A} : forall n (l : list A), NoDup l -> NoDup (firstn n l).
Proof.
  induction n as [|n IH]; intros [|x r] H; cbn [firstn]; try constructor. 
  - inversion H; subst. intros Hin. apply firstn_In in Hin. contradiction.
  - inversion H; subst. apply IH. assumption.
Qed.

(* every stored trial is still stored; it is unchanged up to metadata unless it was a queued REQUESTED trial that has been
   handed to the asking worker (and is then among the returned trials unless the operation reports an error).  In
   particular no ACTIVE trial of another worker changes owner or state. *)
Lemma same_core_md tmd t t' : same_core t t' ->
  same_core t (if mem_N (t_id t') (map fst tmd)
               then mkT (t_id t') (t_state t') (t_client t') (t_params t') (t_meas t') (t_final t') (merge_trial (t_id t') (t_md t') tmd)
               else t').
Proof. destruct (mem_N _ _); [|tauto]. unfold same_core. cbn [t_id t_state t_client t_params t_meas t_final]. tauto. Qed.

Lemma sg_untouched ts c count po out ts' err t :
  NoDup (map t_id ts) -> sg_spec ts c count po = (out, ts', err) -> In t ts ->
  exists t', get_trial (t_id t) ts' = Some t' /\
    (same_core t t' \/ (t_state t = REQUESTED /\ same_core (activate c t) t' /\ (err = false -> In (activate c t) out))).
Proof.
  intros Hnd Hs Hin.
  assert (Hget : get_trial (t_id t) ts = Some t) by (apply In_get_trial; assumption).
  assert (Hcore : forall x, same_core x x) by (intros x; unfold same_core; tauto).
  unfold sg_spec in Hs. destruct (Nat.leb count (length (mine_of c ts))).
  { injection Hs as _ <- _. exists t. split; [exact Hget|left; apply Hcore]. }
  set (taken := firstn (count - length (mine_of c ts)) (rev (pool_of ts))) in *.
  assert (Hsub : forall x, In x taken -> In x ts /\ is_req x = true).
  { intros x Hx. unfold taken in Hx. apply firstn_In in Hx. apply in_rev in Hx. apply filter_In in Hx. exact Hx. }
  assert (Hndt : NoDup (map t_id taken)).
  { apply (NoDup_map_sub t_id ts taken Hnd).
    - unfold taken. apply NoDup_firstn. apply NoDup_rev. apply NoDup_filter. apply (NoDup_of_map t_id). exact Hnd.
    - intros x Hx. apply (Hsub x Hx). }
  assert (Hpres : forall x, In x taken -> get_trial (t_id x) ts <> None).
  { intros x Hx. apply present_ids. apply in_map. apply (Hsub x Hx). }
  set (out1 := mine_of c ts ++ map (activate c) taken) in *.
  assert (H1 : exists t1, get_trial (t_id t) (assign_all c taken ts) = Some t1 /\
             (same_core t t1 \/ (t_state t = REQUESTED /\ same_core (activate c t) t1 /\ In (activate c t) out1))).
  { rewrite (get_assign_all c taken ts (t_id t) Hpres Hndt). destruct (get_trial (t_id t) taken) as [x|] eqn:Ex.
    - assert (Hxin : In x taken) by (apply get_trial_in in Ex; exact Ex).
      assert (Hxid : t_id x = t_id t) by (apply get_trial_id in Ex; exact Ex).
      destruct (Hsub x Hxin) as [Hxts Hxreq].
      assert (x = t). { pose proof (In_get_trial ts x Hnd Hxts) as Hgx. rewrite Hxid, Hget in Hgx. congruence. }
      subst x. exists (activate c t). split; [reflexivity|]. right. split; [|split; [apply Hcore|]].
      + unfold is_req in Hxreq. destruct (t_state t); simpl in Hxreq; congruence.
      + unfold out1. apply in_or_app. right. apply in_map. exact Hxin.
    - exists t. split; [exact Hget|left; apply Hcore]. }
  destruct H1 as [t1 [Hg1 Hc1]].
  assert (Hweak : forall o e, exists t', get_trial (t_id t) (assign_all c taken ts) = Some t' /\
            (same_core t t' \/ (t_state t = REQUESTED /\ same_core (activate c t) t' /\ (e = false -> In (activate c t) (out1 ++ o))))).
  { intros o e. exists t1. split; [exact Hg1|]. destruct Hc1 as [H|[Hr [Hc Hi]]]; [left; exact H|right].
    split; [exact Hr|split; [exact Hc|intros _; apply in_or_app; left; exact Hi]]. }
  assert (Herr : exists t', get_trial (t_id t) (assign_all c taken ts) = Some t' /\
            (same_core t t' \/ (t_state t = REQUESTED /\ same_core (activate c t) t' /\ (true = false -> In (activate c t) (@nil trial))))).
  { exists t1. split; [exact Hg1|]. destruct Hc1 as [H|[Hr [Hc Hi]]]; [left; exact H|right].
    split; [exact Hr|split; [exact Hc|intros Hf; discriminate Hf]]. }
  destruct (Nat.eqb (length out1) count).
  { injection Hs as <- <- <-. destruct (Hweak [] false) as [t' [Hg' Hc']]. rewrite app_nil_r in Hc'. exists t'. auto. }
  destruct po as [sugs smd tmd|ds smd tmd|e]; try (injection Hs as <- <- <-; exact Herr).
  destruct (md_ok _ tmd); [|injection Hs as <- <- <-; exact Herr].
  injection Hs as <- <- <-.
  set (f := fun t0 => if mem_N (t_id t0) (map fst tmd)
                      then mkT (t_id t0) (t_state t0) (t_client t0) (t_params t0) (t_meas t0) (t_final t0) (merge_trial (t_id t0) (t_md t0) tmd)
                      else t0).
  assert (Hg2 : get_trial (t_id t) (md_apply (assign_all c taken ts) tmd) = Some (f t1)).
  { unfold md_apply. apply (get_trial_map f); [|exact Hg1]. intros x. unfold f. destruct (mem_N _ _); reflexivity. }
  exists (f t1). split.
  - apply get_trial_app_l. apply get_trial_app_l. exact Hg2.
  - destruct Hc1 as [H|[Hr [Hc Hi]]]; [left; apply same_core_md; exact H|right].
    split; [exact Hr|split; [apply same_core_md; exact Hc|intros _; apply in_or_app; left; exact Hi]].
Qed.


(* ------------------------------------------------------------------ the clauses, stated on the RPC itself *)
Definition suggest_ready (s : state) (k : skey) (n : node) (c : N) : Prop :=
  get_node k (nodes s) = Some n /\ immutable (n_study n) = false /\
  (forall o, In o (filter (fun o => N.eqb (o_client o) c) (n_ops n)) -> o_done o = true) /\
  numbered_from' 1 (filter (fun o => N.eqb (o_client o) c) (n_ops n)) /\
  NoDup (map t_id (n_trials n)).

Theorem suggest_clauses s k n c count po : suggest_ready s k n c -> not_decide po ->
  exists s' o n', step s (SuggestTrials k c count, po) = (s', Done (RpOp o)) /\ get_node k (nodes s') = Some n' /\
    o_done o = true /\ o_client o = c /\
    (* all ACTIVE, all owned by the asking worker *)
    Forall (fun t => t_state t = ACTIVE /\ t_client t = c) (o_trials o) /\
    (* without error: exactly count (fewer only if the algorithm delivers fewer), in the three-source order *)
    (o_err o = false ->
       length (o_trials o) = Nat.min count (length (mine_of c (n_trials n)) + length (pool_of (n_trials n)) + length (sugs_of po)) /\
       o_trials o = firstn count (mine_of c (n_trials n) ++ map (activate c) (rev (pool_of (n_trials n))) ++
                                  mk_new ACTIVE c (max_id (n_trials n)) (rev (sugs_of po)))) /\
    (* no stored trial is lost or changes hands *)
    (forall t, In t (n_trials n) -> exists t', get_trial (t_id t) (n_trials n') = Some t' /\
       (same_core t t' \/ (t_state t = REQUESTED /\ same_core (activate c t) t' /\ (o_err o = false -> In (activate c t) (o_trials o))))).
Proof.
  intros [Hg [Him [Hdone [Hnum Hnd]]]] Hpo.
  pose proof (suggest_char s k n c count po Hg Him Hdone Hnum Hpo) as H.
  destruct (sg_spec (n_trials n) c count po) as [[out ts'] err] eqn:Es. cbv zeta in H.
  destruct H as [s' [Hstep [n' [Hn' [_ Hts]]]]].
  eexists s', _, n'. split; [exact Hstep|]. split; [exact Hn'|]. cbn [o_done o_client o_err o_trials].
  split; [reflexivity|]. split; [reflexivity|]. split; [exact (sg_all_mine _ _ _ _ _ _ _ Es)|]. split.
  - intros ->. split; [exact (sg_count _ _ _ _ _ _ Es)|exact (sg_order _ _ _ _ _ _ Es)].
  - intros t Ht. rewrite Hts. exact (sg_untouched _ _ _ _ _ _ _ t Hnd Es Ht).
Qed.

Theorem suggest_surplus s k n c count sugs smd tmd : suggest_ready s k n c ->
  (length (mine_of c (n_trials n)) + length (pool_of (n_trials n)) < count)%nat ->
  exists s' o n', step s (SuggestTrials k c count, PDeliver sugs smd tmd) = (s', Done (RpOp o)) /\ get_node k (nodes s') = Some n' /\
    (o_err o = false ->
      exists base news rems,
        n_trials n' = (base ++ news) ++ rems /\ map t_id base = map t_id (n_trials n) /\
        o_trials o = (mine_of c (n_trials n) ++ map (activate c) (rev (pool_of (n_trials n)))) ++ news /\
        Forall (fun t => t_state t = REQUESTED /\ t_client t = 0%N) rems /\
        map t_params news ++ rev (map t_params rems) = rev sugs /\
        map t_id (news ++ rems) = ids_from (max_id (n_trials n)) (length sugs)).
Proof.
  intros [Hg [Him [Hdone [Hnum Hnd]]]] Hlt.
  pose proof (suggest_char s k n c count (PDeliver sugs smd tmd) Hg Him Hdone Hnum I) as H.
  destruct (sg_spec (n_trials n) c count (PDeliver sugs smd tmd)) as [[out ts'] err] eqn:Es. cbv zeta in H.
  destruct H as [s' [Hstep [n' [Hn' [_ Hts]]]]].
  eexists s', _, n'. split; [exact Hstep|]. split; [exact Hn'|]. cbn [o_err o_trials]. intros ->. rewrite Hts.
  exact (sg_surplus _ _ _ _ _ _ _ _ Es Hlt).
Qed.

(* on every state reachable from the initial state, the numbering and the uniqueness of trial ids hold by themselves *)
Lemma reachable_wf_t ops : wf (run_all ops init_state) /\ wf_t (run_all ops init_state).
Proof.
  assert (H : forall s, wf s -> wf_t s -> wf (run_all ops s) /\ wf_t (run_all ops s)).
  { induction ops as [|r0 rest IH]; intros s W Wt; [simpl; auto|]. unfold run_all. cbn [fold_left].
    assert (Hs : wf (step_state s r0) /\ wf_t (step_state s r0)).
    { destruct r0 as [rp po]. unfold step_state, step. cbn [fst snd].
      destruct (run (handler rp) s po []) as [[s1 o1] tr1] eqn:Hr. cbn [fst]. eapply run_wf_all; eauto. }
    destruct Hs. apply IH; assumption. }
  apply (H init_state (proj1 wf_init)). intros k n Hn. simpl in Hn. discriminate.
Qed.

Lemma reachable_ready ops k n c : let s := run_all ops init_state in
  get_node k (nodes s) = Some n -> immutable (n_study n) = false ->
  (forall o, In o (filter (fun o => N.eqb (o_client o) c) (n_ops n)) -> o_done o = true) ->
  suggest_ready s k n c.
Proof.
  intros s Hg Him Hdone. split; [exact Hg|]. split; [exact Him|]. split; [exact Hdone|]. split.
  - destruct (reachable_numbered ops) as [N _]. apply (N k n c). apply get_node_In. exact Hg.
  - destruct (reachable_wf_t ops) as [_ Wt]. exact (Wt k n Hg).
Qed.

(* non-vacuity and a worked instance: two workers, a queued trial, an over-delivering algorithm (kernel-evaluated) *)
Example suggest_worked_instance :
  let ops := [(CreateStudy 1 1 false (mkS SS_ACTIVE [(1%N, true)] []), PFail EOther);
              (SuggestTrials (1, 1)%N 1 1, PDeliver [10%N; 11%N; 12%N] [] []);     (* worker 1: 1 handed out, 2 queued *)
              (SuggestTrials (1, 1)%N 2 3, PDeliver [20%N; 21%N] [] [])] in        (* worker 2 asks 3: 2 queued + 1 new, 1 queued *)
  let s := run_all ops init_state in
  match get_node (1, 1)%N (nodes s) with
  | Some n => map (fun t => (t_id t, t_state t, t_client t, t_params t)) (n_trials n)
  | None => []
  end = [(1, ACTIVE, 1, 12); (2, ACTIVE, 2, 10); (3, ACTIVE, 2, 11); (4, ACTIVE, 2, 21); (5, REQUESTED, 0, 20)]%N.
Proof. vm_compute. reflexivity. Qed.
