(* All seventeen RPC handlers as regenerated from vizier_service.py: fourteen statement by statement (HandlerIR), SuggestTrials,
   CheckTrialEarlyStoppingState and ListOptimalTrials block by block (SuggestIR, EarlyStopIR, OptimalIR). *)
From VZ Require Import Base.Prelude Base.XFloat Model.Metadata Model.Service Model.HandlerIR Model.SuggestIR Model.EarlyStopIR Model.OptimalIR.
From VZ Require Import Gen.Handlers Gen.SuggestSrc Gen.EarlyStopSrc Gen.OptimalSrc.
From VZ Require Import Proofs.HandlerIRP Proofs.SuggestIRP Proofs.EarlyStopIRP Proofs.OptimalIRP.
Import ListNotations.

Definition handler_from_source_all (r : rpc) : prog :=
  match r with
  | SuggestTrials k c n => suggest_of src_SuggestTrials k c n
  | CheckEarlyStop rc k id => early_stop_of src_CheckTrialEarlyStoppingState rc k id
  | ListOptimalTrials k => list_optimal_of src_ListOptimalTrials k
  | _ => handler_from_source r
  end.
(* no handler falls back on the hand-written program *)
Definition from_source (r : rpc) : bool :=
  match r with
  | SuggestTrials _ _ _ | CheckEarlyStop _ _ _ | ListOptimalTrials _ => true
  | _ => match src_of_rpc r with Some _ => true | None => false end
  end.
Lemma every_kind_is_from_source : forall r, from_source r = true.
Proof. intros r; destruct r; reflexivity. Qed.

Theorem all_source_handlers_are_the_model : forall r, peq (handler_from_source_all r) (handler r).
Proof.
  intros r. destruct r; try (exact (source_handlers_are_the_model _)); cbn [handler_from_source_all handler].
  - apply src_suggest_is_h_suggest.
  - apply src_early_stop_is_h_check_early_stop.
  - apply src_list_optimal_is_h_list_optimal.
Qed.
Theorem all_source_handlers_run_like_the_model : forall r s o tr, run (handler_from_source_all r) s o tr = run (handler r) s o tr.
Proof. intros. apply peq_run, all_source_handlers_are_the_model. Qed.
Definition step_src_all (s : state) (ro : rpc * pythia_out) : state * outcome :=
  let '(s', o, _) := run (handler_from_source_all (fst ro)) s (snd ro) [] in (s', o).
Theorem all_source_history : forall ops s,
  fold_left (fun s ro => fst (step_src_all s ro)) ops s = run_all ops s.
Proof.
  induction ops as [|ro ops IH]; intros s; [reflexivity|]. cbn [fold_left run_all]. unfold run_all in IH. rewrite IH. f_equal.
  unfold step_src_all, step_state, step. rewrite all_source_handlers_run_like_the_model. reflexivity.
Qed.
Theorem all_source_handlers_equal_the_model : forall r, handler_from_source_all r = handler r.
Proof. intros r. apply peq_eq, all_source_handlers_are_the_model. Qed.
