From VZ Require Import Base.Prelude Base.XFloat Model.Pareto Model.DominanceIR Gen.Dominance.
Import ListNotations.

Lemma svc_entry_is : forall p q, deval svc_entry p q = dominated_by p q.
Proof. reflexivity. Qed.
Lemma nsga_entry_is : forall p q, deval nsga_entry p q = dominated_by p q.
Proof. reflexivity. Qed.
Lemma jax_entry_is : forall (strict : bool) p q, deval (if strict then jax_strict else jax_nonstrict) p q = jax_is_dominated strict p q.
Proof. intros [] p q; reflexivity. Qed.

Theorem src_svc_optimal : forall ys, optimal_of svc_entry ys ys = svc_optimal ys.
Proof. reflexivity. Qed.
Theorem src_nsga_rank : forall ys, rank_of nsga_entry ys = pareto_rank ys.
Proof. reflexivity. Qed.
Theorem src_jax_rank : forall ys, rank_of jax_strict ys = pareto_rank ys.
Proof. reflexivity. Qed.
Theorem src_jax_against : forall (strict : bool) yy baseline,
  optimal_of (if strict then jax_strict else jax_nonstrict) yy baseline = jax_against strict yy baseline.
Proof. intros [] yy baseline; reflexivity. Qed.
