(* Facts about Model/Default.v (suggest_default.py): the default / centre seed lies in the domain. *)
From Coq Require Import Lqa.
From VZ Require Import Model.Default Proofs.SpaceP Proofs.ConvP.

(* a parameter definition as the factory leaves it: ordered bounds, integral INTEGER bounds, non-empty value lists *)
Definition wf_def (p : pcfg) : Prop :=
  wf_pc p /\ (pc_type p = TDiscrete -> pc_nums p <> []) /\ (pc_type p = TCategorical -> pc_cats p <> []).

Lemma zrange_length a b : (a <= b)%Z -> (0 < length (zrange a b))%nat.
Proof. intros H. unfold zrange. rewrite map_length, seq_length. lia. Qed.

Lemma feas_nonempty p : wf_def p -> pc_type p <> TDouble -> (0 < length (feas_values p))%nat.
Proof.
  intros [[Hle Hint] [Hd Hc]] Ht. unfold feas_values. destruct (pc_type p) eqn:Et; [congruence| | |].
  - rewrite map_length. apply zrange_length. destruct (Hint eq_refl) as [H1 H2].
    assert (H : (inject_Z (Qfloor (pc_lo p)) <= inject_Z (Qfloor (pc_hi p)))%Q) by (rewrite <- H1, <- H2; exact Hle).
    rewrite <- Zle_Qle in H. exact H.
  - rewrite map_length. destruct (pc_nums p); [exfalso; apply Hd; auto|simpl; lia].
  - rewrite map_length. destruct (pc_cats p); [exfalso; apply Hc; auto|simpl; lia].
Qed.

(* the formulas read from the source stay inside *)
Lemma default_index_in n : (0 < n)%nat -> (default_index n < n)%nat.
Proof. intros H. unfold default_index. apply Nat.div_lt; lia. Qed.
Lemma double_mid_in lo hi : (lo <= hi)%Q -> (lo <= double_mid lo hi)%Q /\ (double_mid lo hi <= hi)%Q.
Proof.
  intros H. assert (E : (double_mid lo hi == (lo + hi) * (1 # 2))%Q) by (unfold double_mid; field).
  rewrite E. split; lra.
Qed.
Lemma double_single_in lo hi : (lo <= hi)%Q -> (lo <= double_single lo hi)%Q /\ (double_single lo hi <= hi)%Q.
Proof. intros H. unfold double_single. split; lra. Qed.

Lemma default_choice_in_domain p v : wf_def p -> default_choice p None = Some v -> in_domain p v.
Proof.
  intros Hwf H. unfold default_choice in H.
  destruct (existsb (dptype_eqb (dp_of (pc_type p))) indexed_types) eqn:Hi.
  - apply in_feas_in_domain; [apply Hwf|]. eapply nth_error_In; eauto.
  - destruct (pc_type p) eqn:Et; try discriminate. inversion H; subst v; clear H.
    unfold in_domain. rewrite Et. destruct Hwf as [[Hle _] _]. eexists; split; [reflexivity|].
    destruct (num_feasible p) as [[|[|k]]|]; try (apply double_mid_in; exact Hle). apply double_single_in; exact Hle.
Qed.

(* with no declared default the seed exists and lies in the domain, for every well-formed parameter of the four types *)
Lemma default_exists_in_domain p : wf_def p -> exists v, default_checked p None = Ok v /\ in_domain p v.
Proof.
  intros Hwf. unfold default_checked.
  assert (Hc : exists v, default_choice p None = Some v).
  { unfold default_choice. destruct (existsb (dptype_eqb (dp_of (pc_type p))) indexed_types) eqn:Hi.
    - assert (Ht : pc_type p <> TDouble) by (intros E; rewrite E in Hi; cbv in Hi; discriminate).
      pose proof (default_index_in _ (feas_nonempty p Hwf Ht)) as Hlt.
      destruct (nth_error (feas_values p) (default_index (length (feas_values p)))) eqn:En; [eauto|].
      apply nth_error_None in En. lia.
    - destruct (pc_type p) eqn:Et; try (cbv in Hi; discriminate). eauto. }
  destruct Hc as [v Hv]. rewrite Hv. pose proof (default_choice_in_domain p v Hwf Hv) as Hd.
  apply contains_iff in Hd. rewrite Hd. exists v. split; [reflexivity|apply contains_iff; exact Hd].
Qed.

(* a declared default is handed out exactly when it lies in the domain; otherwise the seeding is refused *)
Lemma declared_default p d v : default_checked p (Some d) = Ok v <-> v = d /\ in_domain p d.
Proof.
  unfold default_checked, default_choice. change declared_default_first with true. cbn [negb].
  destruct (pc_contains p d) eqn:Hc; split.
  - intros H. inversion H; subst. split; [reflexivity|apply contains_iff; exact Hc].
  - intros [-> _]. reflexivity.
  - discriminate.
  - intros [_ Hd]. apply contains_iff in Hd. congruence.
Qed.
Lemma default_checked_in_domain p d v : default_checked p d = Ok v -> in_domain p v.
Proof.
  unfold default_checked. destruct (default_choice p d) as [w|]; [|discriminate].
  destruct (pc_contains p w) eqn:Hc; [|discriminate]. intros H; inversion H; subst. apply contains_iff; exact Hc.
Qed.

(* the wrapper: an empty study's answer starts with the default and has `count` entries when the policy delivers what it
   is asked for; a non-empty study's answer is the policy's *)
Lemma seeded_empty {A} (d : A) inner count : (0 < count)%nat -> (forall k, length (inner k) = k) ->
  hd_error (seeded d inner 0 count) = Some d /\ length (seeded d inner 0 count) = count.
Proof.
  intros Hc Hl. unfold seeded. replace (seeds_only_empty_study && Nat.ltb 0 0) with false by reflexivity. split; [reflexivity|].
  destruct (Nat.ltb 1 count) eqn:E; cbn [length].
  - rewrite Hl. unfold rest_count. apply Nat.ltb_lt in E. lia.
  - apply Nat.ltb_ge in E. lia.
Qed.
Lemma seeded_nonempty {A} (d : A) inner m count : (0 < m)%nat -> seeded d inner m count = inner count.
Proof. intros H. unfold seeded. change seeds_only_empty_study with true. apply Nat.ltb_lt in H. rewrite H. reflexivity. Qed.
