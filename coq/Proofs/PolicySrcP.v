From VZ Require Import Base.Prelude Model.TrialCache Model.PolicyIR Gen.PolicySrc.
Import ListNotations.

Theorem src_stateful_policy_is_serve : forall inc lost rq,
  run_policy src_initialise src_stateful_policy inc lost rq
  = (Some (fst (serve (if lost then [] else inc) rq)), snd (serve (if lost then [] else inc) rq)).
Proof.
  intros inc lost rq. unfold run_policy, src_stateful_policy, src_initialise, serve.
  cbn [fold_left pstep_sem decode_error_clears_cache andb p_inc p_completed p_active p_update].
  destruct lost; cbn [andb p_inc]; destruct (newly _ (fst rq) (snd rq)) as [d inc'] eqn:E; cbn; rewrite ?E; reflexivity.
Qed.
Theorem src_fresh_policy_is_serve_fresh : forall inc lost rq,
  fst (run_policy src_initialise src_fresh_policy inc lost rq) = Some (serve_fresh rq).
Proof. reflexivity. Qed.
Theorem src_state_is_dumped_after_the_update : dumps_after_update src_stateful_policy false = true.
Proof. reflexivity. Qed.
