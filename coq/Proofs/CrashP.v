From VZ Require Import Base.Prelude Model.Metadata Model.Service Model.ServiceEq Model.Crash Proofs.ServiceP.

Ltac brk := repeat (svc_step; match goal with
  | |- context [match get_node ?k ?l with _ => _ end] => destruct (get_node k l) eqn:?
  | |- context [match get_trial ?i ?l with _ => _ end] => destruct (get_trial i l) eqn:?
  | |- context [if ?b then _ else _] => destruct b eqn:?
  | |- context [match ?x with _ => _ end] => destruct x eqn:?
  end).

(* every single-resource RPC changes the datastore through at most one primitive, on every state *)
Lemma single_mutation s r po : single_resource r = true ->
  count_mut (snd (run (handler r) s po [])) <= 1.
Proof.
  intros H. destruct r; simpl in H; try discriminate; unfold count_mut;
    unfold handler, h_create_study, h_delete_study, h_set_study_state, h_create_trial, h_add_measurement,
      h_complete_trial, h_stop_trial, h_delete_trial, h_update_metadata, guard_study, with_trial, expect_unit;
    brk; cbn; lia.
Qed.
