From Coq Require Import Sorting.Sorted Sorting.Permutation.
From VZ Require Import Base.Prelude Model.Space.

(* ---- declarative membership of one value in one parameter's domain *)
Definition in_domain (p : pcfg) (v : rv) : Prop :=
  match pc_type p with
  | TDouble => exists q, num_of v = Some (XF q) /\ (pc_lo p <= q)%Q /\ (q <= pc_hi p)%Q
  | TInteger => exists q, num_of v = Some (XF q) /\ (q == inject_Z (Qfloor q))%Q /\ (pc_lo p <= q)%Q /\ (q <= pc_hi p)%Q
  | TDiscrete => exists q q', num_of v = Some (XF q) /\ In q' (pc_nums p) /\ (q == q')%Q
  | TCategorical => exists s, as_str v = Some s /\ In s (pc_cats p)
  end.

Lemma existsb_q x l : existsb (fun q => xq_eqb (XF x) (XF q)) l = true <-> exists q', In q' l /\ (x == q')%Q.
Proof.
  rewrite existsb_exists. split; intros (q & Hin & H); exists q; split; auto; simpl in *; apply Qeq_bool_iff; auto.
Qed.
Lemma existsb_s s l : existsb (str_eqb s) l = true <-> In s l.
Proof.
  rewrite existsb_exists. split.
  - intros (x & Hin & H). apply str_eqb_eq in H. subst. exact Hin.
  - intros H. exists s. split; auto. apply str_eqb_refl.
Qed.

Lemma existsb_inf l x : xq_finite x = false -> existsb (fun q => xq_eqb x (XF q)) l = false.
Proof. intros H. induction l as [|q l IH]; simpl; auto. rewrite IH. destruct x; simpl in *; auto; discriminate. Qed.

Lemma existsb_const_false {A} (l : list A) : existsb (fun _ => false) l = false.
Proof. induction l; simpl; auto. Qed.

Lemma contains_iff p v : pc_contains p v = Accept <-> in_domain p v.
Proof.
  unfold pc_contains, in_domain. destruct (pc_type p).
  - (* double *)
    destruct (num_of v) as [[q| | |]|]; simpl.
    + destruct (Qle_bool (pc_lo p) q) eqn:E1; destruct (Qle_bool q (pc_hi p)) eqn:E2; simpl; split;
        try discriminate; try (intros _; exists q; repeat split; auto; apply Qle_bool_iff; auto);
        intros (q' & [= <-] & H1 & H2); apply Qle_bool_iff in H1, H2; congruence.
    + split; [discriminate|intros (q & [=] & _)].
    + split; [discriminate|intros (q & [=] & _)].
    + split; [discriminate|intros (q & [=] & _)].
    + split; [discriminate|intros (q & [=] & _)].
  - (* integer *)
    destruct (num_of v) as [[q| | |]|]; simpl.
    + destruct (Qeq_bool q (inject_Z (Qfloor q))) eqn:E0; destruct (Qle_bool (pc_lo p) q) eqn:E1;
        destruct (Qle_bool q (pc_hi p)) eqn:E2; simpl; split; try discriminate;
        try (intros _; exists q; repeat split; auto; try (apply Qeq_bool_iff; auto); apply Qle_bool_iff; auto);
        intros (q' & [= <-] & H0 & H1 & H2); apply Qeq_bool_iff in H0; apply Qle_bool_iff in H1, H2; congruence.
    + split; [discriminate|intros (q & [=] & _)].
    + split; [discriminate|intros (q & [=] & _)].
    + split; [discriminate|intros (q & [=] & _)].
    + split; [discriminate|intros (q & [=] & _)].
  - (* discrete *)
    destruct (num_of v) as [[q| | |]|]; simpl.
    + destruct (existsb (fun q0 => Qeq_bool q q0) (pc_nums p)) eqn:E.
      * split; auto. intros _. apply (existsb_q q) in E. destruct E as (q' & Hin & He). exists q, q'. auto.
      * split; [discriminate|]. intros (q1 & q' & [= <-] & Hin & He).
        assert (existsb (fun q0 => Qeq_bool q q0) (pc_nums p) = true); [|congruence]. apply (existsb_q q). eauto.
    + rewrite existsb_const_false. split; [discriminate|intros (q & q' & [=] & _)].
    + rewrite existsb_const_false. split; [discriminate|intros (q & q' & [=] & _)].
    + split; [discriminate|intros (q & q' & [=] & _)].
    + split; [discriminate|intros (q & q' & [=] & _)].
  - (* categorical *)
    destruct (as_str v) as [s|].
    + destruct (existsb (str_eqb s) (pc_cats p)) eqn:E.
      * split; auto. intros _. exists s. split; auto. apply existsb_s. auto.
      * split; [discriminate|]. intros (s' & [= <-] & Hin). apply existsb_s in Hin. congruence.
    + split; [discriminate|intros (s & [=] & _)].
Qed.

(* ---- the whole (flat) space *)
Lemma lookup_param_in n ps v : lookup_param n ps = Some v -> In n (map fst ps).
Proof.
  induction ps as [|[k w] r IH]; simpl; [discriminate|]. destruct (str_eqb_spec k n); [intros _; left; auto|intros H; right; auto].
Qed.
Lemma lookup_param_some n ps : In n (map fst ps) -> exists v, lookup_param n ps = Some v.
Proof.
  induction ps as [|[k w] r IH]; simpl; [intros []|]. destruct (str_eqb_spec k n); [eauto|]. intros [E|H]; [congruence|auto].
Qed.

Definition go_contains (ps : list (str * rv)) :=
  fix go (l : list pcfg) : verdict :=
    match l with
    | [] => Accept
    | p :: r => match lookup_param (pc_name p) ps with
                | None => Refuse
                | Some v => match pc_contains p v with Accept => go r | other => other end
                end
    end.

Lemma go_contains_iff ps space : go_contains ps space = Accept <->
  forall p, In p space -> exists v, lookup_param (pc_name p) ps = Some v /\ in_domain p v.
Proof.
  induction space as [|p r IH]; simpl.
  - split; auto. intros _ p [].
  - destruct (lookup_param (pc_name p) ps) as [v|] eqn:El.
    + destruct (pc_contains p v) eqn:Ec.
      * rewrite IH. split.
        -- intros H q [<-|Hq]; auto. exists v. split; auto. apply contains_iff. auto.
        -- intros H q Hq. apply H. auto.
      * split; [discriminate|]. intros H. destruct (H p (or_introl eq_refl)) as (v' & E & Hd).
        rewrite El in E. injection E as <-. apply contains_iff in Hd. congruence.
    + split; [discriminate|]. intros H. destruct (H p (or_introl eq_refl)) as (v' & E & _). congruence.
Qed.

(* a flat space accepts an assignment exactly when the assignment names exactly the parameters of the space and every
   value lies in its parameter's domain *)
Lemma space_contains_iff space ps : NoDup (map fst ps) -> NoDup (map pc_name space) ->
  (space_contains space ps = Accept <->
   (forall n, In n (map fst ps) <-> In n (map pc_name space)) /\
   (forall p, In p space -> exists v, lookup_param (pc_name p) ps = Some v /\ in_domain p v)).
Proof.
  intros Hps Hsp. unfold space_contains. fold (go_contains ps space).
  destruct (Nat.eqb_spec (length ps) (length space)) as [Hl|Hl]; simpl.
  - rewrite go_contains_iff. split.
    + intros H. split; auto. intros n. split.
      * intros Hin. assert (incl (map fst ps) (map pc_name space)); [|auto].
        apply NoDup_length_incl; auto; [rewrite !map_length; lia|].
        intros x Hx. apply in_map_iff in Hx. destruct Hx as (p & <- & Hp). destruct (H p Hp) as (v & E & _).
        eapply lookup_param_in; eauto.
      * intros Hin. apply in_map_iff in Hin. destruct Hin as (p & <- & Hp). destruct (H p Hp) as (v & E & _).
        eapply lookup_param_in; eauto.
    + intros [_ H]. exact H.
  - split; [discriminate|]. intros [Hk _]. exfalso. apply Hl.
    assert (length (map fst ps) = length (map pc_name space)); [|rewrite !map_length in *; auto].
    apply Nat.le_antisymm; apply NoDup_incl_length; auto; intros x Hx; apply Hk; auto.
Qed.

(* ---- factory: invalid definitions are refused *)
Lemma factory_empty_name b f : exists e, factory [] b f = Err e.
Proof. eexists. reflexivity. Qed.
Lemma factory_both n0 n b v f : exists e, factory (n0 :: n) (Some b) (v :: f) = Err e.
Proof. eexists. reflexivity. Qed.
Lemma factory_duplicates n0 n f : has_dup f = true -> f <> [] -> exists e, factory (n0 :: n) None f = Err e.
Proof. intros H Hne. destruct f; [congruence|]. unfold factory. rewrite H. eexists. reflexivity. Qed.
Lemma factory_mixed_kinds n0 n f : f <> [] -> forallb is_num f = false -> forallb is_str f = false ->
  exists e, factory (n0 :: n) None f = Err e.
Proof. intros Hne H1 H2. destruct f; [congruence|]. unfold factory. rewrite H1, H2. destruct (has_dup _); eexists; reflexivity. Qed.
Lemma factory_nonfinite_feasible n0 n f : f <> [] -> forallb is_num f = true ->
  forallb (fun v => match fin_q v with Some _ => true | None => false end) f = false ->
  exists e, factory (n0 :: n) None f = Err e.
Proof. intros Hne H1 H2. destruct f; [congruence|]. unfold factory. rewrite H1, H2. destruct (has_dup _); eexists; reflexivity. Qed.
Lemma factory_nonfinite_bounds n0 n lo hi : (fin_q lo = None \/ fin_q hi = None) ->
  exists e, factory (n0 :: n) (Some (lo, hi)) [] = Err e.
Proof.
  intros H. unfold factory. destruct ((is_int lo && is_int hi) || (is_float lo && is_float hi)); [|eexists; reflexivity].
  destruct H as [-> | H]; [eexists; reflexivity|]. rewrite H. destruct (fin_q lo); eexists; reflexivity.
Qed.
Lemma factory_reversed_bounds n0 n lo hi l h : fin_q lo = Some l -> fin_q hi = Some h -> (h < l)%Q ->
  exists e, factory (n0 :: n) (Some (lo, hi)) [] = Err e.
Proof.
  intros Hl Hh Hlt. unfold factory. destruct ((is_int lo && is_int hi) || (is_float lo && is_float hi)); [|eexists; reflexivity].
  rewrite Hl, Hh. unfold qleb. destruct (Qle_bool l h) eqn:E; [|eexists; reflexivity].
  apply Qle_bool_iff in E. exfalso. apply (Qlt_not_le _ _ Hlt E).
Qed.
Lemma factory_mixed_bounds n0 n lo hi : (is_int lo && is_int hi) || (is_float lo && is_float hi) = false ->
  exists e, factory (n0 :: n) (Some (lo, hi)) [] = Err e.
Proof. intros H. unfold factory. rewrite H. eexists. reflexivity. Qed.

(* ---- factory: what is accepted is normalised *)
Definition qle_rel (a b : Q) : Prop := (a <= b)%Q.
Lemma qinsert_sorted x l : Sorted qle_rel l -> Sorted qle_rel (qinsert x l).
Proof.
  induction l as [|h t IH]; simpl; intros Hs; [constructor; auto|].
  unfold qleb. destruct (Qle_bool x h) eqn:E.
  - constructor; auto. constructor. apply Qle_bool_iff. auto.
  - inversion Hs as [|? ? Hs' Hhd]; subst. constructor; auto.
    assert (Hhx : (h <= x)%Q).
    { destruct (Qlt_le_dec x h) as [Hlt|Hle]; auto. exfalso. apply Qlt_le_weak in Hlt. apply Qle_bool_iff in Hlt. congruence. }
    destruct t as [|h2 t2]; simpl; [constructor; auto|].
    unfold qleb. destruct (Qle_bool x h2); constructor; auto. inversion Hhd; auto.
Qed.
Lemma qsort_sorted l : Sorted qle_rel (qsort l).
Proof. induction l; simpl; [constructor|apply qinsert_sorted; auto]. Qed.
Lemma qinsert_perm x l : Permutation (x :: l) (qinsert x l).
Proof.
  induction l as [|h t IH]; simpl; auto. destruct (qleb x h); auto.
  eapply perm_trans; [apply perm_swap|]. constructor. auto.
Qed.
Lemma qsort_perm l : Permutation l (qsort l).
Proof. induction l as [|h t IH]; simpl; auto. eapply perm_trans; [|apply qinsert_perm]. constructor. auto. Qed.

Lemma factory_discrete_normalised n f p : factory n None f = Ok p -> forallb is_num f = true -> f <> [] ->
  pc_type p = TDiscrete /\ Sorted qle_rel (pc_nums p) /\
  Permutation (flat_map (fun v => match fin_q v with Some q => [q] | None => [] end) f) (pc_nums p) /\
  has_dup f = false /\ pc_name p = n.
Proof.
  intros H Hn Hne. destruct f as [|v f]; [congruence|]. unfold factory in H. destruct n as [|n0 n]; [discriminate|].
  destruct (has_dup (v :: f)) eqn:Hd; [discriminate|]. rewrite Hn in H.
  destruct (forallb _ (v :: f)); [|discriminate]. injection H as <-. cbn [pc_type pc_nums pc_name].
  repeat split; auto; [apply qsort_sorted|apply qsort_perm].
Qed.

Lemma factory_bounds_normalised n lo hi p : factory n (Some (lo, hi)) [] = Ok p ->
  (pc_lo p <= pc_hi p)%Q /\ fin_q lo = Some (pc_lo p) /\ fin_q hi = Some (pc_hi p) /\
  pc_type p = (if is_int lo then TInteger else TDouble) /\ pc_name p = n.
Proof.
  unfold factory. destruct n as [|n0 n]; [discriminate|].
  destruct ((is_int lo && is_int hi) || (is_float lo && is_float hi)); [|discriminate].
  destruct (fin_q lo) as [l|]; [|discriminate]. destruct (fin_q hi) as [h|]; [|discriminate].
  unfold qleb. destruct (Qle_bool l h) eqn:E; [|discriminate]. intros [= <-]. cbn. apply Qle_bool_iff in E. auto.
Qed.

Lemma space_add_refuses_duplicate space p : In (pc_name p) (map pc_name space) -> exists e, space_add space p = Err e.
Proof.
  intros H. unfold space_add. assert (existsb (fun q => str_eqb (pc_name q) (pc_name p)) space = true) as ->; [|eexists; reflexivity].
  apply existsb_exists. apply in_map_iff in H. destruct H as (q & E & Hq). exists q. split; auto. rewrite E. apply str_eqb_refl.
Qed.
Lemma space_add_keeps_nodup space p sp' : NoDup (map pc_name space) -> space_add space p = Ok sp' -> NoDup (map pc_name sp').
Proof.
  unfold space_add. destruct (existsb _ space) eqn:E; [discriminate|]. intros Hnd [= <-]. rewrite map_app. simpl.
  assert (~ In (pc_name p) (map pc_name space)).
  { intros Hin. apply in_map_iff in Hin. destruct Hin as (q & Eq & Hq).
    assert (existsb (fun q => str_eqb (pc_name q) (pc_name p)) space = true); [|congruence].
    apply existsb_exists. exists q. split; auto. rewrite Eq. apply str_eqb_refl. }
  clear E. induction (map pc_name space) as [|x r IH]; simpl in *; [constructor; auto; constructor|].
  inversion Hnd; subst. constructor.
  - rewrite in_app_iff. simpl. intros [Hi|[E|[]]]; auto.
  - apply IH; auto.
Qed.

(* ---- SequentialParameterBuilder visits exactly the active parameters *)
Section Builder.
  Variable choose : ctree -> N.
  Variable roots : list ctree.

  (* active under the chosen values: a root, or a child listed under the value chosen for its (active) parent *)
  Inductive active : ctree -> Prop :=
  | act_root t : In t roots -> active t
  | act_child t c : active t -> In c (subspace t (choose t)) -> active c.

  Fixpoint children_size (l : list (list N * ctree)) : nat :=
    match l with [] => O | (_, c) :: r => (ct_size c + children_size r)%nat end.
  Lemma ct_size_unfold n ch : ct_size (CNode n ch) = S (children_size ch).
  Proof. reflexivity. Qed.

  Lemma subspace_size t v : (work_size (subspace t v) < ct_size t)%nat.
  Proof.
    destruct t as [n ch]. rewrite ct_size_unfold. unfold subspace. cbn [ct_children].
    assert ((work_size (map snd (filter (fun vc => existsb (N.eqb v) (fst vc)) ch)) <= children_size ch)%nat); [|lia].
    induction ch as [|[vals c] r IH]; simpl; auto. destruct (existsb (N.eqb v) vals); simpl; lia.
  Qed.
  Lemma work_size_app a b : work_size (a ++ b) = (work_size a + work_size b)%nat.
  Proof. induction a; simpl; auto. rewrite IHa. lia. Qed.

  Lemma build_complete bfs : forall fuel work, (work_size work <= fuel)%nat ->
    (forall t, In t work -> In t (build fuel bfs choose work)) /\
    (forall t c, In t (build fuel bfs choose work) -> In c (subspace t (choose t)) -> In c (build fuel bfs choose work)).
  Proof.
    induction fuel as [|fuel IH]; intros work Hsz.
    - destruct work as [|[n ch] r]; [split; [intros ? []|intros ? ? []]|]. cbn [work_size fold_right] in Hsz. rewrite ct_size_unfold in Hsz. lia.
    - destruct work as [|t rest]; [split; [intros ? []|intros ? ? []]|].
      cbn [build]. set (next := if bfs then rest ++ subspace t (choose t) else subspace t (choose t) ++ rest).
      assert (Hn : (work_size next <= fuel)%nat).
      { pose proof (subspace_size t (choose t)). simpl in Hsz. subst next. destruct bfs; rewrite work_size_app; lia. }
      destruct (IH next Hn) as [I1 I2]. split.
      + intros x [<-|Hx]; [left; auto|]. right. apply I1. subst next. destruct bfs; apply in_or_app; auto.
      + intros x c [<-|Hx] Hc.
        * right. apply I1. subst next. destruct bfs; apply in_or_app; auto.
        * right. eapply I2; eauto.
  Qed.

  Lemma build_sound bfs : forall fuel work, (forall t, In t work -> active t) ->
    forall t, In t (build fuel bfs choose work) -> active t.
  Proof.
    induction fuel as [|fuel IH]; intros work Hw t Hin; [destruct Hin|].
    destruct work as [|x rest]; [destruct Hin|]. cbn [build] in Hin. destruct Hin as [<-|Hin]; [apply Hw; left; auto|].
    eapply IH; [|exact Hin]. intros y Hy.
    assert (Hy' : In y rest \/ In y (subspace x (choose x))) by (destruct bfs; apply in_app_or in Hy; tauto).
    destruct Hy' as [Hy'|Hy']; [apply Hw; right; exact Hy'|].
    eapply act_child; [apply Hw; left; reflexivity|exact Hy'].
  Qed.

  (* both traversal orders visit exactly the active parameters *)
  Lemma builder_visits_active bfs fuel : (work_size roots <= fuel)%nat ->
    forall t, In t (build fuel bfs choose roots) <-> active t.
  Proof.
    intros Hf t. split.
    - apply build_sound. intros x Hx. apply act_root. exact Hx.
    - destruct (build_complete bfs fuel roots Hf) as [I1 I2]. induction 1 as [x Hx|x c Hx IHx Hc]; [apply I1; auto|eapply I2; eauto].
  Qed.

  (* the validating builder: it answers exactly when every visited parameter was given a value of its domain, and then
     it visited what `build` visits and recorded the chosen values *)
  Lemma build_v_ok bfs : forall fuel work l, build_v fuel bfs choose work = Ok l ->
    map fst l = build fuel bfs choose work /\ Forall (fun tv => snd tv = choose (fst tv) /\ snd tv <> 0%N) l.
  Proof.
    induction fuel as [|fuel IH]; intros work l H; [cbn in H; inversion H; subst; split; [reflexivity|constructor]|].
    destruct work as [|t rest]; [cbn in H; inversion H; subst; split; [reflexivity|constructor]|].
    cbn [build_v] in H. destruct (N.eqb (choose t) 0) eqn:Hz; [discriminate|].
    destruct (build_v fuel bfs choose _) as [l'|e] eqn:Hr; [|discriminate]. inversion H; subst l; clear H.
    destruct (IH _ _ Hr) as [I1 I2]. split.
    - cbn [map fst build]. f_equal. exact I1.
    - constructor; [cbn; split; [reflexivity|apply N.eqb_neq; exact Hz]|exact I2].
  Qed.
  Lemma build_v_refuses bfs : forall fuel work t, In t (build fuel bfs choose work) -> choose t = 0%N ->
    exists e, build_v fuel bfs choose work = Err e.
  Proof.
    induction fuel as [|fuel IH]; intros work t Hin Hz; [destruct Hin|].
    destruct work as [|x rest]; [destruct Hin|]. cbn [build] in Hin. cbn [build_v].
    destruct (N.eqb (choose x) 0) eqn:Hx; [eexists; reflexivity|].
    destruct Hin as [<-|Hin]; [rewrite Hz in Hx; discriminate|].
    destruct (IH _ _ Hin Hz) as [e He]. rewrite He. eexists; reflexivity.
  Qed.
  Lemma build_v_accepts bfs : forall fuel work, (forall t, In t (build fuel bfs choose work) -> choose t <> 0%N) ->
    exists l, build_v fuel bfs choose work = Ok l.
  Proof.
    induction fuel as [|fuel IH]; intros work H; [eexists; reflexivity|].
    destruct work as [|x rest]; [eexists; reflexivity|]. cbn [build] in H. cbn [build_v].
    destruct (N.eqb (choose x) 0) eqn:Hx; [apply N.eqb_eq in Hx; exfalso; apply (H x); [left; reflexivity|exact Hx]|].
    destruct (IH _ (fun t Ht => H t (or_intror Ht))) as [l Hl]. rewrite Hl. eexists; reflexivity.
  Qed.
  (* a value outside the domain of ANY active parameter is refused; otherwise the builder answers with exactly the
     active parameters and the values chosen for them *)
  Lemma builder_validates bfs fuel : (work_size roots <= fuel)%nat ->
    ((exists t, active t /\ choose t = 0%N) -> exists e, build_v fuel bfs choose roots = Err e) /\
    (forall l, build_v fuel bfs choose roots = Ok l ->
       (forall t, In t (map fst l) <-> active t) /\ Forall (fun tv => snd tv = choose (fst tv) /\ snd tv <> 0%N) l) /\
    ((forall t, active t -> choose t <> 0%N) -> exists l, build_v fuel bfs choose roots = Ok l).
  Proof.
    intros Hf. split; [|split].
    - intros [t [Ha Hz]]. eapply build_v_refuses; [apply builder_visits_active; eauto|exact Hz].
    - intros l Hl. destruct (build_v_ok _ _ _ _ Hl) as [I1 I2]. split; [|exact I2].
      intros t. rewrite I1. apply builder_visits_active. exact Hf.
    - intros H. apply build_v_accepts. intros t Ht. apply H. eapply builder_visits_active; eauto.
  Qed.
End Builder.
